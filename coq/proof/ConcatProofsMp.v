(** C15, part 3 - the multiprotocol NLRI list decoders (model/YPrefix6.v, YVpn.v): concatenation
    law under the exact structural guard, and the witnesses where the faithful model violates it. *)
From YV Require Import lib.Base gen.Consts model.YMp model.YPrefix6 model.YLabel model.YVpn.
From YV Require Import proof.MpBytesLemmas.
From Coq Require Import ZArith Lia ZifyBool ZifyNat ZifyN.
Ltac Zify.zify_post_hook ::= Z.to_euclidean_division_equations.

Definition app_mp {A} (r1 r2 : res (list A)) : res (list A) :=
  bind r1 (fun l1 => bind r2 (fun l2 => Ok (l1 ++ l2))).

(** decode every element of a list of elements with [dec1]; the first failure wins *)
Fixpoint decs {A} (dec1 : bytes -> res A) (es : list bytes) : res (list A) :=
  match es with
  | [] => Ok []
  | e :: r => bind (dec1 e) (fun x => bind (decs dec1 r) (fun xs => Ok (x :: xs)))
  end.

(** ------------------------------------------------------------------------------------ *)
(** * IPv6 unicast *)
(** length octet (ANY value) followed by exactly ceil(l/8) octets *)
Definition elem6 (e : bytes) : Prop := exists l xs, e = l :: xs /\ length xs = N.to_nat (ceil8 l).
Definition dec6 (e : bytes) : res (addr * N) :=
  match e with
  | [] => Exc
  | l :: xs => bind (addr_of_bytes (xs ++ repeat 0 (N.to_nat ((128 - l) / 8)))) (fun a => Ok (a, l))
  end.

Lemma parse6_S f d :
  parse6 (S f) d =
  match d with
  | [] => Ok []
  | l :: _ =>
      if bytes_eqb d [0; 0] then Ok []
      else
        let k := N.to_nat (ceil8 l) in
        let pb := slice 1 (1 + k) d ++ repeat 0 (N.to_nat ((128 - l) / 8)) in
        bind (addr_of_bytes pb) (fun a =>
        bind (parse6 f (drop (1 + k) d)) (fun r => Ok ((a, l) :: r)))
  end.
Proof. reflexivity. Qed.

Lemma parse6_fuel : forall f d, (length d < f)%nat -> parse6 f d = parse6 (S (length d)) d.
Proof.
  induction f as [f IH] using lt_wf_ind. intros d Hl.
  destruct f as [|f]; [lia|]. rewrite !parse6_S. destruct d as [|l d]; [reflexivity|].
  destruct (bytes_eqb (l :: d) [0; 0]); [reflexivity|]. cbv zeta.
  destruct (addr_of_bytes _); try reflexivity. cbn [bind].
  assert (Hr : (length (drop (1 + N.to_nat (ceil8 l)) (l :: d)) <= length d)%nat).
  { unfold drop. rewrite skipn_length. cbn [length]. lia. }
  cbn [length] in Hl.
  rewrite (IH f) by lia. rewrite (IH (length (l :: d))) by (cbn [length]; lia). reflexivity.
Qed.

Lemma parse6_elem f e t : elem6 e -> bytes_eqb (e ++ t) [0; 0] = false ->
  parse6 (S f) (e ++ t) = bind (dec6 e) (fun x => bind (parse6 f t) (fun r => Ok (x :: r))).
Proof.
  intros (l & xs & -> & Hx) Hne. rewrite parse6_S. cbn [app] in *. rewrite Hne. cbv zeta.
  set (k := N.to_nat (ceil8 l)) in *.
  assert (Hs : slice 1 (1 + k) (l :: xs ++ t) = xs).
  { unfold slice. cbn [skipn]. replace (1 + k - 1)%nat with k by lia. apply firstn_app_len; assumption. }
  assert (Hd : drop (1 + k) (l :: xs ++ t) = t).
  { unfold drop. cbn [skipn Nat.add]. apply skipn_app_len; assumption. }
  rewrite Hs, Hd. cbn [dec6]. destruct (addr_of_bytes _); reflexivity.
Qed.

(** the special case never fires at an element boundary inside [es] when [t] follows *)
Fixpoint safe6 (es : list bytes) (t : bytes) : Prop :=
  match es with
  | [] => True
  | e :: r => concat (e :: r) ++ t <> [0; 0] /\ safe6 r t
  end.

Lemma bytes_eqb_false a b : a <> b -> bytes_eqb a b = false.
Proof. intros H. destruct (bytes_eqb a b) eqn:E; [|reflexivity]. apply bytes_eqb_eq in E. congruence. Qed.

Lemma elem6_nonempty e : elem6 e -> (1 <= length e)%nat.
Proof. intros (l & xs & -> & _). cbn. lia. Qed.

Lemma parse6_elems : forall es t, Forall elem6 es -> safe6 es t ->
  parse6_all (concat es ++ t) =
  bind (decs dec6 es) (fun xs => bind (parse6_all t) (fun r => Ok (xs ++ r))).
Proof.
  induction es as [|e es IH]; intros t Hes Hs.
  - cbn [concat app decs bind]. destruct (parse6_all t); reflexivity.
  - inversion Hes as [|? ? He Hes']; subst. destruct Hs as [Hne Hs].
    cbn [concat] in *. rewrite <- app_assoc in *. unfold parse6_all at 1.
    rewrite parse6_elem by (auto; apply bytes_eqb_false; exact Hne).
    cbn [decs]. destruct (dec6 e) as [x| |]; cbn [bind]; try reflexivity.
    pose proof (elem6_nonempty e He).
    rewrite parse6_fuel by (rewrite (app_length e); lia).
    change (parse6 (S (length (concat es ++ t))) (concat es ++ t)) with (parse6_all (concat es ++ t)).
    rewrite IH by assumption.
    destruct (decs dec6 es) as [xs| |]; cbn [bind]; try reflexivity.
    destruct (parse6_all t); reflexivity.
Qed.

Theorem prefix6_concat es b : Forall elem6 es -> safe6 es b -> safe6 es [] ->
  parse6_all (concat es ++ b) = app_mp (parse6_all (concat es)) (parse6_all b).
Proof.
  intros He Hb H0.
  rewrite (parse6_elems es b He Hb).
  pose proof (parse6_elems es [] He H0) as E. rewrite app_nil_r in E. rewrite E.
  unfold app_mp. change (parse6_all []) with (Ok (@nil (addr * N))).
  destruct (decs dec6 es) as [xs| |]; cbn [bind]; try reflexivity.
  rewrite app_nil_r. cbn [bind]. reflexivity.
Qed.

(** the two input classes outside the guard, both violate the law *)
Lemma prefix6_refuted_split_double_default :
  exists a b, Forall elem6 [a] /\ Forall elem6 [b] /\
    parse6_all (a ++ b) <> app_mp (parse6_all a) (parse6_all b).
Proof.
  exists [0], [0]. repeat split.
  - constructor; [exists 0, []; split; reflexivity | constructor].
  - constructor; [exists 0, []; split; reflexivity | constructor].
  - vm_compute. discriminate.
Qed.

Lemma prefix6_refuted_double_default_then_more :
  exists es b, Forall elem6 es /\ Forall elem6 [b] /\
    parse6_all (concat es ++ b) <> app_mp (parse6_all (concat es)) (parse6_all b).
Proof.
  exists [[0]; [0]], [8; 32]. repeat split.
  - repeat constructor; exists 0, []; split; reflexivity.
  - constructor; [exists 8, [32]; split; reflexivity | constructor].
  - vm_compute. discriminate.
Qed.

(** ------------------------------------------------------------------------------------ *)
(** * VPNv4 / VPNv6 (label stack parsed inside the route: fix f65d182) *)
(** bit-length octet of at least 88 (3 label octets + 8 RD octets) followed by exactly ceil(l/8) octets *)
Definition elem_vpn (e : bytes) : Prop :=
  exists l xs, e = l :: xs /\ 88 <= l /\ length xs = N.to_nat (ceil8 l).

Lemma parse_vpn_S v6 withdraw f d :
  parse_vpn v6 withdraw (S f) d =
  match d with
  | [] => Ok []
  | bitlen :: _ =>
      let bl := N.to_nat (ceil8 bitlen) in
      let labels := if withdraw then [WITHDRAW_LABEL] else parse_labels (slice 1 (bl + 1) d) in
      bind (parse_rd (slice 4 12 d)) (fun r =>
      let p := slice 12 (bl + 1) d in
      bind (if v6 then of_int (unbe (pad_to 16 p))
            else if Nat.ltb 4 (length p) then Exc else Ok (V4 (unbe (pad_to 4 p)))) (fun a =>
      let pl := if bitlen <? 88 then 1000 + (88 - bitlen) else bitlen - 88 in
      bind (parse_vpn v6 withdraw f (drop (bl + 1) d)) (fun t =>
      Ok ((labels, r, a, pl) :: t))))
  end.
Proof. reflexivity. Qed.

Lemma parse_vpn_fuel v6 w : forall f d, (length d < f)%nat -> parse_vpn v6 w f d = parse_vpn v6 w (S (length d)) d.
Proof.
  induction f as [f IH] using lt_wf_ind. intros d Hl.
  destruct f as [|f]; [lia|]. rewrite !parse_vpn_S. destruct d as [|l d]; [reflexivity|]. cbv zeta.
  destruct (parse_rd _); try reflexivity. cbn [bind].
  match goal with |- bind ?x _ = bind ?x _ => destruct x; try reflexivity end. cbn [bind].
  assert (Hr : (length (drop (N.to_nat (ceil8 l) + 1) (l :: d)) <= length d)%nat).
  { unfold drop. rewrite skipn_length. cbn [length]. lia. }
  cbn [length] in Hl.
  rewrite (IH f) by lia. rewrite (IH (length (l :: d))) by (cbn [length]; lia). reflexivity.
Qed.

Lemma slice_app_in (e t : bytes) i j : (j <= length e)%nat -> slice i j (e ++ t) = slice i j e.
Proof.
  intros H. unfold slice. destruct (Nat.le_gt_cases i (length e)) as [Hi|Hi].
  - rewrite skipn_app. replace (i - length e)%nat with 0%nat by lia. cbn [skipn].
    rewrite firstn_app. rewrite skipn_length.
    replace (j - i - (length e - i))%nat with 0%nat by lia. cbn [firstn]. apply app_nil_r.
  - replace (j - i)%nat with 0%nat by lia. reflexivity.
Qed.

(** one iteration on a whole element followed by anything = the same iteration on the element alone *)
Lemma parse_vpn_elem v6 w f e t : elem_vpn e ->
  parse_vpn v6 w (S f) (e ++ t) =
  bind (parse_vpn v6 w 2 e) (fun x => bind (parse_vpn v6 w f t) (fun r => Ok (x ++ r))).
Proof.
  intros (l & xs & -> & Hl & Hx). rewrite (parse_vpn_S v6 w f), (parse_vpn_S v6 w 1). cbn [app]. cbv zeta.
  set (bl := N.to_nat (ceil8 l)) in *.
  assert (H11 : (11 <= bl)%nat) by (unfold bl, ceil8; destruct (l mod 8 =? 0); lia).
  assert (Hlen : length (l :: xs) = (bl + 1)%nat) by (cbn [length]; lia).
  change (l :: xs ++ t) with ((l :: xs) ++ t).
  rewrite !slice_app_in by (rewrite Hlen; lia).
  assert (Hd : drop (bl + 1) ((l :: xs) ++ t) = t).
  { unfold drop. rewrite <- Hlen. apply skipn_app_len. reflexivity. }
  assert (Hd0 : drop (bl + 1) (l :: xs) = []).
  { unfold drop. rewrite <- Hlen. apply skipn_all. }
  rewrite Hd, Hd0. change (parse_vpn v6 w 1 []) with (Ok (@nil proute)).
  destruct (parse_rd _); try reflexivity. cbn [bind].
  match goal with |- bind ?x _ = bind (bind ?x _) _ => destruct x; reflexivity end.
Qed.

Theorem vpn_concat v6 w es b : Forall elem_vpn es ->
  parse_vpn_all v6 w (concat es ++ b) = app_mp (parse_vpn_all v6 w (concat es)) (parse_vpn_all v6 w b).
Proof.
  induction 1 as [|e es He Hes IH].
  - cbn [concat app]. unfold app_mp. change (parse_vpn_all v6 w []) with (Ok (@nil proute)). cbn [bind].
    destruct (parse_vpn_all v6 w b); reflexivity.
  - cbn [concat]. rewrite <- app_assoc. unfold parse_vpn_all at 1 2.
    assert (Hne : (1 <= length e)%nat) by (destruct He as (l & xs & -> & _); cbn; lia).
    rewrite !parse_vpn_elem by assumption.
    rewrite (parse_vpn_fuel v6 w (length (e ++ concat es ++ b))) by (rewrite (app_length e); lia).
    rewrite (parse_vpn_fuel v6 w (length (e ++ concat es))) by (rewrite (app_length e); lia).
    change (parse_vpn v6 w (S (length (concat es ++ b))) (concat es ++ b)) with (parse_vpn_all v6 w (concat es ++ b)).
    change (parse_vpn v6 w (S (length (concat es))) (concat es)) with (parse_vpn_all v6 w (concat es)).
    rewrite IH. unfold app_mp.
    destruct (parse_vpn v6 w 2 e) as [x| |]; cbn [bind]; try reflexivity.
    destruct (parse_vpn_all v6 w (concat es)) as [r1| |]; cbn [bind]; try reflexivity.
    destruct (parse_vpn_all v6 w b) as [r2| |]; cbn [bind]; try reflexivity.
    rewrite app_assoc. reflexivity.
Qed.

(** an NLRI shorter than label + RD (bit length below 88: not a well-formed VPN route) takes its
    route distinguisher from the octets of the NEXT route *)
Lemma vpn_short_route_reads_next :
  exists a b, parse_vpn_all false true (a ++ b) <> app_mp (parse_vpn_all false true a) (parse_vpn_all false true b).
Proof.
  exists [24; 128; 0; 0], [88; 128; 0; 0; 0; 0; 0; 100; 0; 0; 0; 1].
  vm_compute. discriminate.
Qed.

(** ------------------------------------------------------------------------------------ *)
(** * IPv4 flow-specification rule list (the NLRI loop of MpReachNLRI / MpUnReachNLRI) *)
From YV Require Import model.YFlow4.

(** a whole rule of 240 octets (80 components `03 81 06`) in the two-octet length form f0 f0, then a
    second whole rule `03 03 81 11`: the first length is used unmasked (0xf0f0), the second rule is
    decoded as components of the first (and here makes it fail) *)
Definition w_fs_rule240 : bytes := [240; 240] ++ concat (repeat [3; 129; 6] 80).
Definition w_fs_rule2 : bytes := [3; 3; 129; 17].
Lemma flowspec_rules_refuted :
  fs_parse_all w_fs_rule240 = Ok [[(3, COps [(0, 1, 6)])]] /\
  fs_parse_all w_fs_rule2 = Ok [[(3, COps [(0, 1, 17)])]] /\
  fs_parse_all (w_fs_rule240 ++ w_fs_rule2) <> app_mp (fs_parse_all w_fs_rule240) (fs_parse_all w_fs_rule2).
Proof. repeat split; vm_compute; try reflexivity. discriminate. Qed.
