(** C07, IPv4 flowspec: the rule length prefix (RFC 8955 4.1).  For EVERY body of 1..4095 octets
    the prefix construct_nlri writes ([fs_frame]) is read back by the MP_REACH / MP_UNREACH loop
    ([fs_unframe]) as exactly that body: below 240 octets in any position, from 240 octets when
    the rule is the last one of the attribute (the reader does not mask 0xf000: known finding
    C07-flowspec-nlri-240-octets-or-longer, [fs_frame_long_not_last_refuted]). *)
From YV Require Import lib.Base gen.Consts model.YMp model.YFlow4 proof.MpBytesLemmas.
From Coq Require Import ZArith ZifyBool ZifyNat ZifyN.
Ltac Zify.zify_post_hook ::= Z.to_euclidean_division_equations.

(** nibble arithmetic (kept away from lia's division encoding: three nested divisions are slow) *)
Lemma hi_nibble n : 240 <= n <= 4095 -> ((61440 + n) / 256) mod 256 / 16 = 15.
Proof.
  intros H. change 61440 with (240 * 256). rewrite N.div_add_l by discriminate.
  assert (K : n / 256 < 16) by (apply N.div_lt_upper_bound; [discriminate | lia]).
  set (k := n / 256) in *. clearbody k.
  rewrite N.mod_small by lia.
  assert (E : 240 + k = 15 * 16 + k) by lia. rewrite E.
  rewrite N.div_add_l by discriminate. rewrite N.div_small by exact K. reflexivity.
Qed.

Lemma be2_cons x : be 2 x = [(x / 256) mod 256; (x / 1) mod 256].
Proof. reflexivity. Qed.

Lemma lo_nibble n : n < 240 -> n / 16 <> 15.
Proof. intros H C. assert (n / 16 < 15) by (apply N.div_lt_upper_bound; [discriminate | lia]). lia. Qed.

(** which form is written *)
Lemma fs_frame_short b : 1 <= len b < fs_len_threshold -> fs_frame b = Ok (len b :: b).
Proof.
  intros H. unfold fs_frame. destruct (fs_len_threshold <=? len b) eqn:E; [apply N.leb_le in E; lia|].
  destruct b; [cbn in H; lia | reflexivity].
Qed.

Lemma fs_frame_long b : fs_len_threshold <= len b <= fs_len_max ->
  fs_frame b = Ok (be 2 (61440 + len b) ++ b).
Proof.
  intros H. unfold fs_frame. destruct (fs_len_threshold <=? len b) eqn:E; [|apply N.leb_gt in E; lia].
  destruct (fs_len_max <? len b) eqn:E2; [apply N.ltb_lt in E2; lia | reflexivity].
Qed.

Lemma fs_frame_rejects b : len b = 0 \/ fs_len_max < len b -> fs_frame b = Exc.
Proof.
  intros [H | H]; unfold fs_frame.
  - destruct b; [|cbn in H; lia]. reflexivity.
  - assert (T : fs_len_threshold <= len b) by (unfold fs_len_threshold, fs_len_max in *; lia).
    apply N.leb_le in T. rewrite T. apply N.ltb_lt in H. rewrite H. reflexivity.
Qed.

(** the one-octet form is read back in any position *)
Lemma fs_unframe_short b rest : 1 <= len b < fs_len_threshold ->
  fs_unframe ((len b :: b) ++ rest) = (b, rest).
Proof.
  unfold fs_len_threshold. intros H. cbn [app fs_unframe].
  assert (E : (len b / 16 =? 15) = false) by (apply N.eqb_neq, lo_nibble; lia).
  rewrite E. cbn [andb].
  assert (Hn : N.to_nat (len b) = length b) by (unfold len; apply Nat2N.id). rewrite !Hn.
  unfold slice, drop. replace (length b + 1 - 1)%nat with (length b) by lia.
  replace (length b + 1)%nat with (S (length b)) by lia. cbn [skipn].
  rewrite firstn_app_len, skipn_app_len by reflexivity. reflexivity.
Qed.

(** the two-octet form is read back when nothing follows the rule *)
Lemma fs_unframe_long_last b : fs_len_threshold <= len b <= fs_len_max ->
  fs_unframe (be 2 (61440 + len b) ++ b) = (b, []).
Proof.
  unfold fs_len_threshold, fs_len_max. intros H.
  set (x := 61440 + len b).
  assert (Hx : x < 256 ^ N.of_nat 2) by (change (256 ^ N.of_nat 2) with 65536; subst x; lia).
  assert (Hl : (2 < length (be 2 x ++ b))%nat) by (rewrite app_length, length_be; unfold len in H; lia).
  assert (Ht : take 2 (be 2 x ++ b) = be 2 x) by (unfold take; apply firstn_app_len, length_be).
  unfold fs_unframe.
  destruct (be 2 x ++ b) as [|l0 r] eqn:Ed; [cbn in Hl; lia|].
  assert (E0 : l0 = (x / 256) mod 256).
  { pose proof (f_equal (hd 0) Ed) as E0. rewrite be2_cons in E0. cbn [app hd] in E0. symmetry. exact E0. }
  assert (E : (l0 / 16 =? 15) = true) by (apply N.eqb_eq; subst l0 x; apply hi_nibble; exact H).
  rewrite E. apply Nat.ltb_lt in Hl. rewrite Hl. cbn [andb]. rewrite Ht, unbe_be by exact Hx.
  rewrite <- Ed. unfold slice, drop.
  replace (N.to_nat x + 2 - 2)%nat with (N.to_nat x) by lia.
  rewrite skipn_app_len by apply length_be.
  clear E0 E Ht Hx Ed Hl.   (* keep the division facts away from lia *)
  f_equal.
  - apply firstn_all2. unfold len in *. subst x. lia.
  - apply skipn_all2. rewrite app_length, length_be. unfold len in *. subst x. lia.
Qed.

(** EVERY body length 1..4095: the encoder succeeds, the decoder reads back exactly the body
    (as the last rule); below the threshold also in front of any following octets *)
Theorem fs_frame_roundtrip b : 1 <= len b <= 4095 ->
  exists w, fs_frame b = Ok w /\
            length w = (length b + (if (len b <? 240)%N then 1 else 2))%nat /\
            fs_unframe w = (b, []) /\
            (len b < 240 -> forall rest, fs_unframe (w ++ rest) = (b, rest)).
Proof.
  intros H. destruct (len b <? 240) eqn:E.
  - apply N.ltb_lt in E. exists (len b :: b).
    assert (S : 1 <= len b < fs_len_threshold) by (unfold fs_len_threshold; lia).
    split; [apply fs_frame_short; exact S|]. split; [cbn [length]; lia|]. split.
    + rewrite <- (app_nil_r (len b :: b)). apply fs_unframe_short; exact S.
    + intros _ rest. apply fs_unframe_short; exact S.
  - apply N.ltb_ge in E. exists (be 2 (61440 + len b) ++ b).
    assert (L : fs_len_threshold <= len b <= fs_len_max) by (unfold fs_len_threshold, fs_len_max; lia).
    split; [apply fs_frame_long; exact L|]. split; [rewrite app_length, length_be; lia|]. split.
    + apply fs_unframe_long_last; exact L.
    + intros C. exfalso. lia.
Qed.

(** the two forms never collide: a one-octet length never has the high nibble 0xf, a two-octet
    length always has it (so the reader's test decides the form the writer chose) *)
Lemma fs_frame_first_octet b w : 1 <= len b <= 4095 -> fs_frame b = Ok w ->
  exists l0 r, w = l0 :: r /\ ((l0 / 16 =? 15) = negb (len b <? 240)).
Proof.
  intros H Hw. destruct (len b <? 240) eqn:E.
  - apply N.ltb_lt in E. rewrite fs_frame_short in Hw by (unfold fs_len_threshold; lia).
    inversion Hw. exists (len b), b. split; [reflexivity|]. apply N.eqb_neq, lo_nibble. exact E.
  - apply N.ltb_ge in E. rewrite fs_frame_long in Hw by (unfold fs_len_threshold, fs_len_max; lia).
    assert (Hw' : be 2 (61440 + len b) ++ b = w) by congruence. clear Hw. rename Hw' into Hw.
    rewrite be2_cons in Hw. cbn [app] in Hw.
    exists ((61440 + len b) / 256 mod 256), (((61440 + len b) / 1) mod 256 :: b).
    split; [symmetry; exact Hw|]. apply N.eqb_eq, hi_nibble. split; assumption || apply H.
Qed.

(** defect (known finding): a rule of 240 octets or more that is NOT the last one swallows the
    rules after it, because 0xf000 | length is used as the length *)
Definition w_body240 : bytes := concat (repeat [3; 129; 6] 80).
Lemma fs_frame_long_not_last_refuted :
  len w_body240 = 240 /\
  exists w, fs_frame w_body240 = Ok w /\
            fs_unframe (w ++ [3; 3; 129; 17]) = (w_body240 ++ [3; 3; 129; 17], []).
Proof. split; [reflexivity|]. eexists. split; vm_compute; reflexivity. Qed.

(** out of range: nothing is written for an empty body or one above 4095 octets *)
Lemma fs_frame_out_of_range b : len b = 0 \/ 4095 < len b -> fs_frame b = Exc.
Proof. exact (fs_frame_rejects b). Qed.

(** whatever [fs_frame] accepts is in range *)
Lemma fs_frame_ok_range b w : fs_frame b = Ok w -> 1 <= len b <= 4095.
Proof.
  intros Hw. destruct (N.eq_dec (len b) 0) as [Z | Z].
  - rewrite fs_frame_rejects in Hw by (left; exact Z). discriminate.
  - destruct (N.ltb_spec 4095 (len b)) as [G | G].
    + rewrite fs_frame_rejects in Hw by (right; exact G). discriminate.
    + lia.
Qed.

(** every rule construct_nlri emits is its component octets behind a length prefix that the
    NLRI loop reads back as exactly those octets (rule in last position; below 240 octets anywhere) *)
Lemma fs_construct_nlri_framed f w : fs_construct_nlri f = Ok w ->
  exists body, 1 <= len body <= 4095 /\ fs_frame body = Ok w /\ fs_unframe w = (body, []) /\
               (len body < 240 -> forall rest, fs_unframe (w ++ rest) = (body, rest)).
Proof.
  unfold fs_construct_nlri. intros Hw.
  destruct (fs_opt_prefix c_BGPNLRI_FSPEC_DST_PFIX (f_dst f)) as [b1| |]; cbn [bind] in Hw; try discriminate.
  destruct (fs_opt_prefix c_BGPNLRI_FSPEC_SRC_PFIX (f_src f)) as [b2| |]; cbn [bind] in Hw; try discriminate.
  destruct (fs_construct_comps fs_op_types (f_ops f)) as [b3| |]; cbn [bind] in Hw; try discriminate.
  exists (b1 ++ b2 ++ b3). pose proof (fs_frame_ok_range _ _ Hw) as R.
  destruct (fs_frame_roundtrip _ R) as (w' & Hw' & _ & U1 & U2).
  assert (w' = w) by congruence. subst w'. repeat split; try assumption; apply R.
Qed.
