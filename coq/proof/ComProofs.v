(** Proofs for property C17: text rendered by the community decoders is accepted back by the REST
    views' translation and re-encodes to the RFC octets. *)
From Coq Require Import String ZArith Lia ZifyBool ZifyNat ZifyN.
From YV Require Import lib.Base lib.Dec gen.Consts spec.RefCom
  model.YExtCom model.YRestEc model.YCommunity model.YLargeCom.
Open Scope N_scope.

Ltac Zify.zify_post_hook ::= Z.to_euclidean_division_equations.

(** * generic facts *)
Lemma notin_closed c s : mem c s = false -> ~ In c s.
Proof. apply mem_false. Qed.

Lemma take_be_app k n r : take k (be k n ++ r) = be k n.
Proof.
  unfold take. rewrite firstn_app, length_be, Nat.sub_diag. cbn [firstn].
  rewrite app_nil_r. rewrite <- (length_be k n) at 1. apply firstn_all.
Qed.
Lemma drop_be_app k n r : drop k (be k n ++ r) = r.
Proof.
  unfold drop. rewrite skipn_app, length_be, Nat.sub_diag. cbn [skipn].
  rewrite <- (length_be k n) at 1. rewrite skipn_all. reflexivity.
Qed.
Lemma take_be k n : take k (be k n) = be k n.
Proof. rewrite <- (app_nil_r (be k n)) at 1. apply take_be_app. Qed.

Lemma pow256_Z k : Z.of_N (256 ^ N.of_nat k) = (256 ^ Z.of_nat k)%Z.
Proof. rewrite N2Z.inj_pow, nat_N_Z. reflexivity. Qed.

Lemma pack_ok k n : n < 256 ^ N.of_nat k -> pack k (Z.of_N n) = Some (be k n).
Proof.
  intros H. unfold pack. rewrite <- pow256_Z, N2Z.id.
  replace ((0 <=? Z.of_N n)%Z && (Z.of_N n <? Z.of_N (256 ^ N.of_nat k))%Z) with true by lia.
  reflexivity.
Qed.
Lemma packn_ok k n : n < 256 ^ N.of_nat k -> packn k n = Some (be k n).
Proof. apply pack_ok. Qed.

Lemma pack1 n : n < 256 -> pack 1 (Z.of_N n) = Some (be 1 n).
Proof. intros; apply pack_ok; exact H. Qed.
Lemma pack2 n : n < 65536 -> pack 2 (Z.of_N n) = Some (be 2 n).
Proof. intros; apply pack_ok; exact H. Qed.
Lemma pack4 n : n < 4294967296 -> pack 4 (Z.of_N n) = Some (be 4 n).
Proof. intros; apply pack_ok; exact H. Qed.

(** an 8-octet attribute value holds one community *)
Lemma ec_parse_one g t : length g = 8%nat -> ec_parse1 g = Ok t -> ec_parse g = Ok [t].
Proof.
  intros Hl H1. unfold ec_parse, len. rewrite Hl.
  change (N.of_nat 8 mod 8 =? 0) with true. cbv iota.
  do 9 (destruct g as [|? g]; try discriminate Hl).
  unfold ec_parse_groups; fold ec_parse_groups.
  change (take 8 [n; n0; n1; n2; n3; n4; n5; n6]) with [n; n0; n1; n2; n3; n4; n5; n6].
  rewrite H1. reflexivity.
Qed.

(** one item whose 8 octets are [b] gives the attribute header + [b] *)
Lemma ec_construct_one i b : ec_item i = Some b -> length b = 8%nat ->
  ec_construct [i] = Ok (Some (c_ATTR_ExtCommunity_FLAG :: c_ATTR_ExtCommunity_ID :: 8 :: b)).
Proof.
  intros Hi Hl. unfold ec_construct, ec_items. rewrite Hi. cbn [obind]. rewrite app_nil_r.
  destruct b as [|x b]; [discriminate|].
  unfold len. rewrite Hl. reflexivity.
Qed.

(** one text through the loop of the view *)
Lemma rest_ec_one cp key value its :
  ~ In 58 key -> rest_key cp (lower (strip key)) value = ROk its ->
  rest_ec cp [key ++ 58 :: value] = ROk its.
Proof.
  intros Hk H. unfold rest_ec, rmap, rest_ec1. rewrite split1_app by assumption. rewrite H.
  cbn [rbind concat]. rewrite app_nil_r. reflexivity.
Qed.

(** * texts made of decimal numbers and ':' *)
Definition dc (a n : N) : str := show_dec a ++ 58 :: show_dec n.

Lemma show_dec_notin c n : (c < 48 \/ 57 < c) -> ~ In c (show_dec n).
Proof. intros; apply all_digits_notin; [apply show_dec_digits | assumption]. Qed.

Lemma dc_notin c a n : (c < 48 \/ 57 < c) -> c <> 58 -> ~ In c (dc a n).
Proof.
  intros Hc H58. unfold dc. apply notin_app; [apply show_dec_notin; assumption|].
  apply notin_cons; [congruence | apply show_dec_notin; assumption].
Qed.
Lemma no_ws_dec n : no_ws (show_dec n).
Proof. apply no_ws_digits, show_dec_digits. Qed.
Lemma no_ws_dc a n : no_ws (dc a n).
Proof. unfold dc. apply no_ws_app; [apply no_ws_dec|]. apply no_ws_cons; [reflexivity | apply no_ws_dec]. Qed.
Lemma strip_dec n : strip (show_dec n) = show_dec n.
Proof. apply strip_clean, no_ws_dec. Qed.
Lemma strip_dc a n : strip (dc a n) = dc a n.
Proof. apply strip_clean, no_ws_dc. Qed.
Lemma commas_dc a n : split_on 44 (dc a n) = [dc a n].
Proof. apply split_on_none, dc_notin; lia. Qed.
Lemma commas_dec n : split_on 44 (show_dec n) = [show_dec n].
Proof. apply split_on_none, show_dec_notin; lia. Qed.
Lemma colons_dc a n : split_on 58 (dc a n) = [show_dec a; show_dec n].
Proof.
  unfold dc. rewrite split_on_app by (apply show_dec_notin; lia).
  rewrite split_on_none by (apply show_dec_notin; lia). reflexivity.
Qed.
Lemma colon1_dc a n : split1 58 (dc a n) = [show_dec a; show_dec n].
Proof. unfold dc. apply split1_app, show_dec_notin; lia. Qed.
Lemma two_parts_dc a n : two_parts (dc a n) = Some (show_dec a, show_dec n).
Proof. unfold two_parts. rewrite colons_dc. reflexivity. Qed.
Lemma first_int_dc a n : first_int (dc a n) = Some (Z.of_N a).
Proof. unfold first_int. rewrite colon1_dc. cbn [hd_str]. rewrite strip_dec. apply py_int_show_dec. Qed.
Lemma nodot_dc a n : mem 46 (hd_str (split_on 58 (dc a n))) = false.
Proof. rewrite colons_dc. cbn [hd_str]. apply mem_false, show_dec_notin. lia. Qed.

(** the three layouts of construct on such texts *)
Lemma ec_as2_dc k a n : k < 65536 -> a < 65536 -> n < 4294967296 ->
  ec_as2 k (dc a n) = Some (be 2 k ++ be 2 a ++ be 4 n).
Proof.
  intros Hk Ha Hn. unfold ec_as2. rewrite two_parts_dc. cbn [obind fst snd].
  rewrite packn_ok by exact Hk. cbn [obind]. rewrite !py_int_show_dec. cbn [obind].
  rewrite pack2, pack4 by assumption. reflexivity.
Qed.
Lemma ec_as4_dc k a n : k < 65536 -> a < 4294967296 -> n < 65536 ->
  ec_as4 k (dc a n) = Some (be 2 k ++ be 4 a ++ be 2 n).
Proof.
  intros Hk Ha Hn. unfold ec_as4. rewrite two_parts_dc. cbn [obind fst snd].
  rewrite packn_ok by exact Hk. cbn [obind]. rewrite !py_int_show_dec. cbn [obind].
  rewrite pack2, pack4 by assumption. reflexivity.
Qed.

(** * route-target / route-origin / redirect-vrf / dmzlink-bw in the two-octet-AS layout *)
Definition hdr_ec : bytes := [c_ATTR_ExtCommunity_FLAG; attr_ext_communities; 8].

Lemma parse_as2 (t s : N) nm a n : a < 65536 -> n < 4294967296 ->
  ec_parse_code (t * 256 + s) (be 2 a ++ be 4 n) = named (t * 256 + s) (txt_as2 (be 2 a ++ be 4 n)) ->
  assoc_n (t * 256 + s) ext_com_str_dict = Some nm ->
  ec_parse ([t; s] ++ be 2 a ++ be 4 n) = Ok [Txt (nm ++ 58 :: dc a n)].
Proof.
  intros Ha Hn Hc Hnm. apply ec_parse_one; [rewrite !app_length, !length_be; reflexivity|].
  unfold ec_parse1. cbn [app take firstn drop skipn]. 
  change (unbe [t; s]) with (unbe_acc (unbe_acc 0 [t]) [s]).
  replace (unbe_acc (unbe_acc 0 [t]) [s]) with (t * 256 + s) by (cbn; lia).
  rewrite Hc. unfold named. rewrite Hnm. unfold txt_as2.
  rewrite take_be_app, drop_be_app, !unbe_be by assumption. reflexivity.
Qed.

(** the property for one extended community value [v] when the peer capabilities are [cp] *)
Definition c17_ec (cp : caps) (v : ecval) (txt : str) : Prop :=
  ec_parse (ref_ec v) = Ok [Txt txt] /\
  exists its, rest_ec cp [txt] = ROk its /\ ec_construct its = Ok (Some (hdr_ec ++ ref_ec v)).

Lemma key_norm_rt : lower (strip (codes "route-target")) = codes "route-target". Proof. reflexivity. Qed.

Lemma rest_rt_small cp a n : a < 65536 ->
  rest_key cp (codes "route-target") (dc a n) = ROk [ItS 2 (dc a n)].
Proof.
  intros Ha. change (rest_key cp (codes "route-target") (dc a n)) with (rmap (rt_value cp) (split_on 44 (strip (dc a n)))).
  rewrite strip_dc, commas_dc. cbn [rmap]. unfold rt_value. rewrite strip_dc, nodot_dc, first_int_dc.
  cbn [of_o rbind]. replace (Z.of_N a <=? 65535)%Z with true by lia. reflexivity.
Qed.
Lemma rest_rt_big a n : 65536 <= a ->
  rest_key (CapFba true) (codes "route-target") (dc a n) = ROk [ItS 514 (dc a n)].
Proof.
  intros Ha. change (rest_key (CapFba true) (codes "route-target") (dc a n)) with (rmap (rt_value (CapFba true)) (split_on 44 (strip (dc a n)))).
  rewrite strip_dc, commas_dc. cbn [rmap]. unfold rt_value. rewrite strip_dc, nodot_dc, first_int_dc.
  cbn [of_o rbind]. replace (Z.of_N a <=? 65535)%Z with false by lia. reflexivity.
Qed.
Lemma rest_ro_small b a n : a < 65536 ->
  rest_key (CapFba b) (codes "route-origin") (dc a n) = ROk [ItS 3 (dc a n)].
Proof.
  intros Ha. change (rest_key (CapFba b) (codes "route-origin") (dc a n)) with (rmap (ro_value (CapFba b)) (split_on 44 (strip (dc a n)))).
  rewrite strip_dc, commas_dc. cbn [rmap]. unfold ro_value. rewrite strip_dc, nodot_dc, first_int_dc.
  cbn [of_o rbind]. replace (65535 <? Z.of_N a)%Z with false by lia. reflexivity.
Qed.
Lemma rest_ro_big a n : 65536 <= a ->
  rest_key (CapFba true) (codes "route-origin") (dc a n) = ROk [ItS 515 (dc a n)].
Proof.
  intros Ha. change (rest_key (CapFba true) (codes "route-origin") (dc a n)) with (rmap (ro_value (CapFba true)) (split_on 44 (strip (dc a n)))).
  rewrite strip_dc, commas_dc. cbn [rmap]. unfold ro_value. rewrite strip_dc, nodot_dc, first_int_dc.
  cbn [of_o rbind]. replace (65535 <? Z.of_N a)%Z with true by lia. reflexivity.
Qed.
Lemma rest_vrf cp a n : rest_key cp (codes "redirect-vrf") (dc a n) = ROk [ItS 32776 (dc a n)].
Proof. change (rest_key cp (codes "redirect-vrf") (dc a n)) with (ROk [ItS 32776 (strip (dc a n))]). rewrite strip_dc. reflexivity. Qed.
Lemma rest_dmz cp a n : rest_key cp (codes "dmzlink-bw") (dc a n) = ROk [ItS 16388 (dc a n)].
Proof.
  change (rest_key cp (codes "dmzlink-bw") (dc a n)) with (ROk (map (fun vau => ItS 16388 (strip vau)) (split_on 44 (strip (dc a n))))).
  rewrite strip_dc, commas_dc. cbn [map]. rewrite strip_dc. reflexivity.
Qed.

Ltac len_be := cbn [length app ref_ec]; rewrite ?app_length, ?length_be; reflexivity.
Ltac ec_construct_as2 :=
  apply ec_construct_one; [|len_be];
  match goal with |- ec_item (ItS ?c ?s) = _ => change (ec_item (ItS c s)) with (ec_as2 c s) end;
  rewrite ec_as2_dc by (assumption || reflexivity); reflexivity.
Ltac ec_construct_as4 :=
  apply ec_construct_one; [|len_be];
  match goal with |- ec_item (ItS ?c ?s) = _ => change (ec_item (ItS c s)) with (ec_as4 c s) end;
  rewrite ec_as4_dc by (assumption || reflexivity); reflexivity.

Lemma c17_rt_as2 cp a n : a < 65536 -> n < 4294967296 ->
  c17_ec cp (RtAs2 a n) (codes "route-target" ++ 58 :: dc a n).
Proof.
  intros Ha Hn. split.
  - apply (parse_as2 0 2); [assumption | assumption | reflexivity | reflexivity].
  - exists [ItS 2 (dc a n)]. split.
    + apply rest_ec_one; [apply notin_closed; reflexivity | apply rest_rt_small; assumption].
    + ec_construct_as2.
Qed.

Lemma c17_ro_as2 b a n : a < 65536 -> n < 4294967296 ->
  c17_ec (CapFba b) (RoAs2 a n) (codes "route-origin" ++ 58 :: dc a n).
Proof.
  intros Ha Hn. split.
  - apply (parse_as2 0 3); [assumption | assumption | reflexivity | reflexivity].
  - exists [ItS 3 (dc a n)]. split.
    + apply rest_ec_one; [apply notin_closed; reflexivity | apply rest_ro_small; assumption].
    + ec_construct_as2.
Qed.

Lemma c17_redirect_vrf cp a n : a < 65536 -> n < 4294967296 ->
  c17_ec cp (RedirectVrf a n) (codes "redirect-vrf" ++ 58 :: dc a n).
Proof.
  intros Ha Hn. split.
  - apply (parse_as2 128 8); [assumption | assumption | reflexivity | reflexivity].
  - exists [ItS 32776 (dc a n)]. split.
    + apply rest_ec_one; [apply notin_closed; reflexivity | apply rest_vrf].
    + ec_construct_as2.
Qed.

Lemma c17_dmzlink_bw cp a n : a < 65536 -> n < 4294967296 ->
  c17_ec cp (DmzLinkBw a n) (codes "dmzlink-bw" ++ 58 :: dc a n).
Proof.
  intros Ha Hn. split.
  - apply (parse_as2 64 4); [assumption | assumption | reflexivity | reflexivity].
  - exists [ItS 16388 (dc a n)]. split.
    + apply rest_ec_one; [apply notin_closed; reflexivity | apply rest_dmz].
    + ec_construct_as2.
Qed.

(** four-octet-AS layout *)
Lemma parse_as4 (t s : N) nm a n : a < 4294967296 -> n < 65536 ->
  ec_parse_code (t * 256 + s) (be 4 a ++ be 2 n) = named (t * 256 + s) (txt_as4 (be 4 a ++ be 2 n)) ->
  assoc_n (t * 256 + s) ext_com_str_dict = Some nm ->
  ec_parse ([t; s] ++ be 4 a ++ be 2 n) = Ok [Txt (nm ++ 58 :: dc a n)].
Proof.
  intros Ha Hn Hc Hnm. apply ec_parse_one; [rewrite !app_length, !length_be; reflexivity|].
  unfold ec_parse1. cbn [app take firstn drop skipn].
  change (unbe [t; s]) with (unbe_acc (unbe_acc 0 [t]) [s]).
  replace (unbe_acc (unbe_acc 0 [t]) [s]) with (t * 256 + s) by (cbn; lia).
  rewrite Hc. unfold named. rewrite Hnm. unfold txt_as4.
  rewrite take_be_app, drop_be_app, !unbe_be by assumption. reflexivity.
Qed.

Lemma c17_rt_as4 a n : 65536 <= a -> a < 4294967296 -> n < 65536 ->
  c17_ec (CapFba true) (RtAs4 a n) (codes "route-target" ++ 58 :: dc a n).
Proof.
  intros Hlo Ha Hn. split.
  - apply (parse_as4 2 2); [assumption | assumption | reflexivity | reflexivity].
  - exists [ItS 514 (dc a n)]. split.
    + apply rest_ec_one; [apply notin_closed; reflexivity | apply rest_rt_big; assumption].
    + ec_construct_as4.
Qed.
Lemma c17_ro_as4 a n : 65536 <= a -> a < 4294967296 -> n < 65536 ->
  c17_ec (CapFba true) (RoAs4 a n) (codes "route-origin" ++ 58 :: dc a n).
Proof.
  intros Hlo Ha Hn. split.
  - apply (parse_as4 2 3); [assumption | assumption | reflexivity | reflexivity].
  - exists [ItS 515 (dc a n)]. split.
    + apply rest_ec_one; [apply notin_closed; reflexivity | apply rest_ro_big; assumption].
    + ec_construct_as4.
Qed.

(** the four-octet-AS format with an AS number below 65536: the text does not say which format it
    came from, and the views choose the two-octet-AS format *)
Lemma c17_rt_as4_small_refuted : forall txt, ~ c17_ec (CapFba true) (RtAs4 100 5) txt.
Proof.
  intros txt [Hp [its [Hr Hc]]].
  vm_compute in Hp. injection Hp as <-.
  vm_compute in Hr. injection Hr as <-.
  vm_compute in Hc. discriminate Hc.
Qed.
Lemma c17_ro_as4_small_refuted : forall txt, ~ c17_ec (CapFba true) (RoAs4 100 5) txt.
Proof.
  intros txt [Hp [its [Hr Hc]]].
  vm_compute in Hp. injection Hp as <-.
  vm_compute in Hr. injection Hr as <-.
  vm_compute in Hc. discriminate Hc.
Qed.

(** * color / encapsulation: one 32-bit number after four fixed octets *)
Lemma two_code (t s : N) : unbe [t; s] = t * 256 + s.
Proof. unfold unbe. cbn. lia. Qed.

Lemma rest_key_color cp v :
  rest_key cp (codes "color") v = rmap (fun vau => ROk (ItS 779 (strip vau))) (split_on 44 (strip v)).
Proof. reflexivity. Qed.
Lemma rest_key_encap cp v :
  rest_key cp (codes "encapsulation") v = rmap (fun vau => ROk (ItS 780 (strip vau))) (split_on 44 (strip v)).
Proof. reflexivity. Qed.

Lemma ec_opaque4_dec k c : k < 65536 -> c < 4294967296 ->
  ec_opaque4 k (show_dec c) = Some (be 2 k ++ [0; 0] ++ be 4 c).
Proof.
  intros Hk Hc. unfold ec_opaque4. rewrite packn_ok by exact Hk. cbn [obind].
  rewrite py_int_show_dec. cbn [obind]. rewrite pack4 by assumption. reflexivity.
Qed.

Lemma c17_color cp c : c < 4294967296 -> c17_ec cp (Color c) (codes "color" ++ 58 :: show_dec c).
Proof.
  intros Hc. split.
  - apply ec_parse_one; [len_be|]. unfold ec_parse1. cbn [ref_ec app take firstn drop skipn].
    rewrite two_code.
    change (ec_parse_code (3 * 256 + 11) (0 :: 0 :: be 4 c)) with (named 779 (txt_low4 (0 :: 0 :: be 4 c))).
    unfold named, txt_low4. cbn [drop skipn].
    change (assoc_n 779 ext_com_str_dict) with (Some (codes "color")).
    rewrite unbe_be by assumption. reflexivity.
  - exists [ItS 779 (show_dec c)]. split.
    + apply rest_ec_one; [apply notin_closed; reflexivity|].
      change (lower (strip (codes "color"))) with (codes "color").
      rewrite rest_key_color, strip_dec, commas_dec. cbn [rmap rbind]. rewrite strip_dec. reflexivity.
    + apply ec_construct_one; [|len_be].
      change (ec_item (ItS 779 (show_dec c))) with (ec_opaque4 c_BGP_EXT_COM_COLOR (show_dec c)).
      rewrite ec_opaque4_dec by (assumption || reflexivity). reflexivity.
Qed.

Lemma be4_of_16 t : t < 65536 -> be 4 t = [0; 0] ++ be 2 t.
Proof.
  intros Ht. unfold be; fold be. cbn [app].
  change (N.of_nat 3) with 3. change (N.of_nat 2) with 2.
  replace ((t / 256 ^ 3) mod 256) with 0 by lia.
  replace ((t / 256 ^ 2) mod 256) with 0 by lia. reflexivity.
Qed.

Lemma c17_encap cp t : t < 65536 -> c17_ec cp (Encap t) (codes "encapsulation" ++ 58 :: show_dec t).
Proof.
  intros Ht. split.
  - apply ec_parse_one; [len_be|]. unfold ec_parse1. cbn [ref_ec app take firstn drop skipn].
    rewrite two_code.
    change (ec_parse_code (3 * 256 + 12) (0 :: 0 :: 0 :: 0 :: be 2 t)) with (named 780 (txt_low4 (0 :: 0 :: 0 :: 0 :: be 2 t))).
    unfold named, txt_low4. cbn [drop skipn].
    change (assoc_n 780 ext_com_str_dict) with (Some (codes "encapsulation")).
    change (0 :: 0 :: be 2 t) with ([0; 0] ++ be 2 t). rewrite <- be4_of_16 by assumption.
    rewrite unbe_be by lia. reflexivity.
  - exists [ItS 780 (show_dec t)]. split.
    + apply rest_ec_one; [apply notin_closed; reflexivity|].
      change (lower (strip (codes "encapsulation"))) with (codes "encapsulation").
      rewrite rest_key_encap, strip_dec, commas_dec. cbn [rmap rbind]. rewrite strip_dec. reflexivity.
    + apply ec_construct_one; [|len_be].
      change (ec_item (ItS 780 (show_dec t))) with (ec_opaque4 c_BGP_EXT_COM_ENCAP (show_dec t)).
      rewrite ec_opaque4_dec by (lia || reflexivity). rewrite be4_of_16 by assumption. reflexivity.
Qed.

(** * large communities (RFC 8092) *)
Definition hdr_large : bytes := [c_ATTR_LargeCommunity_FLAG; attr_large_communities; 12].
Definition large_txt (g l1 l2 : N) : str := show_dec g ++ 58 :: dc l1 l2.

Lemma skipn_add {A} a b (l : list A) : skipn (a + b) l = skipn b (skipn a l).
Proof.
  revert l; induction a as [|a IH]; intros l; [reflexivity|].
  destruct l as [|x l]; cbn [skipn Nat.add]; [destruct b; reflexivity | apply IH].
Qed.

Lemma lpg_step k b : b <> [] ->
  large_parse_groups (S k) b = large_text (take 12 b) :: large_parse_groups k (drop 12 b).
Proof. destruct b; [congruence | reflexivity]. Qed.

Lemma c17_large g l1 l2 : g < 4294967296 -> l1 < 4294967296 -> l2 < 4294967296 ->
  large_parse (ref_large g l1 l2) = Ok [large_txt g l1 l2] /\
  large_construct [large_txt g l1 l2] = Ok (hdr_large ++ ref_large g l1 l2).
Proof.
  intros Hg H1 H2. split.
  - unfold large_parse, ref_large, len. rewrite !app_length, !length_be.
    change (N.of_nat (4 + (4 + 4)) mod 12 =? 0) with true. cbv iota.
    change (4 + (4 + 4))%nat with 12%nat.
    rewrite lpg_step by (intros E; apply (f_equal (@length N)) in E; rewrite !app_length, !length_be in E; discriminate E).
    assert (T : take 12 (be 4 g ++ be 4 l1 ++ be 4 l2) = be 4 g ++ be 4 l1 ++ be 4 l2).
    { unfold take. apply firstn_all2. rewrite !app_length, !length_be. lia. }
    assert (D : drop 12 (be 4 g ++ be 4 l1 ++ be 4 l2) = []).
    { unfold drop. apply skipn_all2. rewrite !app_length, !length_be. lia. }
    rewrite T, D. unfold large_text, slice.
    change (4 - 0)%nat with 4%nat. change (8 - 4)%nat with 4%nat. change (12 - 8)%nat with 4%nat.
    change (skipn 0 (be 4 g ++ be 4 l1 ++ be 4 l2)) with (be 4 g ++ be 4 l1 ++ be 4 l2).
    fold (take 4 (be 4 g ++ be 4 l1 ++ be 4 l2)). rewrite take_be_app.
    fold (drop 4 (be 4 g ++ be 4 l1 ++ be 4 l2)). rewrite drop_be_app.
    fold (take 4 (be 4 l1 ++ be 4 l2)). rewrite take_be_app.
    change 8%nat with (4 + 4)%nat. rewrite skipn_add.
    fold (drop 4 (be 4 g ++ be 4 l1 ++ be 4 l2)). rewrite drop_be_app.
    fold (drop 4 (be 4 l1 ++ be 4 l2)). rewrite drop_be_app.
    fold (take 4 (be 4 l2)). rewrite take_be.
    rewrite !unbe_be by assumption.
    reflexivity.
  - unfold large_construct, large_items, large_item, large_txt.
    rewrite split_on_app by (apply show_dec_notin; lia). rewrite colons_dc.
    cbn [map_opt]. rewrite !py_int_show_dec. cbn [obind]. rewrite !pack4 by assumption.
    cbn [obind concat]. rewrite !app_nil_r.
    unfold packn, len. rewrite !app_length, !length_be.
    change (N.of_nat (4 + (4 + 4))) with 12.
    change ((12 =? 0) || negb (12 mod 12 =? 0)) with false. cbv iota.
    change (pack 1 (Z.of_N 12)) with (Some [12]).
    reflexivity.
Qed.

(** * communities (RFC 1997) *)
Definition hdr_com : bytes := [c_ATTR_Community_FLAG; attr_communities; 4].

Lemma upper_dc a n : upper (dc a n) = dc a n.
Proof.
  unfold dc. rewrite upper_app. change (upper (58 :: show_dec n)) with (58 :: upper (show_dec n)).
  rewrite !upper_digits by apply show_dec_digits. reflexivity.
Qed.

Lemma not_a_name a n : assoc_s (dc a n) well_known_upper = None.
Proof.
  unfold dc. destruct (show_dec_head a) as [d [r [E Hd]]]. rewrite E. cbn [app].
  let t := eval vm_compute in well_known_upper in change well_known_upper with t.
  cbn [assoc_s str_eqb].
  replace (d =? 80) with false by lia. replace (d =? 65) with false by lia.
  replace (d =? 82) with false by lia. replace (d =? 66) with false by lia.
  replace (d =? 78) with false by lia. reflexivity.
Qed.

Lemma com_parse_one v : v < 4294967296 -> com_parse (be 4 v) = Ok [com_text v].
Proof.
  intros Hv. unfold com_parse, len. rewrite length_be.
  change (N.of_nat 4 mod 4 =? 0) with true. cbv iota.
  pose proof (length_be 4 v) as L.
  destruct (be 4 v) as [|x r] eqn:E; [discriminate|].
  unfold com_parse_words; fold com_parse_words. rewrite <- E.
  rewrite take_be, unbe_be by assumption.
  assert (D : drop 4 (be 4 v) = []) by (unfold drop; apply skipn_all2; rewrite length_be; lia).
  rewrite D. reflexivity.
Qed.

Lemma c17_community v : v < 4294967296 ->
  com_parse (ref_community v) = Ok [com_text v] /\
  com_construct [com_text v] = Ok (hdr_com ++ ref_community v).
Proof.
  intros Hv. split; [apply com_parse_one; assumption|].
  unfold ref_community.
  destruct (assoc_n v well_known) eqn:E.
  - unfold well_known in E. cbn [assoc_n] in E.
    repeat match type of E with
           | (if v =? ?k then _ else _) = _ =>
               destruct (N.eqb_spec v k) as [->|_]; [clear E; vm_compute; reflexivity |]
           end.
    discriminate E.
  - unfold com_text. rewrite E.
    change (colon (show_dec (v / 65536)) (show_dec (v mod 65536))) with (dc (v / 65536) (v mod 65536)).
    unfold com_construct, com_items, com_item. rewrite upper_dc, not_a_name, colons_dc.
    rewrite !py_int_show_dec. cbn [obind].
    replace (Z.of_N (v / 65536) * 65536 + Z.of_N (v mod 65536))%Z with (Z.of_N v) by lia.
    rewrite pack4 by assumption. cbn [obind]. rewrite app_nil_r.
    unfold packn, len. rewrite length_be. reflexivity.
Qed.

(** every registered name of the specification is the text of its value *)
Lemma c17_community_names : forall v nm, In (v, nm) rfc_well_known -> com_text v = nm.
Proof.
  intros v nm H. unfold rfc_well_known in H. cbn [In] in H.
  repeat (destruct H as [H|H]; [injection H as <- <-; vm_compute; reflexivity|]). destruct H.
Qed.

(** * IPv4-address layout: route-target, route-origin, redirect-nexthop *)
Definition ipc (ip n : N) : str := show_ip4 ip ++ 58 :: show_dec n.

Lemma show_ip4_notin c ip : (c < 48 \/ 57 < c) -> c <> 46 -> ~ In c (show_ip4 ip).
Proof. intros Hc H46 Hin. destruct (show_ip4_chars ip c Hin); lia. Qed.
Lemma no_ws_ip4 ip : no_ws (show_ip4 ip).
Proof. intros x Hx. destruct (show_ip4_chars ip x Hx) as [->|H]; [reflexivity | unfold is_ws; lia]. Qed.
Lemma no_ws_ipc ip n : no_ws (ipc ip n).
Proof. unfold ipc. apply no_ws_app; [apply no_ws_ip4|]. apply no_ws_cons; [reflexivity | apply no_ws_dec]. Qed.
Lemma strip_ipc ip n : strip (ipc ip n) = ipc ip n.
Proof. apply strip_clean, no_ws_ipc. Qed.
Lemma commas_ipc ip n : split_on 44 (ipc ip n) = [ipc ip n].
Proof.
  apply split_on_none. unfold ipc. apply notin_app; [apply show_ip4_notin; lia|].
  apply notin_cons; [lia | apply show_dec_notin; lia].
Qed.
Lemma colons_ipc ip n : split_on 58 (ipc ip n) = [show_ip4 ip; show_dec n].
Proof.
  unfold ipc. rewrite split_on_app by (apply show_ip4_notin; lia).
  rewrite split_on_none by (apply show_dec_notin; lia). reflexivity.
Qed.
Lemma colon1_ipc ip n : split1 58 (ipc ip n) = [show_ip4 ip; show_dec n].
Proof. unfold ipc. apply split1_app, show_ip4_notin; lia. Qed.
Lemma dot_ipc ip n : mem 46 (hd_str (split_on 58 (ipc ip n))) = true.
Proof. rewrite colons_ipc. apply show_ip4_has_dot. Qed.

Lemma ec_ip4_ipc k ip n : k < 65536 -> ip < 4294967296 -> n < 65536 ->
  ec_ip4 k (ipc ip n) = Some (be 2 k ++ be 4 ip ++ be 2 n).
Proof.
  intros Hk Hi Hn. unfold ec_ip4, two_parts. rewrite colons_ipc. cbn [obind fst snd].
  rewrite packn_ok by exact Hk. cbn [obind]. rewrite parse_show_ip4 by assumption. cbn [obind].
  rewrite packn_ok by exact Hi. cbn [obind]. rewrite py_int_show_dec. cbn [obind].
  rewrite pack2 by assumption. reflexivity.
Qed.

Lemma parse_ip4_layout (t s : N) nm ip n : ip < 4294967296 -> n < 65536 ->
  ec_parse_code (t * 256 + s) (be 4 ip ++ be 2 n) = named (t * 256 + s) (txt_ip4 (be 4 ip ++ be 2 n)) ->
  assoc_n (t * 256 + s) ext_com_str_dict = Some nm ->
  ec_parse ([t; s] ++ be 4 ip ++ be 2 n) = Ok [Txt (nm ++ 58 :: ipc ip n)].
Proof.
  intros Ha Hn Hc Hnm. apply ec_parse_one; [rewrite !app_length, !length_be; reflexivity|].
  unfold ec_parse1. cbn [app take firstn drop skipn]. rewrite two_code.
  rewrite Hc. unfold named. rewrite Hnm. unfold txt_ip4, ip_text.
  rewrite take_be_app, drop_be_app, !unbe_be by assumption. reflexivity.
Qed.

Lemma c17_rt_ip4 cp ip n : ip < 4294967296 -> n < 65536 ->
  c17_ec cp (RtIp4 ip n) (codes "route-target" ++ 58 :: ipc ip n).
Proof.
  intros Hi Hn. split.
  - apply (parse_ip4_layout 1 2); [assumption | assumption | reflexivity | reflexivity].
  - exists [ItS 258 (ipc ip n)]. split.
    + apply rest_ec_one; [apply notin_closed; reflexivity|].
      change (rest_key cp (lower (strip (codes "route-target"))) (ipc ip n))
        with (rmap (rt_value cp) (split_on 44 (strip (ipc ip n)))).
      rewrite strip_ipc, commas_ipc. cbn [rmap]. unfold rt_value. rewrite strip_ipc, dot_ipc. reflexivity.
    + apply ec_construct_one; [|len_be].
      change (ec_item (ItS 258 (ipc ip n))) with (ec_ip4 c_BGP_EXT_COM_RT_1 (ipc ip n)).
      rewrite ec_ip4_ipc by (assumption || reflexivity). reflexivity.
Qed.

Lemma c17_ro_ip4 cp ip n : ip < 4294967296 -> n < 65536 ->
  c17_ec cp (RoIp4 ip n) (codes "route-origin" ++ 58 :: ipc ip n).
Proof.
  intros Hi Hn. split.
  - apply (parse_ip4_layout 1 3); [assumption | assumption | reflexivity | reflexivity].
  - exists [ItS 259 (ipc ip n)]. split.
    + apply rest_ec_one; [apply notin_closed; reflexivity|].
      change (rest_key cp (lower (strip (codes "route-origin"))) (ipc ip n))
        with (rmap (ro_value cp) (split_on 44 (strip (ipc ip n)))).
      rewrite strip_ipc, commas_ipc. cbn [rmap]. unfold ro_value. rewrite strip_ipc, dot_ipc. reflexivity.
    + apply ec_construct_one; [|len_be].
      change (ec_item (ItS 259 (ipc ip n))) with (ec_ip4 c_BGP_EXT_COM_RO_1 (ipc ip n)).
      rewrite ec_ip4_ipc by (assumption || reflexivity). reflexivity.
Qed.

Lemma c17_redirect_nh cp ip n : ip < 4294967296 -> n < 65536 ->
  c17_ec cp (RedirectNh ip n) (codes "redirect-nexthop" ++ 58 :: ipc ip n).
Proof.
  intros Hi Hn. split.
  - apply (parse_ip4_layout 8 0); [assumption | assumption | reflexivity | reflexivity].
  - exists [ItSI 2048 (show_ip4 ip) (Z.of_N n)]. split.
    + apply rest_ec_one; [apply notin_closed; reflexivity|].
      change (rest_key cp (lower (strip (codes "redirect-nexthop"))) (ipc ip n))
        with (match split1 58 (strip (ipc ip n)) with
              | [ip0; fl] => rbind (of_o (py_int fl)) (fun n => ROk [ItSI 2048 ip0 n])
              | _ => RExc end).
      rewrite strip_ipc, colon1_ipc, py_int_show_dec. reflexivity.
    + apply ec_construct_one; [|len_be].
      change (ec_item (ItSI 2048 (show_ip4 ip) (Z.of_N n))) with (ec_nh c_BGP_EXT_REDIRECT_NH (show_ip4 ip) (Z.of_N n)).
      unfold ec_nh. rewrite parse_show_ip4 by assumption. cbn [obind].
      rewrite packn_ok by exact Hi. cbn [obind]. rewrite pack2 by assumption. reflexivity.
Qed.

(** * EVPN: MAC mobility and ESI label (two numbers) *)
Lemma be1 f : f < 256 -> be 1 f = [f].
Proof. intros H. unfold be. change (N.of_nat 0) with 0. replace ((f / 256 ^ 0) mod 256) with f by (cbn; lia). reflexivity. Qed.

Lemma rest_key_mobility cp v :
  rest_key cp (codes "mac-mobility") v =
  match split1 58 (strip v) with
  | [a; b] => rbind (of_o (py_int a)) (fun x => rbind (of_o (py_int b)) (fun y => ROk [ItII 1536 x y]))
  | _ => RExc end.
Proof. reflexivity. Qed.
Lemma rest_key_esi cp v :
  rest_key cp (codes "esi-label") v =
  match split1 58 (strip v) with
  | [a; b] => rbind (of_o (py_int a)) (fun x => rbind (of_o (py_int b)) (fun y => ROk [ItII 1537 x y]))
  | _ => RExc end.
Proof. reflexivity. Qed.

Lemma c17_mac_mobility cp f s : f < 256 -> s < 4294967296 ->
  c17_ec cp (MacMobility f s) (codes "mac-mobility" ++ 58 :: dc f s).
Proof.
  intros Hf Hs. split.
  - apply ec_parse_one; [len_be|]. unfold ec_parse1. cbn [ref_ec app take firstn drop skipn]. rewrite two_code.
    change (ec_parse_code (6 * 256 + 0) (f :: 0 :: be 4 s)) with (named 1536 (txt_mobility (f :: 0 :: be 4 s))).
    unfold named, txt_mobility. cbn [drop skipn nth].
    change (assoc_n 1536 ext_com_str_dict) with (Some (codes "mac-mobility")).
    rewrite unbe_be by assumption. reflexivity.
  - exists [ItII 1536 (Z.of_N f) (Z.of_N s)]. split.
    + apply rest_ec_one; [apply notin_closed; reflexivity|].
      change (lower (strip (codes "mac-mobility"))) with (codes "mac-mobility").
      rewrite rest_key_mobility, strip_dc, colon1_dc, !py_int_show_dec. reflexivity.
    + apply ec_construct_one; [|len_be].
      change (ec_item (ItII 1536 (Z.of_N f) (Z.of_N s))) with (ec_mobility 1536 (Z.of_N f) (Z.of_N s)).
      unfold ec_mobility. rewrite packn_ok by reflexivity. cbn [obind].
      rewrite pack1, pack4 by assumption. cbn [obind]. rewrite be1 by assumption. reflexivity.
Qed.

Lemma c17_esi_label cp f l : f < 256 -> l < 1048576 ->
  c17_ec cp (EsiLabel f l) (codes "esi-label" ++ 58 :: dc f l).
Proof.
  intros Hf Hl. split.
  - apply ec_parse_one; [len_be|]. unfold ec_parse1. cbn [ref_ec app take firstn drop skipn]. rewrite two_code.
    change (ec_parse_code (6 * 256 + 1) (f :: 0 :: 0 :: be 3 (l * 16 + 1)))
      with (named 1537 (txt_esi (f :: 0 :: 0 :: be 3 (l * 16 + 1)))).
    unfold named, txt_esi. cbn [drop skipn nth].
    change (assoc_n 1537 ext_com_str_dict) with (Some (codes "esi-label")).
    rewrite unbe_be by (change (256 ^ N.of_nat 3) with 16777216; lia).
    replace ((l * 16 + 1) / 16) with l by lia. reflexivity.
  - exists [ItII 1537 (Z.of_N f) (Z.of_N l)]. split.
    + apply rest_ec_one; [apply notin_closed; reflexivity|].
      change (lower (strip (codes "esi-label"))) with (codes "esi-label").
      rewrite rest_key_esi, strip_dc, colon1_dc, !py_int_show_dec. reflexivity.
    + apply ec_construct_one; [|len_be].
      change (ec_item (ItII 1537 (Z.of_N f) (Z.of_N l))) with (ec_esi 1537 (Z.of_N f) (Z.of_N l)).
      unfold ec_esi. rewrite packn_ok by reflexivity. cbn [obind].
      rewrite pack1 by assumption. cbn [obind].
      replace (Z.of_N l * 16 + 1)%Z with (Z.of_N (l * 16 + 1)) by lia.
      rewrite pack4 by lia. cbn [obind]. rewrite be1 by assumption.
      change (be 4 (l * 16 + 1)) with (((l * 16 + 1) / 256 ^ N.of_nat 3) mod 256 :: be 3 (l * 16 + 1)).
      reflexivity.
Qed.

(** * traffic-action (4 values) and traffic-marking (64 values): finite sweeps *)
Definition action_text (s t : bool) : str :=
  codes "traffic-action:S:" ++ show_dec (b2n s) ++ codes ",T:" ++ show_dec (b2n t).

Lemma c17_traffic_action cp s t : c17_ec cp (TrafficAction s t) (action_text s t).
Proof.
  split.
  - destruct s, t; vm_compute; reflexivity.
  - exists [ItD 32775 (Some (Z.of_N (b2n s))) (Some (Z.of_N (b2n t)))].
    destruct cp as [| |[|]], s, t; split; vm_compute; reflexivity.
Qed.

Lemma c17_traffic_marking cp d : d < 64 ->
  c17_ec cp (TrafficMarking d) (codes "traffic-marking-dscp" ++ 58 :: show_dec d).
Proof.
  intros Hd.
  assert (G : forall k, (k < 64)%nat ->
    c17_ec cp (TrafficMarking (N.of_nat k)) (codes "traffic-marking-dscp" ++ 58 :: show_dec (N.of_nat k))).
  { intros k Hk. destruct cp as [| |[|]];
    do 64 (destruct k as [|k]; [split; [vm_compute; reflexivity |
           eexists; split; [vm_compute; reflexivity | vm_compute; reflexivity]]|]); lia. }
  specialize (G (N.to_nat d) ltac:(lia)). rewrite Nnat.N2Nat.id in G. exact G.
Qed.

(** * kinds proved in part only *)
(** traffic-rate: the translation of the views accepts the text of every (AS, whole rate); the
    binary32 packing/unpacking of the rate (int_to_f32 / f32_to_int) is tied by correspondence *)
Lemma rest_key_rate cp v :
  rest_key cp (codes "traffic-rate") v = rmap (fun vau => ROk (ItS 32774 (strip vau))) (split_on 44 (strip v)).
Proof. reflexivity. Qed.
Lemma c17_traffic_rate_rest cp a r :
  rest_ec cp [codes "traffic-rate" ++ 58 :: dc a r] = ROk [ItS 32774 (dc a r)].
Proof.
  apply rest_ec_one; [apply notin_closed; reflexivity|].
  change (lower (strip (codes "traffic-rate"))) with (codes "traffic-rate").
  rewrite rest_key_rate, strip_dc, commas_dc. cbn [rmap rbind]. rewrite strip_dc. reflexivity.
Qed.

(** es-import / router-mac: the decoder renders the RFC octets as XX-XX-XX-XX-XX-XX for every MAC;
    acceptance of that text and its re-encoding are tied by correspondence *)
Lemma parse_mac_kind (t s : N) nm m :
  ec_parse_code (t * 256 + s) (be 6 m) = named (t * 256 + s) (txt_mac (be 6 m)) ->
  assoc_n (t * 256 + s) ext_com_str_dict = Some nm ->
  ec_parse ([t; s] ++ be 6 m) = Ok [Txt (nm ++ 58 :: show_mac (be 6 m))].
Proof.
  intros Hc Hnm. apply ec_parse_one; [rewrite !app_length, !length_be; reflexivity|].
  unfold ec_parse1. cbn [app take firstn drop skipn]. rewrite two_code.
  rewrite Hc. unfold named. rewrite Hnm. reflexivity.
Qed.
Lemma c17_es_import_parse m :
  ec_parse (ref_ec (EsImport m)) = Ok [Txt (codes "es-import" ++ 58 :: show_mac (be 6 m))].
Proof. apply (parse_mac_kind 6 2); reflexivity. Qed.
Lemma c17_router_mac_parse m :
  ec_parse (ref_ec (RouterMac m)) = Ok [Txt (codes "router-mac" ++ 58 :: show_mac (be 6 m))].
Proof. apply (parse_mac_kind 6 3); reflexivity. Qed.
