(** C08, COMMUNITIES / EXTENDED COMMUNITIES / LARGE COMMUNITIES as the text-level models
    (model/YCommunity.v, YExtCom.v, YLargeCom.v: lists of texts / items as the REST API gives them)
    construct them: one attribute block, 1-octet length = value, value a multiple of 4 / 8 / 12
    octets (LARGE: not empty), flags optional transitive (LARGE: + partial). *)
From Coq Require Import String ZArith.
From YV Require Import lib.Base lib.Dec gen.Consts spec.Walker model.YExtCom model.YCommunity model.YLargeCom
  proof.WalkerProofs proof.WalkerUpdate.
From Coq Require Import ZifyBool ZifyNat ZifyN Lia.
Ltac Zify.zify_post_hook ::= Z.to_euclidean_division_equations.
Open Scope N_scope.

(* ------------------------------------------------------------------------------------- *)
(** * struct.pack *)

Lemma pack_shape k z b : pack k z = Some b -> len b = N.of_nat k /\ wf_bytes b.
Proof.
  unfold pack. destruct ((0 <=? z)%Z && (z <? 256 ^ Z.of_nat k)%Z); [|discriminate].
  intros H; injection H as <-. split; [apply len_be | apply wf_be].
Qed.
Lemma packn_shape k n b : packn k n = Some b -> len b = N.of_nat k /\ wf_bytes b.
Proof. apply pack_shape. Qed.

(** the 1-octet length field: the number itself, below 256 *)
Lemma packn1 n lb : packn 1 n = Some lb -> lb = [n] /\ n < 256.
Proof.
  unfold packn, pack. destruct ((0 <=? Z.of_N n)%Z && (Z.of_N n <? 256 ^ Z.of_nat 1)%Z) eqn:E; [|discriminate].
  intros H; injection H as <-. rewrite N2Z.id.
  assert (Hn : n < 256) by (change (256 ^ Z.of_nat 1)%Z with 256%Z in E; lia).
  split; [|exact Hn]. cbn [be]. change (256 ^ N.of_nat 0) with 1. rewrite N.div_1_r.
  rewrite N.mod_small by exact Hn. reflexivity.
Qed.

Lemma map_opt_pack k : forall l r, map_opt (pack k) l = Some r ->
  len (concat r) = N.of_nat k * N.of_nat (length l) /\ wf_bytes (concat r).
Proof.
  induction l as [|z l IH]; intros r H.
  - injection H as <-. split; [cbn; lia | constructor].
  - cbn [map_opt] in H. destruct (pack k z) as [b|] eqn:Eb; [|discriminate].
    destruct (map_opt (pack k) l) as [t|]; [|discriminate]. injection H as <-.
    destruct (pack_shape _ _ _ Eb) as [Lb Wb]. destruct (IH t eq_refl) as [Lt Wt].
    cbn [concat length]. split; [rewrite len_app, Lb, Lt; lia | apply wf_app; split; assumption].
Qed.

(** facts about every [pack] / [packn] equation in the context *)
Ltac obind_inv H :=
  repeat match type of H with
         | obind ?e _ = Some _ =>
             let x := fresh "x" in let E := fresh "E" in
             destruct e as [x|] eqn:E; [cbn [obind] in H | discriminate H]
         end.
Ltac pack_facts :=
  repeat match goal with
         | E : obind ?e ?f = Some _ |- _ => obind_inv E
         | E : pack ?k ?z = Some ?b |- _ =>
             let L := fresh "L" in let W := fresh "W" in
             destruct (pack_shape _ _ _ E) as [L W]; clear E
         | E : packn ?k ?z = Some ?b |- _ =>
             let L := fresh "L" in let W := fresh "W" in
             destruct (packn_shape _ _ _ E) as [L W]; clear E
         end.
Ltac len_wf :=
  split;
  [ repeat rewrite ?len_app, ?len_be, ?len_cons; repeat match goal with L : len _ = _ |- _ => rewrite L; clear L end;
    try reflexivity; try lia
  | repeat first [assumption | apply wf_be | apply wf_app; split | apply wf_cons; split; [lia|] | constructor] ].

(* ------------------------------------------------------------------------------------- *)
(** * COMMUNITIES *)

Lemma com_item_shape t b : com_item t = Some b -> len b = 4 /\ wf_bytes b.
Proof.
  unfold com_item. destruct (assoc_s (upper t) well_known_upper) as [v|].
  - apply packn_shape.
  - destruct (split_on 58 t) as [|a [|b' r]]; try discriminate.
    intros H. obind_inv H. apply (pack_shape _ _ _ H).
Qed.

Lemma com_items_shape l b : com_items l = Some b -> len b = 4 * N.of_nat (length l) /\ wf_bytes b.
Proof.
  revert b; induction l as [|t l IH]; intros b H.
  - injection H as <-. split; [reflexivity | constructor].
  - cbn [com_items] in H. obind_inv H. injection H as <-.
    destruct (com_item_shape _ _ E) as [La Wa]. destruct (IH _ eq_refl) as [Lb Wb].
    cbn [length]. split; [rewrite len_app, La, Lb; lia | apply wf_app; split; assumption].
Qed.

Theorem com_construct_block c l b : com_construct l = Ok b -> attr_block c c_ATTR_Community_ID b.
Proof.
  unfold com_construct. destruct (com_items l) as [v|] eqn:E; [|discriminate].
  destruct (packn 1 (len v)) as [lb|] eqn:P; [|discriminate].
  destruct (packn1 _ _ P) as [-> Hl]. destruct (com_items_shape _ _ E) as [Lv Wv].
  intros H; injection H as <-. cbn [app].
  apply (block1 c c_ATTR_Community_FLAG c_ATTR_Community_ID v); try reflexivity; [exact Wv | lia |].
  unfold value_ok. change c_ATTR_Community_ID with 8. cbv iota beta. lia.
Qed.

(* ------------------------------------------------------------------------------------- *)
(** * LARGE COMMUNITIES *)

Lemma large_item_wf t b : large_item t = Some b -> wf_bytes b.
Proof.
  unfold large_item. intros H. obind_inv H. injection H as <-.
  revert x E. induction (split_on 58 t) as [|p ps IH]; intros x E.
  - injection E as <-. constructor.
  - cbn [map_opt] in E. destruct (obind (py_int p) (pack 4)) as [b|] eqn:Eb; [|discriminate].
    destruct (map_opt _ ps) as [r|]; [|discriminate]. injection E as <-.
    cbn [concat]. apply wf_app. split; [|apply (IH r eq_refl)].
    obind_inv Eb. apply (pack_shape _ _ _ Eb).
Qed.

Lemma large_items_wf l b : large_items l = Some b -> wf_bytes b.
Proof.
  revert b; induction l as [|t l IH]; intros b H.
  - injection H as <-. constructor.
  - cbn [large_items] in H. obind_inv H. injection H as <-.
    apply wf_app. split; [eapply large_item_wf; exact E | apply IH; reflexivity].
Qed.

Theorem large_construct_block c l b : large_construct l = Ok b -> attr_block c c_ATTR_LargeCommunity_ID b.
Proof.
  unfold large_construct. destruct (large_items l) as [v|] eqn:E; [|discriminate].
  destruct ((len v =? 0) || negb (len v mod 12 =? 0)) eqn:G; [discriminate|].
  destruct (packn 1 (len v)) as [lb|] eqn:P; [|discriminate].
  destruct (packn1 _ _ P) as [-> Hl]. pose proof (large_items_wf _ _ E) as Wv.
  intros H; injection H as <-. cbn [app].
  apply (block1 c c_ATTR_LargeCommunity_FLAG c_ATTR_LargeCommunity_ID v); try reflexivity; [exact Wv | lia |].
  unfold value_ok. change c_ATTR_LargeCommunity_ID with 32. cbv iota beta. lia.
Qed.

(* ------------------------------------------------------------------------------------- *)
(** * EXTENDED COMMUNITIES *)

Lemma mac_octets_shape s b : mac_octets s = Some b -> len b = 6 /\ wf_bytes b.
Proof.
  unfold mac_octets. intros H. obind_inv H. destruct (Nat.eqb (length x) 6) eqn:E6; [|discriminate].
  obind_inv H. injection H as <-. apply Nat.eqb_eq in E6.
  destruct (map_opt_pack 1 _ _ E0) as [L W]. rewrite E6 in L. split; [exact L | exact W].
Qed.

Ltac ec_helper := intros H; obind_inv H; injection H as <-; pack_facts; len_wf.

Lemma ec_as2_shape k s b : ec_as2 k s = Some b -> len b = 8 /\ wf_bytes b.
Proof. unfold ec_as2. ec_helper. Qed.
Lemma ec_as4_shape k s b : ec_as4 k s = Some b -> len b = 8 /\ wf_bytes b.
Proof. unfold ec_as4. ec_helper. Qed.
Lemma ec_ip4_shape k s b : ec_ip4 k s = Some b -> len b = 8 /\ wf_bytes b.
Proof. unfold ec_ip4. ec_helper. Qed.
Lemma ec_opaque4_shape k s b : ec_opaque4 k s = Some b -> len b = 8 /\ wf_bytes b.
Proof. unfold ec_opaque4. ec_helper. Qed.
Lemma ec_color_x_shape k s b : ec_color_x k s = Some b -> len b = 8 /\ wf_bytes b.
Proof. unfold ec_color_x. ec_helper. Qed.
Lemma ec_mac_shape k s b : ec_mac k s = Some b -> len b = 8 /\ wf_bytes b.
Proof.
  unfold ec_mac. intros H. obind_inv H. injection H as <-.
  destruct (mac_octets_shape _ _ E0) as [Lm Wm]. pack_facts. len_wf.
Qed.
Lemma ec_nh_shape k s n b : ec_nh k s n = Some b -> len b = 8 /\ wf_bytes b.
Proof. unfold ec_nh. ec_helper. Qed.
Lemma ec_last_shape k n b : ec_last k n = Some b -> len b = 8 /\ wf_bytes b.
Proof. unfold ec_last. ec_helper. Qed.
Lemma ec_rate_shape k s b : ec_rate k s = Some b -> len b = 8 /\ wf_bytes b.
Proof. unfold ec_rate. ec_helper. Qed.
Lemma ec_mobility_shape k a n b : ec_mobility k a n = Some b -> len b = 8 /\ wf_bytes b.
Proof. unfold ec_mobility. ec_helper. Qed.
Lemma ec_action_shape k s t b : ec_action k s t = Some b -> len b = 8 /\ wf_bytes b.
Proof. unfold ec_action. apply ec_last_shape. Qed.
Lemma ec_esi_shape k a n b : ec_esi k a n = Some b -> len b = 8 /\ wf_bytes b.
Proof.
  unfold ec_esi. intros H. obind_inv H. injection H as <-.
  unfold pack in E1. destruct ((0 <=? n * 16 + 1)%Z && (n * 16 + 1 <? 256 ^ Z.of_nat 4)%Z); [|discriminate].
  injection E1 as <-. pack_facts. split.
  - rewrite !len_app, L, L0. reflexivity.
  - repeat first [assumption | apply wf_drop1_be4 | apply wf_app; split | apply wf_cons; split; [lia|] | constructor].
Qed.

(** one item contributes one 8-octet community, or nothing (a type the code only warns about) *)
Lemma ec_item_shape i b : ec_item i = Some b -> (b = [] \/ len b = 8) /\ wf_bytes b.
Proof.
  unfold ec_item.
  repeat match goal with
         | |- (if ?g then _ else _) = _ -> _ =>
             destruct g;
             [ destruct i; try discriminate; intros H;
               first [ apply ec_as2_shape in H | apply ec_as4_shape in H | apply ec_ip4_shape in H
                     | apply ec_opaque4_shape in H | apply ec_color_x_shape in H | apply ec_mac_shape in H
                     | apply ec_nh_shape in H | apply ec_last_shape in H | apply ec_rate_shape in H
                     | apply ec_mobility_shape in H | apply ec_esi_shape in H | apply ec_action_shape in H ];
               destruct H as [L W]; split; [right; exact L | exact W]
             | ]
         end.
  intros H; injection H as <-. split; [left; reflexivity | constructor].
Qed.

Lemma ec_items_shape l b : ec_items l = Some b -> len b mod 8 = 0 /\ wf_bytes b.
Proof.
  revert b; induction l as [|i l IH]; intros b H.
  - injection H as <-. split; [reflexivity | constructor].
  - cbn [ec_items] in H. obind_inv H. injection H as <-.
    destruct (ec_item_shape _ _ E) as [La Wa]. destruct (IH _ eq_refl) as [Lb Wb].
    split; [|apply wf_app; split; assumption].
    rewrite len_app. destruct La as [-> | La]; [cbn; exact Lb | rewrite La; lia].
Qed.

Theorem ec_construct_block c l b : ec_construct l = Ok (Some b) -> attr_block c c_ATTR_ExtCommunity_ID b.
Proof.
  unfold ec_construct. destruct (ec_items l) as [v|] eqn:E; [|discriminate].
  destruct (ec_items_shape _ _ E) as [Lv Wv].
  destruct v as [|x v']; [discriminate|].
  destruct (packn 1 (len (x :: v'))) as [lb|] eqn:P; [|discriminate].
  destruct (packn1 _ _ P) as [-> Hl].
  intros H; injection H as <-. cbn [app].
  apply (block1 c c_ATTR_ExtCommunity_FLAG c_ATTR_ExtCommunity_ID (x :: v')); try reflexivity; [exact Wv | lia |].
  unfold value_ok. change c_ATTR_ExtCommunity_ID with 16. cbv iota beta. lia.
Qed.

(* ------------------------------------------------------------------------------------- *)
(** * instances *)
Lemma com_construct_example : exists b,
  com_construct [codes "65001:100"; codes "no_export"; codes "0:0"] = Ok b /\
  b = [192; 8; 12; 253; 233; 0; 100; 255; 255; 255; 1; 0; 0; 0; 0] /\ valid_attrs cfg0 b = true.
Proof. eexists. split; [vm_compute; reflexivity|]. split; [reflexivity | vm_compute; reflexivity]. Qed.

Lemma large_construct_example : exists b,
  large_construct [codes "4200000000:1:2"; codes "1:2:4294967295"] = Ok b /\ len b = 27 /\
  valid_attrs cfg0 b = true.
Proof. eexists. split; [vm_compute; reflexivity|]. split; vm_compute; reflexivity. Qed.

Lemma ec_construct_example : exists b,
  ec_construct [ItS c_BGP_EXT_COM_RT_0 (codes "65001:100"); ItS c_BGP_EXT_COM_EVPN_ROUTE_MAC (codes "00-11-22-33-44-55");
                ItII c_BGP_EXT_COM_EVPN_ESI_MPLS_LABEL 1 1000; ItS 39321 (codes "x")] = Ok (Some b) /\
  len b = 27 /\ valid_attrs cfg0 b = true.
Proof. eexists. split; [vm_compute; reflexivity|]. split; vm_compute; reflexivity. Qed.

(** the statement of props/C08.v *)
Lemma communities_text_valid c :
  (forall l b, com_construct l = Ok b -> attr_block c c_ATTR_Community_ID b) /\
  (forall l b, ec_construct l = Ok (Some b) -> attr_block c c_ATTR_ExtCommunity_ID b) /\
  (forall l b, large_construct l = Ok b -> attr_block c c_ATTR_LargeCommunity_ID b).
Proof. repeat split; intros; [eapply com_construct_block | eapply ec_construct_block | eapply large_construct_block]; eassumption. Qed.
