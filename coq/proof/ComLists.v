(** C17 for LISTS of communities: the attribute is a sequence of fixed-size values, the decoders,
    the REST views' recombination and the encoders work value by value and carry nothing from one
    value to the next.  Every list whose members round-trip one by one round-trips as a whole. *)
From Coq Require Import String ZArith Lia ZifyBool ZifyNat ZifyN List.
From YV Require Import lib.Base lib.Dec gen.Consts spec.RefCom
  model.YExtCom model.YRestEc model.YCommunity model.YLargeCom proof.ComProofs.
Open Scope N_scope.

(** * the recombination of the views is a map over attr[16] *)
Lemma rbind_ret {A} (r : rres A) : rbind r (fun b => ROk b) = r.
Proof. destruct r; reflexivity. Qed.

Lemma rmap_app {A B} (f : A -> rres B) l1 l2 :
  rmap f (l1 ++ l2) = rbind (rmap f l1) (fun a => rbind (rmap f l2) (fun b => ROk (a ++ b))).
Proof.
  induction l1 as [|x l1 IH]; cbn [app rmap rbind].
  - symmetry. apply rbind_ret.
  - rewrite IH. destruct (f x); cbn [rbind]; [|reflexivity|reflexivity].
    destruct (rmap f l1); cbn [rbind]; [|reflexivity|reflexivity].
    destruct (rmap f l2); reflexivity.
Qed.

Lemma rest_ec_app cp l1 l2 :
  rest_ec cp (l1 ++ l2) =
  rbind (rest_ec cp l1) (fun a => rbind (rest_ec cp l2) (fun b => ROk (a ++ b))).
Proof.
  unfold rest_ec. rewrite rmap_app.
  destruct (rmap (rest_ec1 cp) l1); cbn [rbind]; [|reflexivity|reflexivity].
  destruct (rmap (rest_ec1 cp) l2); cbn [rbind]; [|reflexivity|reflexivity].
  rewrite concat_app. reflexivity.
Qed.

Lemma rest_ec_cons cp t l :
  rest_ec cp (t :: l) = rbind (rest_ec cp [t]) (fun a => rbind (rest_ec cp l) (fun b => ROk (a ++ b))).
Proof. exact (rest_ec_app cp [t] l). Qed.

(** what one member contributes does not depend on its neighbours *)
Lemma rest_ec_concat cp (l : list str) (its : list (list item)) :
  Forall2 (fun t i => rest_ec cp [t] = ROk i) l its -> rest_ec cp l = ROk (concat its).
Proof.
  induction 1 as [|t i l its H1 _ IH]; [reflexivity|].
  rewrite rest_ec_cons, H1, IH. reflexivity.
Qed.

(** * ExtCommunity.construct is a concatenation *)
Lemma ec_items_app l1 l2 :
  ec_items (l1 ++ l2) = (a <- ec_items l1 ;; b <- ec_items l2 ;; Some (a ++ b)).
Proof.
  induction l1 as [|i l1 IH]; cbn [app ec_items obind].
  - destruct (ec_items l2); reflexivity.
  - rewrite IH. destruct (ec_item i); cbn [obind]; [|reflexivity].
    destruct (ec_items l1); cbn [obind]; [|reflexivity].
    destruct (ec_items l2); cbn [obind]; [|reflexivity].
    rewrite app_assoc. reflexivity.
Qed.

Lemma ec_items_concat (itss : list (list item)) (bs : list bytes) :
  Forall2 (fun its b => ec_items its = Some b) itss bs -> ec_items (concat itss) = Some (concat bs).
Proof.
  induction 1 as [|its b itss bs H1 _ IH]; [reflexivity|].
  cbn [concat]. rewrite ec_items_app, H1, IH. reflexivity.
Qed.

Lemma packn1_single n lb : packn 1 n = Some lb -> exists y, lb = [y].
Proof.
  unfold packn, pack. destruct (_ && _); [|discriminate]. intros E; injection E as <-.
  eexists. reflexivity.
Qed.

(** the header + 8 octets of a one-community attribute determine what the items produced *)
Lemma ec_construct_inv its b :
  ec_construct its = Ok (Some (hdr_ec ++ b)) -> b <> [] -> ec_items its = Some b.
Proof.
  unfold ec_construct. destruct (ec_items its) as [c|]; [|discriminate].
  destruct c as [|x c]; [discriminate|].
  destruct (packn 1 (len (x :: c))) as [lb|] eqn:E; [|discriminate].
  destruct (packn1_single _ _ E) as [y ->].
  unfold hdr_ec. cbn [app]. intros H _.
  assert (Hb : x :: c = b) by (injection H; intros; assumption).
  rewrite Hb. reflexivity.
Qed.

Lemma ref_ec_length v : length (ref_ec v) = 8%nat.
Proof. destruct v; cbn [ref_ec]; rewrite ?app_length, ?length_be; reflexivity. Qed.

Lemma ref_ec_nonempty v : ref_ec v <> [].
Proof. intros E. pose proof (ref_ec_length v) as L. rewrite E in L. discriminate L. Qed.

(** * ExtCommunity.parse walks the value in steps of 8 octets *)
Lemma ec_parse_one_inv g t : length g = 8%nat -> ec_parse g = Ok [t] -> ec_parse1 g = Ok t.
Proof.
  intros Hl. unfold ec_parse, len. rewrite Hl.
  change (N.of_nat 8 mod 8 =? 0) with true. cbv iota.
  do 9 (destruct g as [|? g]; try discriminate Hl).
  unfold ec_parse_groups; fold ec_parse_groups.
  change (take 8 [n; n0; n1; n2; n3; n4; n5; n6]) with [n; n0; n1; n2; n3; n4; n5; n6].
  destruct (ec_parse1 _); [|discriminate|discriminate].
  cbn. intros E; injection E as ->. reflexivity.
Qed.

Lemma take_app_len {A} (g r : list A) k : length g = k -> firstn k (g ++ r) = g.
Proof. intros <-. rewrite firstn_app, Nat.sub_diag, firstn_all. cbn [firstn]. apply app_nil_r. Qed.
Lemma drop_app_len {A} (g r : list A) k : length g = k -> skipn k (g ++ r) = r.
Proof. intros <-. rewrite skipn_app, Nat.sub_diag, skipn_all. reflexivity. Qed.

Lemma ec_parse_groups_concat (gs : list bytes) (ts : list ectext) :
  Forall2 (fun g t => length g = 8%nat /\ ec_parse1 g = Ok t) gs ts ->
  forall k, ec_parse_groups (length (concat gs) + k) (concat gs) = Ok ts.
Proof.
  induction 1 as [|g t gs ts [Hl H1] _ IH]; intros k; [destruct k; reflexivity|].
  cbn [concat]. rewrite app_length, Hl.
  destruct g as [|x g]; [discriminate Hl|].
  change ((8 + length (concat gs) + k)%nat) with (S (7 + length (concat gs) + k)).
  cbn [app ec_parse_groups].
  change (x :: g ++ concat gs) with ((x :: g) ++ concat gs).
  unfold take, drop. rewrite (take_app_len _ _ 8 Hl), (drop_app_len _ _ 8 Hl), H1.
  replace (7 + length (concat gs) + k)%nat with (length (concat gs) + (7 + k))%nat by lia.
  rewrite IH. reflexivity.
Qed.

Lemma length_concat_const {A} (ls : list (list A)) n :
  Forall (fun l => length l = n) ls -> length (concat ls) = (n * length ls)%nat.
Proof.
  induction 1 as [|l ls H _ IH]; cbn [concat length]; [lia|]. rewrite app_length, H, IH. lia.
Qed.

(** * the list theorem for extended communities *)
Definition ec_octets (l : list (ecval * str)) : bytes := concat (map (fun p => ref_ec (fst p)) l).

Lemma ec_octets_length l : length (ec_octets l) = (8 * length l)%nat.
Proof.
  unfold ec_octets. rewrite (length_concat_const _ 8), map_length; [reflexivity|].
  apply Forall_forall. intros b Hb. apply in_map_iff in Hb. destruct Hb as [p [<- _]]. apply ref_ec_length.
Qed.

Lemma c17_ec_list_parse cp l :
  Forall (fun p => c17_ec cp (fst p) (snd p)) l ->
  ec_parse (ec_octets l) = Ok (map (fun p => Txt (snd p)) l).
Proof.
  intros H. unfold ec_parse.
  replace (len (ec_octets l) mod 8 =? 0) with true.
  2:{ unfold len. rewrite ec_octets_length. symmetry. apply N.eqb_eq.
      rewrite Nat2N.inj_mul, N.mul_comm. apply N.mod_mul. discriminate. }
  cbv iota. rewrite <- (Nat.add_0_r (length (ec_octets l))).
  apply ec_parse_groups_concat.
  induction H as [|p l [Hp _] _ IH]; cbn [map]; constructor; [|exact IH].
  split; [apply ref_ec_length | apply ec_parse_one_inv; [apply ref_ec_length | exact Hp]].
Qed.

Lemma c17_ec_list_rest cp l :
  Forall (fun p => c17_ec cp (fst p) (snd p)) l ->
  exists its, rest_ec cp (map snd l) = ROk its /\ ec_items its = Some (ec_octets l).
Proof.
  intros H.
  assert (E : exists itss, Forall2 (fun t i => rest_ec cp [t] = ROk i) (map snd l) itss /\
                           Forall2 (fun its b => ec_items its = Some b) itss (map (fun p => ref_ec (fst p)) l)).
  { induction H as [|p l [_ [its [Hr Hc]]] _ [itss [IH1 IH2]]].
    - exists []. split; constructor.
    - exists (its :: itss). cbn [map]. split; constructor; try assumption.
      apply ec_construct_inv; [exact Hc | apply ref_ec_nonempty]. }
  destruct E as [itss [E1 E2]]. exists (concat itss). split.
  - apply rest_ec_concat; exact E1.
  - apply ec_items_concat; exact E2.
Qed.

Theorem c17_ec_list cp l :
  l <> [] -> (length l < 32)%nat ->
  Forall (fun p => c17_ec cp (fst p) (snd p)) l ->
  ec_parse (ec_octets l) = Ok (map (fun p => Txt (snd p)) l) /\
  exists its, rest_ec cp (map snd l) = ROk its /\
    ec_construct its =
    Ok (Some ([c_ATTR_ExtCommunity_FLAG; attr_ext_communities; 8 * N.of_nat (length l)] ++ ec_octets l)).
Proof.
  intros Hne Hlen H. split; [apply (c17_ec_list_parse cp); exact H|].
  destruct (c17_ec_list_rest cp l H) as [its [Hr Hi]]. exists its. split; [exact Hr|].
  unfold ec_construct. rewrite Hi.
  pose proof (ec_octets_length l) as L.
  destruct (ec_octets l) as [|x b] eqn:E.
  { destruct l; [congruence | cbn in L; discriminate L]. }
  unfold len. rewrite L. rewrite packn_ok.
  2:{ change (256 ^ N.of_nat 1) with 256. lia. }
  rewrite be1 by lia. rewrite Nat2N.inj_mul. reflexivity.
Qed.

(** * communities (RFC 1997): lists *)
Lemma cpw_step k b : b <> [] ->
  com_parse_words (S k) b = com_text (unbe (take 4 b)) :: com_parse_words k (drop 4 b).
Proof. destruct b; [congruence | reflexivity]. Qed.

Lemma be_app_nonempty k n r : be (S k) n ++ r <> [].
Proof. cbn [be app]. discriminate. Qed.

Definition com_octets (vs : list N) : bytes := concat (map ref_community vs).

Lemma com_octets_length vs : length (com_octets vs) = (4 * length vs)%nat.
Proof.
  unfold com_octets. rewrite (length_concat_const _ 4), map_length; [reflexivity|].
  apply Forall_forall. intros b Hb. apply in_map_iff in Hb. destruct Hb as [p [<- _]]. apply length_be.
Qed.

Lemma com_parse_words_concat vs : Forall (fun v => v < 4294967296) vs ->
  forall k, com_parse_words (length (com_octets vs) + k) (com_octets vs) = map com_text vs.
Proof.
  induction 1 as [|v vs Hv _ IH]; intros k; [destruct k; reflexivity|].
  unfold com_octets in *. cbn [map concat]. change (ref_community v) with (be 4 v). rewrite app_length, length_be.
  change ((4 + length (concat (map ref_community vs)) + k)%nat)
    with (S (3 + length (concat (map ref_community vs)) + k)).
  rewrite cpw_step by apply be_app_nonempty.
  rewrite take_be_app, drop_be_app, unbe_be by exact Hv.
  replace (3 + length (concat (map ref_community vs)) + k)%nat
    with (length (concat (map ref_community vs)) + (3 + k))%nat by lia.
  rewrite IH. reflexivity.
Qed.

Lemma com_item_text v : v < 4294967296 -> com_item (com_text v) = Some (be 4 v).
Proof.
  intros Hv. destruct (c17_community v Hv) as [_ H]. unfold com_construct, com_items in H.
  destruct (com_item (com_text v)) as [a|]; [|discriminate H]. cbn [obind] in H. rewrite app_nil_r in H.
  destruct (packn 1 (len a)) as [lb|] eqn:E; [|discriminate H].
  destruct (packn1_single _ _ E) as [y ->].
  unfold hdr_com, ref_community in H. cbn [app] in H. f_equal. injection H; intros; assumption.
Qed.

Lemma com_items_texts vs : Forall (fun v => v < 4294967296) vs ->
  com_items (map com_text vs) = Some (com_octets vs).
Proof.
  induction 1 as [|v vs Hv _ IH]; [reflexivity|].
  cbn [map com_items]. rewrite com_item_text by exact Hv. cbn [obind]. rewrite IH. reflexivity.
Qed.

Theorem c17_community_list vs :
  Forall (fun v => v < 4294967296) vs -> (length vs < 64)%nat ->
  com_parse (com_octets vs) = Ok (map com_text vs) /\
  com_construct (map com_text vs) =
    Ok ([c_ATTR_Community_FLAG; attr_communities; 4 * N.of_nat (length vs)] ++ com_octets vs).
Proof.
  intros H Hlen. split.
  - unfold com_parse.
    replace (len (com_octets vs) mod 4 =? 0) with true.
    2:{ unfold len. rewrite com_octets_length. symmetry. apply N.eqb_eq.
        rewrite Nat2N.inj_mul, N.mul_comm. apply N.mod_mul. discriminate. }
    cbv iota. rewrite <- (Nat.add_0_r (length (com_octets vs))).
    rewrite com_parse_words_concat by exact H. reflexivity.
  - unfold com_construct. rewrite com_items_texts by exact H.
    unfold len. rewrite com_octets_length. rewrite packn_ok.
    2:{ change (256 ^ N.of_nat 1) with 256. lia. }
    rewrite be1 by lia. rewrite Nat2N.inj_mul. reflexivity.
Qed.

(** * large communities (RFC 8092): lists *)
Definition lval := (N * N * N)%type.
Definition wf_large (p : lval) : Prop :=
  fst (fst p) < 4294967296 /\ snd (fst p) < 4294967296 /\ snd p < 4294967296.
Definition large_ref (p : lval) : bytes := ref_large (fst (fst p)) (snd (fst p)) (snd p).
Definition large_show (p : lval) : str := large_txt (fst (fst p)) (snd (fst p)) (snd p).
Definition large_octets (vs : list lval) : bytes := concat (map large_ref vs).

Lemma large_ref_length p : length (large_ref p) = 12%nat.
Proof. unfold large_ref, ref_large. rewrite !app_length, !length_be. reflexivity. Qed.

Lemma large_octets_length vs : length (large_octets vs) = (12 * length vs)%nat.
Proof.
  unfold large_octets. rewrite (length_concat_const _ 12), map_length; [reflexivity|].
  apply Forall_forall. intros b Hb. apply in_map_iff in Hb. destruct Hb as [p [<- _]]. apply large_ref_length.
Qed.

Lemma large_text_ref p : wf_large p -> large_text (large_ref p) = large_show p.
Proof.
  intros [Hg [H1 H2]]. destruct (c17_large _ _ _ Hg H1 H2) as [H _].
  fold (large_ref p) in H. fold (large_show p) in H.
  unfold large_parse, len in H. rewrite large_ref_length in H.
  change (N.of_nat 12 mod 12 =? 0) with true in H. cbv iota in H.
  rewrite lpg_step in H.
  2:{ intros E. pose proof (large_ref_length p) as L. rewrite E in L. discriminate L. }
  unfold take in H. rewrite firstn_all2 in H by (rewrite large_ref_length; lia).
  injection H; intros; assumption.
Qed.

Lemma large_parse_groups_concat vs : Forall wf_large vs ->
  forall k, large_parse_groups (length (large_octets vs) + k) (large_octets vs) = map large_show vs.
Proof.
  induction 1 as [|p vs Hp _ IH]; intros k; [destruct k; reflexivity|].
  unfold large_octets in *. cbn [map concat]. rewrite app_length, large_ref_length.
  change ((12 + length (concat (map large_ref vs)) + k)%nat)
    with (S (11 + length (concat (map large_ref vs)) + k)).
  rewrite lpg_step.
  2:{ intros E. apply (f_equal (@length N)) in E. rewrite app_length, large_ref_length in E. discriminate E. }
  unfold take, drop.
  rewrite (take_app_len _ _ 12 (large_ref_length p)), (drop_app_len _ _ 12 (large_ref_length p)).
  rewrite large_text_ref by exact Hp.
  replace (11 + length (concat (map large_ref vs)) + k)%nat
    with (length (concat (map large_ref vs)) + (11 + k))%nat by lia.
  rewrite IH. reflexivity.
Qed.

Lemma large_item_text p : wf_large p -> large_item (large_show p) = Some (large_ref p).
Proof.
  intros [Hg [H1 H2]]. destruct (c17_large _ _ _ Hg H1 H2) as [_ H].
  fold (large_ref p) in H. fold (large_show p) in H.
  unfold large_construct, large_items in H.
  destruct (large_item (large_show p)) as [a|]; [|discriminate H]. cbn [obind] in H. rewrite app_nil_r in H.
  destruct ((len a =? 0) || negb (len a mod 12 =? 0)); [discriminate H|].
  destruct (packn 1 (len a)) as [lb|] eqn:E; [|discriminate H].
  destruct (packn1_single _ _ E) as [y ->].
  unfold hdr_large in H. cbn [app] in H. f_equal. injection H; intros; assumption.
Qed.

Lemma large_items_texts vs : Forall wf_large vs -> large_items (map large_show vs) = Some (large_octets vs).
Proof.
  induction 1 as [|p vs Hp _ IH]; [reflexivity|].
  cbn [map large_items]. rewrite large_item_text by exact Hp. cbn [obind]. rewrite IH. reflexivity.
Qed.

Theorem c17_large_list vs :
  vs <> [] -> (length vs < 22)%nat -> Forall wf_large vs ->
  large_parse (large_octets vs) = Ok (map large_show vs) /\
  large_construct (map large_show vs) =
    Ok ([c_ATTR_LargeCommunity_FLAG; attr_large_communities; 12 * N.of_nat (length vs)] ++ large_octets vs).
Proof.
  intros Hne Hlen H.
  assert (M : len (large_octets vs) mod 12 =? 0 = true).
  { unfold len. rewrite large_octets_length. apply N.eqb_eq.
    rewrite Nat2N.inj_mul, N.mul_comm. apply N.mod_mul. discriminate. }
  split.
  - unfold large_parse. rewrite M.
    rewrite <- (Nat.add_0_r (length (large_octets vs))).
    rewrite large_parse_groups_concat by exact H. reflexivity.
  - unfold large_construct. rewrite large_items_texts by exact H. rewrite M.
    replace (len (large_octets vs) =? 0) with false.
    2:{ unfold len. rewrite large_octets_length. destruct vs; [congruence|]. cbn [length]. symmetry. lia. }
    cbn [orb negb]. unfold len. rewrite large_octets_length. rewrite packn_ok.
    2:{ change (256 ^ N.of_nat 1) with 256. lia. }
    rewrite be1 by lia. rewrite Nat2N.inj_mul. reflexivity.
Qed.
