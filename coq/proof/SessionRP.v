(** C02(a): in every reachable world, unless the operator stopped the peer, a reconnection is
    pending: the session is up, or the restart timer runs, or a close is in progress whose
    completion arms it, or (Connect) the connect-retry timer runs. *)
From YV Require Import lib.Base model.YWorld model.YProto gen.Consts gen.FsmGen model.YFraming
  model.YSession proof.SessionPres proof.SessionInv proof.SessionSym proof.SessionFraming
  proof.SessionC03 proof.SessionC13.
From Coq Require Import Arith PeanoNat.

(** symbolic execution with a symbolic connection table and symbolic message fields *)
Ltac stuck2 :=
  match goal with
  | |- context [match nth_error ?l ?i with _ => _ end] => destruct (nth_error l i) eqn:?
  | |- context [option_map _ (nth_error ?l ?i)] => destruct (nth_error l i) eqn:?
  | |- context [if cst_eqb ?a ?b then _ else _] => destruct (cst_eqb a b) eqn:?
  | |- context [if ?b then _ else _] =>
      lazymatch b with
      | context [nth_error] => fail
      | context [conn_connected] => fail
      | context [c_disc] => fail
      | context [c_closing] => fail
      | N.eqb _ _ => destruct b eqn:?
      | N.ltb _ _ => destruct b eqn:?
      | N.leb _ _ => destruct b eqn:?
      | negb _ => destruct b eqn:?
      | andb _ _ => destruct b eqn:?
      | orb _ _ => destruct b eqn:?
      end
  end.

Ltac sym_r :=
  cbn;
  repeat (first [ match goal with E : nth_error _ _ = Some _ |- _ => rewrite E end
                | match goal with E : nth _ _ conn0 = _ |- _ => rewrite E end
                | match goal with H : cst_eqb _ CConnected = true |- _ => rewrite H end
                | match goal with H : Nat.ltb _ _ = true |- _ => rewrite H end
                | match goal with H : Nat.eqb _ _ = false |- _ => rewrite H end
                | rewrite length_upd_nth
                | rewrite nth_error_upd_nth | rewrite nth_upd_nth | rewrite Nat.eqb_refl
                | progress unfold conn_connected, get_conn, upd_conn, conn_send_keepalive,
                    conn_send_notification, conn_write, conn_close, on_sent
                | stuck1 | unf1 | stuck2 ]; cbn).

Definition sess (s : bst) : bool :=
  match s with StOpenSent | StOpenConfirm | StEstablished => true | _ => false end.

Definition closing_tracked (w : world) : Prop :=
  exists c, w_proto w = Some c /\ conn_connected c w = true /\ c_disc (get_conn c w) = true.

Definition pending (w : world) : Prop :=
  match w_state w with
  | StIdle => t_dl (w_tih w) <> None \/ closing_tracked w
  | StConnect => t_dl (w_tcr w) <> None
  | StActive => False
  | _ => True
  end.

Definition tracked_ok (w : world) : Prop :=
  sess (w_state w) = true ->
  exists c, w_proto w = Some c /\ conn_connected c w = true /\ w_estab w = Some c.

Definition RP (w : world) : Prop :=
  t_dl (w_tdo w) = None /\ tracked_ok w /\ w_state w <> StActive /\ (w_auto w = true -> pending w).

(** destructure RP on a destructed world whose state is known *)
Ltac rp_intro w :=
  intros (Hdo & Htr & Hna & Hpe);
  destr_world w; unfold tracked_ok, pending, closing_tracked, conn_connected, get_conn in *;
  cbn in Hdo, Htr, Hna, Hpe;
  match type of Hdo with ?x = None => subst x end.

Ltac rp_session Htr :=
  let c := fresh "c" in let Hp := fresh "Hp" in let Hc := fresh "Hc" in let He := fresh "He" in
  destruct (Htr eq_refl) as (c & Hp & Hc & He);
  match type of Hp with ?x = Some _ => subst x end; match type of He with ?x = Some _ => subst x end;
  let k := fresh "k" in
  match type of Hc with
  | context [nth_error ?conns c] =>
      destruct (nth_error conns c) as [k|] eqn:E; [|discriminate];
      assert (En : nth c conns conn0 = k) by (apply nth_error_nth; auto);
      assert (Hk : cst_eqb (c_st k) CConnected = true) by exact Hc;
      assert (Hlt : Nat.ltb c (length conns) = true) by (apply Nat.ltb_lt, nth_error_Some; congruence)
  end.

Ltac rp_sess :=
  match goal with
  | H : _ = true -> exists _, _ |- _ => rp_session H
  end.

Ltac rp_goal :=
  unfold RP, tracked_ok, pending, closing_tracked, conn_connected, get_conn; cbn;
  rewrite ?t_dl_cancel_none; cbn.

Ltac rp_lookup :=
  repeat (first [ rewrite nth_error_upd_nth | rewrite nth_upd_nth | rewrite Nat.eqb_refl
                | match goal with E : nth_error _ _ = Some _ |- _ => rewrite E end
                | match goal with E : nth _ _ conn0 = _ |- _ => rewrite E end
                | match goal with H : Nat.ltb _ _ = true |- _ => rewrite H end
                | match goal with H : Nat.eqb _ _ = false |- _ => rewrite H end
                | match goal with H : cst_eqb _ CConnected = true |- _ => rewrite H end ]; cbn).

Ltac rp_fin :=
  rp_goal; repeat split; try discriminate; try assumption; try (intros; left; discriminate);
  try (intros X; discriminate X);
  try (intros _; right; eexists; split; [reflexivity|]; rp_lookup; split; reflexivity);
  try (intros _; eexists; split; [reflexivity|]; rp_lookup; split; first [reflexivity | assumption]).

Ltac rp_method w :=
  rp_intro w;
  match goal with H : ?s <> StActive |- _ => destruct s end;
  [ sym_r; rp_fin | sym_r; rp_fin | congruence | rp_sess; sym_r; rp_fin | rp_sess; sym_r; rp_fin | rp_sess; sym_r; rp_fin ].

Lemma RP_header_error sub d w : RP w -> RP (F_header_error sub d w).
Proof. rp_method w. Qed.
Lemma RP_open_message_error sub d w : RP w -> RP (F_open_message_error sub d w).
Proof. rp_method w. Qed.
Lemma RP_notification_received e s w : RP w -> RP (F_notification_received e s w).
Proof. rp_method w. Qed.
Lemma RP_keep_alive_received w : RP w -> RP (F_keep_alive_received w).
Proof. rp_method w. Qed.
Lemma RP_update_received w : RP w -> RP (F_update_received w).
Proof. rp_method w. Qed.
Lemma RP_open_received w : RP w -> RP (F_open_received w).
Proof. rp_method w. Qed.
Lemma RP_connection_failed w : RP w -> RP (F_connection_failed w).
Proof. rp_method w. Qed.
Lemma RP_hold_time_event w : RP w -> RP (F_hold_time_event w).
Proof. rp_method w. Qed.
Lemma RP_keep_alive_time_event w : RP w -> RP (F_keep_alive_time_event w).
Proof. rp_method w. Qed.
Lemma RP_idle_hold_time_event w : RP w -> RP (F_idle_hold_time_event w).
Proof. rp_method w. Qed.
Lemma RP_connect_retry_time_event w : RP w -> RP (F_connect_retry_time_event w).
Proof. rp_method w. Qed.
Lemma RP_manual_stop w : RP w -> RP (peering_manual_stop w).
Proof. rp_method w. Qed.
Lemma RP_manual_start w : RP w -> RP (peering_manual_start w).
Proof. rp_method w. Qed.
Lemma RP_automatic_start b w : RP w -> RP (peering_automatic_start b w).
Proof. rp_method w. Qed.

(** ---- frame lemmas ---- *)
Definition keeps_sd (f : conn -> conn) : Prop := forall k, c_st (f k) = c_st k /\ c_disc (f k) = c_disc k.

Lemma RP_frame w w' :
  w_state w' = w_state w -> w_proto w' = w_proto w -> w_conns w' = w_conns w -> w_estab w' = w_estab w ->
  w_auto w' = w_auto w -> w_tdo w' = w_tdo w -> w_tih w' = w_tih w -> w_tcr w' = w_tcr w ->
  RP w -> RP w'.
Proof.
  unfold RP, tracked_ok, pending, closing_tracked, conn_connected, get_conn.
  intros -> -> -> -> -> -> -> ->. auto.
Qed.

Lemma connected_upd_sd c c' f w : keeps_sd f -> conn_connected c (upd_conn c' f w) = conn_connected c w.
Proof.
  intros Hf. unfold conn_connected, upd_conn. cbn. rewrite nth_error_upd_nth.
  destruct (Nat.eqb c c'); auto. destruct (nth_error (w_conns w) c); cbn; auto.
  destruct (Hf c0) as (-> & _). reflexivity.
Qed.
Lemma disc_upd_sd c c' f w : keeps_sd f -> c_disc (get_conn c (upd_conn c' f w)) = c_disc (get_conn c w).
Proof.
  intros Hf. unfold get_conn, upd_conn. cbn. rewrite nth_upd_nth.
  destruct (Nat.eqb c c' && Nat.ltb c (length (w_conns w))); auto. apply Hf.
Qed.

Lemma RP_upd_conn c f w : keeps_sd f -> RP w -> RP (upd_conn c f w).
Proof.
  intros Hf (H1 & H2 & H3 & H4). unfold RP, tracked_ok, pending, closing_tracked in *.
  change (w_state (upd_conn c f w)) with (w_state w). change (w_proto (upd_conn c f w)) with (w_proto w).
  change (w_estab (upd_conn c f w)) with (w_estab w). change (w_auto (upd_conn c f w)) with (w_auto w).
  change (w_tdo (upd_conn c f w)) with (w_tdo w). change (w_tih (upd_conn c f w)) with (w_tih w).
  change (w_tcr (upd_conn c f w)) with (w_tcr w).
  repeat split; auto.
  - intros Hs. destruct (H2 Hs) as (c0 & A & B & C). exists c0. rewrite connected_upd_sd; auto.
  - intros Ha. specialize (H4 Ha). destruct (w_state w); auto.
    destruct H4 as [H4 | (c0 & A & B & C)]; [left; auto|right].
    exists c0. rewrite connected_upd_sd, disc_upd_sd; auto.
Qed.

Lemma RP_emit o w : RP w -> RP (emit o w).
Proof. apply RP_frame; reflexivity. Qed.
Lemma keeps_sd_on_recv f : keeps_sd (on_recv f). Proof. intro; split; reflexivity. Qed.
Lemma keeps_sd_on_sent f : keeps_sd (on_sent f). Proof. intro; split; reflexivity. Qed.
Lemma keeps_sd_asn4 b : keeps_sd (set_c_asn4 b). Proof. intro; split; reflexivity. Qed.
Lemma keeps_sd_buf b : keeps_sd (set_c_buf b). Proof. intro; split; reflexivity. Qed.

(** ---- the dispatch glue ---- *)
Section Events.
Variable D : decoders.

Lemma RP_negotiate_hold_time h w : RP w -> RP (negotiate_hold_time h w).
Proof.
  intros H. unfold negotiate_hold_time. cbv zeta.
  apply (RP_frame (if hold_refused h (w_hold (set_w_hold (N.min (w_hold w) h) w))
                   then F_open_message_error c_ERR_MSG_OPEN_UNACCPT_HOLD_TIME [] (set_w_hold (N.min (w_hold w) h) w)
                   else set_w_hold (N.min (w_hold w) h) w)); try reflexivity.
  assert (H0 : RP (set_w_hold (N.min (w_hold w) h) w)) by (revert H; apply RP_frame; reflexivity).
  destruct (hold_refused _ _); auto using RP_open_message_error.
Qed.

Lemma RP_dispatch c ty msg w : RP w -> RP (snd (dispatch D c ty msg w)).
Proof.
  intros H. unfold dispatch.
  destruct (ty =? c_MSG_OPEN).
  { unfold open_received. cbv zeta.
    assert (H0 : RP (upd_conn c (on_recv bump_open) w)) by auto using RP_upd_conn, keeps_sd_on_recv.
    destruct (d_open D msg) as [sub|sub| |asn hold caps]; cbn [snd];
      auto using RP_header_error, RP_open_message_error.
    destruct (negb _); cbn [snd]; auto using RP_open_message_error.
    apply RP_emit, RP_open_received, RP_negotiate_hold_time.
    assert (H1 : RP (set_w_capr caps (upd_conn c (on_recv bump_open) w))) by (revert H0; apply RP_frame; reflexivity).
    destruct (cap_has _ _); auto using RP_upd_conn, keeps_sd_asn4. }
  destruct (ty =? c_MSG_UPDATE).
  { unfold update_received. destruct (d_update D _ msg); cbn [snd]; auto;
      apply RP_update_received, RP_upd_conn, RP_emit; auto using keeps_sd_on_recv. }
  destruct (ty =? c_MSG_NOTIFICATION).
  { unfold notification_received. destruct msg as [|e [|s r]]; cbn [snd]; auto.
    apply RP_notification_received, RP_emit, RP_upd_conn; auto using keeps_sd_on_recv. }
  destruct (ty =? c_MSG_KEEPALIVE).
  { unfold keepalive_received. cbv zeta.
    assert (H0 : RP (emit (OHandler HKeepalive) (upd_conn c (on_recv bump_ka) w)))
      by (apply RP_emit, RP_upd_conn; auto using keeps_sd_on_recv).
    destruct msg; cbn [snd]; auto using RP_keep_alive_received, RP_header_error. }
  destruct (_ || _).
  { unfold route_refresh_received. destruct (Nat.eqb _ _); cbn [snd]; auto.
    apply RP_emit, RP_upd_conn; auto using keeps_sd_on_recv. }
  cbn [snd]. apply RP_header_error; auto.
Qed.

Lemma RP_frame_loop c : forall fuel buf w, RP w ->
  RP (fst (fst (frame_loop world (dispatch D c) (fun sub d w => F_header_error sub d w)
                           (conn_closed_by_us c) fuel buf w))).
Proof.
  induction fuel as [|fuel IH]; intros buf w H; cbn [frame_loop fst]; auto.
  unfold parse1. cbv zeta.
  destruct (len buf <? c_HDR_LEN); cbn [fst]; auto.
  destruct (negb _); cbn [fst]; auto using RP_header_error.
  destruct (_ || _); cbn [fst]; auto using RP_header_error.
  destruct (len buf <? _); cbn [fst]; auto.
  pose proof (RP_dispatch c (nth 18 buf 0) (slice 19 (N.to_nat (unbe (slice 16 18 buf))) buf) w H) as Hd.
  destruct (fst (dispatch D c _ _ w)); cbn [fst]; auto.
  destruct (conn_closed_by_us c _); cbn [fst]; auto.
Qed.

Lemma RP_data_received c data w : RP w -> RP (data_received D c data w).
Proof.
  intros H. unfold data_received. cbv zeta.
  pose proof (RP_frame_loop c (S (length (c_buf (get_conn c w) ++ data))) (c_buf (get_conn c w) ++ data) w H) as Hl.
  set (r := frame_loop _ _ _ _ _ _ _) in *. clearbody r.
  assert (Hx : RP (upd_conn c (set_c_buf (snd (fst r))) (fst (fst r)))) by auto using RP_upd_conn, keeps_sd_buf.
  destruct (snd r); auto using RP_emit.
Qed.

Lemma RP_fire t w : RP w -> RP (fire_timer t w).
Proof. destruct t; rp_method w. Qed.

Lemma RP_conn_write c m w : RP w -> RP (conn_write c m w).
Proof. intros H. unfold conn_write. destruct (conn_connected c w); auto using RP_emit. Qed.
Lemma RP_api_send_bin b w : RP w -> RP (api_send_bin b w).
Proof.
  intros H. unfold api_send_bin, with_proto. destruct (w_proto w); auto using RP_emit.
  apply RP_upd_conn; auto using keeps_sd_on_sent, RP_conn_write.
Qed.
Lemma RP_api_send_update ok b w : RP w -> RP (api_send_update ok b w).
Proof. intros H. destruct ok; auto. apply (RP_api_send_bin b w H). Qed.

Lemma connected_upd_other c c' f w : conn_connected c' w = false -> conn_connected c w = true ->
  conn_connected c (upd_conn c' f w) = true /\ get_conn c (upd_conn c' f w) = get_conn c w.
Proof.
  intros H1 H2. unfold conn_connected, get_conn, upd_conn in *. cbn. rewrite nth_error_upd_nth, nth_upd_nth.
  destruct (Nat.eqb c c') eqn:E; cbn; auto.
  apply Nat.eqb_eq in E. subst. congruence.
Qed.

Lemma RP_upd_other c f w : conn_connected c w = false -> RP w -> RP (upd_conn c f w).
Proof.
  intros Hc (H1 & H2 & H3 & H4). unfold RP, tracked_ok, pending, closing_tracked in *.
  change (w_state (upd_conn c f w)) with (w_state w). change (w_proto (upd_conn c f w)) with (w_proto w).
  change (w_estab (upd_conn c f w)) with (w_estab w). change (w_auto (upd_conn c f w)) with (w_auto w).
  change (w_tdo (upd_conn c f w)) with (w_tdo w). change (w_tih (upd_conn c f w)) with (w_tih w).
  change (w_tcr (upd_conn c f w)) with (w_tcr w).
  repeat split; auto.
  - intros Hs. destruct (H2 Hs) as (c0 & A & B & C). exists c0.
    destruct (connected_upd_other c0 c f w Hc B) as [-> _]. auto.
  - intros Ha. specialize (H4 Ha). destruct (w_state w); auto.
    destruct H4 as [H4 | (c0 & A & B & C)]; [left; auto|right].
    exists c0. destruct (connected_upd_other c0 c f w Hc B) as [-> ->]. auto.
Qed.

Lemma connecting_not_connected c w : conn_st_is c CConnecting w = true -> conn_connected c w = false.
Proof.
  unfold conn_st_is, conn_connected. destruct (nth_error (w_conns w) c) as [k|]; auto.
  destruct (c_st k); cbn; congruence.
Qed.

Lemma RP_conn_failed c w : conn_st_is c CConnecting w = true -> RP w -> RP (conn_failed c w).
Proof.
  intros Hc H. unfold conn_failed. cbv zeta.
  apply RP_connection_failed, RP_emit, RP_upd_other; auto using connecting_not_connected.
Qed.

Lemma RP_connection_made_fresh c w :
  w_state w = StConnect -> w_proto w = Some c -> w_estab w = Some c -> conn_connected c w = true ->
  t_dl (w_tdo w) = None -> RP (F_connection_made w).
Proof.
  destr_world w. unfold conn_connected. cbn. intros -> -> -> Hc ->.
  destruct (nth_error conns c) as [k|] eqn:E; [|discriminate].
  assert (En : nth c conns conn0 = k) by (apply nth_error_nth; auto).
  assert (Hk : cst_eqb (c_st k) CConnected = true) by exact Hc.
  assert (Hlt : Nat.ltb c (length conns) = true) by (apply Nat.ltb_lt, nth_error_Some; congruence).
  sym_r; rp_fin.
Qed.

Lemma set_state_connect w :
  set_state StConnect w = set_w_state StConnect w \/ (set_state StConnect w = w /\ w_state w = StConnect).
Proof. unfold set_state. destruct (w_state w); cbn; auto. Qed.

Lemma RP_conn_made c w : conn_st_is c CConnecting w = true -> RP w -> RP (conn_made c w).
Proof.
  intros Hc (Hdo & _). unfold conn_made. cbv zeta.
  assert (Hcc : conn_connected c (upd_conn c (set_c_st CConnected) w) = true).
  { unfold conn_st_is in Hc. unfold conn_connected, upd_conn. cbn. rewrite nth_error_upd_nth, Nat.eqb_refl.
    destruct (nth_error (w_conns w) c); [reflexivity|discriminate]. }
  destruct (set_state_connect (set_w_proto (Some c) w)) as [-> | [-> Hs]];
    apply (RP_connection_made_fresh c); try reflexivity; auto.
Qed.

Lemma RP_conn_lost c w : RP w -> conn_st_is c CConnected w = true -> RP (conn_lost c w).
Proof.
  unfold conn_st_is. rp_intro w. cbn. intros Hc.
  destruct (nth_error conns c) as [kc|] eqn:Ec; [|discriminate].
  assert (Enc : nth c conns conn0 = kc) by (apply nth_error_nth; auto).
  assert (Hltc : Nat.ltb c (length conns) = true) by (apply Nat.ltb_lt, nth_error_Some; congruence).
  match goal with H : ?s <> StActive |- _ => destruct s end.
  - sym_r. all: rp_fin.
    intros Ha. destruct (Hpe Ha) as [Hx | (c0 & A & B & C)]; [left; auto|right].
    exists c0. split; auto. rewrite nth_error_upd_nth, nth_upd_nth.
    destruct (Nat.eqb c0 c) eqn:Ecc; cbn; auto.
    apply Nat.eqb_eq in Ecc. subst c0. congruence.
  - sym_r. all: rp_fin.
  - congruence.
  - rp_sess. destruct (Nat.eqb c c0) eqn:Ecc.
    + apply Nat.eqb_eq in Ecc. subst c0. sym_r. all: rp_fin.
    + assert (Ecc' : Nat.eqb c0 c = false) by (rewrite Nat.eqb_sym; exact Ecc).
      sym_r. all: rp_fin.
  - rp_sess. destruct (Nat.eqb c c0) eqn:Ecc.
    + apply Nat.eqb_eq in Ecc. subst c0. sym_r. all: rp_fin.
    + assert (Ecc' : Nat.eqb c0 c = false) by (rewrite Nat.eqb_sym; exact Ecc).
      sym_r. all: rp_fin.
  - rp_sess. destruct (Nat.eqb c c0) eqn:Ecc.
    + apply Nat.eqb_eq in Ecc. subst c0. sym_r. all: rp_fin.
    + assert (Ecc' : Nat.eqb c0 c = false) by (rewrite Nat.eqb_sym; exact Ecc).
      sym_r. all: rp_fin.
Qed.

Lemma RP_event e w : RP w -> enabled w e = true -> RP (do_event D e w).
Proof.
  intros H He. destruct e; cbn [do_event enabled] in *.
  - apply RP_automatic_start; auto.
  - apply RP_conn_made; auto.
  - apply RP_conn_failed; auto.
  - apply RP_conn_lost; auto.
  - apply RP_data_received; auto.
  - apply RP_fire; auto.
  - revert H. apply RP_frame; reflexivity.
  - apply RP_manual_stop; auto.
  - apply RP_manual_start; auto.
  - apply RP_api_send_update; auto.
  - apply RP_api_send_bin; auto.
Qed.

Lemma RP_step e w : RP w -> RP (step D w e).
Proof.
  intros H. unfold step.
  assert (H0 : RP (set_w_out [] w)) by (revert H; apply RP_frame; reflexivity).
  destruct (enabled w e) eqn:He; auto.
  apply RP_event; auto.
Qed.

Lemma RP_run es : forall w, RP w -> RP (run D w es).
Proof. induction es as [|e es IH]; intros w H; cbn [run fold_left]; auto. apply IH, RP_step, H. Qed.

Lemma RP_boot cf capl : RP (step D (world0 cf capl) EBoot).
Proof.
  unfold step, world0. cbn [enabled]. cbv iota. sym_r. all: rp_fin.
Qed.

(** C02(a): after start-up, in every reachable world where automatic restart has not been
    switched off by the operator, a reconnection is pending *)
Theorem reconnect_pending cf capl es :
  let w := run D (world0 cf capl) (EBoot :: es) in
  RP w /\ (w_auto w = true -> pending w).
Proof.
  cbn [run fold_left]. pose proof (RP_run es _ (RP_boot cf capl)) as H. split; auto. apply H.
Qed.
End Events.
