(** C06, part 3: attribute-list framing (1-/2-octet lengths, extended-length bit) and the
    UPDATE message round trip. *)
From YV Require Import lib.Base gen.Consts model.YMsg model.YPrefix4 model.YAttr model.YUpdate
  proof.MsgProofs proof.UpdateProofsPrefix proof.UpdateProofsAttr.
From Coq Require Import ZArith Lia ZifyBool ZifyNat ZifyN.
Ltac Zify.zify_post_hook ::= Z.to_euclidean_division_equations.

(** ---- one framed attribute ---- *)
Lemma parse_tlv_frame flag tc payload rest :
  (flag / 16) mod 2 = 0 -> len payload <= 65535 ->
  parse_tlv (frame flag tc payload ++ rest) = Some (tc, payload, rest).
Proof.
  intros Hf Hl. unfold frame. destruct (255 <? len payload) eqn:E.
  - rewrite be2_eq. cbn [app parse_tlv].
    destruct (((flag + 16) / 16) mod 2 =? 1) eqn:E2; [|lia].
    assert (Hn : N.to_nat (len payload / 256 mod 256 * 256 + len payload mod 256) = length payload).
    { unfold len in *. lia. }
    rewrite Hn. unfold take, drop. rewrite firstn_app_exact, skipn_app_exact. reflexivity.
  - cbn [app parse_tlv].
    destruct ((flag / 16) mod 2 =? 1) eqn:E2; [lia|].
    assert (Hn : N.to_nat (len payload) = length payload) by (unfold len; lia).
    rewrite Hn. unfold take, drop. rewrite firstn_app_exact, skipn_app_exact. reflexivity.
Qed.

(** the 255-octet boundary, explicitly: 255 octets of value use the 1-octet form, 256 the 2-octet
    form with flag bit 0x10, and both are read back *)
Lemma frame_boundary flag tc payload :
  (len payload = 255 -> frame flag tc payload = flag :: tc :: 255 :: payload) /\
  (len payload = 256 -> frame flag tc payload = (flag + 16) :: tc :: 1 :: 0 :: payload).
Proof.
  unfold frame. split; intros ->; reflexivity.
Qed.

Lemma frame_nonempty flag tc payload : frame flag tc payload <> [].
Proof. unfold frame. destruct (255 <? len payload); discriminate. Qed.

(** ---- the stated ranges of one attribute ---- *)
Definition wf_attr (asn4 : bool) (kv : N * aval) : Prop :=
  let tc := fst kv in
  match snd kv with
  | VNum n => (tc = c_BGPTYPE_ORIGIN /\ n <= 2) \/
              ((tc = c_BGPTYPE_NEXT_HOP \/ tc = c_BGPTYPE_MULTI_EXIT_DISC \/ tc = c_BGPTYPE_LOCAL_PREF \/
                tc = c_BGPTYPE_ORIGINATOR_ID) /\ n < 4294967296)
  | VPath s => tc = c_BGPTYPE_AS_PATH /\ Forall (wf_segment asn4) s /\ len (enc_aspath asn4 s) <= 65535
  | VEmpty => tc = c_BGPTYPE_ATOMIC_AGGREGATE
  | VPair a b => tc = c_BGPTYPE_AGGREGATOR /\ a < asn_lim asn4 /\ b < 4294967296
  | VNums l => tc = c_BGPTYPE_CLUSTER_LIST /\ Forall (fun a => a < 4294967296) l /\ (length l <= 63)%nat
  | VComms l => tc = c_BGPTYPE_COMMUNITIES /\ Forall wf_comm l /\ (length l <= 63)%nat
  | VExts l => tc = c_BGPTYPE_EXTENDED_COMMUNITY /\ Forall wf_ext l /\ l <> [] /\ (length l <= 31)%nat
  | VLarge l => tc = c_BGPTYPE_LARGE_COMMUNITY /\ Forall wf_large l /\ l <> [] /\ (length l <= 21)%nat
  | VHex _ => False
  end.

Ltac eqb_consts :=
  repeat match goal with
         | |- context [?a =? ?b] =>
           let c := eval vm_compute in (a =? b) in
           lazymatch c with true => idtac | false => idtac end;
           change (a =? b) with c
         end; cbv iota.

Lemma flag_ok_64 : (64 / 16) mod 2 = 0. Proof. reflexivity. Qed.

Lemma attr_roundtrip asn4 tc v : wf_attr asn4 (tc, v) ->
  exists flag payload,
    construct_attr asn4 tc v = Ok (frame flag tc payload) /\
    (flag / 16) mod 2 = 0 /\ len payload <= 65535 /\
    parse_attr asn4 tc payload = Ok (canon_val v).
Proof.
  unfold wf_attr. cbn [fst snd]. destruct v as [n|s| |a b|l|l|l|l|b].
  - intros [(-> & Hn) | ([-> | [-> | [-> | ->]]] & Hn)].
    + destruct (origin_roundtrip n Hn) as (E1 & E2).
      exists c_ATTR_Origin_FLAG, [n]. unfold construct_attr, parse_attr. eqb_consts.
      rewrite E1, E2. repeat split; vm_compute; congruence.
    + destruct (nexthop_roundtrip n Hn) as (E1 & E2).
      exists c_ATTR_NextHop_FLAG, (be 4 n). unfold construct_attr, parse_attr. eqb_consts.
      rewrite E1, E2. repeat split; rewrite ?len_be4; try reflexivity; lia.
    + destruct (u32_roundtrip c_ATTR_MED_FLAG c_ATTR_MED_ID n Hn) as (E1 & E2).
      exists c_ATTR_MED_FLAG, (be 4 n). unfold construct_attr, parse_attr, construct_med. eqb_consts.
      rewrite E1, E2. repeat split; rewrite ?len_be4; try reflexivity; lia.
    + destruct (u32_roundtrip c_ATTR_LocalPreference_FLAG c_ATTR_LocalPreference_ID n Hn) as (E1 & E2).
      exists c_ATTR_LocalPreference_FLAG, (be 4 n).
      unfold construct_attr, parse_attr, construct_localpref. eqb_consts.
      rewrite E1, E2. repeat split; rewrite ?len_be4; try reflexivity; lia.
    + destruct (originator_roundtrip n Hn) as (E1 & E2).
      exists c_ATTR_OriginatorID_FLAG, (be 4 n). unfold construct_attr, parse_attr. eqb_consts.
      rewrite E1, E2. repeat split; rewrite ?len_be4; try reflexivity; lia.
  - intros (-> & Hs & Hl). destruct (aspath_roundtrip asn4 s Hs Hl) as (E1 & E2).
    exists c_ATTR_ASPath_FLAG, (enc_aspath asn4 s). unfold construct_attr, parse_attr. eqb_consts.
    rewrite E1, E2. repeat split; try reflexivity; exact Hl.
  - intros ->. destruct atomic_roundtrip as (E1 & E2).
    exists c_ATTR_AtomicAggregate_FLAG, []. unfold construct_attr, parse_attr. eqb_consts.
    rewrite E1, E2. repeat split; vm_compute; congruence.
  - intros (-> & Ha & Hb). destruct (aggregator_roundtrip asn4 a b Ha Hb) as (E1 & E2).
    exists c_ATTR_Aggregator_FLAG, (be (asn_size asn4) a ++ be 4 b).
    unfold construct_attr, parse_attr. eqb_consts.
    rewrite E1, E2. repeat split; try reflexivity.
    rewrite len_app2, !len_be. destruct asn4; cbn; lia.
  - intros (-> & Hl & Hn).
    assert (Hlen : len (concat (map (be 4) l)) <= 255).
    { unfold len. rewrite length_concat_be. lia. }
    destruct (clusterlist_roundtrip l Hl Hlen) as (E1 & E2).
    exists c_ATTR_ClusterList_FLAG, (concat (map (be 4) l)). unfold construct_attr, parse_attr. eqb_consts.
    rewrite E1, E2. repeat split; try reflexivity. lia.
  - intros (-> & Hl & Hn).
    assert (Hlen : len (enc_comms l) <= 255).
    { unfold len, enc_comms. rewrite length_concat_map_be. lia. }
    destruct (community_roundtrip l Hl Hlen) as (E1 & E2).
    exists c_ATTR_Community_FLAG, (enc_comms l). unfold construct_attr, parse_attr. eqb_consts.
    rewrite E1, E2. repeat split; try reflexivity. lia.
  - intros (-> & Hl & Hne & Hn).
    destruct (extcommunity_roundtrip l Hl Hne Hn) as (raw & E1 & Hlen & E2).
    exists c_ATTR_ExtCommunity_FLAG, raw. unfold construct_attr, parse_attr. eqb_consts.
    rewrite E1, E2. repeat split; try reflexivity. lia.
  - intros (-> & Hl & Hne & Hn).
    assert (Hlen : len (enc_large l) <= 255).
    { unfold len. rewrite enc_large_flat, length_concat_be, length_concat3 by exact Hl. lia. }
    destruct (largecommunity_roundtrip l Hl Hne Hlen) as (E1 & E2).
    exists c_ATTR_LargeCommunity_FLAG, (enc_large l). unfold construct_attr, parse_attr. eqb_consts.
    rewrite E1, E2. repeat split; try reflexivity. lia.
  - intros [].
Qed.

(** ---- the attribute list ---- *)
Lemma dict_set_fresh k v d : ~ In k (map fst d) -> dict_set k v d = d ++ [(k, v)].
Proof.
  induction d as [|[k' v'] d IH]; intros H; [reflexivity|].
  cbn [dict_set map fst In] in *. destruct (k' =? k) eqn:E.
  - apply N.eqb_eq in E. exfalso. apply H. left. exact E.
  - rewrite IH by (intro; apply H; right; assumption). reflexivity.
Qed.

Lemma parse_attrs_f_nil fuel asn4 acc : parse_attrs_f fuel asn4 acc [] = (acc, None).
Proof. destruct fuel; reflexivity. Qed.

Lemma parse_attrs_f_step fuel asn4 acc d tc v rest a :
  d <> [] -> parse_tlv d = Some (tc, v, rest) -> parse_attr asn4 tc v = Ok a ->
  parse_attrs_f (S fuel) asn4 acc d = parse_attrs_f fuel asn4 (dict_set tc a acc) rest.
Proof.
  intros Hd H1 H2. destruct d; [congruence|]. cbn [parse_attrs_f]. rewrite H1, H2. reflexivity.
Qed.

Definition canon_attrs (l : list (N * aval)) : list (N * aval) :=
  map (fun kv => (fst kv, canon_val (snd kv))) l.

(** attribute-list framing: any list of in-range attributes with distinct type codes, any mix
    of 1- and 2-octet length forms, decodes to the same list in the decoder's form *)
Lemma attrs_roundtrip asn4 l : Forall (wf_attr asn4) l -> NoDup (map fst l) ->
  exists raw, construct_attributes asn4 l = Ok raw /\ (l <> [] -> raw <> []) /\
    forall acc fuel, (forall k, In k (map fst acc) -> ~ In k (map fst l)) -> (length raw <= fuel)%nat ->
      parse_attrs_f fuel asn4 acc raw = (acc ++ canon_attrs l, None).
Proof.
  intros H. induction H as [|[tc v] l Hx H IH]; intros Hnd.
  - exists []. split; [reflexivity|]. split; [congruence|]. intros acc fuel _ _.
    rewrite parse_attrs_f_nil. cbn. rewrite app_nil_r. reflexivity.
  - cbn [map fst] in Hnd. inversion Hnd as [|? ? Hnotin Hnd']; subst.
    destruct (IH Hnd') as (raw & E1 & _ & E2).
    destruct (attr_roundtrip asn4 tc v Hx) as (flag & payload & C1 & C2 & C3 & C4).
    exists (frame flag tc payload ++ raw). cbn [construct_attributes bind]. rewrite C1, E1. cbn [bind].
    split; [reflexivity|]. split.
    { intros _ Hc. apply app_eq_nil in Hc. destruct Hc as (Hc & _). exact (frame_nonempty _ _ _ Hc). }
    intros acc fuel Hacc Hfuel.
    assert (Hl : (1 <= length (frame flag tc payload))%nat).
    { pose proof (frame_nonempty flag tc payload). destruct (frame flag tc payload); [congruence | cbn; lia]. }
    rewrite app_length in Hfuel. destruct fuel as [|fuel]; [lia|].
    rewrite (parse_attrs_f_step fuel asn4 acc _ tc payload raw (canon_val v)).
    + rewrite dict_set_fresh.
      * rewrite E2.
        -- rewrite <- app_assoc. reflexivity.
        -- intros k Hk. rewrite map_app, in_app_iff in Hk. cbn [map fst In] in Hk.
           destruct Hk as [Hk | [<- | []]].
           ++ intro Hin. apply (Hacc k Hk). cbn [map fst In]. right. exact Hin.
           ++ exact Hnotin.
        -- lia.
      * intro Hin. apply (Hacc tc Hin). cbn [map fst In]. left. reflexivity.
    + intro Hc. apply app_eq_nil in Hc. destruct Hc as (Hc & _). exact (frame_nonempty _ _ _ Hc).
    + apply parse_tlv_frame; assumption.
    + exact C4.
Qed.

Lemma parse_attributes_roundtrip asn4 l raw :
  Forall (wf_attr asn4) l -> NoDup (map fst l) -> construct_attributes asn4 l = Ok raw ->
  parse_attributes asn4 raw = (canon_attrs l, None).
Proof.
  intros H Hnd E. destruct (attrs_roundtrip asn4 l H Hnd) as (raw' & E1 & _ & E2).
  rewrite E in E1. inversion E1; subst raw'. unfold parse_attributes.
  rewrite E2; [reflexivity | intros k [] | lia].
Qed.

(** ---- the message ---- *)
Lemma slice_skip (a b : bytes) i j : length a = i -> slice i j (a ++ b) = firstn (j - i) b.
Proof. intros <-. unfold slice. rewrite skipn_app_exact. reflexivity. Qed.

Lemma body_slices wd ad nd : len wd <= 65535 -> len ad <= 65535 ->
  let b := construct_body wd ad nd in
  let wl := N.to_nat (unbe (take 2 b)) in
  length (take 2 b) = 2%nat /\ wl = length wd /\
  slice 2 (wl + 2) b = wd /\
  slice (wl + 2) (wl + 4) b = be 2 (len ad) /\
  slice (wl + 4) (wl + 4 + length ad) b = ad /\
  drop (wl + 4 + length ad) b = nd.
Proof.
  intros Hw Ha. cbv zeta. unfold construct_body.
  assert (T : take 2 (be 2 (len wd) ++ wd ++ be 2 (len ad) ++ ad ++ nd) = be 2 (len wd)).
  { unfold take. apply firstn_app_exact'. rewrite length_be. reflexivity. }
  rewrite T. rewrite unbe_be2 by lia.
  assert (W : N.to_nat (len wd) = length wd) by (unfold len; lia). rewrite W.
  split; [apply length_be|]. split; [reflexivity|]. split; [|split; [|split]].
  - rewrite slice_skip by apply length_be.
    replace (length wd + 2 - 2)%nat with (length wd) by lia. apply firstn_app_exact.
  - rewrite (app_assoc (be 2 (len wd))).
    rewrite slice_skip by (rewrite app_length, length_be; lia).
    replace (length wd + 4 - (length wd + 2))%nat with 2%nat by lia.
    apply firstn_app_exact'. rewrite length_be. reflexivity.
  - rewrite (app_assoc (be 2 (len wd))), (app_assoc (be 2 (len wd) ++ wd)).
    rewrite slice_skip by (rewrite !app_length, !length_be; lia).
    replace (length wd + 4 + length ad - (length wd + 4))%nat with (length ad) by lia.
    apply firstn_app_exact.
  - rewrite (app_assoc (be 2 (len wd))), (app_assoc (be 2 (len wd) ++ wd)),
      (app_assoc ((be 2 (len wd) ++ wd) ++ be 2 (len ad))).
    unfold drop. apply skipn_app_exact'. rewrite !app_length, !length_be. lia.
Qed.

Lemma parse_full_body asn4 wd ad nd w n a :
  len wd <= 65535 -> len ad <= 65535 ->
  parse_prefix_list wd = Ok w -> parse_prefix_list nd = Ok n -> parse_attributes asn4 ad = (a, None) ->
  parse_full asn4 (construct_body wd ad nd) = Ok (mkParsed w a n None).
Proof.
  intros Hw Ha Pw Pn Pa.
  destruct (body_slices wd ad nd Hw Ha) as (B1 & B2 & B3 & B4 & B5 & B6).
  unfold parse_full. rewrite B1. cbn [Nat.eqb].
  rewrite B3, B4, length_be. cbn [Nat.eqb].
  rewrite unbe_be2 by lia.
  assert (A : N.to_nat (len ad) = length ad) by (unfold len; lia). rewrite A.
  rewrite B5, B6, Pw, Pn, Pa. reflexivity.
Qed.

(** sizes, by reference to the encoders of the model *)
Definition pfx_size (ps : list pfx) : N := fold_right (fun p s => len (enc_prefix p) + s) 0 ps.
Definition attr_size (asn4 : bool) (kv : N * aval) : N :=
  match construct_attr asn4 (fst kv) (snd kv) with Ok b => len b | _ => 0 end.
Definition attrs_size (asn4 : bool) (l : list (N * aval)) : N :=
  fold_right (fun kv s => attr_size asn4 kv + s) 0 l.
(** header 19 + the two length fields 4 + the three parts *)
Definition upd_size (asn4 : bool) (m : upd) : N :=
  23 + pfx_size (u_withdraw m) + attrs_size asn4 (u_attrs m) + pfx_size (u_nlri m).

Lemma len_concat_prefixes ps : len (concat (map enc_prefix ps)) = pfx_size ps.
Proof.
  induction ps as [|p ps IH]; [reflexivity|]. cbn [map concat pfx_size fold_right].
  rewrite len_app2, IH. reflexivity.
Qed.

Lemma len_construct_attributes asn4 l raw :
  construct_attributes asn4 l = Ok raw -> len raw = attrs_size asn4 l.
Proof.
  revert raw. induction l as [|[tc v] l IH]; intros raw E.
  - cbn in E. inversion E. reflexivity.
  - cbn [construct_attributes] in E. unfold bind in E.
    destruct (construct_attr asn4 tc v) as [a| |] eqn:E1; try discriminate.
    destruct (construct_attributes asn4 l) as [b| |] eqn:E2; try discriminate.
    inversion E; subst raw. cbn [attrs_size fold_right]. unfold attr_size. cbn [fst snd].
    rewrite E1, len_app2, (IH b eq_refl). reflexivity.
Qed.

(** the stated ranges: every prefix has length <= 32, a 32-bit address and zero host bits; every
    attribute is one of the twelve with in-range fields ([wf_attr]), at most one per type code;
    announced prefixes come with attributes; there is something to send; the message fits 4096 octets *)
Definition wf (asn4 : bool) (m : upd) : Prop :=
  Forall wf_pfx (u_withdraw m) /\ Forall wf_pfx (u_nlri m) /\
  Forall (wf_attr asn4) (u_attrs m) /\ NoDup (map fst (u_attrs m)) /\
  (u_nlri m = [] \/ u_attrs m <> []) /\ (u_attrs m <> [] \/ u_withdraw m <> []) /\
  upd_size asn4 m <= c_MAX_LEN.

Lemma update_roundtrip asn4 m : wf asn4 m ->
  exists body,
    construct asn4 m = Ok (Some (marker16 ++ be 2 (len body + 19) ++ [c_MSG_UPDATE] ++ body)) /\
    unframe (marker16 ++ be 2 (len body + 19) ++ [c_MSG_UPDATE] ++ body) = Some (c_MSG_UPDATE, body) /\
    len body + 19 <= c_MAX_LEN /\
    parse asn4 body = Ok (canon m).
Proof.
  destruct m as [wds ats nls]. unfold wf. cbn [u_withdraw u_attrs u_nlri].
  intros (Hw & Hn & Ha & Hnd & Hna & Hsome & Hsize).
  destruct (attrs_roundtrip asn4 ats Ha Hnd) as (ad & A1 & A2 & _).
  pose proof (parse_attributes_roundtrip asn4 ats ad Ha Hnd A1) as A3.
  pose proof (construct_prefix_v4_ok wds Hw) as W1.
  pose proof (construct_prefix_v4_ok nls Hn) as N1.
  set (wd := concat (map enc_prefix wds)) in *.
  set (nd := concat (map enc_prefix nls)) in *.
  assert (Lw : len wd = pfx_size wds) by apply len_concat_prefixes.
  assert (Ln : len nd = pfx_size nls) by apply len_concat_prefixes.
  pose proof (len_construct_attributes asn4 ats ad A1) as La.
  unfold upd_size in Hsize. cbn [u_withdraw u_attrs u_nlri] in Hsize.
  assert (Hmax : c_MAX_LEN = 4096) by reflexivity.
  assert (Lb : len (construct_body wd ad nd) = 4 + len wd + len ad + len nd).
  { unfold construct_body. rewrite !len_app2, !len_be. lia. }
  exists (construct_body wd ad nd).
  assert (C : construct asn4 (mkUpd wds ats nls) =
              bind (header c_MSG_UPDATE (construct_body wd ad nd)) (fun b => Ok (Some b))).
  { unfold construct. cbn [u_withdraw u_attrs u_nlri].
    rewrite A1, N1, W1.
    cbn [bind]. destruct ad as [|x ad'].
    - assert (ats = []) by (destruct ats; [reflexivity | exfalso; apply A2; congruence]).
      subst ats. destruct Hna as [-> | Hc]; [|congruence].
      destruct Hsome as [Hc | Hwne]; [congruence|].
      subst nd. cbn [map concat].
      destruct wd as [|y wd'] eqn:Ewd.
      + exfalso. destruct wds as [|p wds']; [congruence|]. subst wd.
        cbn [map concat] in Ewd. apply app_eq_nil in Ewd. destruct Ewd as (Ewd & _).
        exact (enc_prefix_nonempty p Ewd).
      + destruct (65535 <? len (y :: wd')) eqn:E; [lia | reflexivity].
    - destruct ((65535 <? len wd) || (65535 <? len (x :: ad'))) eqn:E; [lia | reflexivity]. }
  rewrite C. rewrite header_ok by lia. cbn [bind].
  split; [reflexivity|]. split; [apply unframe_framed; lia|]. split; [lia|].
  unfold parse.
  rewrite (parse_full_body asn4 wd ad nd wds nls (canon_attrs ats)).
  - reflexivity.
  - lia.
  - lia.
  - apply parse_prefix_list_enc. exact Hw.
  - apply parse_prefix_list_enc. exact Hn.
  - exact A3.
Qed.

(** ---- kept as the code has it: announced prefixes without any attribute are not sent ---- *)
(** the stated ranges without the side condition "announced prefixes come with attributes" *)
Definition in_ranges (asn4 : bool) (m : upd) : Prop :=
  Forall wf_pfx (u_withdraw m) /\ Forall wf_pfx (u_nlri m) /\
  Forall (wf_attr asn4) (u_attrs m) /\ NoDup (map fst (u_attrs m)) /\
  upd_size asn4 m <= c_MAX_LEN.

Definition nlri_only : upd := mkUpd [] [] [(167772160, 8)].
Definition nlri_and_withdraw_only : upd := mkUpd [(184549376, 8)] [] [(167772160, 8)].

Lemma in_ranges_prefix_only w n :
  Forall wf_pfx w -> Forall wf_pfx n -> 23 + pfx_size w + pfx_size n <= c_MAX_LEN ->
  in_ranges false (mkUpd w [] n).
Proof.
  intros Hw Hn Hs. unfold in_ranges, upd_size. cbn [u_withdraw u_attrs u_nlri attrs_size fold_right map].
  repeat split; try assumption; try constructor. lia.
Qed.

Lemma nlri_without_attributes_refuted :
  (in_ranges false nlri_only /\ u_nlri nlri_only <> [] /\ construct false nlri_only = Ok None) /\
  (in_ranges false nlri_and_withdraw_only /\ u_nlri nlri_and_withdraw_only <> [] /\
   exists body, construct false nlri_and_withdraw_only =
                  Ok (Some (marker16 ++ be 2 (len body + 19) ++ [c_MSG_UPDATE] ++ body)) /\
                parse false body = Ok (mkUpd [(184549376, 8)] [] [])).
Proof.
  assert (P1 : wf_pfx (167772160, 8)) by (repeat split; vm_compute; congruence).
  assert (P2 : wf_pfx (184549376, 8)) by (repeat split; vm_compute; congruence).
  split; [split; [|split]|split; [|split]].
  - apply in_ranges_prefix_only; [apply Forall_nil | apply Forall_cons; [exact P1 | apply Forall_nil] | vm_compute; congruence].
  - discriminate.
  - vm_compute. reflexivity.
  - apply in_ranges_prefix_only; [apply Forall_cons; [exact P2 | apply Forall_nil] | apply Forall_cons; [exact P1 | apply Forall_nil] | vm_compute; congruence].
  - discriminate.
  - exists [0; 2; 8; 11; 0; 0]. split; vm_compute; reflexivity.
Qed.

Lemma wf_iff_in_ranges asn4 m :
  wf asn4 m <-> in_ranges asn4 m /\ (u_nlri m = [] \/ u_attrs m <> []) /\ (u_attrs m <> [] \/ u_withdraw m <> []).
Proof. unfold wf, in_ranges. tauto. Qed.

Lemma prefix_addpath_roundtrip ps : Forall wf_apfx ps ->
  construct_prefix_v4_ap ps = Ok (concat (map enc_aprefix ps)) /\
  parse_prefix_list_ap (concat (map enc_aprefix ps)) = Ok ps.
Proof. intros H. split; [exact (construct_prefix_v4_ap_ok ps H) | exact (parse_prefix_list_ap_enc ps H)]. Qed.
