(** Octet-string lemmas shared by the C07 family proofs (prefix truncation / zero padding,
    slices of concatenations). *)
From YV Require Import lib.Base.
From Coq Require Import ZArith ZifyBool ZifyNat ZifyN.

Lemma firstn_app_len {A} (a b : list A) n : length a = n -> firstn n (a ++ b) = a.
Proof. intros <-. rewrite firstn_app, Nat.sub_diag, firstn_all. cbn. apply app_nil_r. Qed.

Lemma skipn_app_len {A} (a b : list A) n : length a = n -> skipn n (a ++ b) = b.
Proof. intros <-. rewrite skipn_app, Nat.sub_diag, skipn_all. reflexivity. Qed.

Lemma slice_app_mid (a m b : bytes) i j :
  length a = i -> (j = i + length m)%nat -> slice i j (a ++ m ++ b) = m.
Proof.
  intros Ha ->. unfold slice. rewrite skipn_app_len by assumption.
  apply firstn_app_len. lia.
Qed.

Lemma len_app a b : len (a ++ b) = len a + len b.
Proof. unfold len. rewrite app_length. lia. Qed.

Lemma len_be k n : len (be k n) = N.of_nat k.
Proof. unfold len. rewrite length_be. reflexivity. Qed.

Lemma pow256_pos k : 256 ^ k <> 0.
Proof. apply N.pow_nonzero. discriminate. Qed.

Lemma pow256_S k : 256 ^ N.of_nat (S k) = 256 * 256 ^ N.of_nat k.
Proof. rewrite Nnat.Nat2N.inj_succ, N.pow_succ_r'. reflexivity. Qed.

(** the first k octets of an n-octet big-endian field are the field of the value shifted down *)
Lemma firstn_be n : forall k a, (k <= n)%nat ->
  firstn k (be n a) = be k (a / 256 ^ N.of_nat (n - k)).
Proof.
  induction n as [|n IH]; intros k a Hk.
  - assert (k = 0)%nat by lia. subst. reflexivity.
  - destruct k as [|k]; [reflexivity|].
    cbn [be firstn]. rewrite IH by lia.
    replace (S n - S k)%nat with (n - k)%nat by lia.
    f_equal. rewrite N.div_div by apply pow256_pos.
    rewrite <- N.pow_add_r.
    replace (N.of_nat (n - k) + N.of_nat k) with (N.of_nat n) by lia. reflexivity.
Qed.

Lemma unbe_acc_zeros j : forall acc, unbe_acc acc (repeat 0 j) = acc * 256 ^ N.of_nat j.
Proof.
  induction j as [|j IH]; intros acc.
  - cbn. lia.
  - cbn [repeat unbe_acc]. rewrite IH, pow256_S. lia.
Qed.

Lemma unbe_app_zeros x j : unbe (x ++ repeat 0 j) = unbe x * 256 ^ N.of_nat j.
Proof. unfold unbe. rewrite unbe_acc_app, unbe_acc_zeros. reflexivity. Qed.

(** truncation to k octets followed by zero padding is the identity on values whose dropped octets are 0 *)
Lemma unbe_take_pad n k a : (k <= n)%nat -> a < 256 ^ N.of_nat n ->
  a mod 256 ^ N.of_nat (n - k) = 0 ->
  unbe (firstn k (be n a) ++ repeat 0 (n - k)) = a.
Proof.
  intros Hk Ha Hm. rewrite unbe_app_zeros, firstn_be by assumption.
  set (p := 256 ^ N.of_nat (n - k)) in *.
  assert (Hp : p <> 0) by apply pow256_pos.
  rewrite unbe_be.
  - pose proof (N.div_mod a p Hp). lia.
  - apply N.div_lt_upper_bound; [assumption|].
    unfold p. rewrite <- N.pow_add_r. replace (N.of_nat (n - k) + N.of_nat k) with (N.of_nat n) by lia.
    assumption.
Qed.

Lemma mod_pow2_le a m j : j <= m -> a mod 2 ^ m = 0 -> a mod 2 ^ j = 0.
Proof.
  intros Hj Hm.
  apply N.mod_divide; [apply N.pow_nonzero; discriminate|].
  apply N.mod_divide in Hm; [|apply N.pow_nonzero; discriminate].
  eapply N.divide_trans; [|exact Hm].
  exists (2 ^ (m - j)). rewrite <- N.pow_add_r. f_equal. lia.
Qed.

Lemma pow256_pow2 k : 256 ^ k = 2 ^ (8 * k).
Proof. rewrite N.pow_mul_r. reflexivity. Qed.

Lemma unbe_lt (b : bytes) : wf_bytes b -> unbe b < 256 ^ len b.
Proof.
  unfold unbe, len.
  assert (G : forall b acc, wf_bytes b -> unbe_acc acc b < (acc + 1) * 256 ^ N.of_nat (length b)).
  { clear b. induction b as [|x b IH]; intros acc Hw.
    - cbn. lia.
    - inversion Hw; subst. cbn [unbe_acc length]. rewrite pow256_S.
      specialize (IH (acc * 256 + x) H2).
      assert (256 ^ N.of_nat (length b) <> 0) by apply pow256_pos.
      nia. }
  intros Hw. specialize (G b 0 Hw). lia.
Qed.
