(** C13: operator stop is final until operator start; C12: writes go to the tracked connection. *)
From YV Require Import lib.Base model.YWorld model.YProto gen.Consts gen.FsmGen model.YFraming
  model.YSession proof.SessionPres proof.SessionInv proof.SessionSym proof.SessionFraming.
From Coq Require Import Arith PeanoNat.

(** ---- timers: a live delayed call implies status = True (so "cancel if status" cancels it) ---- *)
Definition tm_wf (t : timer) : Prop := t_dl t <> None -> t_status t = true.
Definition timers_wf (w : world) : Prop :=
  tm_wf (w_tcr w) /\ tm_wf (w_th w) /\ tm_wf (w_tka w) /\ tm_wf (w_tdo w) /\ tm_wf (w_tih w).

Lemma timers_wf_frame w w' :
  w_tcr w' = w_tcr w -> w_th w' = w_th w -> w_tka w' = w_tka w -> w_tdo w' = w_tdo w -> w_tih w' = w_tih w ->
  timers_wf w -> timers_wf w'.
Proof. unfold timers_wf. intros -> -> -> -> ->. auto. Qed.
Lemma timers_wf_set_tm t v w : tm_wf v -> timers_wf w -> timers_wf (set_tm t v w).
Proof. intros Hv (a & b & c & d & e). destruct t; unfold timers_wf; cbn; repeat split; auto. Qed.
Lemma tm_wf_get t w : timers_wf w -> tm_wf (get_tm t w).
Proof. intros (a & b & c & d & e). destruct t; auto. Qed.
Lemma timers_wf_with_proto f w :
  (forall c w, timers_wf w -> timers_wf (f c w)) -> timers_wf w -> timers_wf (with_proto f w).
Proof. intros Hf H. unfold with_proto. destruct (w_proto w); auto. Qed.

Lemma timers_wf_prims : prims_ok timers_wf.
Proof.
  constructor.
  - intros s w H. unfold set_state. destruct (bst_eqb s (w_state w)); auto.
    destruct s; eapply timers_wf_frame; try exact H; reflexivity.
  - intros t d w _ H. unfold tm_reset. apply timers_wf_set_tm; auto. intros _. reflexivity.
  - intros t w H. unfold tm_cancel. apply timers_wf_set_tm; auto.
    pose proof (tm_wf_get t w H) as Hg. unfold cancel_timer. destruct (t_dl (get_tm t w)) eqn:E; auto.
    intros Hx. cbn in Hx. congruence.
  - intros t w H. unfold tm_active. cbn [snd]. apply timers_wf_set_tm; auto. intros _. reflexivity.
  - intros x w H; eapply timers_wf_frame; try exact H; reflexivity.
  - intros x w H; eapply timers_wf_frame; try exact H; reflexivity.
  - intros x w H; eapply timers_wf_frame; try exact H; reflexivity.
  - intros x w H; eapply timers_wf_frame; try exact H; reflexivity.
  - intros w H. apply timers_wf_with_proto; auto. intros c w' H'. unfold conn_send_open. cbv beta zeta.
    eapply timers_wf_frame; try exact H'; unfold conn_write, capability_negotiate;
      destruct (w_capr w'); cbn; repeat (match goal with |- context [if ?b then _ else _] => destruct b end); reflexivity.
  - intros w H. apply timers_wf_with_proto; auto. intros c w' H'. unfold conn_send_keepalive, conn_write.
    eapply timers_wf_frame; try exact H'; match goal with |- context [if ?b then _ else _] => destruct b end; reflexivity.
  - intros code s d w H. apply timers_wf_with_proto; auto. intros c w' H'. unfold conn_send_notification, conn_write.
    eapply timers_wf_frame; try exact H'; match goal with |- context [if ?b then _ else _] => destruct b end; reflexivity.
  - intros w H. apply timers_wf_with_proto; auto. intros c w' H'. unfold conn_close.
    eapply timers_wf_frame; try exact H';
      repeat (match goal with |- context [if ?b then _ else _] => destruct b end); reflexivity.
  - intros w H. unfold peering_connect.
    eapply timers_wf_frame; try exact H; match goal with |- context [if ?b then _ else _] => destruct b end; reflexivity.
Qed.

(** ---- the stopped state ---- *)
Definition quiet_conn (k : conn) : Prop :=
  c_st k <> CConnecting /\ (c_st k = CConnected -> c_closing k = true).
Definition no_timers (w : world) : Prop :=
  t_dl (w_tcr w) = None /\ t_dl (w_th w) = None /\ t_dl (w_tka w) = None /\
  t_dl (w_tdo w) = None /\ t_dl (w_tih w) = None.
Definition Stopped (w : world) : Prop :=
  w_auto w = false /\ w_state w = StIdle /\ no_timers w /\ Forall quiet_conn (w_conns w).

Definition silent_out (o : out) : Prop :=
  match o with OWrite _ _ | OConnect _ | OExc | OFuel => False | _ => True end.
Definition silent (l : list out) : Prop := Forall silent_out l.

Lemma Forall_upd_nth {A} (P : A -> Prop) f : (forall x, P x -> P (f x)) ->
  forall l c, Forall P l -> Forall P (upd_nth c f l).
Proof.
  intros Hf. induction l as [|x l IH]; intros c H; [destruct c; constructor|].
  inversion H; subst. destruct c; cbn; constructor; auto.
Qed.

Lemma quiet_closed k : quiet_conn k -> quiet_conn (set_c_st CClosed k).
Proof. intros _. split; cbn; congruence. Qed.
Lemma quiet_lose k : quiet_conn k -> quiet_conn (lose_conn k).
Proof. intros [H1 H2]. split; cbn; auto. Qed.

Lemma quiet_not_readable c w : Forall quiet_conn (w_conns w) ->
  conn_st_is c CConnected w && negb (c_closing (get_conn c w)) = false.
Proof.
  intros H. unfold conn_st_is, get_conn.
  destruct (nth_error (w_conns w) c) as [k|] eqn:E; auto.
  assert (Hn : nth c (w_conns w) conn0 = k) by (apply nth_error_nth; auto). rewrite Hn.
  apply nth_error_In in E. rewrite Forall_forall in H. destruct (H k E) as [H1 H2].
  destruct (c_st k); cbn; auto. rewrite H2; auto.
Qed.
Lemma quiet_not_connecting c w : Forall quiet_conn (w_conns w) -> conn_st_is c CConnecting w = false.
Proof.
  intros H. unfold conn_st_is.
  destruct (nth_error (w_conns w) c) as [k|] eqn:E; auto.
  apply nth_error_In in E. rewrite Forall_forall in H. destruct (H k E) as [H1 H2].
  destruct (c_st k); cbn; auto. congruence.
Qed.

Ltac stopped_start w :=
  intros (Ha & Hs & (T1 & T2 & T3 & T4 & T5) & Hq);
  destr_world w; cbn in *; subst.
Ltac stopped_done :=
  unfold Stopped, no_timers, silent; cbn;
  repeat match goal with
         | |- _ /\ _ => split
         | |- Forall silent_out (_ :: _) => constructor; [exact I|]
         | |- Forall silent_out [] => constructor
         | |- Forall quiet_conn (upd_nth _ _ _) => apply Forall_upd_nth; [|assumption]
         end; auto using quiet_closed, quiet_lose.

Section Stop.
Variable D : decoders.

Lemma Stopped_lost c w : Stopped w -> w_out w = [] ->
  Stopped (conn_lost c w) /\ silent (w_out (conn_lost c w)).
Proof.
  intros H Ho. revert H. stopped_start w. unfold conn_lost. cbv zeta.
  destruct (c_disc _); sym; stopped_done.
Qed.

Lemma Stopped_manual_stop w : Stopped w -> w_out w = [] ->
  Stopped (peering_manual_stop w) /\ silent (w_out (peering_manual_stop w)).
Proof.
  intros H Ho. revert H. stopped_start w. sym; stopped_done.
Qed.

Lemma Stopped_boot w : Stopped w -> w_out w = [] ->
  Stopped (peering_automatic_start false w) /\ silent (w_out (peering_automatic_start false w)).
Proof. intros H Ho. revert H. stopped_start w. sym; stopped_done. Qed.

(** after a manual stop, whatever happens (except a manual start): nothing is written, no
    connection is attempted, and the agent stays stopped *)
Lemma Stopped_step e w : Stopped w -> e <> EManualStart ->
  Stopped (step D w e) /\ silent (w_out (step D w e)).
Proof.
  intros H Hne. unfold step.
  assert (H0 : Stopped (set_w_out [] w)) by (destruct H as (a & b & (t1 & t2 & t3 & t4 & t5) & q); repeat split; auto).
  assert (Hsil : silent (w_out (set_w_out [] w))) by constructor.
  destruct (enabled w e) eqn:En; [|split; auto].
  destruct H as (Ha & Hs & (T1 & T2 & T3 & T4 & T5) & Hq).
  destruct e; cbn [do_event].
  - apply Stopped_boot; auto.
  - cbn in En. rewrite quiet_not_connecting in En; auto. discriminate.
  - cbn in En. rewrite quiet_not_connecting in En; auto. discriminate.
  - apply Stopped_lost; auto.
  - cbn in En. rewrite quiet_not_readable in En; auto. discriminate.
  - cbn in En. destruct t; cbn in En; rewrite ?T1, ?T2, ?T3, ?T4, ?T5 in En; discriminate.
  - split; auto; try (destruct H0 as (a & b & (t1 & t2 & t3 & t4 & t5) & q); repeat split; auto).
  - apply Stopped_manual_stop; auto.
  - congruence.
  - cbn in En. unfold st_is in En. rewrite Hs in En. discriminate.
  - cbn in En. unfold st_is in En. rewrite Hs in En. discriminate.
Qed.

Theorem silent_after_stop : forall es w,
  Stopped w -> ~ In EManualStart es ->
  Stopped (run D w es) /\ silent (run_outs D w es).
Proof.
  induction es as [|e es IH]; intros w H Hn; cbn [run fold_left run_outs]; [split; [auto|constructor]|].
  destruct (Stopped_step e w H) as [H1 H2]; [intros ->; apply Hn; left; reflexivity|].
  destruct (IH (step D w e) H1) as [H3 H4]; [intros Hi; apply Hn; right; exact Hi|].
  split; auto. unfold silent in *. apply Forall_app. split; auto.
  apply Forall_rev. exact H2.
Qed.
End Stop.

(** ---- what a manual stop does ---- *)
Lemma t_dl_cancel t : t_dl (cancel_timer t) = None.
Proof. unfold cancel_timer. destruct (t_dl t) eqn:E; auto. Qed.

Lemma stop_effects w : timers_wf w ->
  let w' := peering_manual_stop w in
  w_state w' = StIdle /\ w_auto w' = false /\ no_timers w' /\ w_crc w' = 0.
Proof.
  intros (H1 & H2 & H3 & H4 & H5). destr_world w. unfold tm_wf in *. cbn in *.
  destruct st; sym; unfold no_timers; cbn; repeat split; auto using t_dl_cancel;
    repeat match goal with
           | H : ?x <> None -> false = true |- ?x = None =>
               destruct x; [exfalso; specialize (H ltac:(discriminate)); discriminate | reflexivity]
           end.
Qed.

(** Established: Cease is written to the tracked connection, then it is closed *)
Lemma stop_cease c w : Good c w ->
  (w_state w = StOpenSent \/ w_state w = StOpenConfirm \/ w_state w = StEstablished) ->
  c_closing (get_conn c w) = false -> w_out w = [] ->
  w_out (peering_manual_stop w) = [OLose c; OWrite c (WNotif c_ERR_CEASE 0 [])].
Proof.
  intros [Hp Hc] Hs Hcl Ho.
  unfold peering_manual_stop, F_manual_stop, fsmU_manual_stop, fsm_manual_stop. cbv beta iota zeta.
  assert (Hin : st_in w [StOpenSent; StOpenConfirm; StEstablished] = true)
    by (unfold st_in; destruct Hs as [-> | [-> | ->]]; reflexivity).
  rewrite Hin. clear Hin.
  set (w1 := p_send_notification c_ERR_CEASE 0 [] w).
  assert (G1 : Good c w1) by (apply (ok_send_notif _ (Good_prims c)); split; auto).
  assert (O1 : w_out w1 = [OWrite c (WNotif c_ERR_CEASE 0 [])]).
  { unfold w1, p_send_notification, with_proto. rewrite Hp. unfold conn_send_notification, conn_write.
    rewrite connected_upd by auto with keeps. rewrite Hc. cbn. rewrite Ho. reflexivity. }
  assert (C1 : c_closing (get_conn c w1) = false).
  { unfold w1, p_send_notification, with_proto. rewrite Hp. unfold conn_send_notification, conn_write.
    rewrite connected_upd by auto with keeps. rewrite Hc.
    unfold get_conn, upd_conn, emit in *. cbn. rewrite nth_upd_nth.
    destruct (_ && _); cbn; auto. }
  clearbody w1. clear Hs Hcl Ho Hp Hc w.
  (* what follows only cancels timers, then closes and sets plain fields *)
  set (Q := fun w2 : world => Good c w2 /\ w_out w2 = w_out w1 /\ c_closing (get_conn c w2) = false).
  assert (Qc : forall t w2, Q w2 -> Q (tm_cancel t w2)).
  { intros t w2 (q1 & q2 & q3). split; [|split].
    - apply (ok_tm_cancel _ (Good_prims c)); auto.
    - rewrite <- q2. unfold tm_cancel. destruct t; reflexivity.
    - rewrite <- q3. unfold tm_cancel. destruct t; reflexivity. }
  assert (Gen : forall w2, Q w2 ->
            w_out (snd (true, set_state StIdle (set_w_auto false (set_w_crc 0 (fsm__close_connection w2))))) =
            [OLose c; OWrite c (WNotif c_ERR_CEASE 0 [])]).
  { intros w2 ([Gp Gc] & Go & Gcl). cbn [snd]. unfold fsm__close_connection. cbv beta iota zeta.
    rewrite Gp. cbn [is_some]. unfold p_close_connection, with_proto. rewrite Gp. unfold conn_close. rewrite Gc, Gcl.
    unfold set_state.
    match goal with |- context [bst_eqb ?a ?b] => destruct (bst_eqb a b) end; cbn; rewrite Go, O1; reflexivity. }
  assert (Q1 : Q w1) by (split; [|split]; auto).
  repeat match goal with
         | |- context [if tm_status ?t ?x then _ else _] => destruct (tm_status t x)
         end; apply Gen; auto 10.
Qed.

