(** C01: the generated FSM methods against the RFC 4271 profile (spec/RfcFsm.v). *)
From YV Require Import lib.Base model.YWorld model.YProto gen.Consts gen.FsmGen model.YFraming
  model.YSession spec.RfcFsm proof.SessionPres proof.SessionInv proof.SessionSym proof.SessionFraming
  proof.SessionC03 proof.SessionC05 proof.SessionC13.
From Coq Require Import Arith PeanoNat.

Definition rstate_of (s : bst) : rstate :=
  match s with
  | StIdle => RIdle | StConnect => RConnect | StActive => RActive
  | StOpenSent => ROpenSent | StOpenConfirm => ROpenConfirm | StEstablished => REstablished
  end.

(** the FSM method yabgp calls for each RFC event *)
Definition apply_ev (c : nat) (e : revent) (w : world) : world :=
  match e with
  | EvManualStart => peering_manual_start w
  | EvManualStop => peering_manual_stop w
  | EvIdleHoldExpires => F_idle_hold_time_event w
  | EvConnectRetryExpires => F_connect_retry_time_event w
  | EvHoldExpires => F_hold_time_event w
  | EvKeepaliveExpires => F_keep_alive_time_event w
  | EvTcpFails =>
      match w_state w with
      | StOpenSent | StOpenConfirm | StEstablished => conn_lost c w   (* connectionLost, not closed by us *)
      | _ => F_connection_failed w                                   (* clientConnectionFailed *)
      end
  | EvOpenOk => F_open_received w
  | EvHeaderErr sub => F_header_error sub [] w
  | EvOpenErr sub => F_open_message_error sub [] w
  | EvNotifVersion => F_notification_received c_ERR_MSG_OPEN 1 w
  | EvNotifOther => F_notification_received c_ERR_CEASE 2 w
  | EvKeepaliveMsg => F_keep_alive_received w
  | EvUpdateMsg => F_update_received w
  | EvRouteRefresh => w
  end.

Definition has_lose (l : list out) : bool := existsb (fun o => match o with OLose _ => true | _ => false end) l.
Definition has_connect (l : list out) : bool := existsb (fun o => match o with OConnect _ => true | _ => false end) l.
Definition sends_of (l : list out) : list N :=
  flat_map (fun o => match o with OWrite _ WKeepalive => [4] | OWrite _ (WOpen _ _ _ _) => [1] | _ => [] end) l.
Definition notif1 (l : list out) : option (N * N) :=
  match notif_of l with [] => None | x :: _ => Some x end.

(** what the model did, as a reaction; [None] when the world did not change at all *)
Definition observed (w w' : world) : reaction :=
  mkR (rstate_of (w_state w')) (notif1 (rev (w_out w'))) (has_lose (w_out w'))
      (sends_of (rev (w_out w'))) (has_connect (w_out w')) (is_some (t_dl (w_tih w'))).

Definition D0 : decoders := mkDec (fun _ => OpOk 65002 90 [(KAfiSafi, CVAfiSafi [(1, 1)])]) (fun _ _ => UpOk).
Definition cf0 : cfg := mkCfg 65001 65002 180 60 30 30 10 false 167772161.
Definition open_frame : bytes := repeat 255 16 ++ [0; 29; 1; 4; 0; 0; 0; 90; 10; 0; 0; 2; 0].
Definition ka_fr : bytes := repeat 255 16 ++ [0; 19; 4].
Definition sample (s : bst) : world :=
  let es :=
    match s with
    | StIdle => [EBoot; EConnOk 0; ELost 0]
    | StConnect | StActive => [EBoot; EConnOk 0; ELost 0; EFire TIdleHold]
    | StOpenSent => [EBoot; EConnOk 0]
    | StOpenConfirm => [EBoot; EConnOk 0; EData 0 open_frame]
    | StEstablished => [EBoot; EConnOk 0; EData 0 open_frame; EData 0 ka_fr]
    end in
  let w := set_w_out [] (run D0 (world0 cf0 []) es) in
  match s with StActive => set_w_state StActive w | _ => w end.

Definition all_states := [StIdle; StConnect; StActive; StOpenSent; StOpenConfirm; StEstablished].
Definition all_events := [EvManualStart; EvManualStop; EvIdleHoldExpires; EvConnectRetryExpires; EvHoldExpires;
  EvKeepaliveExpires; EvTcpFails; EvOpenOk; EvHeaderErr 1; EvOpenErr 2; EvNotifVersion; EvNotifOther;
  EvKeepaliveMsg; EvUpdateMsg; EvRouteRefresh].

Definition odl_eqb (a b : option N) : bool :=
  match a, b with None, None => true | Some x, Some y => x =? y | _, _ => false end.
Definition unchanged (w w' : world) : bool :=
  bst_eqb (w_state w) (w_state w') &&
  match w_out w' with [] => true | _ => false end &&
  odl_eqb (t_dl (w_tcr w)) (t_dl (w_tcr w')) && odl_eqb (t_dl (w_th w)) (t_dl (w_th w')) &&
  odl_eqb (t_dl (w_tka w)) (t_dl (w_tka w')) && odl_eqb (t_dl (w_tih w)) (t_dl (w_tih w')) &&
  Bool.eqb (w_auto w) (w_auto w').
Definition conforms (s : bst) (e : revent) (w w' : world) : bool :=
  match rfc_step (rstate_of s) e with
  | None => unchanged w w'
  | Some r => reaction_eqb (rstate_of s) r (observed w w')
  end.
Definition deviations_on_samples : list (bst * revent) :=
  flat_map (fun s => flat_map (fun e => if negb (applicable (rstate_of s) e) || conforms s e (sample s) (apply_ev 0 e (sample s)) then [] else [(s, e)])
                              all_events) all_states.

(** the cells in which yabgp departs from the profile (each one a known finding, see props/C01.v) *)
Definition deviation (s : bst) (e : revent) : bool :=
  match s, e with
  | StOpenSent, EvNotifOther => true                       (* closed without FSM-error NOTIFICATION *)
  | StEstablished, EvOpenErr _ => true                     (* (2,sub) instead of (5,0) *)
  | _, _ => false
  end.

Lemma deviations_exact :
  deviations_on_samples =
  [(StOpenSent, EvNotifOther); (StEstablished, EvOpenErr 2)].
Proof. vm_compute. reflexivity. Qed.

(** worlds of the single-connection regime in state s: the FSM tracks connection c; in a
    session state c is connected, not being closed and is the established protocol; otherwise
    c is the dead connection of the previous session *)
Definition wfw (c : nat) (s : bst) (w : world) : Prop :=
  w_state w = s /\ w_out w = [] /\ w_auto w = true /\ w_proto w = Some c /\ timers_wf w /\ t_dl (w_tdo w) = None /\
  match s with
  | StOpenSent | StOpenConfirm | StEstablished =>
      conn_connected c w = true /\ c_closing (get_conn c w) = false /\ c_disc (get_conn c w) = false /\
      t_dl (w_tih w) = None /\ w_estab w = Some c
  | _ => conn_connected c w = false
  end.

Lemma odl_eqb_refl o : odl_eqb o o = true.
Proof. destruct o; cbn; auto using N.eqb_refl. Qed.
Lemma bool_eqb_refl b : Bool.eqb b b = true. Proof. destruct b; reflexivity. Qed.
Ltac closed_eqb :=
  repeat match goal with
         | |- context [N.eqb ?a ?b] =>
             let v := eval vm_compute in (N.eqb a b) in
             lazymatch v with
             | true => change (N.eqb a b) with true
             | false => change (N.eqb a b) with false
             end
         end.
Ltac fin :=
  unfold unchanged, reaction_eqb, onn_eqb; cbn; rewrite ?t_dl_cancel_none; cbn;
  repeat (match goal with |- context [if ?b then _ else _] => destruct b eqn:? end; cbn);
  rewrite ?N.eqb_refl, ?odl_eqb_refl, ?bool_eqb_refl; cbn; try reflexivity;
  repeat match goal with
         | H : ?x <> None -> false = true |- _ =>
             destruct x; [exfalso; specialize (H ltac:(discriminate)); discriminate|clear H]
         end; cbn in *; try discriminate; try reflexivity.

Lemma conforms_session c s e w :
  (s = StOpenSent \/ s = StOpenConfirm \/ s = StEstablished) ->
  wfw c s w -> applicable (rstate_of s) e = true -> deviation s e = false ->
  conforms s e w (apply_ev c e w) = true.
Proof.
  intros Hs (H1 & H2 & H3 & H4 & (T1 & T2 & T3 & T4 & T5) & Hdo & H5).
  assert (H5' : conn_connected c w = true /\ c_closing (get_conn c w) = false /\ c_disc (get_conn c w) = false /\
                t_dl (w_tih w) = None /\ w_estab w = Some c)
    by (destruct Hs as [-> | [-> | ->]]; exact H5).
  clear H5. destruct H5' as (Hc & Hcl & Hdi & Hti & He).
  destr_world w. unfold get_conn, conn_connected, tm_wf in *. cbn in H1, H2, H3, H4, Hc, Hcl, Hdi, Hti, He, T1, T2, T3, T4, T5, Hdo. subst.
  destruct (nth_error conns c) as [k|] eqn:E; [|discriminate].
  assert (En : nth c conns conn0 = k) by (apply nth_error_nth; auto).
  assert (Hk : cst_eqb (c_st k) CConnected = true) by exact Hc.
  assert (Hlt : Nat.ltb c (length conns) = true) by (apply Nat.ltb_lt, nth_error_Some; congruence).
  rewrite En in Hcl, Hdi.
  intros Ha Hd.
  destruct Hs as [-> | [-> | ->]]; destruct e; cbn in Ha, Hd; try discriminate;
    unfold conforms, apply_ev, observed; cbn [rfc_step rstate_of err_close];
    unfold F_notification_received, fsmU_notification_received, fsm_notification_received; closed_eqb;
    sym_c; rewrite ?Hcl, ?Hdi in *; cbn in *; try discriminate; fin.
Qed.

Ltac sym_dead :=
  cbn;
  repeat (first [ match goal with E : nth_error _ _ = _ |- _ => rewrite E end
                | match goal with H : cst_eqb _ CConnected = false |- _ => rewrite H end
                | rewrite length_upd_nth
                | rewrite nth_error_upd_nth | rewrite nth_upd_nth | rewrite Nat.eqb_refl
                | progress unfold conn_connected, get_conn, upd_conn, conn_send_keepalive,
                    conn_send_notification, conn_write, conn_close, on_sent
                | stuck1 | unf1 ]; cbn).

Lemma conforms_idle_connect c s e w :
  (s = StIdle \/ s = StConnect) ->
  wfw c s w -> applicable (rstate_of s) e = true -> deviation s e = false ->
  conforms s e w (apply_ev c e w) = true.
Proof.
  intros Hs (H1 & H2 & H3 & H4 & (T1 & T2 & T3 & T4 & T5) & Hdo & H5).
  assert (Hc : conn_connected c w = false) by (destruct Hs as [-> | ->]; exact H5). clear H5.
  destr_world w. unfold conn_connected, tm_wf in *. cbn in H1, H2, H3, H4, Hc, T1, T2, T3, T4, T5, Hdo. subst.
  intros Ha Hd.
  destruct (nth_error conns c) as [k|] eqn:E;
    destruct Hs as [-> | ->]; destruct e; cbn in Ha, Hd; try discriminate;
    unfold conforms, apply_ev, observed; cbn [rfc_step rstate_of err_close];
    sym_dead; fin.
Qed.

(** C01, the conformance theorem: in every world of the single-connection regime, for every
    applicable (state, event) pair outside the listed departures, the reaction of the generated
    FSM method is the one the RFC profile prescribes (ignored events change nothing). *)
Theorem fsm_conforms : forall c s e w,
  s <> StActive -> wfw c s w -> applicable (rstate_of s) e = true -> deviation s e = false ->
  conforms s e w (apply_ev c e w) = true.
Proof.
  intros c s e w Hna Hw Ha Hd.
  destruct s; try congruence.
  - apply (conforms_idle_connect c); auto.
  - apply (conforms_idle_connect c); auto.
  - apply (conforms_session c); auto.
  - apply (conforms_session c); auto.
  - apply (conforms_session c); auto.
Qed.
