(** Symbolic execution of the session model on a world whose fields are variables. *)
From YV Require Import lib.Base model.YWorld model.YProto gen.Consts gen.FsmGen model.YSession.

Arguments N.add : simpl never.
Arguments N.mul : simpl never.
Arguments N.min : simpl never.
Arguments N.ltb : simpl never.
Arguments N.eqb : simpl never.
Arguments N.leb : simpl never.
Arguments secs : simpl never.
Arguments Nat.ltb : simpl never.
Arguments Nat.eqb : simpl never.

Ltac destr_world w :=
  destruct w as [cfg st hold ka3 crc auto proto [tcr_dl tcr_st] [th_dl th_st] [tka_dl tka_st]
                 [tdo_dl tdo_st] [tih_dl tih_st] conns estab status now capl capr out].

(** unfold ONE model definition (control flow only), outermost names first *)
Ltac unf1 :=
  match goal with
  | |- context [F_manual_stop] => unfold F_manual_stop
  | |- context [F_connect_retry_time_event] => unfold F_connect_retry_time_event
  | |- context [F_hold_time_event] => unfold F_hold_time_event
  | |- context [F_keep_alive_time_event] => unfold F_keep_alive_time_event
  | |- context [F_delay_open_time_event] => unfold F_delay_open_time_event
  | |- context [F_idle_hold_time_event] => unfold F_idle_hold_time_event
  | |- context [F_connection_made] => unfold F_connection_made
  | |- context [F_connection_failed] => unfold F_connection_failed
  | |- context [F_open_received] => unfold F_open_received
  | |- context [F_header_error] => unfold F_header_error
  | |- context [F_open_message_error] => unfold F_open_message_error
  | |- context [F_notification_received] => unfold F_notification_received
  | |- context [F_keep_alive_received] => unfold F_keep_alive_received
  | |- context [F_update_received] => unfold F_update_received
  | |- context [fsmU_manual_stop] => unfold fsmU_manual_stop
  | |- context [fsmU_connect_retry_time_event] => unfold fsmU_connect_retry_time_event
  | |- context [fsmU_hold_time_event] => unfold fsmU_hold_time_event
  | |- context [fsmU_keep_alive_time_event] => unfold fsmU_keep_alive_time_event
  | |- context [fsmU_delay_open_time_event] => unfold fsmU_delay_open_time_event
  | |- context [fsmU_idle_hold_time_event] => unfold fsmU_idle_hold_time_event
  | |- context [fsmU_connection_made] => unfold fsmU_connection_made
  | |- context [fsmU_connection_failed] => unfold fsmU_connection_failed
  | |- context [fsmU_open_received] => unfold fsmU_open_received
  | |- context [fsmU_header_error] => unfold fsmU_header_error
  | |- context [fsmU_open_message_error] => unfold fsmU_open_message_error
  | |- context [fsmU_notification_received] => unfold fsmU_notification_received
  | |- context [fsmU_keep_alive_received] => unfold fsmU_keep_alive_received
  | |- context [fsmU_update_received] => unfold fsmU_update_received
  | |- context [fsm_manual_start] => unfold fsm_manual_start
  | |- context [fsm__close_connection] => unfold fsm__close_connection
  | |- context [fsm_manual_stop] => unfold fsm_manual_stop
  | |- context [fsm_automatic_start] => unfold fsm_automatic_start
  | |- context [fsm__error_close] => unfold fsm__error_close
  | |- context [fsm_connect_retry_time_event] => unfold fsm_connect_retry_time_event
  | |- context [fsm_hold_time_event] => unfold fsm_hold_time_event
  | |- context [fsm_keep_alive_time_event] => unfold fsm_keep_alive_time_event
  | |- context [fsm_delay_open_time_event] => unfold fsm_delay_open_time_event
  | |- context [fsm_idle_hold_time_event] => unfold fsm_idle_hold_time_event
  | |- context [fsm_connection_made] => unfold fsm_connection_made
  | |- context [fsm_connection_failed] => unfold fsm_connection_failed
  | |- context [fsm_open_received] => unfold fsm_open_received
  | |- context [fsm_header_error] => unfold fsm_header_error
  | |- context [fsm_open_message_error] => unfold fsm_open_message_error
  | |- context [fsm_notimsg_version_error] => unfold fsm_notimsg_version_error
  | |- context [fsm_notification_received] => unfold fsm_notification_received
  | |- context [fsm_keep_alive_received] => unfold fsm_keep_alive_received
  | |- context [fsm_update_received] => unfold fsm_update_received
  | |- context [fsm_update_sent] => unfold fsm_update_sent
  | |- context [peering_automatic_start] => unfold peering_automatic_start
  | |- context [peering_connection_closed] => unfold peering_connection_closed
  | |- context [peering_connect_retry] => unfold peering_connect_retry
  | |- context [peering_manual_start] => unfold peering_manual_start
  | |- context [peering_manual_stop] => unfold peering_manual_stop
  | |- context [peering_connect] => unfold peering_connect
  | |- context [p_send_open] => unfold p_send_open
  | |- context [p_send_keepalive] => unfold p_send_keepalive
  | |- context [p_send_notification] => unfold p_send_notification
  | |- context [p_close_connection] => unfold p_close_connection
  | |- context [with_proto] => unfold with_proto
  | |- context [conn_made] => unfold conn_made
  | |- context [conn_failed] => unfold conn_failed
  | |- context [conn_lost] => unfold conn_lost
  | |- context [fire_timer] => unfold fire_timer
  | |- context [negotiate_hold_time] => unfold negotiate_hold_time
  | |- context [api_send_update] => unfold api_send_update
  | |- context [api_send_bin] => unfold api_send_bin
  | |- context [conn_send_open] => unfold conn_send_open
  | |- context [conn_send_keepalive] => unfold conn_send_keepalive
  | |- context [conn_send_notification] => unfold conn_send_notification
  | |- context [conn_close] => unfold conn_close
  | |- context [conn_write] => unfold conn_write
  | |- context [capability_negotiate] => unfold capability_negotiate
  end.

Ltac stuck1 :=
  match goal with
  | |- context [match ?x with _ => _ end] => is_var x; destruct x
  | |- context [if ?x then _ else _] => is_var x; destruct x
  | |- context [if Nat.eqb ?a ?b then _ else _] => destruct (Nat.eqb a b) eqn:?
  | |- context [if conn_connected ?a ?b then _ else _] => destruct (conn_connected a b) eqn:?
  | |- context [if c_closing ?a then _ else _] => destruct (c_closing a) eqn:?
  | |- context [if c_disc ?a then _ else _] => destruct (c_disc a) eqn:?
  end.

Ltac sym := cbn; repeat (first [stuck1 | unf1]; cbn).
