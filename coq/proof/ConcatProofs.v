(** C15, part 1 - the list decoders of an UPDATE (model/YPrefix4.v, YAttr.v, YUpdate.v) and of an
    OPEN (model/YOpen.v) are compositional.

    Form of the statements.  [a] ranges over ALL byte strings that are a sequence of whole
    elements ([seq_of elem a]: [a] is a concatenation of strings satisfying the element predicate
    of the kind - a length octet followed by exactly the announced number of octets, and the like;
    for the fixed-width kinds simply "the length is a multiple of the width"); [b] ranges over ALL
    byte strings (whole or not, valid or not).  Then
        dec (a ++ b) = dec a (+) dec b
    where (+) appends the decoded lists and propagates the error of [dec b].  This is stronger than
    both "a = concat (map enc l)" (it covers non-canonical encodings: host bits set, any flags)
    and "dec a = Ok l" (which for the prefix decoders does NOT imply that [a] ends at an element
    boundary: Python slices clamp, so a truncated last prefix still decodes). *)
From YV Require Import lib.Base gen.Consts model.YMsg model.YPrefix4 model.YAttr model.YUpdate model.YOpen.
From YV Require Import proof.UpdateProofsPrefix proof.OpenProofs.
From Coq Require Import ZArith Lia ZifyBool ZifyNat ZifyN Permutation.
Ltac Zify.zify_post_hook ::= Z.to_euclidean_division_equations.

(** ------------------------------------------------------------------------------------ *)
(** * sequences of whole elements, append on results *)
Inductive seq_of (P : bytes -> Prop) : bytes -> Prop :=
| seq_nil : seq_of P []
| seq_cons e a : P e -> seq_of P a -> seq_of P (e ++ a).

Lemma seq_of_app P a b : seq_of P a -> seq_of P b -> seq_of P (a ++ b).
Proof. induction 1; intros Hb; cbn; auto. rewrite <- app_assoc. constructor; auto. Qed.

Lemma seq_of_concat P es : Forall P es -> seq_of P (concat es).
Proof. induction 1; cbn; constructor; auto. Qed.

Lemma seq_of_impl (P Q : bytes -> Prop) a : (forall e, P e -> Q e) -> seq_of P a -> seq_of Q a.
Proof. intros H. induction 1; constructor; auto. Qed.

Definition app_res {A} (r1 r2 : res (list A)) : res (list A) :=
  match r1 with
  | Ok l1 => match r2 with Ok l2 => Ok (l1 ++ l2) | Err c s => Err c s | PyExc => PyExc end
  | Err c s => Err c s
  | PyExc => PyExc
  end.

Lemma app_res_nil {A} (r : res (list A)) : app_res (Ok []) r = r.
Proof. destruct r; reflexivity. Qed.

Definition cons_res {A} (x : A) (r : res (list A)) : res (list A) :=
  match r with Ok l => Ok (x :: l) | Err c s => Err c s | PyExc => PyExc end.

Lemma app_res_cons {A} (x : A) r1 r2 : app_res (cons_res x r1) r2 = cons_res x (app_res r1 r2).
Proof. destruct r1 as [l1| |]; destruct r2 as [l2| |]; reflexivity. Qed.

(** ------------------------------------------------------------------------------------ *)
(** * the generic loop [walk] of YPrefix4 *)
Section WalkConcat.
  Context {A : Type} (step : bytes -> res (A * bytes)).
  Hypothesis progress : forall d x r, step d = Ok (x, r) -> (length r < length d)%nat.

  Lemma walk_S fuel d : d <> [] ->
    walk step (S fuel) d =
    match step d with
    | Ok (x, rest) => cons_res x (walk step fuel rest)
    | Err c s => Err c s
    | PyExc => PyExc
    end.
  Proof. destruct d; [congruence|]. intros _. cbn [walk]. destruct (step (n :: d)) as [[x r]| |]; reflexivity. Qed.

  (** fuel beyond the length of the data changes nothing *)
  Lemma walk_fuel : forall f d, (length d <= f)%nat -> walk step f d = walk step (length d) d.
  Proof.
    induction f as [f IH] using lt_wf_ind. intros d Hl.
    destruct d as [|b d]; [destruct f; reflexivity|].
    destruct f as [|f]; [cbn in Hl; lia|].
    cbn [length]. rewrite !walk_S by discriminate.
    destruct (step (b :: d)) as [[x r]| |] eqn:E; try reflexivity.
    apply progress in E. cbn [length] in E, Hl.
    rewrite (IH f) by lia. rewrite (IH (length d)) by lia. reflexivity.
  Qed.

  (** a whole element: non-empty, and one iteration removes exactly it whatever follows *)
  Definition whole (e : bytes) : Prop := e <> [] /\ exists x, forall rest, step (e ++ rest) = Ok (x, rest).

  Theorem walk_app a b : seq_of whole a ->
    walk step (length (a ++ b)) (a ++ b) = app_res (walk step (length a) a) (walk step (length b) b).
  Proof.
    induction 1 as [|e a [Hne [x Hx]] Ha IH].
    - cbn [app length walk]. rewrite app_res_nil. reflexivity.
    - rewrite <- app_assoc.
      assert (L : forall t, walk step (length (e ++ t)) (e ++ t) = cons_res x (walk step (length t) t)).
      { intros t. destruct e as [|e0 e]; [congruence|].
        change (length ((e0 :: e) ++ t)) with (S (length (e ++ t))).
        rewrite walk_S by discriminate. rewrite Hx.
        rewrite walk_fuel by (rewrite app_length; lia). reflexivity. }
      rewrite (L (a ++ b)), (L a), IH, app_res_cons. reflexivity.
  Qed.
End WalkConcat.

(** ------------------------------------------------------------------------------------ *)
(** * IPv4 prefix lists (Update.parse_prefix_list = IPv4Unicast.parse), without and with add-path *)
Definition octets_of (l : N) : nat := N.to_nat (l / 8 + (if 0 <? l mod 8 then 1 else 0)).

(** length octet (at most 32) followed by exactly ceil(l/8) octets *)
Definition elem_prefix4 (e : bytes) : Prop :=
  exists l xs, e = l :: xs /\ l <= 32 /\ length xs = octets_of l.
(** 4-octet path identifier, then a prefix *)
Definition elem_prefix4_ap (e : bytes) : Prop :=
  exists p e', e = p ++ e' /\ length p = 4%nat /\ elem_prefix4 e'.

Lemma parse_one_progress d x r : parse_one d = Ok (x, r) -> (length r < length d)%nat.
Proof.
  unfold parse_one. destruct d as [|l d]; [discriminate|].
  destruct (32 <? l); [discriminate|].
  destruct (if 0 <? l mod 8 then _ else _); [|discriminate].
  intros H; inversion H; subst. unfold drop. rewrite skipn_length. cbn [length]. lia.
Qed.

Lemma mask_last_some rem xs : xs <> [] -> exists y, mask_last rem xs = Some y.
Proof. destruct xs; [congruence|]. intros _. cbn. eauto. Qed.

Lemma dec_addr_some l xs : length xs = octets_of l -> exists a, dec_addr l xs = Some a.
Proof.
  intros Hx. unfold dec_addr. destruct (0 <? l mod 8) eqn:E.
  - destruct (mask_last_some (l mod 8) xs) as [y Hy].
    + unfold octets_of in Hx. rewrite E in Hx. destruct xs; [cbn in Hx; lia | discriminate].
    + rewrite Hy. eauto.
  - eauto.
Qed.

Lemma elem_prefix4_whole e : elem_prefix4 e -> whole parse_one e.
Proof.
  intros (l & xs & -> & Hl & Hx). split; [discriminate|].
  destruct (dec_addr_some l xs Hx) as [a Ha]. exists (a, l). intros rest.
  rewrite <- app_comm_cons, parse_one_shape by assumption. rewrite Ha. reflexivity.
Qed.

Theorem prefix4_concat a b : seq_of elem_prefix4 a ->
  parse_prefix_list (a ++ b) = app_res (parse_prefix_list a) (parse_prefix_list b).
Proof.
  intros H. unfold parse_prefix_list. apply walk_app.
  - exact parse_one_progress.
  - eapply seq_of_impl; [exact elem_prefix4_whole | exact H].
Qed.

Lemma parse_one_ap_progress d x r : parse_one_ap d = Ok (x, r) -> (length r < length d)%nat.
Proof.
  unfold parse_one_ap. destruct (Nat.eqb (length (take 4 d)) 4); [|discriminate].
  destruct (parse_one (drop 4 d)) as [[p rest]| |] eqn:E; try discriminate.
  intros H; inversion H; subst. apply parse_one_progress in E.
  unfold drop in E. rewrite skipn_length in E. lia.
Qed.

Lemma elem_prefix4_ap_whole e : elem_prefix4_ap e -> whole parse_one_ap e.
Proof.
  intros (p & e' & -> & Hp & He). destruct (elem_prefix4_whole e' He) as [_ [x Hx]].
  split. { destruct p; [discriminate Hp | discriminate]. }
  exists (unbe p, x). intros rest. unfold parse_one_ap.
  rewrite <- app_assoc.
  assert (Ht : take 4 (p ++ e' ++ rest) = p) by (apply firstn_app_exact'; auto).
  assert (Hd : drop 4 (p ++ e' ++ rest) = e' ++ rest) by (apply skipn_app_exact'; auto).
  rewrite Ht, Hd, Hp, Hx. reflexivity.
Qed.

Theorem prefix4_ap_concat a b : seq_of elem_prefix4_ap a ->
  parse_prefix_list_ap (a ++ b) = app_res (parse_prefix_list_ap a) (parse_prefix_list_ap b).
Proof.
  intros H. unfold parse_prefix_list_ap. apply walk_app.
  - exact parse_one_ap_progress.
  - eapply seq_of_impl; [exact elem_prefix4_ap_whole | exact H].
Qed.

(** "dec a = Ok l" is NOT a sufficient notion of completeness for this decoder: a truncated last
    prefix decodes (slices clamp) and then swallows the beginning of [b] *)
Lemma prefix4_ok_is_not_complete :
  exists a b l, parse_prefix_list a = Ok l /\
    parse_prefix_list (a ++ b) <> app_res (parse_prefix_list a) (parse_prefix_list b).
Proof. exists [24; 10], [8; 11], [(167772160, 24)]. split; vm_compute; [reflexivity | discriminate]. Qed.

(** ------------------------------------------------------------------------------------ *)
(** * append on attribute values *)
Definition aval_app (x y : aval) : aval :=
  match x, y with
  | VPath l, VPath l' => VPath (l ++ l')
  | VNums l, VNums l' => VNums (l ++ l')
  | VComms l, VComms l' => VComms (l ++ l')
  | VExts l, VExts l' => VExts (l ++ l')
  | VLarge l, VLarge l' => VLarge (l ++ l')
  | _, _ => x
  end.
Definition app_aval (r1 r2 : res aval) : res aval :=
  match r1 with
  | Ok x => match r2 with Ok y => Ok (aval_app x y) | Err c s => Err c s | PyExc => PyExc end
  | Err c s => Err c s
  | PyExc => PyExc
  end.

(** * AS_PATH segments *)
(** segment type 1..4, count, exactly count AS numbers of the session's width *)
Definition elem_segment (asn4 : bool) (e : bytes) : Prop :=
  exists t n body, e = t :: n :: body /\ 1 <= t <= 4 /\ length body = (N.to_nat n * asn_size asn4)%nat.

Lemma parse_segment_progress asn4 d x r : parse_segment asn4 d = Ok (x, r) -> (length r < length d)%nat.
Proof.
  unfold parse_segment. destruct d as [|t [|n d]]; try discriminate.
  destruct ((1 <=? t) && (t <=? 4)); [|discriminate].
  destruct (Nat.eqb _ _); [|discriminate].
  intros H; inversion H; subst. unfold drop. rewrite skipn_length. cbn [length]. lia.
Qed.

Lemma elem_segment_whole asn4 e : elem_segment asn4 e -> whole (parse_segment asn4) e.
Proof.
  intros (t & n & body & -> & Ht & Hb). split; [discriminate|].
  exists (t, if asn4 then chunks4 body else chunks2 body). intros rest.
  cbn [app parse_segment].
  replace ((1 <=? t) && (t <=? 4)) with true by lia.
  set (k := (N.to_nat n * asn_size asn4)%nat) in *.
  assert (Ht' : take k (body ++ rest) = body) by (apply firstn_app_exact'; auto).
  assert (Hd : drop k (body ++ rest) = rest) by (apply skipn_app_exact'; auto).
  rewrite Ht', Hd, Hb, Nat.eqb_refl. reflexivity.
Qed.

Theorem aspath_concat asn4 a b : seq_of (elem_segment asn4) a ->
  parse_aspath asn4 (a ++ b) = app_aval (parse_aspath asn4 a) (parse_aspath asn4 b).
Proof.
  intros H. unfold parse_aspath.
  rewrite (walk_app (parse_segment asn4) (parse_segment_progress asn4) a b)
    by (eapply seq_of_impl; [exact (elem_segment_whole asn4) | exact H]).
  destruct (walk (parse_segment asn4) (length a) a) as [la| |];
    destruct (walk (parse_segment asn4) (length b) b) as [lb| |]; reflexivity.
Qed.

(** ------------------------------------------------------------------------------------ *)
(** * fixed-width lists: communities (4), cluster list (4), extended (8), large (12) *)
Lemma chunk_split k (a : bytes) : (0 < k)%nat -> Nat.modulo (length a) k = 0%nat -> a <> [] ->
  exists c a', a = c ++ a' /\ length c = k /\ Nat.modulo (length a') k = 0%nat.
Proof.
  intros Hk Hm Hne. exists (firstn k a), (skipn k a).
  assert (Hle : (k <= length a)%nat).
  { destruct a; [congruence|]. apply Nat.mod_divides in Hm; [|lia]. destruct Hm as [q Hq].
    destruct q; [cbn in Hq; lia|]. rewrite Hq. nia. }
  split; [symmetry; apply firstn_skipn|]. split; [rewrite firstn_length; lia|].
  rewrite skipn_length. apply Nat.mod_divides in Hm; [|lia]. destruct Hm as [q Hq]. rewrite Hq.
  apply Nat.mod_divides; [lia|]. exists (q - 1)%nat. nia.
Qed.

Lemma chunk_ind k (P : bytes -> Prop) : (0 < k)%nat -> P [] ->
  (forall c a, length c = k -> Nat.modulo (length a) k = 0%nat -> P a -> P (c ++ a)) ->
  forall a, Nat.modulo (length a) k = 0%nat -> P a.
Proof.
  intros Hk H0 Hs a. remember (length a) as n eqn:Hn. revert a Hn.
  induction n as [n IH] using lt_wf_ind. intros a Hn Hm.
  destruct a as [|x a]; [exact H0|].
  destruct (chunk_split k (x :: a) Hk) as (c & a' & E & Hc & Ha'); [rewrite <- Hn; exact Hm | discriminate |].
  rewrite E. apply Hs; auto. apply (IH (length a')); auto.
  rewrite Hn, E, app_length. lia.
Qed.

Lemma mod_app_len k (a b : bytes) : (0 < k)%nat -> Nat.modulo (length a) k = 0%nat ->
  Nat.modulo (length (a ++ b)) k = Nat.modulo (length b) k.
Proof.
  intros Hk Ha. rewrite app_length. apply Nat.mod_divides in Ha; [|lia]. destruct Ha as [q ->].
  rewrite Nat.add_comm, Nat.mul_comm. apply Nat.mod_add. lia.
Qed.

Ltac destruct_len c H :=
  repeat (destruct c as [|?x c]; [discriminate H|]); destruct c; [|discriminate H].

Lemma chunks4_app a b : Nat.modulo (length a) 4 = 0%nat -> chunks4 (a ++ b) = chunks4 a ++ chunks4 b.
Proof.
  revert a. apply (chunk_ind 4); [lia | reflexivity |].
  intros c a Hc _ IH. destruct_len c Hc. cbn [app chunks4]. rewrite IH. reflexivity.
Qed.

Lemma length_chunks4 a : Nat.modulo (length a) 4 = 0%nat -> (length (chunks4 a) * 4 = length a)%nat.
Proof.
  revert a. apply (chunk_ind 4); [lia | reflexivity |].
  intros c a Hc _ IH. destruct_len c Hc. cbn [app chunks4 length] in *. lia.
Qed.

Lemma mod_mod_mul a k j : (0 < k)%nat -> (0 < j)%nat -> Nat.modulo a (k * j) = 0%nat -> Nat.modulo a k = 0%nat.
Proof.
  intros Hk Hj H. apply Nat.mod_divides in H; [|lia]. destruct H as [q ->].
  apply Nat.mod_divides; [lia|]. exists (j * q)%nat. lia.
Qed.

Theorem community_concat a b : Nat.modulo (length a) 4 = 0%nat ->
  parse_community (a ++ b) = app_aval (parse_community a) (parse_community b).
Proof.
  intros Ha. unfold parse_community. rewrite mod_app_len, Ha by (lia || assumption). cbn [Nat.eqb].
  destruct (Nat.eqb (Nat.modulo (length b) 4) 0); [|reflexivity].
  cbn [app_aval aval_app]. rewrite chunks4_app, map_app by assumption. reflexivity.
Qed.

Theorem clusterlist_concat a b : Nat.modulo (length a) 4 = 0%nat ->
  parse_clusterlist (a ++ b) = app_aval (parse_clusterlist a) (parse_clusterlist b).
Proof.
  intros Ha. unfold parse_clusterlist. rewrite mod_app_len, Ha by (lia || assumption). cbn [Nat.eqb].
  destruct (Nat.eqb (Nat.modulo (length b) 4) 0); [|reflexivity].
  cbn [app_aval aval_app]. rewrite chunks4_app by assumption. reflexivity.
Qed.

Lemma triples_app x y : Nat.modulo (length x) 3 = 0%nat -> triples (x ++ y) = triples x ++ triples y.
Proof.
  remember (length x) as n eqn:Hn. revert x Hn. induction n as [n IH] using lt_wf_ind. intros x Hn Hm.
  destruct x as [|p [|q [|r x]]]; subst n; cbn [length] in Hm; try reflexivity; try discriminate Hm.
  assert (Hm' : Nat.modulo (length x) 3 = 0%nat).
  { replace (S (S (S (length x)))) with (length x + 1 * 3)%nat in Hm by lia.
    rewrite Nat.mod_add in Hm by lia. exact Hm. }
  cbn [app triples]. rewrite (IH (length x) ltac:(cbn [length]; lia) x eq_refl Hm'). reflexivity.
Qed.

Theorem largecommunity_concat a b : Nat.modulo (length a) 12 = 0%nat ->
  parse_largecommunity (a ++ b) = app_aval (parse_largecommunity a) (parse_largecommunity b).
Proof.
  intros Ha. unfold parse_largecommunity. rewrite mod_app_len, Ha by (lia || assumption). cbn [Nat.eqb].
  destruct (Nat.eqb (Nat.modulo (length b) 12) 0); [|reflexivity].
  cbn [app_aval aval_app].
  assert (H4 : Nat.modulo (length a) 4 = 0%nat) by (apply (mod_mod_mul _ 4 3); auto; lia).
  rewrite chunks4_app by assumption. rewrite triples_app; [reflexivity|].
  pose proof (length_chunks4 a H4) as L.
  apply Nat.mod_divides in Ha; [|lia]. destruct Ha as [q Hq].
  apply Nat.mod_divides; [lia|]. exists q. lia.
Qed.

Definition opt_app {A} (o1 o2 : option (list A)) : option (list A) :=
  match o1, o2 with Some l1, Some l2 => Some (l1 ++ l2) | _, _ => None end.

Lemma dec_exts_app a b : Nat.modulo (length a) 8 = 0%nat -> dec_exts (a ++ b) = opt_app (dec_exts a) (dec_exts b).
Proof.
  revert a. apply (chunk_ind 8); [lia | |].
  - cbn [app]. destruct (dec_exts b); reflexivity.
  - intros c a Hc _ IH. destruct_len c Hc. cbn [app dec_exts]. rewrite IH.
    destruct (dec_ext x x0 x1 x2 x3 x4 x5 x6); [|reflexivity].
    destruct (dec_exts a); [|reflexivity]. destruct (dec_exts b); reflexivity.
Qed.

Lemma dec_ext_some t s v0 v1 v2 v3 v4 v5 : exists e, dec_ext t s v0 v1 v2 v3 v4 v5 = Some e.
Proof. unfold dec_ext. destruct (_ =? _); eauto. Qed.

Lemma dec_exts_some : forall n v, (length v <= n)%nat -> exists l, dec_exts v = Some l.
Proof.
  induction n as [|n IH]; intros v Hv.
  - destruct v; [cbn; eauto | cbn in Hv; lia].
  - destruct v as [|t [|s [|v0 [|v1 [|v2 [|v3 [|v4 [|v5 r]]]]]]]]; try (cbn; eauto; fail).
    cbn [dec_exts]. destruct (dec_ext_some t s v0 v1 v2 v3 v4 v5) as [e ->].
    destruct (IH r) as [l ->]; [cbn [length] in Hv; lia | eauto].
Qed.

Theorem extcommunity_concat a b : Nat.modulo (length a) 8 = 0%nat ->
  parse_extcommunity (a ++ b) = app_aval (parse_extcommunity a) (parse_extcommunity b).
Proof.
  intros Ha. unfold parse_extcommunity. rewrite mod_app_len, Ha by (lia || assumption). cbn [Nat.eqb].
  rewrite dec_exts_app by assumption.
  destruct (dec_exts_some (length a) a (le_n _)) as [la ->].
  destruct (dec_exts_some (length b) b (le_n _)) as [lb ->].
  destruct (Nat.eqb (Nat.modulo (length b) 8) 0); reflexivity.
Qed.

(** for these four kinds "whole elements" and "decodes" coincide *)
Lemma community_complete_iff a : Nat.modulo (length a) 4 = 0%nat <-> exists v, parse_community a = Ok v.
Proof.
  unfold parse_community. destruct (Nat.eqb_spec (Nat.modulo (length a) 4) 0) as [E|E]; split; intros H; eauto.
  - congruence.
  - destruct H; discriminate.
Qed.

(** ------------------------------------------------------------------------------------ *)
(** * path attributes: permutation *)
Fixpoint lookup (k : N) (m : list (N * aval)) : option aval :=
  match m with [] => None | (k', v) :: r => if k' =? k then Some v else lookup k r end.

(** a whole path attribute: flags, type code, 1-octet length (extended-length bit clear) or 2-octet
    length (bit set), exactly that many value octets *)
Definition attr_tlv (e : bytes) (tc : N) (v : bytes) : Prop :=
  (exists flags, (flags / 16) mod 2 = 0 /\ len v < 256 /\ e = flags :: tc :: len v :: v) \/
  (exists flags, (flags / 16) mod 2 = 1 /\ len v < 65536 /\ e = flags :: tc :: be 2 (len v) ++ v).

Record attr_item := mkItem { it_octets : bytes; it_tc : N; it_val : aval }.
Definition attr_ok (asn4 : bool) (x : attr_item) : Prop :=
  exists v, attr_tlv (it_octets x) (it_tc x) v /\ parse_attr asn4 (it_tc x) v = Ok (it_val x).
Definition enc_items (l : list attr_item) : bytes := concat (map it_octets l).
Definition items_map (l : list attr_item) : list (N * aval) := map (fun x => (it_tc x, it_val x)) l.

Lemma parse_tlv_whole e tc v rest : attr_tlv e tc v -> parse_tlv (e ++ rest) = Some (tc, v, rest).
Proof.
  intros [(fl & Hf & Hl & ->) | (fl & Hf & Hl & ->)]; cbn [app parse_tlv].
  - replace ((fl / 16) mod 2 =? 1) with false by lia.
    unfold len. rewrite Nnat.Nat2N.id.
    rewrite (firstn_app_exact v rest : take (length v) (v ++ rest) = v).
    rewrite (skipn_app_exact v rest : drop (length v) (v ++ rest) = rest). reflexivity.
  - replace ((fl / 16) mod 2 =? 1) with true by lia.
    rewrite be2_eq. cbn [app].
    replace (len v / 256 mod 256 * 256 + len v mod 256) with (len v) by lia.
    unfold len. rewrite Nnat.Nat2N.id.
    rewrite (firstn_app_exact v rest : take (length v) (v ++ rest) = v).
    rewrite (skipn_app_exact v rest : drop (length v) (v ++ rest) = rest). reflexivity.
Qed.

Lemma attr_tlv_nonempty e tc v : attr_tlv e tc v -> exists x r, e = x :: r.
Proof. intros [(fl & _ & _ & ->) | (fl & _ & _ & ->)]; eauto. Qed.

Lemma attr_tlv_length e tc v : attr_tlv e tc v -> (1 <= length e)%nat.
Proof. intros H. destruct (attr_tlv_nonempty _ _ _ H) as (x & r & ->). cbn. lia. Qed.

Lemma dict_set_fresh k v m : ~ In k (map fst m) -> dict_set k v m = m ++ [(k, v)].
Proof.
  induction m as [|[k' v'] m IH]; cbn [dict_set map fst In app]; intros H; [reflexivity|].
  destruct (N.eqb_spec k' k) as [E|E]; [exfalso; apply H; left; exact E|].
  rewrite IH; [reflexivity|]. intros K; apply H; right; exact K.
Qed.

Lemma parse_attrs_items asn4 : forall l fuel acc,
  Forall (attr_ok asn4) l -> NoDup (map fst acc ++ map it_tc l) -> (length (enc_items l) <= fuel)%nat ->
  parse_attrs_f fuel asn4 acc (enc_items l) = (acc ++ items_map l, None).
Proof.
  induction l as [|x l IH]; intros fuel acc Hok Hnd Hf.
  - cbn. destruct fuel; rewrite app_nil_r; reflexivity.
  - inversion Hok as [|? ? (v & Ht & Hp) Hok']; subst.
    unfold enc_items in *. cbn [map concat] in *. rewrite app_length in Hf.
    pose proof (attr_tlv_length _ _ _ Ht) as Hl.
    destruct (attr_tlv_nonempty _ _ _ Ht) as (b0 & r0 & E0).
    destruct fuel as [|fuel]; [lia|].
    assert (Hstep : parse_attrs_f (S fuel) asn4 acc (it_octets x ++ concat (map it_octets l)) =
                    parse_attrs_f fuel asn4 (dict_set (it_tc x) (it_val x) acc) (concat (map it_octets l))).
    { pose proof (parse_tlv_whole _ _ _ (concat (map it_octets l)) Ht) as Hw.
      rewrite E0 in *. cbn [app] in *. cbn [parse_attrs_f]. rewrite Hw, Hp. reflexivity. }
    rewrite Hstep.
    assert (Hfresh : ~ In (it_tc x) (map fst acc)).
    { intros K. cbn [map] in Hnd. apply NoDup_remove_2 in Hnd. apply Hnd. apply in_or_app. left. exact K. }
    rewrite dict_set_fresh by exact Hfresh.
    rewrite IH; [| exact Hok' | | lia].
    + cbn [items_map map]. rewrite <- app_assoc. reflexivity.
    + rewrite map_app. cbn [map fst app]. rewrite <- app_assoc. cbn [app].
      cbn [map] in Hnd. exact Hnd.
Qed.

(** the attribute section made of whole, individually decodable attributes with pairwise distinct
    type codes decodes without error to exactly the (type code, value) list, in wire order *)
Lemma parse_attributes_items asn4 l : Forall (attr_ok asn4) l -> NoDup (map it_tc l) ->
  parse_attributes asn4 (enc_items l) = (items_map l, None).
Proof.
  intros Hok Hnd. unfold parse_attributes. rewrite parse_attrs_items; auto.
Qed.

Lemma lookup_perm k (m m' : list (N * aval)) : Permutation m m' -> NoDup (map fst m) -> lookup k m = lookup k m'.
Proof.
  induction 1 as [| [k1 v1] m m' HP IH | [k1 v1] [k2 v2] m | m m' m'' HP1 IH1 HP2 IH2]; intros Hnd.
  - reflexivity.
  - cbn [lookup]. cbn [map fst] in Hnd. inversion Hnd; subst. rewrite IH by assumption. reflexivity.
  - cbn [lookup]. cbn [map fst] in Hnd. inversion Hnd as [|? ? Hin _]; subst.
    destruct (N.eqb_spec k2 k); destruct (N.eqb_spec k1 k); try reflexivity.
    exfalso. apply Hin. left. congruence.
  - rewrite IH1 by assumption. apply IH2.
    eapply Permutation_NoDup; [apply Permutation_map; exact HP1 | exact Hnd].
Qed.

Theorem attr_permutation asn4 l l' :
  Permutation l l' -> Forall (attr_ok asn4) l -> NoDup (map it_tc l) ->
  snd (parse_attributes asn4 (enc_items l)) = None /\ snd (parse_attributes asn4 (enc_items l')) = None /\
  forall k, lookup k (fst (parse_attributes asn4 (enc_items l'))) = lookup k (fst (parse_attributes asn4 (enc_items l))).
Proof.
  intros HP Hok Hnd.
  assert (Hok' : Forall (attr_ok asn4) l') by (eapply Permutation_Forall; eauto).
  assert (Hnd' : NoDup (map it_tc l')) by (eapply Permutation_NoDup; [apply Permutation_map; exact HP | exact Hnd]).
  rewrite !parse_attributes_items by assumption. cbn [fst snd]. repeat split.
  intros k. symmetry. apply lookup_perm.
  - unfold items_map. apply Permutation_map. exact HP.
  - unfold items_map. rewrite map_map. cbn [fst]. exact Hnd.
Qed.

(** inserting an attribute of an unknown type code (kept as hex) between known ones: the others
    decode to exactly what they decode to without it *)
Theorem attr_unknown_transparent asn4 l1 l2 u :
  Forall (attr_ok asn4) (l1 ++ u :: l2) -> NoDup (map it_tc (l1 ++ u :: l2)) ->
  fst (parse_attributes asn4 (enc_items (l1 ++ u :: l2))) = items_map l1 ++ (it_tc u, it_val u) :: items_map l2 /\
  fst (parse_attributes asn4 (enc_items (l1 ++ l2))) = items_map l1 ++ items_map l2.
Proof.
  intros Hok Hnd. split.
  - rewrite parse_attributes_items by assumption. unfold items_map. rewrite map_app. reflexivity.
  - rewrite parse_attributes_items.
    + unfold items_map. rewrite map_app. reflexivity.
    + apply Forall_app in Hok as [H1 H2]. inversion H2; subst. apply Forall_app; auto.
    + rewrite map_app in *. cbn [map] in Hnd. eapply NoDup_remove_1. exact Hnd.
Qed.

(** ------------------------------------------------------------------------------------ *)
(** * OPEN: capabilities inside one optional parameter, optional parameters *)
(** the decoders fold the elements into (asn, capa_dict); composition is sequencing *)
Definition elem_cap (e : bytes) : Prop := exists code body, e = code :: len body :: body /\ len body < 256.
Definition elem_param (e : bytes) : Prop := exists body, e = 2 :: len body :: body /\ len body < 256.

Lemma caps_loop_fuel_eq : forall fuel fuel' caps asn d, (length caps <= fuel)%nat -> (length caps <= fuel')%nat ->
  caps_loop fuel caps asn d = caps_loop fuel' caps asn d.
Proof.
  induction fuel as [|f IH]; intros fuel' caps asn d H1 H2.
  - destruct caps; [|cbn in H1; lia]. destruct fuel'; reflexivity.
  - destruct caps as [|x [|y r]]; [destruct fuel'; reflexivity | destruct fuel'; reflexivity |].
    destruct fuel' as [|f']; [cbn in H2; lia|]. cbn [caps_loop].
    destruct (cap_apply x (take (N.to_nat y) r) asn d) as [[a' d']| |]; cbn [res_bind fst snd]; try reflexivity.
    apply IH; unfold drop; rewrite skipn_length; cbn [length] in *; lia.
Qed.

Lemma take_len_app' (a b : bytes) : take (N.to_nat (len a)) (a ++ b) = a.
Proof. unfold len. rewrite Nnat.Nat2N.id. apply firstn_app_exact. Qed.
Lemma drop_len_app' (a b : bytes) : drop (N.to_nat (len a)) (a ++ b) = b.
Proof. unfold len. rewrite Nnat.Nat2N.id. apply skipn_app_exact. Qed.

Definition seq_st (r : res (N * capa_dict)) (k : N -> capa_dict -> res (N * capa_dict)) : res (N * capa_dict) :=
  res_bind r (fun st => k (fst st) (snd st)).

Lemma caps_loop_step code body rest asn d fuel : (length (code :: len body :: body ++ rest) <= fuel)%nat ->
  caps_loop fuel (code :: len body :: body ++ rest) asn d =
  res_bind (cap_apply code body asn d) (fun st => caps_loop (length rest) rest (fst st) (snd st)).
Proof.
  intros Hf. destruct fuel as [|f]; [cbn [length] in Hf; lia|]. cbn [caps_loop].
  rewrite take_len_app', drop_len_app'.
  destruct (cap_apply code body asn d) as [[a' d']| |]; cbn [res_bind fst snd]; try reflexivity.
  apply caps_loop_fuel_eq; [|lia]. cbn [length] in Hf. rewrite app_length in Hf. lia.
Qed.

Theorem caps_concat a b : seq_of elem_cap a -> forall asn d,
  caps_loop (length (a ++ b)) (a ++ b) asn d =
  seq_st (caps_loop (length a) a asn d) (caps_loop (length b) b).
Proof.
  induction 1 as [|e a (code & body & -> & Hb) Ha IH]; intros asn d.
  - cbn [app length caps_loop seq_st res_bind fst snd]. reflexivity.
  - rewrite <- app_assoc. cbn [app].
    rewrite (caps_loop_step code body (a ++ b)) by lia.
    rewrite (caps_loop_step code body a) by lia.
    destruct (cap_apply code body asn d) as [[a' d']| |]; cbn [res_bind seq_st fst snd]; try reflexivity.
    apply IH.
Qed.

Lemma params_loop_fuel_eq : forall fuel fuel' p asn d, (length p <= fuel)%nat -> (length p <= fuel')%nat ->
  params_loop fuel p asn d = params_loop fuel' p asn d.
Proof.
  induction fuel as [|f IH]; intros fuel' p asn d H1 H2.
  - destruct p; [|cbn in H1; lia]. destruct fuel'; reflexivity.
  - destruct p as [|x [|y r]]; [destruct fuel'; reflexivity | destruct fuel'; reflexivity |].
    destruct fuel' as [|f']; [cbn in H2; lia|]. cbn [params_loop].
    destruct (negb (x =? 2)); [reflexivity|].
    destruct (caps_loop (length r) (take (N.to_nat y) r) asn d) as [[a' d']| |]; cbn [res_bind fst snd]; try reflexivity.
    apply IH; unfold drop; rewrite skipn_length; cbn [length] in *; lia.
Qed.

Lemma params_loop_step body rest asn d fuel : (length (2%N :: len body :: body ++ rest) <= fuel)%nat ->
  params_loop fuel (2 :: len body :: body ++ rest) asn d =
  res_bind (caps_loop (length body) body asn d) (fun st => params_loop (length rest) rest (fst st) (snd st)).
Proof.
  intros Hf. destruct fuel as [|f]; [cbn [length] in Hf; lia|]. cbn [params_loop]. cbn [N.eqb Pos.eqb negb].
  rewrite take_len_app', drop_len_app'.
  rewrite (caps_loop_fuel_eq (length (body ++ rest)) (length body)) by (rewrite ?app_length; lia).
  destruct (caps_loop (length body) body asn d) as [[a' d']| |]; cbn [res_bind fst snd]; try reflexivity.
  apply params_loop_fuel_eq; [|lia]. cbn [length] in Hf. rewrite app_length in Hf. lia.
Qed.

Theorem params_concat a b : seq_of elem_param a -> forall asn d,
  params_loop (length (a ++ b)) (a ++ b) asn d =
  seq_st (params_loop (length a) a asn d) (params_loop (length b) b).
Proof.
  induction 1 as [|e a (body & -> & Hb) Ha IH]; intros asn d.
  - cbn [app length params_loop seq_st res_bind fst snd]. reflexivity.
  - rewrite <- app_assoc. cbn [app].
    rewrite (params_loop_step body (a ++ b)) by lia.
    rewrite (params_loop_step body a) by lia.
    destruct (caps_loop (length body) body asn d) as [[a' d']| |]; cbn [res_bind seq_st fst snd]; try reflexivity.
    apply IH.
Qed.

(** an unknown capability code only adds its own entry to [cd_other]: every other field of the
    dictionary and the AS number are what they are without it *)
Definition known_code (c : N) : bool := existsb (N.eqb c) cap_codes.

Lemma cap_apply_unknown code v asn d : known_code code = false ->
  cap_apply code v asn d = Ok (asn, set_other (other_set code v (cd_other d)) d).
Proof.
  unfold known_code, cap_codes. cbn [existsb]. intros H.
  repeat (apply orb_false_iff in H; destruct H as [?E H]). unfold cap_apply.
  repeat match goal with E : (code =? _) = false |- _ => rewrite E; clear E end.
  reflexivity.
Qed.

(** * the list reading of the capability dictionary is violated by LLGR and extended next hop:
    a second capability of that code REPLACES the entries of the first *)
Definition w_llgr1 : bytes := [71; 7; 0; 1; 1; 0; 0; 0; 60].
Definition w_llgr2 : bytes := [71; 7; 0; 2; 1; 0; 0; 0; 90].
Lemma caps_llgr_replaced :
  seq_of elem_cap w_llgr1 /\ seq_of elem_cap w_llgr2 /\
  exists la lb asn d,
    res_map (fun st => cd_llgr (snd st)) (caps_loop 9 w_llgr1 1 cd_empty) = Ok (Some la) /\
    res_map (fun st => cd_llgr (snd st)) (caps_loop 9 w_llgr2 1 cd_empty) = Ok (Some lb) /\
    caps_loop 18 (w_llgr1 ++ w_llgr2) 1 cd_empty = Ok (asn, d) /\ cd_llgr d = Some lb /\ cd_llgr d <> Some (la ++ lb).
Proof.
  assert (E : forall e, elem_cap e -> seq_of elem_cap e).
  { intros e He. rewrite <- (app_nil_r e). constructor; [exact He | constructor]. }
  split; [apply E; exists 71, [0; 1; 1; 0; 0; 0; 60]; split; [reflexivity | cbn; lia]|].
  split; [apply E; exists 71, [0; 2; 1; 0; 0; 0; 90]; split; [reflexivity | cbn; lia]|].
  eexists _, _, _, _. repeat split; try (vm_compute; reflexivity). vm_compute. discriminate.
Qed.
