(** C11 — proofs of progress for every modelled loop (model/YLoops.v), the tie to the regenerated
    inventory, non-termination of the SRCapabilities/SRLB loop as found, nested and recursive
    work bounds, and totality of the Update.parse funnel. *)
From Coq Require Import String.
From YV Require Import lib.Base gen.Inventory model.YLoops.
From Coq Require Import ZArith Lia ZifyBool ZifyNat ZifyN.

(** ------------------------------------------------------------------------------------ *)
(** the tie: the loops / recursive call sites found in the source are exactly the modelled ones *)
Lemma inventory_matches : gen_loops = map e_key modelled_loops.
Proof. vm_compute. reflexivity. Qed.

Lemma unmodelled_empty : unmodelled_loops = [].
Proof. reflexivity. Qed.

Lemma rec_sites_match : gen_rec_sites = map rec_key modelled_rec_sites.
Proof. vm_compute. reflexivity. Qed.

(** every `for` loop / comprehension iterates over a range, a container or a view of one *)
Lemma for_loops_bounded :
  forallb (fun e => let c := snd e in (1 <=? c) && (c <=? 4)) gen_for_loops = true.
Proof. vm_compute. reflexivity. Qed.

(** ------------------------------------------------------------------------------------ *)
(** generic termination from progress *)
Definition good (s : shape) : Prop :=
  forall d n, cond s d = true -> consume s d = Some n -> (1 <= n)%nat /\ d <> [].

Lemma length_drop n (d : bytes) : length (drop n d) = (length d - n)%nat.
Proof. unfold drop. apply skipn_length. Qed.

Lemma body_progress s raises d r :
  good s -> body s raises d = Continue r -> (length r < length d)%nat.
Proof.
  intros G H. unfold body in H.
  destruct (cond s d) eqn:C; [|discriminate].
  destruct (consume s d) as [n|] eqn:E; [|discriminate].
  destruct (raises d); [discriminate|]. destruct (last s d); [discriminate|].
  inversion H; subst r. destruct (G d n C E) as [Hn Hd].
  rewrite length_drop. destruct d; [congruence|]. cbn [length]. lia.
Qed.

Lemma body_last s raises d : good s -> body s raises d = Last -> (1 <= length d)%nat.
Proof.
  intros G H. unfold body in H.
  destruct (cond s d) eqn:C; [|discriminate].
  destruct (consume s d) as [n|] eqn:E; [|discriminate].
  destruct (G d n C E) as [_ Hd]. destruct d; [congruence|]. cbn [length]. lia.
Qed.

Definition finishes (b : bytes -> step) (fuel : nat) (d : bytes) : Prop :=
  exists n, (n <= length d)%nat /\ (run b fuel d = Done n \/ run b fuel d = Raised n).

Lemma run_finishes b :
  (forall d r, b d = Continue r -> (length r < length d)%nat) ->
  (forall d, b d = Last -> (1 <= length d)%nat) ->
  forall fuel d, (length d < fuel)%nat -> finishes b fuel d.
Proof.
  intros P L. induction fuel as [|f IH]; intros d Hf; [lia|].
  unfold finishes. cbn [run]. destruct (b d) as [r| | |] eqn:E.
  - pose proof (P d r E) as Hr.
    destruct (IH r ltac:(lia)) as (n & Hn & [H|H]); rewrite H; exists (S n); split; auto; lia.
  - exists 1%nat. split; [apply (L d E)|auto].
  - exists 0%nat. split; [lia|auto].
  - exists 0%nat. split; [lia|auto].
Qed.

(** a loop TERMINATES: for every element decoder (what may raise) and every byte string the loop
    ends, normally or by an exception, after at most [length d] iterations; fuel never runs out *)
Definition terminates (s : shape) : Prop :=
  forall (raises : bytes -> bool) (d : bytes), finishes (body s raises) (S (length d)) d.

Theorem good_terminates s : good s -> terminates s.
Proof.
  intros G raises d. apply run_finishes.
  - intros; eapply body_progress; eauto.
  - intros; eapply body_last; eauto.
  - lia.
Qed.

Lemma finishes_not_out_of_fuel b fuel d : finishes b fuel d -> run b fuel d <> OutOfFuel.
Proof. intros (n & _ & [H|H]); rewrite H; discriminate. Qed.

(** more fuel changes nothing once the loop has finished *)
Lemma run_fuel_mono b : forall fuel d o, run b fuel d = o -> o <> OutOfFuel ->
  forall fuel', (fuel <= fuel')%nat -> run b fuel' d = o.
Proof.
  induction fuel as [|f IH]; intros d o H Ho fuel' Hle; cbn [run] in H; [congruence|].
  destruct fuel' as [|f']; [lia|]. cbn [run].
  destruct (b d) as [r| | |]; auto.
  destruct (run b f r) eqn:E; subst o; try congruence;
    rewrite (IH r _ E ltac:(discriminate) f' ltac:(lia)); reflexivity.
Qed.

(** ------------------------------------------------------------------------------------ *)
(** progress of each shape *)
Lemma nonempty_true d : nonempty d = true -> d <> [].
Proof. destruct d; [discriminate|congruence]. Qed.

Lemma need_some k d n m : need k d n = Some m -> m = n /\ (k <= length d)%nat.
Proof.
  unfold need, shorter. destruct (Nat.ltb_spec (length d) k) as [Hlt|Hge]; [discriminate|].
  intros E; inversion E; split; auto.
Qed.

Ltac ne := match goal with H : nonempty _ = true |- _ => apply nonempty_true in H end.

Lemma good_fixed_strict k : (1 <= k)%nat -> good (fixed_strict k).
Proof.
  intros Hk d n C E. unfold fixed_strict in C, E. cbn [cond consume last] in C, E. ne. apply need_some in E as [-> _]. auto.
Qed.

Lemma good_extcomm : good extcomm.
Proof. intros d n C E. unfold extcomm in C, E. cbn [cond consume last] in C, E. ne. apply need_some in E as [-> _]. split; [lia|auto]. Qed.

Lemma good_label_stack : good label_stack.
Proof.
  intros d n C E. unfold label_stack in C, E. cbn [cond consume last] in C, E. inversion E; subst n. split; [lia|].
  destruct d; [discriminate|congruence].
Qed.

Lemma good_cap_addpath : good cap_addpath.
Proof.
  intros d n C E. unfold cap_addpath in C, E. cbn [cond consume last] in C, E. inversion E; subst n. split; [lia|].
  apply andb_true_iff in C as [_ C]. ne. auto.
Qed.

Lemma good_cap_llgr : good cap_llgr.
Proof.
  intros d n C E. unfold cap_llgr in C, E. cbn [cond consume last] in C, E. inversion E; subst n. split; [lia|].
  destruct d; [discriminate|congruence].
Qed.

Lemma good_tlv h off w : (1 <= h)%nat -> good (tlv h off w).
Proof.
  intros Hh d n C E. unfold tlv in C, E. cbn [cond consume last] in C, E. ne. apply need_some in E as [-> _]. split; [lia|auto].
Qed.

Lemma good_open_optparam : good open_optparam.
Proof.
  intros d n C E. unfold open_optparam in C, E. cbn [cond consume last] in C, E. ne. split; [|auto].
  destruct (shorter d 2); [discriminate|]. destruct (at_ 0 d =? 2); [|discriminate].
  inversion E. lia.
Qed.

Lemma good_aspath w : good (aspath w).
Proof.
  intros d n C E. unfold aspath in C, E. cbn [cond consume last] in C, E. ne. split; [|auto].
  destruct (shorter d 2); [discriminate|].
  destruct ((1 <=? at_ 0 d) && (at_ 0 d <=? 4)); [|discriminate].
  apply need_some in E as [-> _]. lia.
Qed.

Lemma with_path_id_pos addpath f d n :
  (forall x m, f x = Some m -> (1 <= m)%nat) -> with_path_id addpath f d = Some n -> (1 <= n)%nat.
Proof.
  intros Hf. unfold with_path_id. destruct addpath.
  - destruct (shorter d 4); [discriminate|]. destruct (f (drop 4 d)) eqn:E; [|discriminate].
    intros H; inversion H. lia.
  - apply Hf.
Qed.

Lemma prefix4_elem_pos x m : prefix4_elem x = Some m -> (1 <= m)%nat.
Proof.
  unfold prefix4_elem. destruct x as [|l r]; [discriminate|].
  destruct (32 <? l); [discriminate|].
  destruct (negb (l mod 8 =? 0) && negb (nonempty r)); [discriminate|].
  intros H; inversion H. lia.
Qed.

Lemma bitlen_elem_pos x m : bitlen_elem x = Some m -> (1 <= m)%nat.
Proof. unfold bitlen_elem. destruct x; [discriminate|]. intros H; inversion H. lia. Qed.

Lemma good_prefix4 a : good (prefix4 a).
Proof.
  intros d n C E. unfold prefix4 in C, E. cbn [cond consume last] in C, E. ne. split; [|auto].
  eapply with_path_id_pos; [apply prefix4_elem_pos|exact E].
Qed.

Lemma good_bitlen_nlri a : good (bitlen_nlri a).
Proof.
  intros d n C E. unfold bitlen_nlri in C, E. cbn [cond consume last] in C, E. ne. split; [|auto].
  eapply with_path_id_pos; [apply bitlen_elem_pos|exact E].
Qed.

Lemma good_prefix6 a : good (prefix6 a).
Proof.
  intros d n C E. cbn [cond consume prefix6] in C, E. ne. split; [|auto].
  assert (G : with_path_id a bitlen_elem d = Some n -> (1 <= n)%nat)
    by (apply with_path_id_pos, bitlen_elem_pos).
  assert (E' : Some 2%nat = Some n \/ with_path_id a bitlen_elem d = Some n).
  { destruct d as [|[|p] [|[|q] [|z t]]]; auto. }
  destruct E' as [E'|E']; [inversion E'; lia|auto].
Qed.

Lemma good_flowspec_list : good flowspec_list.
Proof.
  intros d n C E. unfold flowspec_list in C, E. cbn [cond consume last] in C, E. ne. split; [|auto].
  destruct ((at_ 0 d / 16 =? 15) && Nat.ltb 2 (length d)); inversion E; lia.
Qed.

Lemma op_len_pos o : (1 <= op_len o)%nat.
Proof.
  unfold op_len. assert (H : Nat.pow 2 (N.to_nat ((o / 16) mod 4)) <> 0%nat)
    by (apply Nat.pow_nonzero; discriminate). lia.
Qed.

Lemma good_operators : good operators.
Proof.
  intros d n C E. unfold operators in C, E. cbn [cond consume last] in C, E. ne. apply need_some in E as [-> _]. split; [lia|auto].
Qed.

Lemma good_flowspec_comp : good flowspec_comp.
Proof.
  intros d n C E. cbn [cond consume flowspec_comp] in C, E. ne. split; [|auto].
  destruct d as [|t r]; [discriminate|].
  destruct (if (t =? 1) || (t =? 2) then flowspec_prefix r else ops_offset (length r) r);
    inversion E; lia.
Qed.

Lemma good_attributes : good attributes.
Proof.
  intros d n C E. unfold attributes in C, E. cbn [cond consume last] in C, E. ne. split; [|auto].
  destruct (shorter d 2); [discriminate|].
  destruct (N.odd (at_ 0 d / 16)); apply need_some in E as [-> _]; lia.
Qed.

Lemma good_srcap : good srcap.
Proof.
  intros d n C E. unfold srcap in C, E. cbn [cond consume last] in C, E. ne. split; [|auto].
  unfold srcap_consume in E. destruct (shorter d 7); [discriminate|].
  destruct (u16_at 5 d =? 3); [apply need_some in E as [-> _]; lia|].
  destruct (u16_at 5 d =? 4); [apply need_some in E as [-> _]; lia|].
  inversion E. lia.
Qed.

(** ------------------------------------------------------------------------------------ *)
(** every entry of the modelled inventory: condition class respected, progress, termination *)
Definition entry_ok (e : entry) : Prop :=
  Forall (fun s => cond_agrees (e_class e) s /\ good s) (e_shapes e).

Ltac cond_tac := cbv [cond_agrees e_class snd fst N.eqb N.ltb N.compare Pos.eqb Pos.compare
                      Pos.compare_cont orb andb N.sub Pos.sub_mask Pos.double_mask Pos.succ_double_mask
                      Pos.double_pred_mask Pos.pred_double N.to_nat Pos.to_nat Pos.iter_op Nat.add];
                 try (intros d; reflexivity).

Lemma modelled_ok : Forall entry_ok modelled_loops.
Proof.
  unfold modelled_loops.
  repeat (apply Forall_cons; [unfold entry_ok, e_shapes; cbn [snd];
    repeat (apply Forall_cons; [split; [vm_compute; intros d; reflexivity|
      first [ apply good_fixed_strict; lia | apply good_extcomm | apply good_label_stack
            | apply good_cap_addpath | apply good_cap_llgr | apply good_tlv; lia
            | apply good_open_optparam | apply good_aspath | apply good_prefix4
            | apply good_bitlen_nlri | apply good_prefix6 | apply good_flowspec_list
            | apply good_operators | apply good_flowspec_comp | apply good_attributes
            | apply good_srcap ]] |]); apply Forall_nil |]).
  apply Forall_nil.
Qed.

Theorem all_loops_terminate :
  Forall (fun e => Forall terminates (e_shapes e)) modelled_loops.
Proof.
  eapply Forall_impl; [|exact modelled_ok].
  intros e H. eapply Forall_impl; [|exact H]. intros s [_ G]. apply good_terminates, G.
Qed.

(** named instances (the theorems of props/C11.v are stated on these) *)
Lemma tlv_terminates h off w : (1 <= h)%nat -> terminates (tlv h off w).
Proof. intros; apply good_terminates, good_tlv; assumption. Qed.
Lemma fixed_terminates k : (1 <= k)%nat -> terminates (fixed_strict k).
Proof. intros; apply good_terminates, good_fixed_strict; assumption. Qed.
Lemma attributes_terminates : terminates attributes.
Proof. apply good_terminates, good_attributes. Qed.
Lemma prefix4_terminates a : terminates (prefix4 a).
Proof. apply good_terminates, good_prefix4. Qed.
Lemma srcap_terminates : terminates srcap.
Proof. apply good_terminates, good_srcap. Qed.

(** ------------------------------------------------------------------------------------ *)
(** SRCapabilities.unpack / SRLB.unpack AS FOUND do not terminate *)
Definition srcap_witness : bytes := [0; 0; 0; 0; 0; 0; 0].

Lemma srcap_orig_stuck d :
  (7 <= length d)%nat -> u16_at 5 d <> 3 -> u16_at 5 d <> 4 ->
  body srcap_orig never d = Continue d.
Proof.
  intros L H3 H4. unfold body. cbn [cond consume last srcap_orig never].
  destruct d as [|x t]; [cbn in L; lia|]. cbn [nonempty].
  unfold srcap_consume, shorter. destruct (Nat.ltb_spec (length (x :: t)) 7); [lia|].
  destruct (N.eqb_spec (u16_at 5 (x :: t)) 3); [congruence|].
  destruct (N.eqb_spec (u16_at 5 (x :: t)) 4); [congruence|].
  reflexivity.
Qed.

Lemma srcap_orig_diverges d :
  (7 <= length d)%nat -> u16_at 5 d <> 3 -> u16_at 5 d <> 4 ->
  forall fuel, run (body srcap_orig never) fuel d = OutOfFuel.
Proof.
  intros L H3 H4. induction fuel as [|f IH]; [reflexivity|].
  cbn [run]. rewrite (srcap_orig_stuck d L H3 H4). rewrite IH. reflexivity.
Qed.

Lemma srcap_refuted :
  exists d, forall fuel, run (body srcap_orig never) fuel d = OutOfFuel.
Proof.
  exists srcap_witness. apply srcap_orig_diverges; vm_compute; [lia|discriminate|discriminate].
Qed.

(** ------------------------------------------------------------------------------------ *)
(** nested decoders: total work of all levels is bounded by the length of the data *)
Lemma total_le b inner :
  (forall d r, b d = Continue r -> (1 + inner d + length r <= length d)%nat) ->
  (forall d, b d = Last -> (1 + inner d <= length d)%nat) ->
  forall fuel d, (total b inner fuel d <= length d)%nat.
Proof.
  intros P L. induction fuel as [|f IH]; intros d; cbn [total]; [lia|].
  destruct (b d) as [r| | |] eqn:E; try lia.
  - pose proof (P d r E). pose proof (IH r). lia.
  - apply (L d E).
Qed.

Lemma length_slice i j (d : bytes) : length (slice i j d) = Nat.min (j - i) (length d - i).
Proof. unfold slice. rewrite firstn_length, skipn_length. reflexivity. Qed.

(** a TLV walker that hands the value slice of each element to a decoder whose own work is
    bounded by the length of what it is given *)
Lemma nested_tlv_le h off w (inner : bytes -> nat) raises :
  (1 <= h)%nat -> (forall x, (inner x <= length x)%nat) ->
  forall fuel d,
    (total (body (tlv h off w) raises)
           (fun d => inner (slice h (h + N.to_nat (tlv_len off w d)) d)) fuel d <= length d)%nat.
Proof.
  intros Hh Hi. apply total_le.
  - intros d r E. unfold body in E. cbn [cond consume last tlv never] in E.
    destruct (nonempty d); [|discriminate].
    destruct (need h d (h + N.to_nat (tlv_len off w d))) as [n|] eqn:EN; [|discriminate].
    apply need_some in EN as [-> Hl].
    destruct (raises d); [discriminate|]. inversion E; subst r.
    pose proof (Hi (slice h (h + N.to_nat (tlv_len off w d)) d)) as Hv.
    rewrite length_slice in Hv. rewrite length_drop. lia.
  - intros d E. unfold body in E. cbn [cond consume last tlv never] in E.
    destruct (nonempty d); [|discriminate].
    destruct (need h d (h + N.to_nat (tlv_len off w d))); [|discriminate].
    destruct (raises d); discriminate.
Qed.

(** labelled-unicast / MPLS-VPN NLRI with the label parser bounded to the current NLRI: linear *)
Lemma label_iters_le d : (label_iters d <= length d)%nat.
Proof.
  unfold label_iters.
  destruct (good_terminates label_stack good_label_stack never d) as (n & Hn & [H|H]); rewrite H; exact Hn.
Qed.

Lemma lu_total_le a raises d : (lu_total a raises d <= length d)%nat.
Proof.
  unfold lu_total. apply total_le.
  - intros x r E. unfold body in E. cbn [cond consume last bitlen_nlri never] in E.
    destruct (nonempty x); [|discriminate].
    destruct (with_path_id a bitlen_elem x) as [n|] eqn:EN; [|discriminate].
    destruct (raises x); [discriminate|]. inversion E; subst r. clear E.
    pose proof (label_iters_le (slice (pre a + 1) (pre a + 1 + nlri_octets a x) x)) as Hl.
    rewrite length_slice in Hl. rewrite length_drop. unfold lu_inner.
    assert (Hn : n = (pre a + nlri_octets a x + 1)%nat /\ (pre a + 1 <= length x)%nat).
    { unfold with_path_id, nlri_octets, at_ in *. destruct a;
        [change (pre true) with 4%nat in * | change (pre false) with 0%nat in *].
      - unfold shorter in EN. destruct (Nat.ltb_spec (length x) 4); [discriminate|].
        destruct x as [|x0 [|x1 [|x2 [|x3 t]]]]; cbn [length] in *; try lia.
        cbn [drop skipn] in EN. unfold bitlen_elem in EN. destruct t as [|l t']; [discriminate|].
        inversion EN. cbn [nth length]. split; lia.
      - unfold bitlen_elem in EN. destruct x as [|l t]; [discriminate|]. inversion EN.
        cbn [nth length]. split; lia. }
    destruct Hn as [-> Hx]. lia.
  - intros x E. unfold body in E. cbn [cond consume last bitlen_nlri never] in E.
    destruct (nonempty x); [|discriminate].
    destruct (with_path_id a bitlen_elem x); [|discriminate].
    destruct (raises x); discriminate.
Qed.

(** ... AS FOUND it is not: 300 zero octets cost 15050 > 50 * 300 iterations *)
Lemma lu_quadratic_refuted :
  exists d, length d = 300%nat /\ (50 * length d < lu_total_orig false d)%nat.
Proof. exists (repeat 0 300). vm_compute. split; [reflexivity|]. apply Nat.leb_le. vm_compute. reflexivity. Qed.

Lemma body_tlv_continue h off w raises d r :
  body (tlv h off w) raises d = Continue r ->
  r = drop (h + N.to_nat (tlv_len off w d)) d /\ (h <= length d)%nat.
Proof.
  intros E. unfold body in E. cbn [cond consume last tlv never] in E.
  destruct (nonempty d); [|discriminate].
  destruct (need h d (h + N.to_nat (tlv_len off w d))) as [n|] eqn:EN; [|discriminate].
  apply need_some in EN as [-> Hl].
  destruct (raises d); [discriminate|]. split; [congruence|assumption].
Qed.

(** the mutually recursive SRv6 sub-TLV decoders: recursion fuel [S (length d)] is enough and the
    work of all levels together is at most [length d] *)
Lemma rec_work_total skip : forall depth d, (length d < depth)%nat ->
  exists n, rec_work skip depth d = Some n /\ (n <= length d)%nat.
Proof.
  induction depth as [|k IH]; intros d Hd; [lia|].
  cbn [rec_work].
  set (walk := fix walk (fuel : nat) (d0 : bytes) {struct fuel} : option nat :=
         match fuel with
         | O => None
         | S f =>
             match body (tlv 4 2 2) never d0 with
             | Continue r =>
                 match rec_work skip k (drop (skip (u16_at 0 d0)) (sub_value d0)), walk f r with
                 | Some a, Some b => Some (1 + a + b)%nat
                 | _, _ => None
                 end
             | _ => Some 0%nat
             end
         end).
  assert (W : forall fuel d0, (length d0 <= length d)%nat -> (length d0 < fuel)%nat ->
                exists n, walk fuel d0 = Some n /\ (n <= length d0)%nat).
  { induction fuel as [|f IHf]; intros d0 Hle Hf; [lia|].
    cbn [walk]. destruct (body (tlv 4 2 2) never d0) as [r| | |] eqn:E;
      try (exists 0%nat; split; [reflexivity|lia]).
    apply body_tlv_continue in E as [-> Hl].
    set (v := drop (skip (u16_at 0 d0)) (sub_value d0)).
    assert (Hv : (length v + 4 + length (drop (4 + N.to_nat (tlv_len 2 2 d0)) d0) <= length d0)%nat).
    { unfold v, sub_value. rewrite !length_drop, length_slice. lia. }
    destruct (IH v ltac:(lia)) as (a & Ea & Ha).
    rewrite length_drop in Hv.
    destruct (IHf (drop (4 + N.to_nat (tlv_len 2 2 d0)) d0)) as (b & Eb & Hb);
      [rewrite length_drop; lia | rewrite length_drop; lia|].
    rewrite Ea, Eb. eexists; split; [reflexivity|]. rewrite length_drop in Hb. lia. }
  exact (W (S (length d)) d (le_n _) (Nat.lt_succ_diag_r _)).
Qed.

(** ------------------------------------------------------------------------------------ *)
(** Update.parse: with both length fields in range a result object is ALWAYS produced, whatever
    the component decoders do (value or any exception); a failure of either is visible as a
    sub-error.  Outside that range the struct.error of the length read escapes. *)
Lemma shorter_false d k : (k <= length d)%nat -> shorter d k = false.
Proof. unfold shorter. intros. destruct (Nat.ltb_spec (length d) k); [lia|reflexivity]. Qed.
Lemma shorter_true d k : (length d < k)%nat -> shorter d k = true.
Proof. unfold shorter. intros. destruct (Nat.ltb_spec (length d) k); [reflexivity|lia]. Qed.

Lemma update_total P A (prefixes : bytes -> dres P) (attrs : bytes -> dres A) b :
  lengths_in_range b ->
  exists r, update_parse prefixes attrs b = Some r /\
            (u_attr _ _ r = None -> u_sub_error _ _ r <> None) /\
            (u_nlri _ _ r = None \/ u_withdraw _ _ r = None -> u_sub_error _ _ r <> None).
Proof.
  unfold lengths_in_range, update_parse. intros H.
  rewrite shorter_false by lia.
  rewrite shorter_false by (rewrite length_slice; lia).
  set (wl := N.to_nat (u16_at 0 b)) in *.
  set (al := N.to_nat (u16_at (wl + 2) b)).
  destruct (prefixes (slice 2 (wl + 2) b)), (prefixes (drop (wl + 4 + al) b)),
    (attrs (slice (wl + 4) (wl + 4 + al) b));
    eexists; (split; [reflexivity|]); cbn; split; intros X; try discriminate;
    try (destruct X; discriminate).
Qed.

Lemma update_raises_out_of_range P A (prefixes : bytes -> dres P) (attrs : bytes -> dres A) b :
  ~ lengths_in_range b -> update_parse prefixes attrs b = None.
Proof.
  unfold lengths_in_range, update_parse. intros H.
  destruct (shorter b 2) eqn:E; [reflexivity|].
  rewrite shorter_true; [reflexivity|]. rewrite length_slice. lia.
Qed.

(** [all_loops_terminate] with the definitions unfolded (the form stated in props/C11.v) *)
Lemma all_loops_terminate_in :
  forall e, In e modelled_loops -> forall s, In s (e_shapes e) ->
  forall (raises : bytes -> bool) (d : bytes),
    exists n, (n <= length d)%nat /\
      (run (body s raises) (S (length d)) d = Done n \/ run (body s raises) (S (length d)) d = Raised n).
Proof.
  intros e He s Hs raises d.
  pose proof (proj1 (Forall_forall _ _) all_loops_terminate e He) as H.
  exact (proj1 (Forall_forall _ _) H s Hs raises d).
Qed.

Lemma all_loops_never_out_of_fuel :
  forall e, In e modelled_loops -> forall s, In s (e_shapes e) ->
  forall (raises : bytes -> bool) (d : bytes) (fuel : nat), (length d < fuel)%nat ->
    run (body s raises) fuel d <> OutOfFuel.
Proof.
  intros e He s Hs raises d fuel Hf.
  destruct (all_loops_terminate_in e He s Hs raises d) as (n & _ & H).
  assert (G : forall o, run (body s raises) (S (length d)) d = o -> o <> OutOfFuel ->
                        run (body s raises) fuel d <> OutOfFuel).
  { intros o Ho Hne. rewrite (run_fuel_mono _ _ _ _ Ho Hne fuel ltac:(lia)). exact Hne. }
  destruct H as [H|H]; eapply G; try exact H; discriminate.
Qed.

Lemma inventory_complete :
  gen_loops = map e_key modelled_loops /\ unmodelled_loops = [] /\
  gen_rec_sites = map rec_key modelled_rec_sites /\
  forallb (fun e => let c := snd e in (1 <=? c) && (c <=? 4)) gen_for_loops = true.
Proof.
  split; [exact inventory_matches|]. split; [exact unmodelled_empty|].
  split; [exact rec_sites_match|exact for_loops_bounded].
Qed.
