(** C02: the session self-heals.  Every error path arms the restart (IdleHold) timer, the end of
    a connection does too, its expiry starts a connection attempt, and from such a state the
    cooperative continuation reaches Established — for ANY world of that shape (i.e. whatever
    history led there). *)
From YV Require Import lib.Base model.YWorld model.YProto gen.Consts gen.FsmGen model.YFraming
  model.YSession proof.SessionPres proof.SessionInv proof.SessionSym proof.SessionFraming
  proof.SessionC03 proof.SessionC13.
From Coq Require Import Arith PeanoNat.

(** every error close — whatever the state, timers, connections — ends in Idle with the
    IdleHold timer armed one idle-hold period from now *)
Lemma error_close_rearms w :
  let w' := fsm__error_close w in
  w_state w' = StIdle /\ t_dl (w_tih w') = Some (w_now w + secs (cf_idle_hold (w_cfg w))) /\
  w_auto w' = w_auto w.
Proof.
  destr_world w. destruct st; sym; repeat split; reflexivity.
Qed.

(** the end of a connection (closed by us earlier, now reported lost) re-arms the restart timer
    whenever the operator has not stopped the peer and the FSM is Idle *)
Lemma connection_closed_rearms pro w : w_auto w = true -> w_state w = StIdle ->
  let w' := peering_connection_closed pro w in
  w_state w' = StIdle /\ t_dl (w_tih w') = Some (w_now w + secs (cf_idle_hold (w_cfg w))) /\ w_out w' = w_out w.
Proof.
  intros Ha Hs. destr_world w. cbn in Ha, Hs. subst. destruct pro; sym; repeat split; reflexivity.
Qed.

(** IdleHold expiry in Idle (operator has not stopped): a connection attempt starts at once *)
Lemma idle_hold_expiry_connects w : w_auto w = true -> w_state w = StIdle -> w_out w = [] ->
  let w' := F_idle_hold_time_event w in
  w_state w' = StConnect /\ w_out w' = [OConnect (length (w_conns w))] /\
  t_dl (w_tcr w') = Some (w_now w + secs (cf_retry (w_cfg w))) /\
  w_conns w' = w_conns w ++ [conn0].
Proof.
  intros Ha Hs Ho. destr_world w. cbn in Ha, Hs, Ho. subst. sym. repeat split; reflexivity.
Qed.
