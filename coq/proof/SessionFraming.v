(** C04 for the session model: the framing machine instantiated with the real session reaction
    satisfies the hypotheses of proof/FramingProofs.v on the connection the FSM tracks. *)
From YV Require Import lib.Base model.YWorld model.YProto gen.Consts gen.FsmGen model.YFraming
  model.YSession proof.SessionPres proof.SessionInv proof.FramingProofs.
From Coq Require Import Arith PeanoNat.

(** [Good c w]: the FSM tracks connection c and c is connected *)
Definition Good (c : nat) (w : world) : Prop := w_proto w = Some c /\ conn_connected c w = true.
Definition Disc (c : nat) (w : world) : Prop := c_disc (get_conn c w) = true.

Lemma nth_error_upd_nth {A} f : forall (l : list A) c c',
  nth_error (upd_nth c' f l) c =
  if Nat.eqb c c' then option_map f (nth_error l c) else nth_error l c.
Proof.
  induction l as [|x l IH]; intros c c'.
  - destruct c, c'; cbn; try reflexivity; destruct (Nat.eqb c c'); reflexivity.
  - destruct c', c; cbn [upd_nth nth_error]; try reflexivity. rewrite IH. reflexivity.
Qed.

Lemma connected_upd c c' f w : keeps_buf f ->
  conn_connected c (upd_conn c' f w) = conn_connected c w.
Proof.
  intros Hf. unfold conn_connected, upd_conn. cbn. rewrite nth_error_upd_nth.
  destruct (Nat.eqb c c'); auto. destruct (nth_error (w_conns w) c); cbn; auto.
  destruct (Hf c0) as (_ & -> & _). reflexivity.
Qed.
Lemma connected_frame c w w' : w_conns w' = w_conns w -> conn_connected c w' = conn_connected c w.
Proof. unfold conn_connected. intros ->. reflexivity. Qed.
Lemma connected_app c w k : conn_connected c w = true ->
  conn_connected c (set_w_conns (w_conns w ++ [k]) w) = true.
Proof.
  unfold conn_connected. cbn. intros H.
  destruct (nth_error (w_conns w) c) eqn:E; [|discriminate].
  rewrite nth_error_app1; [rewrite E; auto|]. apply nth_error_Some. congruence.
Qed.

Lemma Good_frame c w w' : w_proto w' = w_proto w -> w_conns w' = w_conns w -> Good c w -> Good c w'.
Proof. intros Hp Hc [H1 H2]. split; [congruence|]. rewrite (connected_frame c w w'); auto. Qed.
Lemma Good_upd c c' f w : keeps_buf f -> Good c w -> Good c (upd_conn c' f w).
Proof. intros Hf [H1 H2]. split; auto. rewrite connected_upd; auto. Qed.
Lemma Good_emit c o w : Good c w -> Good c (emit o w).
Proof. apply Good_frame; reflexivity. Qed.
Lemma Good_conn_write c c' m w : Good c w -> Good c (conn_write c' m w).
Proof. intros H. unfold conn_write. destruct (conn_connected c' w); auto; try (apply Good_emit; auto). Qed.
Lemma Good_set_tm c t v w : Good c w -> Good c (set_tm t v w).
Proof. apply Good_frame; destruct t; reflexivity. Qed.
Lemma Good_with_proto c f w : (forall w, Good c w -> Good c (f c w)) -> Good c w -> Good c (with_proto f w).
Proof. intros Hf H. unfold with_proto. destruct H as (Hp & Hr). rewrite Hp. apply Hf. split; auto. Qed.

Lemma Good_prims c : prims_ok (Good c).
Proof.
  constructor.
  - intros s w H. unfold set_state. destruct (bst_eqb s (w_state w)); auto.
    destruct s; eapply Good_frame; [| |exact H| | |exact H| | |exact H| | |exact H| | |exact H| | |exact H]; reflexivity.
  - intros; unfold tm_reset; apply Good_set_tm; auto.
  - intros; unfold tm_cancel; apply Good_set_tm; auto.
  - intros; unfold tm_active; cbn [snd]; apply Good_set_tm; auto.
  - intros n w H; eapply Good_frame; [| |exact H]; reflexivity.
  - intros n w H; eapply Good_frame; [| |exact H]; reflexivity.
  - intros n w H; eapply Good_frame; [| |exact H]; reflexivity.
  - intros n w H; eapply Good_frame; [| |exact H]; reflexivity.
  - intros w H. apply Good_with_proto; auto. intros w' H'. unfold conn_send_open. cbv beta zeta.
    apply Good_emit, Good_upd; auto with keeps. apply Good_conn_write.
    unfold capability_negotiate. destruct (w_capr w'); auto;
      try (eapply Good_frame; [| |exact H']; reflexivity).
  - intros w H. apply Good_with_proto; auto. intros w' H'. unfold conn_send_keepalive.
    apply Good_conn_write, Good_upd; auto with keeps.
  - intros code s d w H. apply Good_with_proto; auto. intros w' H'. unfold conn_send_notification.
    apply Good_conn_write, Good_upd; auto with keeps.
  - intros w H. apply Good_with_proto; auto. intros w' H'. unfold conn_close.
    destruct (conn_connected c w'); auto. apply Good_upd; auto with keeps.
    destruct (c_closing (get_conn c w')); auto; try (apply Good_emit; auto).
  - intros w H. unfold peering_connect. destruct (st_is w StEstablished); auto.
    apply Good_emit. destruct H as [H1 H2]. split; auto. apply connected_app; auto.
Qed.
Lemma Good_glue c : glue_ok (Good c).
Proof.
  constructor.
  - intros; apply Good_emit; auto.
  - intros c0 f w [Hf _] H; apply Good_upd; auto.
  - intros n w H; eapply Good_frame; [| |exact H]; reflexivity.
  - intros n w H; eapply Good_frame; [| |exact H]; reflexivity.
  - intros n w H; eapply Good_frame; [| |exact H]; reflexivity.
Qed.

(** once set, [c_disc] stays set *)
Lemma disc_upd c c' f w : keeps_buf f -> Disc c w -> Disc c (upd_conn c' f w).
Proof.
  unfold Disc, get_conn, upd_conn. cbn. intros Hf H. rewrite nth_upd_nth.
  destruct (Nat.eqb c c' && Nat.ltb c (length (w_conns w))); auto. apply Hf; auto.
Qed.
Lemma Disc_frame c w w' : w_conns w' = w_conns w -> Disc c w -> Disc c w'.
Proof. unfold Disc, get_conn. intros ->. auto. Qed.
Lemma Disc_emit c o w : Disc c w -> Disc c (emit o w).
Proof. apply Disc_frame; reflexivity. Qed.
Lemma Disc_conn_write c c' m w : Disc c w -> Disc c (conn_write c' m w).
Proof. intros H. unfold conn_write. destruct (conn_connected c' w); auto; try (apply Disc_emit; auto). Qed.
Lemma Disc_set_tm c t v w : Disc c w -> Disc c (set_tm t v w).
Proof. apply Disc_frame; destruct t; reflexivity. Qed.
Lemma Disc_with_proto c f w :
  (forall c' w, Disc c w -> Disc c (f c' w)) -> Disc c w -> Disc c (with_proto f w).
Proof. intros Hf H. unfold with_proto. destruct (w_proto w); auto; try (apply Disc_emit; auto). Qed.

Lemma Disc_prims c : prims_ok (Disc c).
Proof.
  constructor.
  - intros s w H. unfold set_state. destruct (bst_eqb s (w_state w)); auto.
    destruct s; eapply Disc_frame; [|exact H| |exact H| |exact H| |exact H| |exact H| |exact H]; reflexivity.
  - intros; unfold tm_reset; apply Disc_set_tm; auto.
  - intros; unfold tm_cancel; apply Disc_set_tm; auto.
  - intros; unfold tm_active; cbn [snd]; apply Disc_set_tm; auto.
  - intros n w H; eapply Disc_frame; [|exact H]; reflexivity.
  - intros n w H; eapply Disc_frame; [|exact H]; reflexivity.
  - intros n w H; eapply Disc_frame; [|exact H]; reflexivity.
  - intros n w H; eapply Disc_frame; [|exact H]; reflexivity.
  - intros w H. apply Disc_with_proto; auto. intros c' w' H'. unfold conn_send_open. cbv beta zeta.
    apply Disc_emit, disc_upd; auto with keeps. apply Disc_conn_write.
    unfold capability_negotiate. destruct (w_capr w'); auto;
      try (eapply Disc_frame; [|exact H']; reflexivity).
  - intros w H. apply Disc_with_proto; auto. intros c' w' H'. unfold conn_send_keepalive.
    apply Disc_conn_write, disc_upd; auto with keeps.
  - intros code s d w H. apply Disc_with_proto; auto. intros c' w' H'. unfold conn_send_notification.
    apply Disc_conn_write, disc_upd; auto with keeps.
  - intros w H. apply Disc_with_proto; auto. intros c' w' H'. unfold conn_close.
    destruct (conn_connected c' w'); auto. apply disc_upd; auto with keeps.
    destruct (c_closing (get_conn c' w')); auto; try (apply Disc_emit; auto).
  - intros w H. unfold peering_connect. destruct (st_is w StEstablished); auto.
    apply Disc_emit. unfold Disc, get_conn in *. cbn. rewrite nth_app_default. exact H.
Qed.

(** closing the tracked, connected connection sets its [c_disc] *)
Lemma close_sets_disc c w : Good c w -> Disc c (p_close_connection w).
Proof.
  intros [Hp Hc]. unfold p_close_connection, with_proto. rewrite Hp. unfold conn_close. rewrite Hc.
  unfold Disc, get_conn, upd_conn. cbn [w_conns set_w_conns].
  set (w' := if c_closing (nth c (w_conns w) conn0) then w else emit (OLose c) w).
  assert (Hw : w_conns w' = w_conns w) by (unfold w'; destruct (c_closing _); reflexivity).
  rewrite Hw, nth_upd_nth.
  unfold conn_connected in Hc. destruct (nth_error (w_conns w) c) eqn:E; [|discriminate].
  assert (Hl : (c < length (w_conns w))%nat) by (apply nth_error_Some; congruence).
  rewrite Nat.eqb_refl. apply Nat.ltb_lt in Hl. rewrite Hl. reflexivity.
Qed.

Lemma close_connection_disc c w : Good c w -> Disc c (fsm__close_connection w).
Proof.
  intros H. unfold fsm__close_connection. cbv beta iota zeta.
  destruct H as [Hp Hc]. rewrite Hp. cbn [is_some].
  apply (ok_crc _ (Disc_prims c)). apply close_sets_disc. split; auto.
Qed.

Ltac disc_then_good :=
  repeat first
    [ lazymatch goal with |- Disc _ (fsm__close_connection _) => apply close_connection_disc end
    | lazymatch goal with
      | |- Disc ?c0 (set_state _ _) => apply (ok_set_state _ (Disc_prims c0))
      | |- Disc ?c0 (set_w_crc _ _) => apply (ok_crc _ (Disc_prims c0))
      | |- Disc _ (if _ then _ else _) => apply P_if
      end ].

Lemma error_close_disc c w : Good c w -> Disc c (fsm__error_close w).
Proof.
  intros H. unfold fsm__error_close. cbv beta iota zeta.
  disc_then_good.
  all: repeat first [ assumption
                    | lazymatch goal with
                      | |- Good ?c0 (tm_reset _ _ _) => apply (ok_tm_reset _ (Good_prims c0)); [discriminate|]
                      | |- Good ?c0 (tm_cancel _ _) => apply (ok_tm_cancel _ (Good_prims c0))
                      | |- Good _ (if _ then _ else _) => apply P_if
                      end ].
Qed.

Lemma header_error_disc c sub d w : Good c w -> Disc c (F_header_error sub d w).
Proof.
  intros H. unfold F_header_error, fsmU_header_error, fsm_header_error. cbv beta iota zeta.
  apply error_close_disc. apply (ok_send_notif _ (Good_prims c)); auto.
Qed.
Lemma open_message_error_disc c sub d w : Good c w -> Disc c (F_open_message_error sub d w).
Proof.
  intros H. unfold F_open_message_error, fsmU_open_message_error, fsm_open_message_error. cbv beta iota zeta.
  apply error_close_disc. apply (ok_send_notif _ (Good_prims c)); auto.
Qed.

Section Inst.
Variable D : decoders.
Variable c : nat.

Lemma dispatch_good ty m w : Good c w -> Good c (snd (dispatch D c ty m w)).
Proof. intros H. apply pres_dispatch; auto using Good_prims, Good_glue. Qed.

Lemma dispatch_stuck_closes ty m w : Good c w ->
  fst (dispatch D c ty m w) = false -> conn_closed_by_us c (snd (dispatch D c ty m w)) = true.
Proof.
  intros H. unfold conn_closed_by_us. fold (Disc c (snd (dispatch D c ty m w))).
  pose proof (Good_glue c) as GK.
  unfold dispatch.
  repeat match goal with |- fst (if ?b then _ else _) = false -> _ => destruct b end.
  - unfold open_received. cbv zeta.
    assert (H1 : Good c (upd_conn c (on_recv bump_open) w)) by (apply (g_upd _ GK); auto using keeps_on_recv).
    destruct (d_open D m) as [sub|sub| |asn hold caps]; cbn [fst snd].
    + intros _. apply header_error_disc; auto.
    + intros _. apply open_message_error_disc; auto.
    + discriminate.
    + destruct (negb (asn =? cf_remote_as (w_cfg (upd_conn c (on_recv bump_open) w)))); cbn [fst snd].
      * intros _. apply open_message_error_disc; auto.
      * discriminate.
  - unfold update_received. destruct (d_update D _ m); cbn [fst]; discriminate.
  - unfold notification_received. destruct m as [|e [|s r]]; cbn [fst]; discriminate.
  - unfold keepalive_received. cbv zeta. destruct m; cbn [fst snd]; [discriminate|]. intros _.
    apply header_error_disc. apply (g_handler _ GK). apply (g_upd _ GK); auto using keeps_on_recv.
  - unfold route_refresh_received. destruct (Nat.eqb (length m) 4); cbn [fst]; discriminate.
  - cbn [fst]. discriminate.
Qed.

(** the framing theorems of proof/FramingProofs.v, for the session model *)
Notation FEED := (feed world (dispatch D c) (fun sub d w => F_header_error sub d w) (conn_closed_by_us c)).
Notation FEED_ALL := (feed_all world (dispatch D c) (fun sub d w => F_header_error sub d w) (conn_closed_by_us c)).

Theorem session_chunking_independent : forall chunks w buf,
  Good c w ->
  quiescent world (dispatch D c) (fun sub d w => F_header_error sub d w) (conn_closed_by_us c) (w, buf) ->
  equiv world (conn_closed_by_us c) (FEED_ALL (w, buf) chunks) (FEED (w, buf) (concat chunks)).
Proof.
  intros chunks w buf Hg Hq.
  apply (chunking_independent world (dispatch D c) (fun sub d w => F_header_error sub d w)
           (conn_closed_by_us c) (Good c)); auto.
  - intros; apply dispatch_good; auto.
  - intros; apply pres_header_error; auto using Good_prims.
  - intros sub d s Hs. apply header_error_disc; auto.
  - intros; apply dispatch_stuck_closes; auto.
Qed.
End Inst.
