(** only the operator switches automatic restart off: a predicate that every primitive EXCEPT the
    assignment of allow_automatic_start preserves is preserved by every FSM method other than
    manual stop / manual start (the only two that contain that assignment) and by the glue *)
From YV Require Import lib.Base model.YWorld model.YProto gen.Consts gen.FsmGen model.YFraming model.YSession
  proof.SessionPres.
From Coq Require Import Arith PeanoNat.

Section PresNA.
Variable P : world -> Prop.

Record prims_na : Prop := {
  na_set_state : forall s w, P w -> P (set_state s w);
  na_tm_reset : forall t d w, t <> TDelayOpen -> P w -> P (tm_reset t d w);
  na_tm_cancel : forall t w, P w -> P (tm_cancel t w);
  na_tm_active : forall t w, P w -> P (snd (tm_active t w));
  na_crc : forall n w, P w -> P (set_w_crc n w);
  na_status : forall b w, P w -> P (set_w_status b w);
  na_estab : forall o w, P w -> P (set_w_estab o w);
  na_send_open : forall w, P w -> P (p_send_open w);
  na_send_ka : forall w, P w -> P (p_send_keepalive w);
  na_send_notif : forall c s d w, P w -> P (p_send_notification c s d w);
  na_close : forall w, P w -> P (p_close_connection w);
  na_connect : forall w, P w -> P (peering_connect w)
}.

Hypothesis OK : prims_na.

Lemma NP_if (c : bool) (a b : world) : P a -> P b -> P (if c then a else b).
Proof. destruct c; auto. Qed.
Lemma NP_snd_if (c : bool) (a b : bool * world) : P (snd a) -> P (snd b) -> P (snd (if c then a else b)).
Proof. destruct c; auto. Qed.
Lemma NP_snd_pair (x : bool) (w : world) : P w -> P (snd (x, w)).
Proof. auto. Qed.

Ltac pres1 :=
  lazymatch goal with
  | H : P ?w |- P ?w => exact H
  | |- P (if _ then _ else _) => apply NP_if
  | |- P (snd (if _ then _ else _)) => apply NP_snd_if
  | |- P (snd (_, _)) => apply NP_snd_pair
  | |- P (set_state _ _) => apply (na_set_state OK)
  | |- P (tm_reset _ _ _) => apply (na_tm_reset OK); [discriminate|]
  | |- P (tm_cancel _ _) => apply (na_tm_cancel OK)
  | |- P (snd (tm_active _ _)) => apply (na_tm_active OK)
  | |- P (set_w_crc _ _) => apply (na_crc OK)
  | |- P (set_w_status _ _) => apply (na_status OK)
  | |- P (set_w_estab _ _) => apply (na_estab OK)
  | |- P (p_send_open _) => apply (na_send_open OK)
  | |- P (p_send_keepalive _) => apply (na_send_ka OK)
  | |- P (p_send_notification _ _ _ _) => apply (na_send_notif OK)
  | |- P (p_close_connection _) => apply (na_close OK)
  | |- P (peering_connect _) => apply (na_connect OK)
  end.
Ltac pres := repeat pres1.

(** leaf FSM methods *)
Lemma napres_close_connection w : P w -> P (fsm__close_connection w).
Proof. intros H. unfold fsm__close_connection. cbv beta iota zeta. pres. Qed.
Lemma napres_error_close w : P w -> P (fsm__error_close w).
Proof.
  intros H. unfold fsm__error_close. cbv beta iota zeta.
  repeat first [ pres1 | lazymatch goal with |- P (fsm__close_connection _) => apply napres_close_connection end ].
Qed.
Lemma napres_automatic_start ih w : P w -> P (snd (fsm_automatic_start ih w)).
Proof. intros H. unfold fsm_automatic_start. cbv beta iota zeta. pres. Qed.


(** peering glue *)
Lemma napres_peering_automatic_start ih w : P w -> P (peering_automatic_start ih w).
Proof.
  intros H. unfold peering_automatic_start. cbv beta iota zeta.
  repeat first [ pres1 | lazymatch goal with |- P (snd (fsm_automatic_start _ _)) => apply napres_automatic_start end ].
Qed.
Lemma napres_peering_connection_closed pro w : P w -> P (peering_connection_closed pro w).
Proof.
  intros H. unfold peering_connection_closed. cbv beta iota zeta.
  repeat first [ pres1 | lazymatch goal with |- P (peering_automatic_start _ _) => apply napres_peering_automatic_start end ].
Qed.


Ltac napres_all :=
  repeat first
    [ pres1
    | lazymatch goal with
      | |- P (fsm__close_connection _) => apply napres_close_connection
      | |- P (fsm__error_close _) => apply napres_error_close
      | |- P (peering_automatic_start _ _) => apply napres_peering_automatic_start
      | |- P (peering_connection_closed _ _) => apply napres_peering_connection_closed
      | |- P (snd (fsm_automatic_start _ _)) => apply napres_automatic_start
      end ].

Ltac fsm_pres f := intros H; unfold f; cbv beta iota zeta; napres_all.

(** every FSM method, callbacks tied *)

Lemma napres_connect_retry_time_event w : P w -> P (F_connect_retry_time_event w).
Proof. intros H. unfold F_connect_retry_time_event, fsmU_connect_retry_time_event, fsm_connect_retry_time_event, peering_connect_retry. cbv beta iota zeta. napres_all. Qed.
Lemma napres_hold_time_event w : P w -> P (F_hold_time_event w).
Proof. intros H. unfold F_hold_time_event, fsmU_hold_time_event, fsm_hold_time_event. cbv beta iota zeta. napres_all. Qed.
Lemma napres_keep_alive_time_event w : P w -> P (F_keep_alive_time_event w).
Proof. intros H. unfold F_keep_alive_time_event, fsmU_keep_alive_time_event, fsm_keep_alive_time_event. cbv beta iota zeta. napres_all. Qed.
Lemma napres_delay_open_time_event w : P w -> P (F_delay_open_time_event w).
Proof. intros H. unfold F_delay_open_time_event, fsmU_delay_open_time_event, fsm_delay_open_time_event. cbv beta iota zeta. napres_all. Qed.
Lemma napres_idle_hold_time_event w : P w -> P (F_idle_hold_time_event w).
Proof. intros H. unfold F_idle_hold_time_event, fsmU_idle_hold_time_event, fsm_idle_hold_time_event. cbv beta iota zeta. napres_all. Qed.
Lemma napres_connection_made w : P w -> P (F_connection_made w).
Proof. intros H. unfold F_connection_made, fsmU_connection_made, fsm_connection_made. cbv beta iota zeta. napres_all. Qed.
Lemma napres_connection_failed w : P w -> P (F_connection_failed w).
Proof. intros H. unfold F_connection_failed, fsmU_connection_failed, fsm_connection_failed. cbv beta iota zeta. napres_all. Qed.
Lemma napres_open_received0 w : P w -> P (F_open_received w).
Proof. intros H. unfold F_open_received, fsmU_open_received, fsm_open_received. cbv beta iota zeta. napres_all. Qed.
Lemma napres_header_error s d w : P w -> P (F_header_error s d w).
Proof. intros H. unfold F_header_error, fsmU_header_error, fsm_header_error. cbv beta iota zeta. napres_all. Qed.
Lemma napres_open_message_error s d w : P w -> P (F_open_message_error s d w).
Proof. intros H. unfold F_open_message_error, fsmU_open_message_error, fsm_open_message_error. cbv beta iota zeta. napres_all. Qed.
Lemma napres_notification_received0 e s w : P w -> P (F_notification_received e s w).
Proof.
  intros H. unfold F_notification_received, fsmU_notification_received, fsm_notification_received,
    fsm_notimsg_version_error. cbv beta iota zeta. napres_all.
Qed.
Lemma napres_keep_alive_received w : P w -> P (F_keep_alive_received w).
Proof. intros H. unfold F_keep_alive_received, fsmU_keep_alive_received, fsm_keep_alive_received. cbv beta iota zeta. napres_all. Qed.
Lemma napres_update_received0 w : P w -> P (F_update_received w).
Proof. intros H. unfold F_update_received, fsmU_update_received, fsm_update_received. cbv beta iota zeta. napres_all. Qed.

End PresNA.

Definition A (a : bool) (w : world) : Prop := w_auto w = a.

Lemma A_frame a w w' : w_auto w' = w_auto w -> A a w -> A a w'.
Proof. unfold A. congruence. Qed.
Lemma A_with_proto a f w : (forall c w, A a w -> A a (f c w)) -> A a w -> A a (with_proto f w).
Proof. intros Hf H. unfold with_proto. destruct (w_proto w); auto. Qed.

Lemma A_prims a : prims_na (A a).
Proof.
  constructor.
  - intros s w H. unfold set_state. destruct (bst_eqb s (w_state w)); auto.
    destruct s; eapply A_frame; try exact H; reflexivity.
  - intros t d w _ H. eapply A_frame; [|exact H]. destruct t; reflexivity.
  - intros t w H. eapply A_frame; [|exact H]. destruct t; reflexivity.
  - intros t w H. eapply A_frame; [|exact H]. destruct t; reflexivity.
  - intros x w H; eapply A_frame; [|exact H]; reflexivity.
  - intros x w H; eapply A_frame; [|exact H]; reflexivity.
  - intros x w H; eapply A_frame; [|exact H]; reflexivity.
  - intros w H. apply A_with_proto; auto. intros c w' H'. unfold conn_send_open. cbv beta zeta.
    eapply A_frame; [|exact H']. unfold conn_write, capability_negotiate.
    destruct (w_capr w'); cbn; repeat (match goal with |- context [if ?b then _ else _] => destruct b end); reflexivity.
  - intros w H. apply A_with_proto; auto. intros c w' H'. unfold conn_send_keepalive, conn_write.
    eapply A_frame; [|exact H']. match goal with |- context [if ?b then _ else _] => destruct b end; reflexivity.
  - intros code s d w H. apply A_with_proto; auto. intros c w' H'. unfold conn_send_notification, conn_write.
    eapply A_frame; [|exact H']. match goal with |- context [if ?b then _ else _] => destruct b end; reflexivity.
  - intros w H. apply A_with_proto; auto. intros c w' H'. unfold conn_close.
    eapply A_frame; [|exact H']. repeat (match goal with |- context [if ?b then _ else _] => destruct b end); reflexivity.
  - intros w H. unfold peering_connect.
    eapply A_frame; [|exact H]. match goal with |- context [if ?b then _ else _] => destruct b end; reflexivity.
Qed.

Section Events.
Variable D : decoders.
Variable a : bool.
Notation P := (A a).
Notation OK := (A_prims a).

Lemma A_upd c f w : P w -> P (upd_conn c f w). Proof. apply A_frame; reflexivity. Qed.
Lemma A_emit o w : P w -> P (emit o w). Proof. apply A_frame; reflexivity. Qed.

Lemma A_dispatch c ty msg w : P w -> P (snd (dispatch D c ty msg w)).
Proof.
  intros H. unfold dispatch.
  destruct (ty =? c_MSG_OPEN).
  { unfold open_received. cbv zeta.
    assert (H0 : P (upd_conn c (on_recv bump_open) w)) by (apply A_upd; exact H).
    destruct (d_open D msg) as [sub|sub| |asn hold caps]; cbn [snd];
      [ apply (napres_header_error P OK); exact H0 | apply (napres_open_message_error P OK); exact H0 | exact H0 | ].
    destruct (negb _); cbn [snd]; [apply (napres_open_message_error P OK); exact H0|].
    apply A_emit, (napres_open_received0 P OK).
    unfold negotiate_hold_time. cbv zeta.
    set (w1 := if cap_has KFourBytesAs caps then upd_conn c (set_c_asn4 true) (set_w_capr caps (upd_conn c (on_recv bump_open) w))
               else set_w_capr caps (upd_conn c (on_recv bump_open) w)).
    assert (H1 : P w1) by (unfold w1; destruct (cap_has _ _); [apply A_upd|]; revert H0; apply A_frame; reflexivity).
    clearbody w1.
    set (w2 := set_w_hold (N.min (w_hold w1) hold) w1).
    assert (H2 : P w2) by (revert H1; apply A_frame; reflexivity). clearbody w2.
    eapply A_frame; [reflexivity|].
    destruct (hold_refused _ _); [apply (napres_open_message_error P OK)|]; exact H2. }
  destruct (ty =? c_MSG_UPDATE).
  { unfold update_received. destruct (d_update D _ msg); cbn [snd]; [ | | exact H];
      apply (napres_update_received0 P OK), A_upd, A_emit; exact H. }
  destruct (ty =? c_MSG_NOTIFICATION).
  { unfold notification_received. destruct msg as [|e [|s r]]; cbn [snd]; [exact H|exact H|].
    apply (napres_notification_received0 P OK), A_emit, A_upd; exact H. }
  destruct (ty =? c_MSG_KEEPALIVE).
  { unfold keepalive_received. cbv zeta.
    assert (H0 : P (emit (OHandler HKeepalive) (upd_conn c (on_recv bump_ka) w))) by (apply A_emit, A_upd; exact H).
    destruct msg; cbn [snd]; [apply (napres_keep_alive_received P OK)|apply (napres_header_error P OK)]; exact H0. }
  destruct (_ || _).
  { unfold route_refresh_received. destruct (Nat.eqb _ _); cbn [snd]; [|exact H]. apply A_emit, A_upd; exact H. }
  cbn [snd]. apply (napres_header_error P OK); exact H.
Qed.

Lemma A_frame_loop c : forall fuel buf w, P w ->
  P (fst (fst (frame_loop world (dispatch D c) (fun sub d w => F_header_error sub d w)
                          (conn_closed_by_us c) fuel buf w))).
Proof.
  induction fuel as [|fuel IH]; intros buf w H; cbn [frame_loop fst]; auto.
  unfold parse1. cbv zeta.
  destruct (len buf <? c_HDR_LEN); cbn [fst]; auto.
  destruct (negb _); cbn [fst]; [apply (napres_header_error P OK); exact H|].
  destruct (_ || _); cbn [fst]; [apply (napres_header_error P OK); exact H|].
  destruct (len buf <? _); cbn [fst]; auto.
  pose proof (A_dispatch c (nth 18 buf 0) (slice 19 (N.to_nat (unbe (slice 16 18 buf))) buf) w H) as Hd.
  destruct (fst (dispatch D c _ _ w)); cbn [fst]; auto.
  destruct (conn_closed_by_us c _); cbn [fst]; auto.
Qed.

(** every event other than the operator's stop / start leaves the flag alone *)
Lemma A_event e w : e <> EManualStop -> e <> EManualStart -> P w -> P (do_event D e w).
Proof.
  intros N1 N2 H. destruct e; cbn [do_event]; try congruence.
  - apply (napres_peering_automatic_start P OK); exact H.
  - unfold conn_made. cbv zeta. apply (napres_connection_made P OK).
    assert (H1 : P (set_state StConnect (set_w_proto (Some c) w))).
    { apply (na_set_state P OK). revert H. apply A_frame. reflexivity. }
    set (w1 := set_state StConnect (set_w_proto (Some c) w)) in *. clearbody w1.
    revert H1. apply A_frame. reflexivity.
  - unfold conn_failed. cbv zeta. apply (napres_connection_failed P OK), A_emit, A_upd; exact H.
  - unfold conn_lost. cbv zeta.
    assert (H0 : P (emit (OHandler HConnLost) (upd_conn c (set_c_st CClosed) w))) by (apply A_emit, A_upd; exact H).
    destruct (c_disc _); [apply (napres_peering_connection_closed P OK)|apply (napres_connection_failed P OK)]; exact H0.
  - unfold data_received. cbv zeta.
    pose proof (A_frame_loop c (S (length (c_buf (get_conn c w) ++ b))) (c_buf (get_conn c w) ++ b) w H) as Hl.
    set (r := frame_loop _ _ _ _ _ _ _) in *. clearbody r.
    assert (Hx : P (upd_conn c (set_c_buf (snd (fst r))) (fst (fst r)))) by (apply A_upd; exact Hl).
    destruct (snd r); [exact Hx|apply A_emit; exact Hx].
  - unfold fire_timer. destruct (t_dl (get_tm t w)); [|exact H].
    assert (H0 : P (set_tm t {| t_dl := None; t_status := t_status (get_tm t (set_w_now n w)) |} (set_w_now n w))).
    { revert H. apply A_frame. destruct t; reflexivity. }
    destruct t; [apply (napres_connect_retry_time_event P OK)|apply (napres_hold_time_event P OK)
                |apply (napres_keep_alive_time_event P OK)|apply (napres_delay_open_time_event P OK)
                |apply (napres_idle_hold_time_event P OK)]; exact H0.
  - revert H. apply A_frame. reflexivity.
  - unfold api_send_update. destruct ok; [|exact H]. apply A_with_proto; [|exact H]. intros c' w' H'.
    apply A_upd. unfold conn_write. destruct (conn_connected c' w'); [apply A_emit|]; exact H'.
  - unfold api_send_bin. apply A_with_proto; [|exact H]. intros c' w' H'.
    apply A_upd. unfold conn_write. destruct (conn_connected c' w'); [apply A_emit|]; exact H'.
Qed.
End Events.

(** manual start never switches it off *)
Lemma auto_manual_start w : w_auto w = true -> w_auto (peering_manual_start w) = true.
Proof.
  intros H. unfold peering_manual_start.
  destruct (st_is w StEstablished); [exact H|]. destruct (st_is w StIdle); [|exact H].
  assert (G : w_auto (snd (fsm_manual_start false w)) = true).
  { unfold fsm_manual_start. cbv beta iota zeta. cbn [snd]. unfold set_state.
    destruct (bst_eqb _ _); reflexivity. }
  destruct (fst (fsm_manual_start false w)); [|exact G].
  unfold peering_connect. destruct (st_is _ StEstablished); cbn; exact G.
Qed.

Theorem auto_only_operator (D : decoders) : forall es w,
  ~ In EManualStop es -> w_auto w = true -> w_auto (run D w es) = true.
Proof.
  induction es as [|e es IH]; intros w Hn H; cbn [run fold_left]; [exact H|].
  apply IH; [intros X; apply Hn; right; exact X|].
  unfold step.
  assert (H0 : w_auto (set_w_out [] w) = true) by exact H.
  destruct (enabled w e); [|exact H0].
  destruct e; try (apply (A_event D true); [discriminate|discriminate|exact H0]).
  - exfalso. apply Hn. left. reflexivity.
  - cbn [do_event]. apply auto_manual_start. exact H0.
Qed.
