(** yabgp/message/attribute/community.py: Community.parse / Community.construct.

    Modelled with the proposed repair build/proposed/c17-community-wellknown-case.diff applied:
    the well-known names are looked up in a table keyed by the UPPER-CASED name (the unrepaired
    code upper-cases the posted text but keeps mixed-case keys such as ROUTE_FILTER_v4, which can
    therefore never match).  WELL_KNOW_COMMUNITY_INT_2_STR is a hand copy compared with the live
    dictionary by the check. *)
From Coq Require Import String ZArith.
From YV Require Import lib.Base lib.Dec gen.Consts model.YExtCom.
Open Scope N_scope.

Definition well_known : list (N * str) :=
  [ (4294901760, codes "PLANNED_SHUT"); (4294901761, codes "ACCEPT_OWN");
    (4294901762, codes "ROUTE_FILTER_TRANSLATED_v4"); (4294901763, codes "ROUTE_FILTER_v4");
    (4294901764, codes "ROUTE_FILTER_TRANSLATED_v6"); (4294901765, codes "ROUTE_FILTER_v6");
    (4294902426, codes "BLACKHOLE"); (4294967041, codes "NO_EXPORT"); (4294967042, codes "NO_ADVERTISE");
    (4294967043, codes "NO_EXPORT_SUBCONFED"); (4294967044, codes "NOPEER") ].
(** WELL_KNOW_COMMUNITY_UPPER_2_INT of the repaired code *)
Definition well_known_upper : list (str * N) := map (fun p => (upper (snd p), fst p)) well_known.

Definition com_text (v : N) : str :=
  match assoc_n v well_known with
  | Some nm => nm
  | None => colon (show_dec (v / 65536)) (show_dec (v mod 65536))
  end.

Fixpoint com_parse_words (fuel : nat) (b : bytes) : list str :=
  match fuel, b with
  | S fuel', _ :: _ => com_text (unbe (take 4 b)) :: com_parse_words fuel' (drop 4 b)
  | _, _ => []
  end.

(** Community.parse(value): any length that is not a multiple of 4 ends in struct.error or
    IndexError, both turned into UpdateMessageError(ATTR_LEN) *)
Definition com_parse (b : bytes) : pres (list str) :=
  if (len b) mod 4 =? 0 then Ok (com_parse_words (length b) b) else Err c_ERR_MSG_UPDATE_ATTR_LEN.

(** one text -> 4 octets; None = UpdateMessageError(ATTR_LEN) ("1:2:3" uses the first two parts) *)
Definition com_item (t : str) : option bytes :=
  match assoc_s (upper t) well_known_upper with
  | Some v => packn 4 v
  | None =>
      match split_on 58 t with
      | a :: b :: _ => x <- py_int a ;; y <- py_int b ;; pack 4 (x * 65536 + y)%Z
      | _ => None
      end
  end.

Fixpoint com_items (l : list str) : option bytes :=
  match l with [] => Some [] | t :: r => a <- com_item t ;; b <- com_items r ;; Some (a ++ b) end.

(** Community.construct(value) *)
Definition com_construct (l : list str) : pres bytes :=
  match com_items l with
  | None => Err c_ERR_MSG_UPDATE_ATTR_LEN
  | Some b => match packn 1 (len b) with
              | Some lb => Ok (c_ATTR_Community_FLAG :: c_ATTR_Community_ID :: lb ++ b)
              | None => Exc
              end
  end.
