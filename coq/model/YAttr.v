(** The twelve path attributes of C06: construct / parse of
    yabgp/message/attribute/{origin,aspath,nexthop,med,localpref,atomicaggregate,aggregator,
    community,originatorid,clusterlist,extcommunity,largecommunity}.py.

    Abstractions (canonicalised on the Python side by harness/props/c06.py):
    - IPv4 addresses are 32-bit integers (netaddr text <-> integer is trusted);
    - a community is [CWk v] (a name of WELL_KNOW_COMMUNITY_*; v its value) or [CPair hi lo]
      ("hi:lo"); decimal rendering is not modelled;
    - an extended community is (code, numeric fields); the decoder's text does not distinguish
      the 2-octet-AS and 4-octet-AS forms of route-target / route-origin, [ext_canon_code]
      is that identification; MACs are 48-bit integers; traffic-rate (float) is outside the
      modelled subset, traffic-action is decoded but its construction is not modelled;
    - a large community is the list of its integer fields.

    REPAIRED behaviour modelled:
    - LargeCommunity.parse unpacks unsigned (build/proposed/c06-large-community-signed.diff);
    - Community.construct finds every well-known name (build/proposed/c06-community-name-case.diff):
      the unrepaired code upper-cases the given name and so never finds the four names that
      contain a lower-case 'v'. *)
From YV Require Import lib.Base gen.Consts model.YMsg model.YPrefix4.

Inductive comm := CWk (v : N) | CPair (hi lo : N).

Inductive aval :=
| VNum (n : N)                          (* ORIGIN, MED, LOCAL_PREF; NEXT_HOP, ORIGINATOR_ID (address) *)
| VPath (segs : list (N * list N))      (* AS_PATH: (segment type, AS numbers) *)
| VEmpty                                (* ATOMIC_AGGREGATE *)
| VPair (a b : N)                       (* AGGREGATOR: (asn, address) *)
| VNums (l : list N)                    (* CLUSTER_LIST *)
| VComms (l : list comm)
| VExts (l : list (N * list N))
| VLarge (l : list (list N))
| VHex (b : bytes).                     (* any other type code: hex text of the value *)

Definition E_UPD {A} (s : N) : res A := Err c_ERR_MSG_UPDATE s.

Definition bind {A B} (r : res A) (f : A -> res B) : res B :=
  match r with Ok a => f a | Err c s => Err c s | PyExc => PyExc end.

(** flags, type, 1-octet length, value (struct.pack('!B', len) raises above 255: callers guard) *)
Definition tlv1 (flag id : N) (v : bytes) : bytes := flag :: id :: len v :: v.

Definition two32 : N := 4294967296.
Definition two16 : N := 65536.

(** fixed-size chunk readers (struct.unpack('!%dI') etc. after the length test) *)
Fixpoint chunks4 (d : bytes) : list N :=
  match d with
  | a :: b :: c :: e :: r => unbe [a; b; c; e] :: chunks4 r
  | _ => []
  end.
Fixpoint chunks2 (d : bytes) : list N :=
  match d with
  | a :: b :: r => unbe [a; b] :: chunks2 r
  | _ => []
  end.

(** ---- ORIGIN ---- *)
Definition construct_origin (v : N) : res bytes :=
  if v <=? 2 then Ok (tlv1 c_ATTR_Origin_FLAG c_ATTR_Origin_ID [v])
  else E_UPD c_ERR_MSG_UPDATE_INVALID_ORIGIN.
Definition parse_origin (v : bytes) : res aval :=
  match v with
  | [o] => if o <=? 2 then Ok (VNum o) else E_UPD c_ERR_MSG_UPDATE_INVALID_ORIGIN
  | _ => E_UPD c_ERR_MSG_UPDATE_ATTR_LEN                  (* the length must be exactly 1 *)
  end.

(** ---- AS_PATH ---- *)
Definition asn_size (asn4 : bool) : nat := if asn4 then 4%nat else 2%nat.
Definition asn_lim (asn4 : bool) : N := if asn4 then two32 else two16.
Definition enc_segment (asn4 : bool) (s : N * list N) : bytes :=
  fst s :: len (snd s) :: concat (map (be (asn_size asn4)) (snd s)).
Definition enc_aspath (asn4 : bool) (segs : list (N * list N)) : bytes :=
  concat (map (enc_segment asn4) segs).
(** per segment, in order: the type must be one of 1..4 (UpdateMessageError MALFORMED_ASPATH),
    then struct.pack of the AS numbers and of the count raise on a value out of range *)
Definition seg_type_ok (s : N * list N) : bool := (1 <=? fst s) && (fst s <=? 4).
Definition segment_ok (asn4 : bool) (s : N * list N) : bool :=
  (len (snd s) <? 256) && forallb (fun a => a <? asn_lim asn4) (snd s).
Fixpoint check_segments (asn4 : bool) (segs : list (N * list N)) : res unit :=
  match segs with
  | [] => Ok tt
  | s :: r =>
    if seg_type_ok s then
      if segment_ok asn4 s then check_segments asn4 r else PyExc
    else E_UPD c_ERR_MSG_UPDATE_MALFORMED_ASPATH
  end.
Definition construct_aspath (asn4 : bool) (segs : list (N * list N)) : res bytes :=
  match check_segments asn4 segs with
  | Ok _ =>
    let raw := enc_aspath asn4 segs in
    if 255 <? len raw then
      if 65535 <? len raw then PyExc
      else Ok ((c_ATTR_ASPath_FLAG + 16) :: c_ATTR_ASPath_ID :: be 2 (len raw) ++ raw)
    else Ok (tlv1 c_ATTR_ASPath_FLAG c_ATTR_ASPath_ID raw)
  | Err c e => Err c e
  | PyExc => PyExc
  end.

Definition parse_segment (asn4 : bool) (d : bytes) : res ((N * list N) * bytes) :=
  match d with
  | t :: n :: r =>
    if (1 <=? t) && (t <=? 4) then
      let k := (N.to_nat n * asn_size asn4)%nat in
      if Nat.eqb (length (take k r)) k then
        Ok ((t, if asn4 then chunks4 (take k r) else chunks2 (take k r)), drop k r)
      else E_UPD c_ERR_MSG_UPDATE_ATTR_LEN
    else E_UPD c_ERR_MSG_UPDATE_MALFORMED_ASPATH
  | _ => PyExc                                           (* struct.unpack('!BB') on one octet *)
  end.
Definition parse_aspath (asn4 : bool) (v : bytes) : res aval :=
  bind (walk (parse_segment asn4) (length v) v) (fun l => Ok (VPath l)).

(** ---- NEXT_HOP ---- *)
Definition construct_nexthop (a : N) : res bytes :=
  if a <? two32 then Ok (tlv1 c_ATTR_NextHop_FLAG c_ATTR_NextHop_ID (be 4 a))
  else E_UPD c_ERR_MSG_UPDATE_INVALID_NEXTHOP.          (* an IPv6 address *)
Definition parse_nexthop (v : bytes) : res aval :=
  if Nat.eqb (Nat.modulo (length v) 4) 0 then
    match v with
    | [] => PyExc                                        (* int('', 16) *)
    | _ => Ok (VNum (unbe (take 4 v)))
    end
  else E_UPD c_ERR_MSG_UPDATE_ATTR_LEN.

(** ---- MED, LOCAL_PREF ---- *)
Definition construct_u32 (flag id v : N) : res bytes :=
  if v <? two32 then Ok (tlv1 flag id (be 4 v)) else E_UPD c_ERR_MSG_UPDATE_ATTR_LEN.
Definition parse_u32 (v : bytes) : res aval :=
  if Nat.eqb (length v) 4 then Ok (VNum (unbe v)) else E_UPD c_ERR_MSG_UPDATE_ATTR_LEN.
Definition construct_med := construct_u32 c_ATTR_MED_FLAG c_ATTR_MED_ID.
Definition construct_localpref := construct_u32 c_ATTR_LocalPreference_FLAG c_ATTR_LocalPreference_ID.

(** ---- ATOMIC_AGGREGATE (value must be falsy; '' is what the decoder gives) ---- *)
Definition construct_atomic : res bytes :=
  Ok [c_ATTR_AtomicAggregate_FLAG; c_ATTR_AtomicAggregate_ID; 0].
Definition parse_atomic (v : bytes) : res aval :=
  match v with [] => Ok VEmpty | _ => E_UPD c_ERR_MSG_UPDATE_OPTIONAL_ATTR end.

(** ---- AGGREGATOR ---- *)
Definition construct_aggregator (asn4 : bool) (asn a : N) : res bytes :=
  if (asn <? asn_lim asn4) && (a <? two32)
  then Ok (tlv1 c_ATTR_Aggregator_FLAG c_ATTR_Aggregator_ID (be (asn_size asn4) asn ++ be 4 a))
  else E_UPD c_ERR_MSG_UPDATE_ATTR_LEN.
Definition parse_aggregator (asn4 : bool) (v : bytes) : res aval :=
  let k := asn_size asn4 in
  if Nat.eqb (length v) (k + 4) then Ok (VPair (unbe (take k v)) (unbe (drop k v)))
  else E_UPD c_ERR_MSG_UPDATE_ATTR_LEN.

(** ---- COMMUNITIES ---- *)
(** keys of WELL_KNOW_COMMUNITY_INT_2_STR (compared with the live table by the check) *)
Definition wk_communities : list N :=
  [4294901760; 4294901761; 4294901762; 4294901763; 4294901764; 4294901765; 4294902426;
   4294967041; 4294967042; 4294967043; 4294967044].
Definition is_wk (v : N) : bool := existsb (N.eqb v) wk_communities.
Definition comm_value (c : comm) : N :=
  match c with CWk v => v | CPair hi lo => hi * 65536 + lo end.
Definition comm_of_value (v : N) : comm := if is_wk v then CWk v else CPair (v / 65536) (v mod 65536).
Definition construct_community (l : list comm) : res bytes :=
  if forallb (fun c => comm_value c <? two32) l then
    let raw := concat (map (fun c => be 4 (comm_value c)) l) in
    if 255 <? len raw then PyExc else Ok (tlv1 c_ATTR_Community_FLAG c_ATTR_Community_ID raw)
  else E_UPD c_ERR_MSG_UPDATE_ATTR_LEN.
(** unpack('!%dH' % (len/2)) then pairs: succeeds exactly when the length is a multiple of 4 *)
Definition parse_community (v : bytes) : res aval :=
  if Nat.eqb (Nat.modulo (length v) 4) 0 then Ok (VComms (map comm_of_value (chunks4 v)))
  else E_UPD c_ERR_MSG_UPDATE_ATTR_LEN.

(** ---- ORIGINATOR_ID ---- *)
Definition construct_originator (a : N) : res bytes :=
  if a <? two32 then Ok (tlv1 c_ATTR_OriginatorID_FLAG c_ATTR_OriginatorID_ID (be 4 a))
  else PyExc.                                           (* 16 packed octets: not produced by the generator *)
Definition parse_originator (v : bytes) : res aval :=
  if Nat.eqb (length v) 4 then Ok (VNum (unbe v)) else E_UPD c_ERR_MSG_UPDATE_ATTR_LEN.

(** ---- CLUSTER_LIST (the length octet is packed inside the try: too long is sub-error 5) ---- *)
Definition construct_clusterlist (l : list N) : res bytes :=
  let raw := concat (map (be 4) l) in
  if forallb (fun a => a <? two32) l && (len raw <=? 255)
  then Ok (tlv1 c_ATTR_ClusterList_FLAG c_ATTR_ClusterList_ID raw)
  else E_UPD c_ERR_MSG_UPDATE_ATTR_LEN.
Definition parse_clusterlist (v : bytes) : res aval :=
  if Nat.eqb (Nat.modulo (length v) 4) 0 then Ok (VNums (chunks4 v)) else E_UPD c_ERR_MSG_UPDATE_ATTR_LEN.

(** ---- EXTENDED COMMUNITIES ---- *)
(** layout class of a code: 1 = '!HI' (2-octet AS, 4-octet number)   2 = '!IH' (address or 4-octet AS, 2-octet number)
    3 = DSCP mark (last octet)   4 = 2 zero octets + 4-octet number   5 = 6-octet MAC
    6 = flag, 0, 4-octet sequence   7 = flag, 0, 0, 3-octet (label<<4 | 1)   0 = not constructible / unknown *)
Definition ext_kind (code : N) : N :=
  if (code =? c_BGP_EXT_COM_RT_0) || (code =? c_BGP_EXT_COM_RO_0) || (code =? c_BGP_EXT_REDIRECT_VRF)
     || (code =? c_BGP_EXT_COM_LINK_BW) then 1
  else if (code =? c_BGP_EXT_COM_RT_1) || (code =? c_BGP_EXT_COM_RO_1) || (code =? c_BGP_EXT_COM_RT_2)
     || (code =? c_BGP_EXT_COM_RO_2) || (code =? c_BGP_EXT_REDIRECT_NH) then 2
  else if code =? c_BGP_EXT_TRA_MARK then 3
  else if (code =? c_BGP_EXT_COM_COLOR) || (code =? c_BGP_EXT_COM_ENCAP) then 4
  else if (code =? c_BGP_EXT_COM_EVPN_ES_IMPORT) || (code =? c_BGP_EXT_COM_EVPN_ROUTE_MAC) then 5
  else if code =? c_BGP_EXT_COM_EVPN_MAC_MOBIL then 6
  else if code =? c_BGP_EXT_COM_EVPN_ESI_MPLS_LABEL then 7
  else 0.
(** 'route-target:<n>:<m>' is printed for RT_0 and RT_2 alike (same for route-origin) *)
Definition ext_canon_code (code : N) : N :=
  if code =? c_BGP_EXT_COM_RT_2 then c_BGP_EXT_COM_RT_0
  else if code =? c_BGP_EXT_COM_RO_2 then c_BGP_EXT_COM_RO_0 else code.

(** Some octets | None = struct.error (field out of range, not caught by construct) *)
Definition enc_ext (e : N * list N) : option bytes :=
  let code := fst e in
  match ext_kind code, snd e with
  | 1, [a; n] => if (a <? two16) && (n <? two32) then Some (be 2 code ++ be 2 a ++ be 4 n) else None
  | 2, [a; n] => if (a <? two32) && (n <? two16) then Some (be 2 code ++ be 4 a ++ be 2 n) else None
  | 3, [m] => if m <? 256 then Some (be 2 code ++ [0; 0; 0; 0; 0; m]) else None
  | 4, [c] => if c <? two32 then Some (be 2 code ++ [0; 0] ++ be 4 c) else None
  | 5, [mac] => if mac <? 281474976710656 then Some (be 2 code ++ be 6 mac) else None
  | 6, [f; s] => if (f <? 256) && (s <? two32) then Some (be 2 code ++ [f; 0] ++ be 4 s) else None
  | 7, [f; l] => if (f <? 256) && (l * 16 + 1 <? two32)
                 then Some (be 2 code ++ [f; 0; 0] ++ drop 1 (be 4 (l * 16 + 1))) else None
  | _, _ => None
  end.
Fixpoint enc_exts (l : list (N * list N)) : option bytes :=
  match l with
  | [] => Some []
  | e :: r => match enc_ext e, enc_exts r with Some a, Some b => Some (a ++ b) | _, _ => None end
  end.
(** an empty list gives `None` from construct, which construct_attributes cannot concatenate *)
Definition construct_extcommunity (l : list (N * list N)) : res bytes :=
  match enc_exts l with
  | Some raw =>
    if (len raw =? 0) || (255 <? len raw) then PyExc
    else Ok (tlv1 c_ATTR_ExtCommunity_FLAG c_ATTR_ExtCommunity_ID raw)
  | None => PyExc
  end.

(** one 8-octet community (option kept for a decoder that raises; none of the modelled ones does).
    traffic-action: bits 6 and 7 of the last octet ("S:<b6>,T:<b7>") *)
Definition dec_ext (t s v0 v1 v2 v3 v4 v5 : N) : option (N * list N) :=
  let code := t * 256 + s in
  if code =? c_BGP_EXT_TRA_ACTION then Some (code, [(v5 / 2) mod 2; v5 mod 2]) else
  Some (match ext_kind code with
        | 1 => (ext_canon_code code, [unbe [v0; v1]; unbe [v2; v3; v4; v5]])
        | 2 => (ext_canon_code code, [unbe [v0; v1; v2; v3]; unbe [v4; v5]])
        | 3 => (code, [v5])
        | 4 => (code, [unbe [v2; v3; v4; v5]])
        | 5 => (code, [unbe [v0; v1; v2; v3; v4; v5]])
        | 6 => (code, [v0; unbe [v2; v3; v4; v5]])
        | 7 => (code, [v0; unbe [v3; v4; v5] / 16])
        | _ => (c_BGP_EXT_COM_UNKNOW, [v0; v1; v2; v3; v4; v5])
        end).
Fixpoint dec_exts (d : bytes) : option (list (N * list N)) :=
  match d with
  | t :: s :: v0 :: v1 :: v2 :: v3 :: v4 :: v5 :: r =>
    match dec_ext t s v0 v1 v2 v3 v4 v5, dec_exts r with
    | Some e, Some l => Some (e :: l)
    | _, _ => None
    end
  | _ => Some []
  end.
Definition parse_extcommunity (v : bytes) : res aval :=
  if Nat.eqb (Nat.modulo (length v) 8) 0 then
    match dec_exts v with Some l => Ok (VExts l) | None => PyExc end
  else E_UPD c_ERR_MSG_UPDATE_ATTR_LEN.

(** ---- LARGE COMMUNITIES ---- *)
(** an empty value or one that is not a multiple of 12 octets is refused (RFC 8092), before the
    1-octet length is packed *)
Definition construct_largecommunity (l : list (list N)) : res bytes :=
  if forallb (forallb (fun x => x <? two32)) l then
    let raw := concat (map (fun c => concat (map (be 4) c)) l) in
    if (len raw =? 0) || negb (len raw mod 12 =? 0) then E_UPD c_ERR_MSG_UPDATE_ATTR_LEN
    else if 255 <? len raw then PyExc
    else Ok (tlv1 c_ATTR_LargeCommunity_FLAG c_ATTR_LargeCommunity_ID raw)
  else E_UPD c_ERR_MSG_UPDATE_ATTR_LEN.
Fixpoint triples (l : list N) : list (list N) :=
  match l with
  | a :: b :: c :: r => [a; b; c] :: triples r
  | _ => []
  end.
(** unpack('!%dI' % (len/4)) then triples: succeeds exactly when the length is a multiple of 12 *)
Definition parse_largecommunity (v : bytes) : res aval :=
  if Nat.eqb (Nat.modulo (length v) 12) 0 then Ok (VLarge (triples (chunks4 v)))
  else E_UPD c_ERR_MSG_UPDATE_ATTR_LEN.

(** ---- dispatch of construct_attributes / parse_attributes on the type code ---- *)
(** a value of the wrong shape for its type code cannot be written by the harness; PyExc.
    A type code without a branch in construct_attributes is skipped silently. *)
Definition construct_attr (asn4 : bool) (tc : N) (v : aval) : res bytes :=
  if tc =? c_BGPTYPE_ORIGIN then match v with VNum n => construct_origin n | _ => PyExc end
  else if tc =? c_BGPTYPE_AS_PATH then match v with VPath s => construct_aspath asn4 s | _ => PyExc end
  else if tc =? c_BGPTYPE_NEXT_HOP then match v with VNum n => construct_nexthop n | _ => PyExc end
  else if tc =? c_BGPTYPE_MULTI_EXIT_DISC then match v with VNum n => construct_med n | _ => PyExc end
  else if tc =? c_BGPTYPE_LOCAL_PREF then match v with VNum n => construct_localpref n | _ => PyExc end
  else if tc =? c_BGPTYPE_ATOMIC_AGGREGATE then match v with VEmpty => construct_atomic | _ => PyExc end
  else if tc =? c_BGPTYPE_AGGREGATOR then match v with VPair a b => construct_aggregator asn4 a b | _ => PyExc end
  else if tc =? c_BGPTYPE_COMMUNITIES then match v with VComms l => construct_community l | _ => PyExc end
  else if tc =? c_BGPTYPE_ORIGINATOR_ID then match v with VNum n => construct_originator n | _ => PyExc end
  else if tc =? c_BGPTYPE_CLUSTER_LIST then match v with VNums l => construct_clusterlist l | _ => PyExc end
  else if tc =? c_BGPTYPE_EXTENDED_COMMUNITY then match v with VExts l => construct_extcommunity l | _ => PyExc end
  else if tc =? c_BGPTYPE_LARGE_COMMUNITY then match v with VLarge l => construct_largecommunity l | _ => PyExc end
  else Ok [].

(** type codes whose decoders are outside this model (MP_REACH, MP_UNREACH, PMSI_TUNNEL,
    LINK_STATE, BGP_PREFIX_SID): the check never feeds them *)
Definition unmodelled_tc (tc : N) : bool :=
  (tc =? c_BGPTYPE_MP_REACH_NLRI) || (tc =? c_BGPTYPE_MP_UNREACH_NLRI) || (tc =? c_BGPTYPE_PMSI_TUNNEL)
  || (tc =? c_BGPTYPE_LINK_STATE) || (tc =? c_BGPTYPE_BGP_PREFIX_SID).

Definition parse_attr (asn4 : bool) (tc : N) (v : bytes) : res aval :=
  if tc =? c_BGPTYPE_ORIGIN then parse_origin v
  else if tc =? c_BGPTYPE_AS_PATH then parse_aspath asn4 v
  else if tc =? c_BGPTYPE_NEXT_HOP then parse_nexthop v
  else if tc =? c_BGPTYPE_MULTI_EXIT_DISC then parse_u32 v
  else if tc =? c_BGPTYPE_LOCAL_PREF then parse_u32 v
  else if tc =? c_BGPTYPE_ATOMIC_AGGREGATE then parse_atomic v
  else if tc =? c_BGPTYPE_AGGREGATOR then parse_aggregator asn4 v
  else if tc =? c_BGPTYPE_COMMUNITIES then parse_community v
  else if tc =? c_BGPTYPE_ORIGINATOR_ID then parse_originator v
  else if tc =? c_BGPTYPE_CLUSTER_LIST then parse_clusterlist v
  else if tc =? c_BGPTYPE_NEW_AS_PATH then parse_aspath true v
  else if tc =? c_BGPTYPE_NEW_AGGREGATOR then parse_aggregator true v
  else if tc =? c_BGPTYPE_LARGE_COMMUNITY then parse_largecommunity v
  else if tc =? c_BGPTYPE_EXTENDED_COMMUNITY then parse_extcommunity v
  else Ok (VHex v).

(** the decoder's rendering of a value that was given to construct *)
Definition canon_val (v : aval) : aval :=
  match v with
  | VComms l => VComms (map (fun c => comm_of_value (comm_value c)) l)
  | VExts l => VExts (map (fun e => (ext_canon_code (fst e), snd e)) l)
  | _ => v
  end.

(** rendering for the correspondence check *)
Definition sx_comm (c : comm) : sx :=
  match c with CWk v => SL [SN 0; SN v] | CPair hi lo => SL [SN 1; SN hi; SN lo] end.
Definition sx_nums (l : list N) : sx := SL (map SN l).
Definition sx_aval (v : aval) : sx :=
  match v with
  | VNum n => SL [SN 0; SN n]
  | VPath s => SL [SN 1; SL (map (fun x => SL [SN (fst x); sx_nums (snd x)]) s)]
  | VEmpty => SL [SN 2]
  | VPair a b => SL [SN 3; SN a; SN b]
  | VNums l => SL [SN 4; sx_nums l]
  | VComms l => SL [SN 5; SL (map sx_comm l)]
  | VExts l => SL [SN 6; SL (map (fun x => SL [SN (fst x); sx_nums (snd x)]) l)]
  | VLarge l => SL [SN 7; SL (map sx_nums l)]
  | VHex b => SL [SN 8; SB b]
  end.
