(** BGP.dataReceived / BGP.parse_buffer as a generic framing machine: the receive buffer is
    threaded explicitly, the session reaction is abstract ([dispatch] for a well-framed
    message, [hdr_err] for a header error, [closed] = "we closed the connection"). *)
From YV Require Import lib.Base gen.Consts.

Section Framing.
Variable S : Type.
Variable dispatch : N -> bytes -> S -> bool * S.   (* (consumed?, state) *)
Variable hdr_err : N -> bytes -> S -> S.
Variable closed : S -> bool.

Definition marker : bytes := repeat 255 16.

Inductive pres :=
| PNeed                      (* not enough data yet: return False, nothing happened *)
| PErr (s : S)               (* header error reported: return False *)
| PStuck (s : S)             (* dispatch returned False: message left in the buffer *)
| PMsg (s : S) (rest : bytes). (* message handled and consumed: return True *)

(** one call of parse_buffer on buffer [buf] *)
Definition parse1 (buf : bytes) (s : S) : pres :=
  if len buf <? c_HDR_LEN then PNeed
  else if negb (bytes_eqb (take 16 buf) marker)
  then PErr (hdr_err c_ERR_MSG_HDR_CONN_NOT_SYNC [] s)
  else
    let length := unbe (slice 16 18 buf) in
    let ty := nth 18 buf 0 in
    if (length <? c_HDR_LEN) || (c_MAX_LEN <? length)
    then PErr (hdr_err c_ERR_MSG_HDR_BAD_MSG_LEN (be 2 length) s)
    else if len buf <? length then PNeed
    else
      let r := dispatch ty (slice 19 (N.to_nat length) buf) s in
      if fst r then PMsg (snd r) (drop (N.to_nat length) buf) else PStuck (snd r).

(** the while loop of dataReceived, stopping once the connection has been closed;
    third component: false = fuel exhausted *)
Fixpoint frame_loop (fuel : nat) (buf : bytes) (s : S) : S * bytes * bool :=
  match fuel with
  | O => (s, buf, false)
  | Datatypes.S f =>
      match parse1 buf s with
      | PNeed => (s, buf, true)
      | PErr s' => (s', buf, true)
      | PStuck s' => (s', buf, true)
      | PMsg s' rest => if closed s' then (s', rest, true) else frame_loop f rest s'
      end
  end.

(** dataReceived(data) on a connection whose buffer is [buf]; a connection we have closed
    is not read any more (Twisted stops reading on loseConnection) *)
Definition feed (st : S * bytes) (data : bytes) : S * bytes :=
  if closed (fst st) then st
  else let b := snd st ++ data in
       let r := frame_loop (Datatypes.S (length b)) b (fst st) in (fst (fst r), snd (fst r)).

Definition feed_all (st : S * bytes) (chunks : list bytes) : S * bytes := fold_left feed chunks st.
End Framing.
Arguments PNeed {S}. Arguments PErr {S} s. Arguments PStuck {S} s. Arguments PMsg {S} s rest.
