(** OPEN codec: yabgp/message/open.py — Open.construct, Capability.construct,
    convert_addpath_str_to_int, Open.parse, Capability.parse.

    What is modelled
    - construct: the capability dictionary (the keys Open.construct reads), every struct.pack
      range error / KeyError as [PyExc], the AS_TRANS rule.
    - parse: the 10-octet fixed part, the two nested [while] loops (explicit fuel; exhaustion is
      the distinguished value [OutOfFuel]), the three inner value loops (structural recursion),
      Python slice clamping, every exception, and BOTH observable results of a successful
      parse: the attributes left on the Open object (what core/protocol.py reads) and the return
      value (what is handed to handler.open_received).

    Defect / repair.  In /repo the [return {...}] statement of Open.parse sits inside
    [if self.opt_para_len:], so an OPEN without optional parameters returns None.  The repaired
    behaviour (return moved out of the [if]; build/proposed/c14_open_parse_return.diff) is
    [open_parse]; the behaviour of the unpatched code is [open_parse_unpatched].  They differ
    only in the return value for opt_para_len = 0. *)
From YV Require Import lib.Base gen.Consts model.YMsg.

(** out of fuel: error code 0 is not a BGP error code; every genuine error below has code
    c_ERR_MSG_HDR (1) or c_ERR_MSG_OPEN (2).  (OpenProofs.open_parse_fuel_ok: never returned.) *)
Definition OutOfFuel {A} : res A := Err 0 0.

Definition res_bind {A B} (r : res A) (f : A -> res B) : res B :=
  match r with Ok a => f a | Err c s => Err c s | PyExc => PyExc end.
Definition res_map {A B} (f : A -> B) (r : res A) : res B := res_bind r (fun a => Ok (f a)).

(** Capability.<NAME> class attributes (literals in the class body; not part of
    common/constants.py, hence not in gen/Consts.v — c14_open.py compares them with the live
    class on every run) *)
Definition cap_MULTIPROTOCOL_EXTENSIONS : N := 1.
Definition cap_ROUTE_REFRESH : N := 2.
Definition cap_EXTENDED_NEXT_HOP : N := 5.
Definition cap_GRACEFUL_RESTART : N := 64.
Definition cap_FOUR_BYTES_ASN : N := 65.
Definition cap_ADD_PATH : N := 69.
Definition cap_ENHANCED_ROUTE_REFRESH : N := 70.
Definition cap_LLGR : N := 71.
Definition cap_CISCO_ROUTE_REFRESH : N := 128.
Definition cap_CISCO_MULTISESSION_BGP : N := 131.
Definition cap_codes : list N :=
  [cap_MULTIPROTOCOL_EXTENSIONS; cap_ROUTE_REFRESH; cap_EXTENDED_NEXT_HOP; cap_GRACEFUL_RESTART;
   cap_FOUR_BYTES_ASN; cap_ADD_PATH; cap_ENHANCED_ROUTE_REFRESH; cap_LLGR; cap_CISCO_ROUTE_REFRESH;
   cap_CISCO_MULTISESSION_BGP].

(** keys of constants.AFI_SAFI_DICT and ADD_PATH_ACT_DICT (dictionaries are not in gen/Consts.v;
    compared with the live dictionaries on every run) *)
Definition afi_safi_known : list (N * N) :=
  [(1, 1); (1, 2); (2, 1); (1, 4); (2, 4); (1, 133); (1, 128); (2, 128); (25, 70); (16388, 71);
   (1, 73); (2, 133)].
Definition add_path_act_known : list N := [1; 2; 3].

Definition pair_eqb (p q : N * N) : bool := (fst p =? fst q) && (snd p =? snd q).
Definition afi_safi_knownb (afi safi : N) : bool := existsb (pair_eqb (afi, safi)) afi_safi_known.
Definition add_path_actb (v : N) : bool := existsb (N.eqb v) add_path_act_known.

(* ------------------------------------------------------------------------------------- *)
(** * construct *)

(** the keys of [my_capability] that Open.construct looks at.
    - 'afi_safi' / 'ext_nexthop': key presence ([in]); [None] = key absent
    - the four flags: truthiness of [.get(key)]
    - 'add_path': 0 = absent/None/'' ; 1,2,3 = 'ipv4_receive','ipv4_send','ipv4_both';
      anything else = another non-empty string (KeyError in convert_addpath_str_to_int) *)
Record capcfg := mkcfg {
  cc_afi_safi : option (list (N * N));
  cc_cisco_rr : bool;
  cc_rr : bool;
  cc_four : bool;
  cc_ext_nh : option (list (N * N * N));     (* (afi, safi, nexthop_afi) *)
  cc_add_path : N;
  cc_err : bool }.

(** Capability(1,4).construct: one optional parameter per family, '!BBBBHBB' *)
Fixpoint capa_mp (l : list (N * N)) : res bytes :=
  match l with
  | [] => Ok []
  | (afi, safi) :: r =>
      if (afi <=? 65535) && (safi <=? 255)
      then res_map (fun t => [2; 6; cap_MULTIPROTOCOL_EXTENSIONS; 4] ++ be 2 afi ++ [0; safi] ++ t) (capa_mp r)
      else PyExc
  end.

(** Capability(5).construct: the '!HHH' triples, then the '!BBBB' header *)
Fixpoint capa_ext_value (l : list (N * N * N)) : res bytes :=
  match l with
  | [] => Ok []
  | (afi, safi, nh) :: r =>
      if (afi <=? 65535) && (safi <=? 65535) && (nh <=? 65535)
      then res_map (fun t => be 2 afi ++ be 2 safi ++ be 2 nh ++ t) (capa_ext_value r)
      else PyExc
  end.
Definition capa_ext (l : list (N * N * N)) : res bytes :=
  res_bind (capa_ext_value l) (fun v =>
    if len v + 2 <=? 255 then Ok ([2; len v + 2; cap_EXTENDED_NEXT_HOP; len v] ++ v) else PyExc).

Definition capa_as4 (asn : N) : res bytes :=
  if asn <=? 4294967295 then Ok ([2; 6; cap_FOUR_BYTES_ASN; 4] ++ be 4 asn) else PyExc.

(** Capability(69,4,str).construct through convert_addpath_str_to_int *)
Definition capa_add_path (v : N) : res bytes :=
  if v =? 0 then Ok []
  else if (1 <=? v) && (v <=? 3) then Ok ([2; 6; cap_ADD_PATH; 4] ++ be 2 1 ++ [1; v])
  else PyExc.

Definition flag_cap (b : bool) (code : N) : bytes := if b then [2; 2; code; 0] else [].

(** the 'My Autonomous System' field after the [if self.asn > 65535] statement *)
Definition open_asn_field (asn : N) : N := if 65535 <? asn then 23456 else asn.

Definition open_capas (asn : N) (c : capcfg) : res bytes :=
  res_bind (match cc_afi_safi c with Some l => capa_mp l | None => Ok [] end) (fun c1 =>
  let c2 := flag_cap (cc_cisco_rr c) cap_CISCO_ROUTE_REFRESH in
  let c3 := flag_cap (cc_rr c) cap_ROUTE_REFRESH in
  res_bind (if (65535 <? asn) || cc_four c then capa_as4 asn else Ok []) (fun c4 =>
  res_bind (match cc_ext_nh c with Some l => capa_ext l | None => Ok [] end) (fun c5 =>
  res_bind (capa_add_path (cc_add_path c)) (fun c6 =>
  let c7 := flag_cap (cc_err c) cap_ENHANCED_ROUTE_REFRESH in
  Ok (c1 ++ c2 ++ c3 ++ c4 ++ c5 ++ c6 ++ c7))))).

(** Open(version, asn, hold_time, bgp_id).construct(my_capability): body (without the header) *)
Definition open_body (version asn hold id : N) (c : capcfg) : res bytes :=
  res_bind (open_capas asn c) (fun capas =>
    if (version <=? 255) && (hold <=? 65535) && (id <=? 4294967295) && (len capas <=? 255)
    then Ok ([version] ++ be 2 (open_asn_field asn) ++ be 2 hold ++ be 4 id ++ [len capas] ++ capas)
    else PyExc).

(** construct_header packs the literal type 1 *)
Definition open_construct (version asn hold id : N) (c : capcfg) : res bytes :=
  res_bind (open_body version asn hold id c) (header 1).

(* ------------------------------------------------------------------------------------- *)
(** * parse *)

(** [Open.capa_dict] in canonical form.  Flags: key present (the value is always True).
    'afi_safi': list of (afi, safi).  'add_path': list of {'afi_safi': name, 'send/receive': name}
    as (afi, safi, code) with (afi, safi) the AFI_SAFI_DICT key of the name and code the
    ADD_PATH_ACT_DICT key.  'LLGR': (afi, safi, time).  'ext_nexthop': (afi, safi, nexthop_afi).
    other: str(code) -> repr(value) for every other capability code, in insertion order. *)
Record capa_dict := mkcd {
  cd_four : bool;
  cd_afi_safi : option (list (N * N));
  cd_rr : bool;
  cd_cisco_rr : bool;
  cd_gr : bool;
  cd_cisco_ms : bool;
  cd_err : bool;
  cd_add_path : option (list (N * N * N));
  cd_llgr : option (list (N * N * N));
  cd_ext_nh : option (list (N * N * N));
  cd_other : list (N * bytes) }.

Definition cd_empty : capa_dict :=
  mkcd false None false false false false false None None None [].

Definition set_four (d : capa_dict) :=
  mkcd true (cd_afi_safi d) (cd_rr d) (cd_cisco_rr d) (cd_gr d) (cd_cisco_ms d) (cd_err d)
       (cd_add_path d) (cd_llgr d) (cd_ext_nh d) (cd_other d).
Definition set_afi_safi (v : option (list (N * N))) (d : capa_dict) :=
  mkcd (cd_four d) v (cd_rr d) (cd_cisco_rr d) (cd_gr d) (cd_cisco_ms d) (cd_err d)
       (cd_add_path d) (cd_llgr d) (cd_ext_nh d) (cd_other d).
Definition set_rr (d : capa_dict) :=
  mkcd (cd_four d) (cd_afi_safi d) true (cd_cisco_rr d) (cd_gr d) (cd_cisco_ms d) (cd_err d)
       (cd_add_path d) (cd_llgr d) (cd_ext_nh d) (cd_other d).
Definition set_cisco_rr (d : capa_dict) :=
  mkcd (cd_four d) (cd_afi_safi d) (cd_rr d) true (cd_gr d) (cd_cisco_ms d) (cd_err d)
       (cd_add_path d) (cd_llgr d) (cd_ext_nh d) (cd_other d).
Definition set_gr (d : capa_dict) :=
  mkcd (cd_four d) (cd_afi_safi d) (cd_rr d) (cd_cisco_rr d) true (cd_cisco_ms d) (cd_err d)
       (cd_add_path d) (cd_llgr d) (cd_ext_nh d) (cd_other d).
Definition set_cisco_ms (d : capa_dict) :=
  mkcd (cd_four d) (cd_afi_safi d) (cd_rr d) (cd_cisco_rr d) (cd_gr d) true (cd_err d)
       (cd_add_path d) (cd_llgr d) (cd_ext_nh d) (cd_other d).
Definition set_err (d : capa_dict) :=
  mkcd (cd_four d) (cd_afi_safi d) (cd_rr d) (cd_cisco_rr d) (cd_gr d) (cd_cisco_ms d) true
       (cd_add_path d) (cd_llgr d) (cd_ext_nh d) (cd_other d).
Definition set_add_path (v : option (list (N * N * N))) (d : capa_dict) :=
  mkcd (cd_four d) (cd_afi_safi d) (cd_rr d) (cd_cisco_rr d) (cd_gr d) (cd_cisco_ms d) (cd_err d)
       v (cd_llgr d) (cd_ext_nh d) (cd_other d).
Definition set_llgr (v : option (list (N * N * N))) (d : capa_dict) :=
  mkcd (cd_four d) (cd_afi_safi d) (cd_rr d) (cd_cisco_rr d) (cd_gr d) (cd_cisco_ms d) (cd_err d)
       (cd_add_path d) v (cd_ext_nh d) (cd_other d).
Definition set_ext_nh (v : option (list (N * N * N))) (d : capa_dict) :=
  mkcd (cd_four d) (cd_afi_safi d) (cd_rr d) (cd_cisco_rr d) (cd_gr d) (cd_cisco_ms d) (cd_err d)
       (cd_add_path d) (cd_llgr d) v (cd_other d).
Definition set_other (v : list (N * bytes)) (d : capa_dict) :=
  mkcd (cd_four d) (cd_afi_safi d) (cd_rr d) (cd_cisco_rr d) (cd_gr d) (cd_cisco_ms d) (cd_err d)
       (cd_add_path d) (cd_llgr d) (cd_ext_nh d) v.

Definition olist {A} (o : option (list A)) : list A := match o with Some l => l | None => [] end.

(** [d[str(code)] = repr(value)]: a later value replaces an earlier one in place *)
Fixpoint other_set (k : N) (v : bytes) (l : list (N * bytes)) : list (N * bytes) :=
  match l with
  | [] => [(k, v)]
  | (k', v') :: r => if k' =? k then (k, v) :: r else (k', v') :: other_set k v r
  end.

(** (8) [while len(value) % 4 == 0 and value:] — the entries appended by one capability *)
Fixpoint addpath_loop (v : bytes) : res (list (N * N * N)) :=
  if (len v mod 4 =? 0) && negb (len v =? 0) then
    match v with
    | a1 :: a0 :: safi :: sr :: rest =>
        let afi := unbe [a1; a0] in
        if afi_safi_knownb afi safi && add_path_actb sr        (* else KeyError *)
        then res_map (cons (afi, safi, sr)) (addpath_loop rest)
        else PyExc
    | _ => PyExc      (* unreachable: the length is a non-zero multiple of 4 *)
    end
  else Ok [].

(** (9) [while len(value) >= 7:] *)
Fixpoint llgr_loop (v : bytes) : list (N * N * N) :=
  match v with
  | a1 :: a0 :: safi :: _ :: t2 :: t1 :: t0 :: rest =>
      (unbe [a1; a0], safi, unbe [0; t2; t1; t0]) :: llgr_loop rest
  | _ => []
  end.

(** (10) [while len(value) > 0: struct.unpack('!HHH', value[:6])] *)
Fixpoint ext_loop (v : bytes) : res (list (N * N * N)) :=
  match v with
  | [] => Ok []
  | a1 :: a0 :: s1 :: s0 :: n1 :: n0 :: rest =>
      res_map (cons (unbe [a1; a0], unbe [s1; s0], unbe [n1; n0])) (ext_loop rest)
  | _ => PyExc     (* struct.error: fewer than 6 octets left *)
  end.

(** the if/elif chain on capability.capa_code; state = (self.asn, self.capa_dict) *)
Definition cap_apply (code : N) (v : bytes) (asn : N) (d : capa_dict) : res (N * capa_dict) :=
  if code =? cap_FOUR_BYTES_ASN then
    match v with [_; _; _; _] => Ok (unbe v, set_four d) | _ => PyExc end
  else if code =? cap_MULTIPROTOCOL_EXTENSIONS then
    match v with
    | [a1; a0; _; safi] => Ok (asn, set_afi_safi (Some (olist (cd_afi_safi d) ++ [(unbe [a1; a0], safi)])) d)
    | _ => PyExc
    end
  else if code =? cap_ROUTE_REFRESH then Ok (asn, set_rr d)
  else if code =? cap_CISCO_ROUTE_REFRESH then Ok (asn, set_cisco_rr d)
  else if code =? cap_GRACEFUL_RESTART then Ok (asn, set_gr d)
  else if code =? cap_CISCO_MULTISESSION_BGP then Ok (asn, set_cisco_ms d)
  else if code =? cap_ENHANCED_ROUTE_REFRESH then Ok (asn, set_err d)
  else if code =? cap_ADD_PATH then
    res_map (fun l => (asn, set_add_path (Some (olist (cd_add_path d) ++ l)) d)) (addpath_loop v)
  else if code =? cap_LLGR then Ok (asn, set_llgr (Some (llgr_loop v)) d)
  else if code =? cap_EXTENDED_NEXT_HOP then
    res_map (fun l => (asn, set_ext_nh (Some l) d)) (ext_loop v)
  else Ok (asn, set_other (other_set code v (cd_other d)) d).

(** [while capabilities:] — Capability.parse on the rest, dispatch, skip 2 + capa_length *)
Fixpoint caps_loop (fuel : nat) (caps : bytes) (asn : N) (d : capa_dict) : res (N * capa_dict) :=
  match caps with
  | [] => Ok (asn, d)
  | [_] => Err c_ERR_MSG_OPEN c_ERR_MSG_HDR_BAD_MSG_LEN    (* Capability.parse: OpenMessageError(sub_error=2) *)
  | code :: clen :: rest =>
      match fuel with
      | O => OutOfFuel
      | S f =>
          res_bind (cap_apply code (take (N.to_nat clen) rest) asn d) (fun st =>
            caps_loop f (drop (N.to_nat clen) rest) (fst st) (snd st))
      end
  end.

(** [while self.opt_paras:] *)
Fixpoint params_loop (fuel : nat) (paras : bytes) (asn : N) (d : capa_dict) : res (N * capa_dict) :=
  match paras with
  | [] => Ok (asn, d)
  | [_] => PyExc                                          (* struct.unpack('!BB', 1 octet) *)
  | ty :: plen :: rest =>
      match fuel with
      | O => OutOfFuel
      | S f =>
          if negb (ty =? 2) then Err c_ERR_MSG_OPEN c_ERR_MSG_OPEN_UNSUP_OPT_PARAM
          else
            res_bind (caps_loop (length rest) (take (N.to_nat plen) rest) asn d) (fun st =>
              params_loop f (drop (N.to_nat plen) rest) (fst st) (snd st))
      end
  end.

(** attributes of the Open object after a successful parse (bgp_id: the 32-bit number whose
    dotted-quad text the attribute holds) *)
Record open_msg := mkopen {
  o_version : N; o_asn : N; o_hold : N; o_id : N; o_caps : capa_dict }.

(** (attributes, return value); [repaired = false] is /repo as it is *)
Definition open_parse_gen (repaired : bool) (m : bytes) : res (open_msg * option open_msg) :=
  match m with
  | ver :: a1 :: a0 :: h1 :: h0 :: i3 :: i2 :: i1 :: i0 :: optlen :: rest =>
      let asn := unbe [a1; a0] in
      if negb (ver =? 4) then Err c_ERR_MSG_OPEN c_ERR_MSG_OPEN_UNSUP_VERSION
      else if asn =? 0 then Err c_ERR_MSG_OPEN c_ERR_MSG_OPEN_BAD_PEER_AS
      else
        (* [if self.bgp_id == 0] compares a str with 0: never true *)
        let mk st := mkopen ver (fst st) (unbe [h1; h0]) (unbe [i3; i2; i1; i0]) (snd st) in
        if optlen =? 0 then
          let r := mk (asn, cd_empty) in Ok (r, if repaired then Some r else None)
        else
          (* self.opt_paras = message[10:]  — everything that follows, whatever optlen says *)
          res_map (fun st => (mk st, Some (mk st))) (params_loop (length rest) rest asn cd_empty)
  | _ => Err c_ERR_MSG_HDR c_ERR_MSG_HDR_BAD_MSG_LEN        (* struct.unpack('!BHHIB', message[:10]) *)
  end.

Definition open_parse := open_parse_gen true.
Definition open_parse_unpatched := open_parse_gen false.

(* ------------------------------------------------------------------------------------- *)
(** * rendering for the correspondence check *)
Definition sx_pair (p : N * N) : sx := SL [SN (fst p); SN (snd p)].
Definition sx_triple (p : N * N * N) : sx := SL [SN (fst (fst p)); SN (snd (fst p)); SN (snd p)].
Definition sx_optlist {A} (f : A -> sx) (o : option (list A)) : sx := sx_opt (fun l => SL (map f l)) o.
Definition sx_capa_dict (d : capa_dict) : sx :=
  SL [sx_bool (cd_four d); sx_optlist sx_pair (cd_afi_safi d); sx_bool (cd_rr d); sx_bool (cd_cisco_rr d);
      sx_bool (cd_gr d); sx_bool (cd_cisco_ms d); sx_bool (cd_err d); sx_optlist sx_triple (cd_add_path d);
      sx_optlist sx_triple (cd_llgr d); sx_optlist sx_triple (cd_ext_nh d);
      SL (map (fun p => SL [SN (fst p); SB (snd p)]) (cd_other d))].
Definition sx_open_msg (o : open_msg) : sx :=
  SL [SN (o_version o); SN (o_asn o); SN (o_hold o); SN (o_id o); sx_capa_dict (o_caps o)].
Definition sx_open_parse (r : open_msg * option open_msg) : sx :=
  SL [sx_open_msg (fst r); sx_opt sx_open_msg (snd r)].
Definition sx_consts : sx :=
  SL [SL (map SN cap_codes); SL (map sx_pair afi_safi_known); SL (map SN add_path_act_known)].
