(** VPNv4 / VPNv6 NLRI (yabgp/message/attribute/nlri/mpls_vpn.py) and their MP_REACH /
    MP_UNREACH branches.  Prefix octets: NLRI.construct_prefix_v4 / construct_prefix_v6 as
    repaired by build/proposed/c07-1-construct-prefix-v6.diff, c07-2-construct-prefix-v4-zero.diff and
    c08-prefix-length-range.patch;
    the label parser sees only the octets of the route being decoded
    (build/proposed/c11-label-stack-bound.diff). *)
From YV Require Import lib.Base gen.Consts model.YMp model.YLabel.

(** NLRI.construct_prefix_v4(masklen, prefix): 4 packed octets cut to 3 / 2 / 1 / 0 (the range
    check of the length is [pfx_len_ok] in the callers' models below) *)
Definition prefix4_octets (a l : N) : bytes :=
  let b := be 4 a in
  if (16 <? l) && (l <=? 24) then take 3 b
  else if (8 <? l) && (l <=? 16) then take 2 b
  else if (0 <? l) && (l <=? 8) then take 1 b
  else if l =? 0 then []
  else b.

(** NLRI.construct_prefix_v6(prefix): packed[0 : (mask + 7) // 8] *)
Definition prefix6_octets (a l : N) : bytes := take (N.to_nat ((l + 7) / 8)) (be 16 a).

Definition pad_to (n : nat) (b : bytes) : bytes := b ++ repeat 0 (n - length b).

Record vroute := { v_labels : list N; v_rd : rd; v_addr : N; v_len : N }.

(** the prefix length must fit the address: construct_prefix_v4 raises ValueError outside 0..32
    (fix: a prefix length outside the address size must be an error when an NLRI is
    constructed, build/proposed/c08-prefix-length-range.patch); construct_prefix_v6 goes through
    netaddr.IPNetwork(prefix), which raises above 128 *)
Definition pfx_len_ok (v6 : bool) (l : N) : bool := l <=? (if v6 then 128 else 32).

(** MPLSVPN.construct, one route *)
Definition construct_vroute (v6 withdraw : bool) (r : vroute) : res bytes :=
  bind (if withdraw then Ok WITHDRAW_LABEL_HEX else construct_labels (v_labels r)) (fun lab =>
  bind (construct_rd (v_rd r)) (fun rdb =>
  let pfx := if v6 then prefix6_octets (v_addr r) (v_len r) else prefix4_octets (v_addr r) (v_len r) in
  let plen := v_len r + len (lab ++ rdb) * 8 in
  if negb (pfx_len_ok v6 (v_len r)) then Exc
  else if 255 <? plen then Exc else Ok ([plen] ++ lab ++ rdb ++ pfx))).

Fixpoint construct_vpn (v6 withdraw : bool) (rs : list vroute) : res bytes :=
  match rs with
  | [] => Ok []
  | r :: t => bind (construct_vroute v6 withdraw r) (fun b =>
              bind (construct_vpn v6 withdraw t) (fun bt => Ok (b ++ bt)))
  end.

(** a decoded route: labels, RD, prefix address, prefix length.  The decoder computes the
    length as bit_len - 88, which Python lets go negative: 1000 + n stands for -n *)
Definition proute := (list N * rdv * addr * N)%type.

(** MPLSVPN.parse (addpath=False) *)
Fixpoint parse_vpn (v6 withdraw : bool) (fuel : nat) (d : bytes) : res (list proute) :=
  match fuel with
  | O => Fuel
  | S f =>
      match d with
      | [] => Ok []
      | bitlen :: _ =>
          let bl := N.to_nat (ceil8 bitlen) in
          let labels := if withdraw then [WITHDRAW_LABEL] else parse_labels (slice 1 (bl + 1) d) in
          bind (parse_rd (slice 4 12 d)) (fun r =>
          let p := slice 12 (bl + 1) d in
          bind (if v6 then of_int (unbe (pad_to 16 p))
                else if Nat.ltb 4 (length p) then Exc else Ok (V4 (unbe (pad_to 4 p)))) (fun a =>
          let pl := if bitlen <? 88 then 1000 + (88 - bitlen) else bitlen - 88 in
          bind (parse_vpn v6 withdraw f (drop (bl + 1) d)) (fun t =>
          Ok ((labels, r, a, pl) :: t))))
      end
  end.
Definition parse_vpn_all (v6 withdraw : bool) (d : bytes) : res (list proute) :=
  parse_vpn v6 withdraw (S (length d)) d.

Definition vpn_afi (v6 : bool) : N := if v6 then AFI_INET6 else AFI_INET.

(** construct_mpls_vpn_nexthop: RD of the next hop is always written as type 0 (asn:an); the
    address is netaddr.IPAddress(text).packed - 4 or 16 octets by the version of the ADDRESS
    ([nh6]), whatever the family of the routes: an IPv6 next hop on VPNv4 routes (RFC 8950, the
    'ext_nexthop' capability) is 8 + 16 octets, an IPv4 next hop on VPNv6 routes 8 + 4 *)
Definition construct_vpn_nexthop_x (nh6 : bool) (asn an ip : N) : res bytes :=
  if (65535 <? asn) || (2 ^ 32 <=? an) then Exc
  else Ok ([0; 0] ++ be 2 asn ++ be 4 an ++ (if nh6 then be 16 ip else be 4 ip)).
(** next hop of the routes' own family *)
Definition construct_vpn_nexthop (v6 : bool) := construct_vpn_nexthop_x v6.

(** MpReachNLRI.construct, SAFI 128: routes of family [v6], next hop of version [nh6] *)
Definition reachvpn_construct_x (v6 nh6 : bool) (asn an ip : N) (rs : list vroute) : res bytes :=
  bind (construct_vpn_nexthop_x nh6 asn an ip) (fun nh =>
  bind (construct_vpn v6 false rs) (fun nlri =>
  reach_attr (vpn_afi v6) SAFI_LAB_VPNUNICAST (len nh) nh nlri)).
Definition reachvpn_construct (v6 : bool) := reachvpn_construct_x v6 v6.

Definition reachvpn_result := (rdv * addr * list proute)%type.

(** MpReachNLRI.parse, SAFI 128: RD = the first 8 next-hop octets, address = ALL the octets after
    them as one integer, whose magnitude decides between IPv4 and IPv6 text ([of_int]) *)
Definition reachvpn_parse (v6 : bool) (v : bytes) : res reachvpn_result :=
  bind (reach_split v) (fun '(afi, safi, nh, nlri) =>
  if (afi =? vpn_afi v6) && (safi =? SAFI_LAB_VPNUNICAST) then
    bind (parse_rd (take 8 nh)) (fun r =>
    bind (addr_of_bytes (drop 8 nh)) (fun a =>
    bind (parse_vpn_all v6 false nlri) (fun t => Ok (r, a, t))))
  else Exc).

(** MpUnReachNLRI.construct / parse, SAFI 128 *)
Definition unreachvpn_construct (v6 : bool) (rs : list vroute) : res (option bytes) :=
  bind (construct_vpn v6 true rs) (fun nlri =>
  match nlri with
  | [] => Ok None
  | _ => bind (unreach_attr (vpn_afi v6) SAFI_LAB_VPNUNICAST nlri) (fun b => Ok (Some b))
  end).

Definition unreachvpn_parse (v6 : bool) (v : bytes) : res (list proute) :=
  bind (unreach_split v) (fun '(afi, safi, nlri) =>
  if (afi =? vpn_afi v6) && (safi =? SAFI_LAB_VPNUNICAST) then parse_vpn_all v6 true nlri else Exc).

(** rendering *)
Definition sx_proute (r : proute) : sx :=
  let '(l, d, a, pl) := r in SL [sx_labels l; sx_rdv d; sx_addr a; SN pl].
Definition sx_reachvpn (v : reachvpn_result) : sx :=
  let '(r, a, t) := v in SL [sx_rdv r; sx_addr a; sx_list sx_proute t].
Definition mk_vroute (l : list N) (r : rd) (a n : N) : vroute :=
  {| v_labels := l; v_rd := r; v_addr := a; v_len := n |}.
