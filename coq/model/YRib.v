(** Adj-RIB and version-counter bookkeeping of yabgp/core/protocol.py:
      BGP.__init__ (tables and counters), init_rib, update_rib_in_ipv4, update_rib_out_ipv4,
      update_receive_verion, update_send_version, the part of _update_received that calls them,
      connectionMade / closeConnection / connectionLost (flush; the `disconnected` flag).
    Transcribes what the code does.  No proofs here.

    Representation
    - a prefix string ("10.1.0.0/16") is a number [prefix := N] (the harness interns strings);
    - an NLRI dictionary of a flowspec rule / VPNv4 route / SR policy is an association list
      [rule := list (N * N)] of (key code, value code) in dictionary order; key codes are chosen
      order-isomorphic to Python's ordering of the keys (sorted(prefix.keys())), value codes
      identify str(prefix[k]);
    - the key string  '{"k1":"v1","k2":"v2"}'  built from the sorted dictionary is modelled as
      the sorted association list itself ([rule_key]); what is assumed about the string: the
      rendering of a sorted association list is injective (true when no key or value text
      contains a double quote).  That [rule_key] identifies the dictionary is proved
      (RibProofs.rule_key_inj);
    - an attribute dictionary is [attrs]: a number for everything except attributes 14/15
      (compared with ==, so the number identifies the ==-class), plus the structured
      MP_REACH_NLRI (14) and MP_UNREACH_NLRI (15) values;
    - Python dictionaries are association lists with unique keys in insertion order:
      d[k] = v replaces in place or appends, d.pop(k) / del d[k] removes. *)
From YV Require Import lib.Base.

Definition prefix := N.
Definition rule := list (N * N).
Definition rkey := list (N * N).

(** attribute 14 / 15 value: afi_safi, the other members (nexthop ... ) as one number, and the
    'nlri' (14) or 'withdraw' (15) list of NLRI dictionaries *)
Record mp := mkMp { mp_afi : N; mp_safi : N; mp_rest : N; mp_rules : list rule }.
Record attrs := mkAttrs { a_rest : N; a_reach : option mp; a_unreach : option mp }.

(** the message dictionary {'attr':..., 'nlri': [...], 'withdraw': [...]} *)
Record update := mkUpdate { u_attr : attrs; u_nlri : list prefix; u_withdraw : list prefix }.

(** == on the values *)
Fixpoint rule_eqb (a b : rule) : bool :=
  match a, b with
  | [], [] => true
  | (k, v) :: a', (k', v') :: b' => (k =? k') && (v =? v') && rule_eqb a' b'
  | _, _ => false
  end.
Fixpoint rules_eqb (a b : list rule) : bool :=
  match a, b with
  | [], [] => true
  | x :: a', y :: b' => rule_eqb x y && rules_eqb a' b'
  | _, _ => false
  end.
Definition mp_eqb (a b : mp) : bool :=
  (mp_afi a =? mp_afi b) && (mp_safi a =? mp_safi b) && (mp_rest a =? mp_rest b)
  && rules_eqb (mp_rules a) (mp_rules b).
Definition omp_eqb (a b : option mp) : bool :=
  match a, b with
  | None, None => true
  | Some x, Some y => mp_eqb x y
  | _, _ => false
  end.
Definition attrs_eqb (a b : attrs) : bool :=
  (a_rest a =? a_rest b) && omp_eqb (a_reach a) (a_reach b) && omp_eqb (a_unreach a) (a_unreach b).

(** Python dict as association list *)
Section Dict.
  Context {K V : Type} (eqb : K -> K -> bool).
  Definition dict := list (K * V).

  Fixpoint dget (k : K) (d : dict) : option V :=
    match d with
    | [] => None
    | (k', v) :: r => if eqb k k' then Some v else dget k r
    end.
  Definition dmem (k : K) (d : dict) : bool :=
    match dget k d with Some _ => true | None => false end.
  (** d[k] = v *)
  Fixpoint dset (k : K) (v : V) (d : dict) : dict :=
    match d with
    | [] => [(k, v)]
    | (k', v') :: r => if eqb k k' then (k', v) :: r else (k', v') :: dset k v r
    end.
  (** d.pop(k) / del d[k]: the binding of k disappears (keys are unique; every binding of k is dropped) *)
  Fixpoint ddel (k : K) (d : dict) : dict :=
    match d with
    | [] => []
    | (k', v') :: r => if eqb k k' then ddel k r else (k', v') :: ddel k r
    end.
End Dict.

(** the four counters of send_version / receive_version *)
Record vers := mkVers { v_ipv4 : N; v_flowspec : N; v_sr_policy : N; v_mpls_vpn : N }.
Definition vers0 : vers := mkVers 0 0 0 0.

Record rib := mkRib {
  rib_in : list (prefix * attrs);          (* adj_rib_in['ipv4'] *)
  rib_out : list (prefix * attrs);         (* adj_rib_out['ipv4'] *)
  recv_v : vers;                           (* receive_version *)
  send_v : vers;                           (* send_version *)
  fs_send : list (rkey * attrs);           (* flowspec_send_dict *)
  fs_recv : list (rkey * attrs);           (* flowspec_receive_dict *)
  sr_send : list (rkey * attrs);           (* sr_send_dict *)
  sr_recv : list (rkey * attrs);           (* sr_receive_dict: never written by the code *)
  vpn_send : list (rkey * attrs);          (* mpls_vpn_send_dict *)
  vpn_recv : list (rkey * attrs)           (* mpls_vpn_receive_dict *)
}.

(** BGP.__init__ *)
Definition rib0 : rib := mkRib [] [] vers0 vers0 [] [] [] [] [] [].

(** init_rib: only the two adj-rib dictionaries are rebuilt *)
Definition init_rib (s : rib) : rib :=
  mkRib [] [] (recv_v s) (send_v s) (fs_send s) (fs_recv s) (sr_send s) (sr_recv s)
        (vpn_send s) (vpn_recv s).

(** ---------------------------------------------------------------------------------
    update_rib_in_ipv4 / update_rib_out_ipv4 (same text, different table and counter):
    the pair (table, counter) through the two loops *)
Definition wd_step (st : list (prefix * attrs) * N) (p : prefix) : list (prefix * attrs) * N :=
  if dmem N.eqb p (fst st)                           (* if prefix in rib: *)
  then (ddel N.eqb p (fst st), snd st + 1)           (*   version += 1; rib.pop(prefix) *)
  else st.

Definition ann_step (a : attrs) (st : list (prefix * attrs) * N) (p : prefix)
  : list (prefix * attrs) * N :=
  match dget N.eqb p (fst st) with
  | None => (dset N.eqb p a (fst st), snd st + 1)          (* if prefix not in rib.keys(): += 1 *)
  | Some old =>
      if attrs_eqb a old
      then (dset N.eqb p a (fst st), snd st)               (* msg['attr'] == rib[prefix]: pass *)
      else (dset N.eqb p a (fst st), snd st + 1)           (* else: += 1 *)
  end.                                                      (* rib[prefix] = msg['attr'] always *)

Definition rib_ipv4_loops (u : update) (st : list (prefix * attrs) * N) :=
  fold_left (ann_step (u_attr u)) (u_nlri u) (fold_left wd_step (u_withdraw u) st).

Definition set_recv_ipv4 (v : vers) (n : N) := mkVers n (v_flowspec v) (v_sr_policy v) (v_mpls_vpn v).

(** the try/except: with prefixes that are strings nothing in the body can raise, the functions
    return True; other element types (JSON lists ...) are outside the modelled domain *)
Definition update_rib_in_ipv4 (s : rib) (u : update) : rib :=
  let r := rib_ipv4_loops u (rib_in s, v_ipv4 (recv_v s)) in
  mkRib (fst r) (rib_out s) (set_recv_ipv4 (recv_v s) (snd r)) (send_v s)
        (fs_send s) (fs_recv s) (sr_send s) (sr_recv s) (vpn_send s) (vpn_recv s).

Definition update_rib_out_ipv4 (s : rib) (u : update) : rib :=
  let r := rib_ipv4_loops u (rib_out s, v_ipv4 (send_v s)) in
  mkRib (rib_in s) (fst r) (recv_v s) (set_recv_ipv4 (send_v s) (snd r))
        (fs_send s) (fs_recv s) (sr_send s) (sr_recv s) (vpn_send s) (vpn_recv s).

(** ---------------------------------------------------------------------------------
    update_send_version / update_receive_verion *)

(** key = "{" + ",".join('"k":"str(v)"' for k in sorted(prefix.keys())) + "}" *)
Fixpoint rk_insert (kv : N * N) (l : rkey) : rkey :=
  match l with
  | [] => [kv]
  | x :: r => if fst kv <=? fst x then kv :: x :: r else x :: rk_insert kv r
  end.
Fixpoint rule_key (r : rule) : rkey :=
  match r with
  | [] => []
  | kv :: r' => rk_insert kv (rule_key r')
  end.

Definition rkey_eqb : rkey -> rkey -> bool := rule_eqb.

(** value = copy.deepcopy(attr); del value[14]['nlri'] *)
Definition strip (a : attrs) : attrs :=
  mkAttrs (a_rest a)
          (match a_reach a with
           | Some m => Some (mkMp (mp_afi m) (mp_safi m) (mp_rest m) [])
           | None => None
           end)
          (a_unreach a).

Inductive family := Flowspec | SrPolicy | MplsVpn.
(** afi_safi == [1, 133] / [1, 73] / [1, 128]   (with the proposed repair of the receive side,
    build/proposed/c19-receive-version-family-match.diff: list(afi_safi) == ..., so the parser's
    tuples match as well as the lists that come from JSON) *)
Definition fam_of (m : mp) : option family :=
  if mp_afi m =? 1 then
    if mp_safi m =? 133 then Some Flowspec
    else if mp_safi m =? 73 then Some SrPolicy
    else if mp_safi m =? 128 then Some MplsVpn
    else None
  else None.

(** the body of `for prefix in attr[14]['nlri']` on one (dictionary, counter) pair *)
Definition mp_ann_step (val : attrs) (st : list (rkey * attrs) * N) (r : rule)
  : list (rkey * attrs) * N :=
  let k := rule_key r in
  match dget rkey_eqb k (fst st) with
  | None => (dset rkey_eqb k val (fst st), snd st + 1)
  | Some old =>
      if attrs_eqb val old then st
      else (dset rkey_eqb k val (fst st), snd st + 1)
  end.

(** the body of `for prefix in attr[15]['withdraw']` *)
Definition mp_wd_step (st : list (rkey * attrs) * N) (r : rule) : list (rkey * attrs) * N :=
  let k := rule_key r in
  if dmem rkey_eqb k (fst st) then (ddel rkey_eqb k (fst st), snd st + 1) else st.

Definition set_fs (v : vers) n := mkVers (v_ipv4 v) n (v_sr_policy v) (v_mpls_vpn v).
Definition set_sr (v : vers) n := mkVers (v_ipv4 v) (v_flowspec v) n (v_mpls_vpn v).
Definition set_vpn (v : vers) n := mkVers (v_ipv4 v) (v_flowspec v) (v_sr_policy v) n.

Definition set_send (s : rib) (f : family) (r : list (rkey * attrs) * N) : rib :=
  match f with
  | Flowspec => mkRib (rib_in s) (rib_out s) (recv_v s) (set_fs (send_v s) (snd r))
                      (fst r) (fs_recv s) (sr_send s) (sr_recv s) (vpn_send s) (vpn_recv s)
  | SrPolicy => mkRib (rib_in s) (rib_out s) (recv_v s) (set_sr (send_v s) (snd r))
                      (fs_send s) (fs_recv s) (fst r) (sr_recv s) (vpn_send s) (vpn_recv s)
  | MplsVpn => mkRib (rib_in s) (rib_out s) (recv_v s) (set_vpn (send_v s) (snd r))
                     (fs_send s) (fs_recv s) (sr_send s) (sr_recv s) (fst r) (vpn_recv s)
  end.
Definition get_send (s : rib) (f : family) : list (rkey * attrs) * N :=
  match f with
  | Flowspec => (fs_send s, v_flowspec (send_v s))
  | SrPolicy => (sr_send s, v_sr_policy (send_v s))
  | MplsVpn => (vpn_send s, v_mpls_vpn (send_v s))
  end.
Definition set_recv (s : rib) (f : family) (r : list (rkey * attrs) * N) : rib :=
  match f with
  | Flowspec => mkRib (rib_in s) (rib_out s) (set_fs (recv_v s) (snd r)) (send_v s)
                      (fs_send s) (fst r) (sr_send s) (sr_recv s) (vpn_send s) (vpn_recv s)
  | SrPolicy => s          (* the receive side has no sr_policy branch body *)
  | MplsVpn => mkRib (rib_in s) (rib_out s) (set_vpn (recv_v s) (snd r)) (send_v s)
                     (fs_send s) (fs_recv s) (sr_send s) (sr_recv s) (vpn_send s) (fst r)
  end.
Definition get_recv (s : rib) (f : family) : list (rkey * attrs) * N :=
  match f with
  | Flowspec => (fs_recv s, v_flowspec (recv_v s))
  | SrPolicy => (sr_recv s, v_sr_policy (recv_v s))
  | MplsVpn => (vpn_recv s, v_mpls_vpn (recv_v s))
  end.

(** what is stored and which NLRI dictionaries are walked, per family.
    flowspec / mpls_vpn: every element of the list, value = the stripped copy;
    sr_policy: attr[14]['nlri'] is ONE dictionary (the list must be a singleton here; any other
    shape raises in Python and is outside the modelled domain: no-op), value = attr itself *)
Definition reach_rules (f : family) (m : mp) : list rule :=
  match f with
  | SrPolicy => match mp_rules m with [r] => [r] | _ => [] end
  | _ => mp_rules m
  end.
Definition reach_value (f : family) (a : attrs) : attrs :=
  match f with SrPolicy => a | _ => strip a end.

(** `if 14 in attr:` part, then `if 15 in attr:` part *)
Definition mp_reach_part (get : rib -> family -> list (rkey * attrs) * N)
           (set : rib -> family -> list (rkey * attrs) * N -> rib) (s : rib) (a : attrs) : rib :=
  match a_reach a with
  | Some m =>
      match fam_of m with
      | Some f => set s f (fold_left (mp_ann_step (reach_value f a)) (reach_rules f m) (get s f))
      | None => s
      end
  | None => s
  end.
Definition mp_unreach_part (get : rib -> family -> list (rkey * attrs) * N)
           (set : rib -> family -> list (rkey * attrs) * N -> rib) (s : rib) (a : attrs) : rib :=
  match a_unreach a with
  | Some m =>
      match fam_of m with
      | Some f => set s f (fold_left mp_wd_step (reach_rules f m) (get s f))
      | None => s
      end
  | None => s
  end.

Definition update_send_version (s : rib) (a : attrs) : rib :=
  mp_unreach_part get_send set_send (mp_reach_part get_send set_send s a) a.
Definition update_receive_verion (s : rib) (a : attrs) : rib :=
  mp_unreach_part get_recv set_recv (mp_reach_part get_recv set_recv s a) a.

(** ---------------------------------------------------------------------------------
    the callers *)
(** _update_received for a message that parsed without sub_error: update_receive_verion, then,
    when CONF.bgp.rib and the message is classified 'ipv4' (nlri or withdraw non-empty),
    update_rib_in_ipv4 *)
Definition is_nil {A} (l : list A) : bool := match l with [] => true | _ => false end.
Definition recv_step (rib_on : bool) (s : rib) (u : update) : rib :=
  let s1 := update_receive_verion s (u_attr u) in
  if rib_on && negb (is_nil (u_nlri u) && is_nil (u_withdraw u))
  then update_rib_in_ipv4 s1 u else s1.

(** REST send path (api/v1.py send_update_message with CONF.bgp.rib): save_send_ipv4_policies
    (update_rib_out_ipv4) and then update_send_version *)
Definition send_step (s : rib) (u : update) : rib :=
  update_send_version (update_rib_out_ipv4 s u) (u_attr u).

(** ---------------------------------------------------------------------------------
    the prefixes of a received UPDATE as they are on the wire.
    The number of the prefix string "a.b.c.d/len" is [pfx (a.b.c.d as a 32-bit number) len]
    (the harness renders the keys of both Adj-RIBs with the same rule).  One entry of the
    withdrawn-routes / NLRI field is the length octet and ceil(len/8) octets; here: [(v, len)]
    with v = those octets left-justified in 32 bits, trailing bits of the last octet AS SENT
    (RFC 4271 4.3: their value is irrelevant).
    Update.parse_prefix_list: `prefix_data[-1] &= 255 << (8 - remainder)` zeroes them, pads
    with zero octets and renders "%s.%s.%s.%s/len": the key is the prefix up to padding. *)
Definition pfx (v len : N) : prefix := v * 64 + len.
Definition wprefix := (N * N)%type.
Definition parse_prefix (w : wprefix) : prefix :=
  let k := 2 ^ (32 - snd w) in pfx ((fst w / k) * k) (snd w).

Record wupdate := mkWUpdate { w_attr : attrs; w_nlri : list wprefix; w_withdraw : list wprefix }.
(** the part of Update.parse that matters here: the two prefix lists through parse_prefix_list *)
Definition decode_update (w : wupdate) : update :=
  mkUpdate (w_attr w) (map parse_prefix (w_nlri w)) (map parse_prefix (w_withdraw w)).
Definition recv_wire (rib_on : bool) (s : rib) (w : wupdate) : rib :=
  recv_step rib_on s (decode_update w).

(** a new connection gets a NEW BGP object (buildProtocol -> __init__) whose connectionMade
    runs init_rib *)
Definition new_conn : rib := init_rib rib0.

(** ---------------------------------------------------------------------------------
    the end of a session.  One BGP protocol object = its tables/counters and the
    `disconnected` flag (False in __init__), which says WHO closes the connection:

    - the peer / the network drops it: Twisted calls connectionLost with the flag still False;
    - yabgp closes it itself: FSM._close_connection -> BGP.closeConnection (header error ->
      NOTIFICATION -> _error_close, hold timer expiry, manual stop, a NOTIFICATION from the
      peer ...) sets the flag and asks the transport to close; Twisted then calls
      connectionLost with the flag True. *)
Record conn := mkConn { c_rib : rib; c_disconnected : bool }.

Definition on_rib (f : rib -> rib) (c : conn) : conn := mkConn (f (c_rib c)) (c_disconnected c).

Definition new_connection : conn := mkConn new_conn false.

(** closeConnection: `if self.transport.connected: self.transport.loseConnection();
    self.disconnected = True` (the transport is connected in every history: the method is
    reached from a live session).  Nothing is flushed here. *)
Definition close_connection (c : conn) : conn := mkConn (c_rib c) true.

(** connectionLost: `self.init_rib()` comes FIRST, before the test of the flag;
    then handler.on_connection_lost, then
      if self.disconnected: self.factory.connection_closed(self); return
      ... self.fsm.connection_failed()
    (both continuations only touch the FSM / the factory, not the tables). *)
Definition connection_lost (c : conn) : conn :=
  let c1 := on_rib init_rib c in                    (* self.init_rib() *)
  if c_disconnected c1
  then c1                                           (* we closed it: connection_closed; return *)
  else c1.                                          (* the peer did: fsm.connection_failed() *)

(** ---------------------------------------------------------------------------------
    rendering for the correspondence check *)
Definition sx_rule (r : list (N * N)) : sx := SL (map (fun kv => SL [SN (fst kv); SN (snd kv)]) r).
Definition sx_mp (m : mp) : sx :=
  SL [SN (mp_afi m); SN (mp_safi m); SN (mp_rest m); SL (map sx_rule (mp_rules m))].
Definition sx_attrs (a : attrs) : sx :=
  SL [SN (a_rest a); sx_opt sx_mp (a_reach a); sx_opt sx_mp (a_unreach a)].
Definition sx_vers (v : vers) : sx :=
  SL [SN (v_ipv4 v); SN (v_flowspec v); SN (v_sr_policy v); SN (v_mpls_vpn v)].
Definition sx_ptable (d : list (prefix * attrs)) : sx :=
  SL (map (fun kv => SL [SN (fst kv); sx_attrs (snd kv)]) d).
Definition sx_rtable (d : list (rkey * attrs)) : sx :=
  SL (map (fun kv => SL [sx_rule (fst kv); sx_attrs (snd kv)]) d).
Definition sx_rib (s : rib) : sx :=
  SL [sx_ptable (rib_in s); sx_ptable (rib_out s); sx_vers (recv_v s); sx_vers (send_v s);
      sx_rtable (fs_send s); sx_rtable (fs_recv s); sx_rtable (sr_send s); sx_rtable (sr_recv s);
      sx_rtable (vpn_send s); sx_rtable (vpn_recv s)].

(** the protocol object: the ten tables/counters and the flag *)
Definition sx_conn (c : conn) : sx :=
  match sx_rib (c_rib c) with
  | SL l => SL (l ++ [sx_bool (c_disconnected c)])
  | x => x
  end.

Inductive event :=
| ERecv (u : update)          (* an UPDATE from the peer, already decoded *)
| ERecvW (w : wupdate)        (* an UPDATE from the peer, through dataReceived: prefixes as sent *)
| ESend (u : update)          (* POST /v1/peer/<ip>/send/update, or the two protocol calls *)
| EClose                      (* yabgp closes the session itself: closeConnection *)
| ELost                       (* connectionLost (after EClose: local close; without: the peer
                                 dropped it): the state of the old object afterwards *)
| ENew.                       (* the next connection is established: the new object *)

Definition ev_step (rib_on : bool) (c : conn) (e : event) : conn :=
  match e with
  | ERecv u => on_rib (fun s => recv_step rib_on s u) c
  | ERecvW w => on_rib (fun s => recv_wire rib_on s w) c
  | ESend u => on_rib (fun s => send_step s u) c
  | EClose => close_connection c
  | ELost => connection_lost c
  | ENew => new_connection
  end.

(** the state after every event *)
Fixpoint trace (rib_on : bool) (c : conn) (es : list event) : list conn :=
  match es with
  | [] => []
  | e :: r => let c' := ev_step rib_on c e in c' :: trace rib_on c' r
  end.
(** the state at the end of a history *)
Definition run (rib_on : bool) (c : conn) (es : list event) : conn := fold_left (ev_step rib_on) es c.

Definition trace_sx (rib_on : bool) (es : list event) : sx :=
  SL (map sx_conn (trace rib_on new_connection es)).
