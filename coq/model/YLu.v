(** IPv4 / IPv6 labeled unicast NLRI (yabgp/message/attribute/nlri/labeled_unicast/__init__.py)
    and the MP_REACH / MP_UNREACH branches for SAFI 4.  Prefix octets as in YVpn (repaired
    construct_prefix_v4 / construct_prefix_v6); label parser bounded to the route as in YVpn. *)
From YV Require Import lib.Base gen.Consts model.YMp model.YLabel model.YVpn.

Record lroute := { l_labels : list N; l_addr : N; l_len : N }.
Definition mk_lroute (l : list N) (a n : N) : lroute := {| l_labels := l; l_addr := a; l_len := n |}.

(** LabeledUnicast.construct, one route; flag 'withdraw' writes 80 00 00 *)
Definition construct_lroute (v6 withdraw : bool) (r : lroute) : res bytes :=
  bind (if withdraw then Ok WITHDRAW_LABEL_HEX else construct_labels (l_labels r)) (fun lab =>
  let pfx := if v6 then prefix6_octets (l_addr r) (l_len r) else prefix4_octets (l_addr r) (l_len r) in
  let plen := 8 * len lab + l_len r in
  if negb (pfx_len_ok v6 (l_len r)) then Exc       (* YVpn.pfx_len_ok: 0..32 / 0..128 or an exception *)
  else if 255 <? plen then Exc else Ok ([plen] ++ lab ++ pfx)).

Fixpoint construct_lu (v6 withdraw : bool) (rs : list lroute) : res bytes :=
  match rs with
  | [] => Ok []
  | r :: t => bind (construct_lroute v6 withdraw r) (fun b =>
              bind (construct_lu v6 withdraw t) (fun bt => Ok (b ++ bt)))
  end.

(** decoded route: labels, address, mask (1000 + n stands for the negative number -n that the
    Python arithmetic produces when more label octets were read than the NLRI has) *)
Definition plroute := (list N * addr * N)%type.

(** LabeledUnicast.parse (addpath=False) *)
Fixpoint parse_lu (v6 : bool) (fuel : nat) (d : bytes) : res (list plroute) :=
  match fuel with
  | O => Fuel
  | S f =>
      match d with
      | [] => Ok []
      | bitlen :: _ =>
          let nbl := ceil8 bitlen in
          let offset := nbl + 1 in
          let labels := parse_labels (slice 1 (N.to_nat offset) d) in
          let lbl := 3 * N.of_nat (length labels) in
          (* prefix_byte_len = nbl - lbl, prefix_mask = bitlen - 8 * lbl : both may be negative *)
          let pslice := if lbl <=? nbl then slice (N.to_nat (offset - (nbl - lbl))) (N.to_nat offset) d else [] in
          let mask_nonneg := 8 * lbl <=? bitlen in
          let mask := if mask_nonneg then bitlen - 8 * lbl else 1000 + (8 * lbl - bitlen) in
          let zeros :=
            if v6 then (if mask_nonneg then (128 - (bitlen - 8 * lbl)) / 8 else (128 + (8 * lbl - bitlen)) / 8)
            else (if lbl <=? nbl then 4 - (nbl - lbl) else 4 + (lbl - nbl)) in
          bind (addr_of_bytes (pslice ++ repeat 0 (N.to_nat zeros))) (fun a =>
          bind (parse_lu v6 f (drop (N.to_nat offset) d)) (fun t => Ok ((labels, a, mask) :: t)))
      end
  end.
Definition parse_lu_all (v6 : bool) (d : bytes) : res (list plroute) := parse_lu v6 (S (length d)) d.

(** MpReachNLRI.construct, SAFI 4: None when the NLRI comes out empty.  The next hop is
    netaddr.IPAddress(text).packed: 4 or 16 octets by the version of the ADDRESS ([nh6]), whatever
    the family [v6] of the routes (IPv6 next hop for IPv4 labeled routes: RFC 8950) *)
Definition reachlu_construct_x (v6 nh6 : bool) (ip : N) (rs : list lroute) : res (option bytes) :=
  let nh := if nh6 then be 16 ip else be 4 ip in
  bind (construct_lu v6 false rs) (fun nlri =>
  match nlri with
  | [] => Ok None
  | _ => bind (reach_attr (vpn_afi v6) SAFI_MPLS_LABEL (len nh) nh nlri) (fun b => Ok (Some b))
  end).
(** next hop of the routes' own family *)
Definition reachlu_construct (v6 : bool) := reachlu_construct_x v6 v6.

Definition reachlu_result := (option addr * list plroute)%type.

Definition reachlu_parse (v6 : bool) (v : bytes) : res reachlu_result :=
  bind (reach_split v) (fun '(afi, safi, nh, nlri) =>
  if (afi =? vpn_afi v6) && (safi =? SAFI_MPLS_LABEL) then
    bind (match nh with [] => Ok None | _ => bind (addr_of_bytes nh) (fun a => Ok (Some a)) end) (fun a =>
    bind (parse_lu_all v6 nlri) (fun t => Ok (a, t)))
  else Exc).

(** MpUnReachNLRI.construct, SAFI 4: implemented for AFI 1 only; AFI 2 falls out of the if-chain
    and returns None *)
Definition unreachlu_construct (v6 : bool) (rs : list lroute) : res (option bytes) :=
  if v6 then Ok None else
  match rs with
  | [] => Ok None
  | _ => bind (construct_lu false true rs) (fun nlri =>
         bind (unreach_attr AFI_INET SAFI_MPLS_LABEL nlri) (fun b => Ok (Some b)))
  end.

(** MpUnReachNLRI.parse has no branch for SAFI 4: the octets come back as repr(bytes) (None here) *)
Definition unreachlu_parse (v6 : bool) (v : bytes) : res (option (list plroute)) :=
  bind (unreach_split v) (fun '(afi, safi, nlri) =>
  if (afi =? vpn_afi v6) && (safi =? SAFI_MPLS_LABEL) then Ok None else Exc).

(** rendering *)
Definition sx_plroute (r : plroute) : sx := let '(l, a, m) := r in SL [sx_labels l; sx_addr a; SN m].
Definition sx_reachlu (v : reachlu_result) : sx :=
  let '(a, t) := v in SL [sx_opt sx_addr a; sx_list sx_plroute t].
Definition sx_unreachlu (v : option (list plroute)) : sx := sx_opt (sx_list sx_plroute) v.
