(** IPv4 prefix lists of an UPDATE: Update.construct_prefix_v4 and Update.parse_prefix_list
    (= IPv4Unicast.parse, the same code) of yabgp/message/update.py, with the add-path variant.

    A prefix is (address as 32-bit integer, length); the text form "a.b.c.d/len" is converted by
    the harness with netaddr (construct uses netaddr.IPNetwork(text).value, i.e. the address as
    written, NOT masked).

    REPAIRED behaviour modelled (build/proposed/c06-prefix-zero-length.diff): a /0 prefix is
    encoded as the single octet 0.  The unrepaired code keeps one address octet for every
    masklen <= 8, including 0, and the decoder then reads that octet as a second /0 route. *)
From YV Require Import lib.Base gen.Consts model.YMsg.

Definition pfx := (N * N)%type.          (* (address, length) *)
Definition apfx := (N * pfx)%type.       (* add-path: (path_id, prefix) *)

(** loops run on explicit fuel; exhaustion is this value, which no yabgp path produces *)
Definition OutOfFuel {A} : res A := Err 0 0.

(** generic "while len(data) > 0: item, data = step(data)" loop; an exception aborts the loop *)
Section Walk.
  Context {A : Type} (step : bytes -> res (A * bytes)).
  Fixpoint walk (fuel : nat) (d : bytes) : res (list A) :=
    match d with
    | [] => Ok []
    | _ :: _ =>
      match fuel with
      | O => OutOfFuel
      | S f =>
        match step d with
        | Ok (x, rest) =>
          match walk f rest with
          | Ok l => Ok (x :: l)
          | Err c s => Err c s
          | PyExc => PyExc
          end
        | Err c s => Err c s
        | PyExc => PyExc
        end
      end
    end.
End Walk.

(** ---- construct_prefix_v4 ---- *)
(** number of address octets kept for a mask length (the if/elif chain of the code, repaired) *)
Definition v4_octets (l : N) : nat :=
  if (16 <? l) && (l <=? 24) then 3
  else if (8 <? l) && (l <=? 16) then 2
  else if (0 <? l) && (l <=? 8) then 1
  else if l =? 0 then 0
  else 4.

Definition enc_prefix (p : pfx) : bytes := snd p :: take (v4_octets (snd p)) (be 4 (fst p)).
Definition enc_aprefix (p : apfx) : bytes := be 4 (fst p) ++ enc_prefix (snd p).

(** netaddr.IPNetwork rejects a v4 mask above 32; struct.pack('!I') rejects an address >= 2^32
    (an IPv6 prefix); both are plain exceptions *)
Definition pfx_ok (p : pfx) : bool := (fst p <? 4294967296) && (snd p <=? 32).
Definition construct_prefix_v4 (ps : list pfx) : res bytes :=
  if forallb pfx_ok ps then Ok (concat (map enc_prefix ps)) else PyExc.
Definition construct_prefix_v4_ap (ps : list apfx) : res bytes :=
  if forallb (fun p => (fst p <? 4294967296) && pfx_ok (snd p)) ps
  then Ok (concat (map enc_aprefix ps)) else PyExc.

(** ---- parse_prefix_list ---- *)
(** prefix_data[-1] &= 255 << (8 - remainder); IndexError on an empty list *)
Definition mask_last (rem : N) (d : bytes) : option bytes :=
  match d with
  | [] => None
  | _ :: _ => Some (removelast d ++ [last d 0 / 2 ^ (8 - rem) * 2 ^ (8 - rem)])
  end.

(** one iteration of the loop without add-path; [d] is non-empty when called from the loop *)
Definition parse_one (d : bytes) : res (pfx * bytes) :=
  match d with
  | [] => PyExc                                     (* postfix[0] on an empty string *)
  | l :: _ =>
    if 32 <? l then Err c_ERR_MSG_UPDATE c_ERR_MSG_UPDATE_INVALID_NETWORK_FIELD
    else
      let rem := l mod 8 in
      let ol := N.to_nat (l / 8 + (if 0 <? rem then 1 else 0)) in
      let tmp := slice 1 (ol + 1) d in              (* clamps: a short tail is NOT an error *)
      match (if 0 <? rem then mask_last rem tmp else Some tmp) with
      | None => PyExc
      | Some pd => Ok ((unbe (take 4 (pd ++ [0; 0; 0; 0])), l), drop (ol + 1) d)
      end
  end.

(** with add-path: 4-octet path id first (struct.unpack needs exactly 4 octets) *)
Definition parse_one_ap (d : bytes) : res (apfx * bytes) :=
  if Nat.eqb (length (take 4 d)) 4 then
    match parse_one (drop 4 d) with
    | Ok (p, rest) => Ok ((unbe (take 4 d), p), rest)
    | Err c s => Err c s
    | PyExc => PyExc
    end
  else PyExc.

(** every iteration consumes at least one octet, so [length d] iterations are enough *)
Definition parse_prefix_list (d : bytes) : res (list pfx) := walk parse_one (length d) d.
Definition parse_prefix_list_ap (d : bytes) : res (list apfx) := walk parse_one_ap (length d) d.

(** rendering for the correspondence check *)
Definition sx_pfx (p : pfx) : sx := SL [SN (fst p); SN (snd p)].
Definition sx_apfx (p : apfx) : sx := SL [SN (fst p); sx_pfx (snd p)].
Definition sx_list {A} (f : A -> sx) (l : list A) : sx := SL (map f l).
