(** MP_REACH_NLRI / MP_UNREACH_NLRI framing (yabgp/message/attribute/mpreachnlri.py,
    mpunreachnlri.py): attribute header, AFI/SAFI/next-hop-length/next-hop/reserved framing,
    next-hop rendering.  The per-family NLRI codecs are in YPrefix6 / YLabel / YVpn / YLu /
    YFlow4 / YEvpn; each of them defines its reach/unreach construct and parse on top of this.
    Address TEXT is not modelled: an address is (version, integer); netaddr.IPAddress(int)
    chooses the version from the magnitude of the integer, which is [of_int]. *)
From YV Require Import lib.Base gen.Consts.

(** result of a Python call: a value, any exception, or the loop fuel ran out (never happens
    on the fuel the callers pass; distinguished so that it cannot be mistaken for a value) *)
Inductive res (A : Type) := Ok (a : A) | Exc | Fuel.
Arguments Ok {A} a. Arguments Exc {A}. Arguments Fuel {A}.

Definition bind {A B} (r : res A) (f : A -> res B) : res B :=
  match r with Ok a => f a | Exc => Exc | Fuel => Fuel end.

Inductive addr := V4 (n : N) | V6 (n : N).

(** str(netaddr.IPAddress(n)): below 2^32 the text is dotted-quad (IPv4), up to 2^128-1 it is
    IPv6, above that AddrFormatError *)
Definition of_int (n : N) : res addr :=
  if n <? 2 ^ 32 then Ok (V4 n) else if n <? 2 ^ 128 then Ok (V6 n) else Exc.

(** int(binascii.b2a_hex(b), 16): ValueError on the empty string *)
Definition int_of_hex (b : bytes) : res N :=
  match b with [] => Exc | _ => Ok (unbe b) end.

Definition addr_of_bytes (b : bytes) : res addr := bind (int_of_hex b) of_int.

(** number of octets holding l bits, as every decoder here computes it *)
Definition ceil8 (l : N) : N := if l mod 8 =? 0 then l / 8 else l / 8 + 1.

(** afn.py / safn.py values used by the dispatch *)
Definition AFI_INET : N := 1.
Definition AFI_INET6 : N := 2.
Definition AFI_L2VPN : N := 25.
Definition SAFI_UNICAST : N := 1.
Definition SAFI_MPLS_LABEL : N := 4.
Definition SAFI_EVPN : N := 70.
Definition SAFI_LAB_VPNUNICAST : N := 128.
Definition SAFI_FSPEC_RULE : N := 133.

(** struct.pack('!B', FLAG) + struct.pack('!B', ID) + struct.pack('!H', len(v)) + v *)
Definition attr (flag id : N) (v : bytes) : res bytes :=
  if 65535 <? len v then Exc else Ok ([flag; id] ++ be 2 (len v) ++ v).

(** the value part of MP_REACH_NLRI as every construct branch assembles it; nhl is the octet the
    branch writes as next-hop length (struct.pack('!B') raises above 255) *)
Definition reach_value (afi safi nhl : N) (nh nlri : bytes) : res bytes :=
  if 255 <? nhl then Exc else Ok (be 2 afi ++ [safi] ++ [nhl] ++ nh ++ [0] ++ nlri).

Definition reach_attr (afi safi nhl : N) (nh nlri : bytes) : res bytes :=
  bind (reach_value afi safi nhl nh nlri) (attr c_ATTR_MpReachNLRI_FLAG c_ATTR_MpReachNLRI_ID).

Definition unreach_attr (afi safi : N) (nlri : bytes) : res bytes :=
  attr c_ATTR_MpUnReachNLRI_FLAG c_ATTR_MpUnReachNLRI_ID (be 2 afi ++ [safi] ++ nlri).

(** MpReachNLRI.parse: afi, safi, nexthop_length = unpack('!HBB', value[0:4]);
    nexthop_bin = value[4:4+n]; nlri_bin = value[5+n:] *)
Definition reach_split (v : bytes) : res (N * N * bytes * bytes) :=
  match v with
  | a1 :: a0 :: s :: n :: r =>
      Ok (a1 * 256 + a0, s, take (N.to_nat n) r, drop (1 + N.to_nat n) r)
  | _ => Exc
  end.

(** MpUnReachNLRI.parse: afi, safi = unpack('!HB', value[0:3]); nlri_bin = value[3:] *)
Definition unreach_split (v : bytes) : res (N * N * bytes) :=
  match v with
  | a1 :: a0 :: s :: r => Ok (a1 * 256 + a0, s, r)
  | _ => Exc
  end.

(** rendering for the correspondence check *)
Definition sx_res {A} (f : A -> sx) (r : res A) : sx :=
  match r with Ok a => SL [SN 0; f a] | Exc => SL [SN 2] | Fuel => SL [SN 9] end.
Definition sx_addr (a : addr) : sx :=
  match a with V4 n => SL [SN 4; SN n] | V6 n => SL [SN 6; SN n] end.
Definition sx_list {A} (f : A -> sx) (l : list A) : sx := SL (map f l).
(** construct results: bytes, or None *)
Definition sx_optbytes (o : option bytes) : sx :=
  match o with Some b => SB b | None => SL [] end.
