(** yabgp/api/v1.py, views send_update_message and json_to_bin: the "extended community
    recombine" step that turns the posted text list attr[16] into the [code, value...] items
    ExtCommunity.construct consumes.  Both views contain the same code (they differ only in the
    position of the redirect-vrf branch, whose key no other branch matches).

    The literal type codes below are the literals of v1.py; the two dictionaries are hand copies
    of constants.BGP_EXT_COM_DICT / BGP_EXT_COM_DICT_1 (compared with the live ones by the check). *)
From Coq Require Import String ZArith.
From YV Require Import lib.Base lib.Dec gen.Consts model.YExtCom.
Open Scope N_scope.

(** res['peer']['capability']['remote']: empty dict / no 'four_bytes_as' key / its value *)
Inductive caps := CapEmpty | CapNoKey | CapFba (b : bool).

(** outcome of the step: the item list, an early "status: False" answer, or an exception (HTTP 500) *)
Inductive rres (A : Type) := ROk (a : A) | RRefuse (k : N) | RExc.
Arguments ROk {A} a. Arguments RRefuse {A} k. Arguments RExc {A}.
Definition refuse_peer_state : N := 1.     (* 'please check peer state' *)
Definition refuse_as4 : N := 2.            (* 'peer not support as num of greater than 65535' *)
Definition refuse_unexpected : N := 3.     (* 'unexpected extended community ...' *)

Definition rbind {A B} (r : rres A) (f : A -> rres B) : rres B :=
  match r with ROk a => f a | RRefuse k => RRefuse k | RExc => RExc end.
Definition of_o {A} (o : option A) : rres A := match o with Some a => ROk a | None => RExc end.

Fixpoint rmap {A B} (f : A -> rres B) (l : list A) : rres (list B) :=
  match l with
  | [] => ROk []
  | a :: r => rbind (f a) (fun b => rbind (rmap f r) (fun t => ROk (b :: t)))
  end.

Definition ext_com_dict : list (str * N) :=
  [ (codes "redirect-vrf", 32776); (codes "traffic-marking-dscp", 32777); (codes "traffic-rate", 32774);
    (codes "traffic-action", 32775); (codes "color", 779); (codes "color-00", 51052544);
    (codes "color-01", 51068928); (codes "color-10", 51085312); (codes "color-11", 51101696);
    (codes "encapsulation", 780); (codes "es-import", 1538); (codes "router-mac", 1539) ].
Definition ext_com_dict_1 : list (str * N) :=
  [ (codes "esi-label", 1537); (codes "mac-mobility", 1536) ].

Definition hd_str (l : list str) : str := match l with a :: _ => a | [] => [] end.
(** int(nums[0].strip()) *)
Definition first_int (v : str) : option Z := py_int (strip (hd_str (split1 58 v))).

(** one comma-separated value of a route-target *)
Definition rt_value (cp : caps) (vau : str) : rres item :=
  let v := strip vau in
  if mem 46 (hd_str (split_on 58 v)) then ROk (ItS 258 v)
  else
    rbind (of_o (first_int v)) (fun a =>
      if (a <=? 65535)%Z then ROk (ItS 2 v)
      else match cp with
           | CapEmpty => RRefuse refuse_peer_state
           | CapNoKey => RExc
           | CapFba true => ROk (ItS 514 v)
           | CapFba false => RRefuse refuse_as4
           end).

(** one comma-separated value of a route-origin (the capability is looked at first) *)
Definition ro_value (cp : caps) (vau : str) : rres item :=
  let v := strip vau in
  if mem 46 (hd_str (split_on 58 v)) then ROk (ItS 259 v)
  else
    match cp with
    | CapEmpty => RRefuse refuse_peer_state
    | CapNoKey => RExc
    | CapFba fba =>
        rbind (of_o (first_int v)) (fun a =>
          if (65535 <? a)%Z then (if fba then ROk (ItS 515 v) else RRefuse refuse_as4)
          else ROk (ItS 3 v))
    end.

(** traffic-action: "s:1,t:0" (already lower-cased) -> the dictionary *)
Fixpoint ta_values (l : list str) (s t : option Z) : option (option Z * option Z) :=
  match l with
  | [] => Some (s, t)
  | vau :: r =>
      match split1 58 (strip vau) with
      | [flg; v] =>
          if str_eqb flg [115] then (n <- py_int v ;; ta_values r (Some n) t)
          else if str_eqb flg [116] then (n <- py_int v ;; ta_values r s (Some n))
          else ta_values r s t
      | _ => None
      end
  end.

(** the if/elif chain on the normalised key [k] = key.strip().lower() *)
Definition rest_key (cp : caps) (k value : str) : rres (list item) :=
  let commas := split_on 44 (strip value) in
  if str_eqb k (codes "route-target") then rmap (rt_value cp) commas
  else if str_eqb k (codes "dmzlink-bw") then ROk (map (fun vau => ItS 16388 (strip vau)) commas)
  else if str_eqb k (codes "route-origin") then rmap (ro_value cp) commas
  else if str_eqb k (codes "redirect-nexthop") then
    match split1 58 (strip value) with
    | [ip; fl] => rbind (of_o (py_int fl)) (fun n => ROk [ItSI 2048 ip n])
    | _ => RExc
    end
  else if str_eqb k (codes "redirect-vrf") then ROk [ItS 32776 (strip value)]
  else if str_eqb k (codes "traffic-action") then
    match ta_values (split_on 44 (lower (strip value))) None None with
    | Some (s, t) => ROk [ItD 32775 s t]
    | None => RExc
    end
  else
    match assoc_s k ext_com_dict_1 with
    | Some (Npos p) =>
        match split1 58 (strip value) with
        | [a; b] => rbind (of_o (py_int a)) (fun x => rbind (of_o (py_int b)) (fun y => ROk [ItII (Npos p) x y]))
        | _ => RExc
        end
    | _ =>
        match assoc_s k ext_com_dict with
        | Some (Npos p) =>
            rmap (fun vau => if Npos p =? 32777 then rbind (of_o (py_int (strip vau))) (fun n => ROk (ItI (Npos p) n))
                             else ROk (ItS (Npos p) (strip vau))) commas
        | _ => RRefuse refuse_unexpected
        end
    end.

(** one element of attr[16] -> the items it contributes ("key, value = ext_com.split(':', 1)") *)
Definition rest_ec1 (cp : caps) (ext_com : str) : rres (list item) :=
  match split1 58 ext_com with
  | [key; value] => rest_key cp (lower (strip key)) value
  | _ => RExc
  end.

(** the whole loop over attr[16] *)
Definition rest_ec (cp : caps) (l : list str) : rres (list item) :=
  rbind (rmap (rest_ec1 cp) l) (fun ll => ROk (concat ll)).

Definition sx_rres {A} (f : A -> sx) (r : rres A) : sx :=
  match r with ROk a => SL [SN 0; f a] | RRefuse k => SL [SN 1; SN k] | RExc => SL [SN 2] end.
Definition sx_items (l : list item) : sx := SL (map sx_item l).
