(** Update.parse of yabgp/message/update.py with its [afi_add_path] argument, and the call site in
    yabgp/core/protocol.py (BGP._update_received).

    model/YUpdate.v has Update.parse for afi_add_path = None/{} only; this file adds the other value
    the decoder understands ({'ipv4': True}: a 4-octet path identifier in front of every withdrawn and
    announced prefix) on top of the same pieces (YPrefix4.parse_prefix_list / parse_prefix_list_ap,
    the attribute walk of YUpdate.parse_attributes).

    REPAIRED behaviour modelled (build/proposed/c09-origin-length.diff): Origin.parse raises
    UpdateMessageError(ATTR_LEN) unless the value is exactly one octet.  The unrepaired code reads
    value[0:1] and ignores the rest (length 2..: accepted as a value; length 0: TypeError, reported as
    MALFORMED_ATTR_LIST).  YAttr.parse_origin still has the unrepaired behaviour; [parse_attr_x]
    overrides that one branch, everything else is YAttr.parse_attr. *)
From YV Require Import lib.Base gen.Consts model.YMsg model.YPrefix4 model.YAttr model.YUpdate.

(** a decoded prefix: 'a.b.c.d/len' (None) or {'prefix': .., 'path_id': ..} (Some id) *)
Definition xpfx := (option N * pfx)%type.

(** Update.parse_prefix_list(data, addpath) *)
Definition parse_prefixes_x (ap : bool) (d : bytes) : res (list xpfx) :=
  if ap
  then bind (parse_prefix_list_ap d) (fun l => Ok (map (fun p => (Some (fst p), snd p)) l))
  else bind (parse_prefix_list d) (fun l => Ok (map (fun p => (None, p)) l)).

(** Origin.parse, repaired *)
Definition parse_origin_x (v : bytes) : res aval :=
  match v with
  | [o] => if o <=? 2 then Ok (VNum o) else E_UPD c_ERR_MSG_UPDATE_INVALID_ORIGIN
  | _ => E_UPD c_ERR_MSG_UPDATE_ATTR_LEN
  end.

Definition parse_attr_x (asn4 : bool) (tc : N) (v : bytes) : res aval :=
  if tc =? c_BGPTYPE_ORIGIN then parse_origin_x v else parse_attr asn4 tc v.

(** Update.parse_attributes: YUpdate.parse_attrs_f with [parse_attr_x] *)
Fixpoint parse_attrs_fx (fuel : nat) (asn4 : bool) (acc : list (N * aval)) (d : bytes)
  : list (N * aval) * option N :=
  match d with
  | [] => (acc, None)
  | _ :: _ =>
    match fuel with
    | O => (acc, Some sub_OutOfFuel)
    | S f =>
      match parse_tlv d with
      | None => (acc, Some c_ERR_MSG_UPDATE_MALFORMED_ATTR_LIST)
      | Some (tc, v, rest) =>
        match parse_attr_x asn4 tc v with
        | Ok a => parse_attrs_fx f asn4 (dict_set tc a acc) rest
        | Err _ s => (acc, Some s)
        | PyExc => (acc, Some c_ERR_MSG_UPDATE_MALFORMED_ATTR_LIST)
        end
      end
    end
  end.
Definition parse_attributes_x (asn4 : bool) (d : bytes) : list (N * aval) * option N :=
  parse_attrs_fx (length d) asn4 [] d.

Record xparsed := mkXP { xp_withdraw : list xpfx; xp_attrs : list (N * aval); xp_nlri : list xpfx;
                         xp_sub : option N }.

(** Update.parse(t, msg, asn4, afi_add_path) with add_path = afi_add_path.get('ipv4', False);
    same structure as YUpdate.parse_full *)
Definition parse_full_x (asn4 ap : bool) (msg : bytes) : res xparsed :=
  if Nat.eqb (length (take 2 msg)) 2 then
    let wl := N.to_nat (unbe (take 2 msg)) in
    let wd := slice 2 (wl + 2) msg in
    let al_raw := slice (wl + 2) (wl + 4) msg in
    if Nat.eqb (length al_raw) 2 then
      let al := N.to_nat (unbe al_raw) in
      let ad := slice (wl + 4) (wl + 4 + al) msg in
      let nd := drop (wl + 4 + al) msg in
      let '(w, n, sub1) :=
        match parse_prefixes_x ap wd with
        | Ok w =>
          match parse_prefixes_x ap nd with
          | Ok n => (w, n, None)
          | _ => (w, [], Some c_ERR_MSG_UPDATE_INVALID_NETWORK_FIELD)
          end
        | _ => ([], [], Some c_ERR_MSG_UPDATE_INVALID_NETWORK_FIELD)
        end in
      let '(a, sub2) := parse_attributes_x asn4 ad in
      Ok (mkXP w a n (match sub2 with Some s => Some s | None => sub1 end))
    else PyExc
  else PyExc.

Record xupd := mkXU { xu_withdraw : list xpfx; xu_attrs : list (N * aval); xu_nlri : list xpfx }.

(** decoder mode: (4-octet AS numbers negotiated, add-path for IPv4 unicast) *)
Definition mode := (bool * bool)%type.

(** a message whose sub_error is set is an error, not a value *)
Definition parse_x (m : mode) (msg : bytes) : res xupd :=
  bind (parse_full_x (fst m) (snd m) msg) (fun p =>
    match xp_sub p with
    | Some s => Err c_ERR_MSG_UPDATE s
    | None => Ok (mkXU (xp_withdraw p) (xp_attrs p) (xp_nlri p))
    end).

(** BGP._update_received: `Update().parse(timestamp, msg, self.fourbytesas, afi_add_path={})`.
    The negotiated flag self.add_path_ipv4_receive is not used: whatever was negotiated, the
    message is decoded without path identifiers. *)
Definition received_update (fourbytesas add_path_ipv4_receive : bool) (msg : bytes) : res xupd :=
  parse_x (fourbytesas, false) msg.

(** rendering for the correspondence check *)
Definition sx_xpfx (p : xpfx) : sx := SL [sx_opt SN (fst p); SN (fst (snd p)); SN (snd (snd p))].
Definition sx_xparsed (p : xparsed) : sx :=
  SL [sx_list sx_xpfx (xp_withdraw p); sx_attrs (xp_attrs p); sx_list sx_xpfx (xp_nlri p); sx_opt SN (xp_sub p)].
