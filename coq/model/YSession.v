(** Hand-written model of the glue around the generated FSM: BGPPeering (factory.py), the BGP
    protocol object (protocol.py: connection callbacks, framing, dispatch, OPEN handling,
    send paths) and the abstract reactor's events.  Tied to the code by the exploration
    correspondence (harness/session.py). *)
From YV Require Import lib.Base model.YWorld model.YProto gen.Consts gen.FsmGen model.YFraming.

(** ---- decoders the session layer calls; parameters of the model ---- *)
Inductive open_res :=
| OpHdrErr (sub : N)                 (* MessageHeaderError *)
| OpOpenErr (sub : N)                (* OpenMessageError *)
| OpExc                              (* any other exception *)
| OpOk (asn hold : N) (caps : list cap).   (* attributes of the Open object after parse *)
Inductive upd_res := UpOk | UpSubErr | UpExc.

Record decoders : Type := mkDec {
  d_open : bytes -> open_res;
  d_update : bool -> bytes -> upd_res     (* first argument: 4-octet-AS mode of the connection *)
}.

Definition opt_nat_eqb (a b : option nat) : bool :=
  match a, b with
  | Some x, Some y => Nat.eqb x y
  | None, None => true
  | _, _ => false
  end.

(** ---- BGPPeering ---- *)
Definition peering_automatic_start (idle_hold : bool) (w : world) : world :=
  if st_is w StIdle then
    let r := fsm_automatic_start idle_hold w in
    if fst r then peering_connect (set_w_status true (snd r)) else snd r
  else w.

Definition is_estab (pro : option nat) (w : world) : bool :=
  match pro with Some _ => opt_nat_eqb pro (w_estab w) | None => false end.

Definition peering_connection_closed (pro : option nat) (w : world) : world :=
  let w := if is_estab pro w
           then (let w := set_w_estab None w in if st_is w StConnect then w else set_state StIdle w)
           else w in
  if w_auto w then peering_automatic_start true w else w.

Definition peering_connect_retry : world -> world := peering_connect.

Definition peering_manual_start (w : world) : world :=
  if st_is w StEstablished then w
  else if st_is w StIdle then
    let r := fsm_manual_start false w in
    if fst r then peering_connect (set_w_status true (snd r)) else snd r
  else w.

(** FSM methods with the callbacks tied *)
Notation CB f := (f peering_connect_retry peering_automatic_start peering_connection_closed) (only parsing).
Definition F_manual_stop := CB fsmU_manual_stop.
Definition F_connect_retry_time_event := CB fsmU_connect_retry_time_event.
Definition F_hold_time_event := CB fsmU_hold_time_event.
Definition F_keep_alive_time_event := CB fsmU_keep_alive_time_event.
Definition F_delay_open_time_event := CB fsmU_delay_open_time_event.
Definition F_idle_hold_time_event := CB fsmU_idle_hold_time_event.
Definition F_connection_made := CB fsmU_connection_made.
Definition F_connection_failed := CB fsmU_connection_failed.
Definition F_open_received := CB fsmU_open_received.
Definition F_header_error := CB fsmU_header_error.
Definition F_open_message_error := CB fsmU_open_message_error.
Definition F_notification_received := CB fsmU_notification_received.
Definition F_keep_alive_received := CB fsmU_keep_alive_received.
Definition F_update_received := CB fsmU_update_received.

Definition peering_manual_stop (w : world) : world := snd (F_manual_stop w).

(** ---- BGP protocol object on connection [c] ---- *)

(** connector succeeded: buildProtocol/_initProtocol, makeConnection, connectionMade *)
Definition conn_made (c : nat) (w : world) : world :=
  let w := set_w_proto (Some c) w in
  let w := set_state StConnect w in
  let w := set_w_estab (Some c) w in
  let w := upd_conn c (set_c_st CConnected) w in
  let w := set_w_hold (cf_hold (w_cfg w)) w in
  let w := set_w_ka3 (secs (cf_ka (w_cfg w))) w in
  F_connection_made w.

Definition conn_failed (c : nat) (w : world) : world :=
  let w := upd_conn c (set_c_st CFailed) w in
  let w := emit (OHandler HConnFailed) w in
  F_connection_failed w.

Definition conn_lost (c : nat) (w : world) : world :=
  let w := upd_conn c (set_c_st CClosed) w in
  let w := emit (OHandler HConnLost) w in
  if c_disc (get_conn c w) then peering_connection_closed (Some c) w
  else F_connection_failed w.

(** the proposed value 1 or 2 is refused whatever the own value is; so is a negotiated 1 or 2 *)
Definition hold_refused (proposed negotiated : N) : bool :=
  (negb (proposed =? 0) && (proposed <? 3)) || (negb (negotiated =? 0) && (negotiated <? 3)).

Lemma hold_refused_false p m : (p = 0 \/ 3 <= p) -> (m = 0 \/ 3 <= m) -> hold_refused p m = false.
Proof.
  intros Hp Hm. unfold hold_refused. apply orb_false_iff. split; apply andb_false_iff.
  - destruct Hp as [->|Hp]; [left; reflexivity|right; apply N.ltb_ge; exact Hp].
  - destruct Hm as [->|Hm]; [left; reflexivity|right; apply N.ltb_ge; exact Hm].
Qed.
Lemma hold_refused_true_negotiated p m : m <> 0 -> m < 3 -> hold_refused p m = true.
Proof.
  intros H1 H2. unfold hold_refused. apply orb_true_iff. right. apply andb_true_iff.
  split; [apply negb_true_iff, N.eqb_neq; exact H1|apply N.ltb_lt; exact H2].
Qed.
Lemma hold_refused_true_proposed p m : p <> 0 -> p < 3 -> hold_refused p m = true.
Proof.
  intros H1 H2. unfold hold_refused. apply orb_true_iff. left. apply andb_true_iff.
  split; [apply negb_true_iff, N.eqb_neq; exact H1|apply N.ltb_lt; exact H2].
Qed.

(** BGP.negotiate_hold_time *)
Definition negotiate_hold_time (hold : N) (w : world) : world :=
  let w := set_w_hold (N.min (w_hold w) hold) w in
  let w := if hold_refused hold (w_hold w)
           then F_open_message_error c_ERR_MSG_OPEN_UNACCPT_HOLD_TIME [] w else w in
  set_w_ka3 (w_hold w) w.

Section Dispatch.
Variable D : decoders.

(** the result's first component: did parse_buffer consume the message (return True)? *)
Definition open_received (c : nat) (msg : bytes) (w : world) : bool * world :=
  let w := upd_conn c (on_recv bump_open) w in
  match d_open D msg with
  | OpHdrErr sub => (false, F_header_error sub [] w)
  | OpOpenErr sub => (false, F_open_message_error sub [] w)
  | OpExc => (true, w)
  | OpOk asn hold caps =>
      if negb (asn =? cf_remote_as (w_cfg w))
      then (false, F_open_message_error c_ERR_MSG_OPEN_BAD_PEER_AS [] w)
      else
        let w := set_w_capr caps w in
        let w := if cap_has KFourBytesAs caps then upd_conn c (set_c_asn4 true) w else w in
        let w := negotiate_hold_time hold w in
        let w := F_open_received w in
        (true, emit (OHandler HOpenReceived) w)
  end.

Definition update_received (c : nat) (msg : bytes) (w : world) : bool * world :=
  match d_update D (c_asn4 (get_conn c w)) msg with
  | UpExc => (true, w)
  | UpSubErr =>
      let w := emit (OHandler HUpdateError) w in
      let w := upd_conn c (on_recv bump_upd) w in
      (true, F_update_received w)
  | UpOk =>
      let w := emit (OHandler HUpdate) w in
      let w := upd_conn c (on_recv bump_upd) w in
      (true, F_update_received w)
  end.

Definition notification_received (c : nat) (msg : bytes) (w : world) : bool * world :=
  match msg with
  | e :: s :: _ =>
      let w := upd_conn c (on_recv (bump_notif 1)) w in
      let w := emit (OHandler HNotification) w in
      (true, F_notification_received e s w)
  | _ => (true, w)            (* struct.error, swallowed by the catch-all *)
  end.

Definition keepalive_received (c : nat) (msg : bytes) (w : world) : bool * world :=
  let w := upd_conn c (on_recv bump_ka) w in
  let w := emit (OHandler HKeepalive) w in
  match msg with
  | [] => (true, F_keep_alive_received w)
  | _ => (false, F_header_error c_ERR_MSG_HDR_BAD_MSG_LEN [] w)
  end.

Definition route_refresh_received (c : nat) (ty : N) (msg : bytes) (w : world) : bool * world :=
  if Nat.eqb (length msg) 4 then
    let w := upd_conn c (on_recv bump_rr) w in
    (true, emit (OHandler (HRouteRefresh ty)) w)
  else (true, w).

Definition dispatch (c : nat) (ty : N) (msg : bytes) (w : world) : bool * world :=
  if ty =? c_MSG_OPEN then open_received c msg w
  else if ty =? c_MSG_UPDATE then update_received c msg w
  else if ty =? c_MSG_NOTIFICATION then notification_received c msg w
  else if ty =? c_MSG_KEEPALIVE then keepalive_received c msg w
  else if (ty =? c_MSG_ROUTEREFRESH) || (ty =? c_MSG_CISCOROUTEREFRESH) then route_refresh_received c ty msg w
  else (true, F_header_error c_ERR_MSG_HDR_BAD_MSG_TYPE (be 2 ty) w).

(** BGP.dataReceived on connection [c]: the generic framing machine (model/YFraming.v)
    instantiated with the session reaction; the buffer is written back at the end *)
Definition conn_closed_by_us (c : nat) (w : world) : bool := c_disc (get_conn c w).

Definition data_received (c : nat) (data : bytes) (w : world) : world :=
  let buf := c_buf (get_conn c w) ++ data in
  let r := frame_loop world (dispatch c) (fun sub d w => F_header_error sub d w)
                      (conn_closed_by_us c) (S (length buf)) buf w in
  let w := upd_conn c (set_c_buf (snd (fst r))) (fst (fst r)) in
  if snd r then w else emit OFuel w.

(** ---- send paths used by the REST API (through fsm.protocol) ---- *)
Definition api_send_update (ok : bool) (b : bytes) (w : world) : world :=
  if ok then with_proto (fun c w => upd_conn c (on_sent bump_upd) (conn_write c (WRaw b) w)) w else w.
Definition api_send_bin (b : bytes) (w : world) : world :=
  with_proto (fun c w => upd_conn c (on_sent bump_upd) (conn_write c (WRaw b) w)) w.

(** ---- events ---- *)
Inductive event :=
| EBoot
| EConnOk (c : nat) | EConnFail (c : nat) | ELost (c : nat)
| EData (c : nat) (b : bytes)
| EFire (t : tid)
| EAdvance (d3 : N)
| EManualStop | EManualStart
| ESendUpdate (ok : bool) (b : bytes) | ESendBin (b : bytes).

Definition conn_st_is (c : nat) (s : cst) (w : world) : bool :=
  match nth_error (w_conns w) c with Some k => cst_eqb (c_st k) s | None => false end.

Definition dl_ok (d : N) (t : timer) : bool :=
  match t_dl t with Some x => d <=? x | None => true end.
(** no pending deadline is earlier than [d] *)
Definition no_earlier (d : N) (w : world) : bool :=
  dl_ok d (w_tcr w) && dl_ok d (w_th w) && dl_ok d (w_tka w) && dl_ok d (w_tdo w) && dl_ok d (w_tih w).

Definition enabled (w : world) (e : event) : bool :=
  match e with
  | EBoot => true
  | EConnOk c | EConnFail c => conn_st_is c CConnecting w
  | ELost c => conn_st_is c CConnected w
  | EData c _ => conn_st_is c CConnected w && negb (c_closing (get_conn c w))
  | EFire t => match t_dl (get_tm t w) with Some d => no_earlier d w | None => false end
  | EAdvance d3 => no_earlier (w_now w + d3) w
  | EManualStop | EManualStart => true
  | ESendUpdate _ _ | ESendBin _ => st_is w StEstablished
  end.

Definition fire_timer (t : tid) (w : world) : world :=
  match t_dl (get_tm t w) with
  | None => w
  | Some d =>
      let w := set_w_now d w in
      let w := set_tm t (mkTimer None (t_status (get_tm t w))) w in
      match t with
      | TConnectRetry => F_connect_retry_time_event w
      | THold => F_hold_time_event w
      | TKeepAlive => F_keep_alive_time_event w
      | TDelayOpen => F_delay_open_time_event w
      | TIdleHold => F_idle_hold_time_event w
      end
  end.

(** one event; the outputs of the step are collected separately *)
Definition do_event (e : event) (w : world) : world :=
  match e with
  | EBoot => peering_automatic_start false w
  | EConnOk c => conn_made c w
  | EConnFail c => conn_failed c w
  | ELost c => conn_lost c w
  | EData c b => data_received c b w
  | EFire t => fire_timer t w
  | EAdvance d3 => set_w_now (w_now w + d3) w
  | EManualStop => peering_manual_stop w
  | EManualStart => peering_manual_start w
  | ESendUpdate ok b => api_send_update ok b w
  | ESendBin b => api_send_bin b w
  end.

Definition step (w : world) (e : event) : world :=
  if enabled w e then do_event e (set_w_out [] w) else set_w_out [] w.

Definition run (w : world) (es : list event) : world := fold_left step es w.

(** all outputs of a run, oldest first *)
Fixpoint run_outs (w : world) (es : list event) : list out :=
  match es with
  | [] => []
  | e :: r => rev (w_out (step w e)) ++ run_outs (step w e) r
  end.

End Dispatch.
