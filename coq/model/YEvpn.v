(** EVPN NLRI (yabgp/message/attribute/nlri/evpn.py) and the (25, 70) branches of
    MpReachNLRI / MpUnReachNLRI, statement by statement.

    Values as the API sees them:
      - route distinguisher: [rd] of YLabel (EVPN.construct_rd / parse_rd are copies of the MPLSVPN ones);
      - MAC addresses are TEXT ([str], character codes): construct_mac splits the text on '-', wants
        exactly six groups (commit 2751f81), int(g, 16) and struct.pack('!B') of each; the decoder
        prints str(netaddr.EUI(int)) = six upper-case two-digit groups ([show_mac]);
      - IP addresses are (version, integer) as in the other families ([addr] of YMp): construct
        writes netaddr.IPAddress(text).packed (4 or 16 octets), the decoder calls
        netaddr.IPAddress(int) which picks the version from the magnitude ([of_int]);
      - MPLS labels: NLRI.construct_mpls_label_stack / parse_mpls_label_stack ([construct_labels] /
        [parse_labels] of YLabel);
      - an ESI is {"type": t, "value": ...}: [esi].
    Every Python exception is [Exc]. *)
From Coq Require Import ZArith.
From YV Require Import lib.Base lib.Dec gen.Consts model.YMp model.YLabel.
Open Scope N_scope.

(** struct.pack of one unsigned big-endian field of k octets: struct.error out of range *)
Definition pk (k : nat) (n : N) : res bytes := if n <? 256 ^ N.of_nat k then Ok (be k n) else Exc.

(** struct.unpack of one unsigned big-endian field of k octets: struct.error unless exactly k octets *)
Definition unpk (k : nat) (b : bytes) : res N := if Nat.eqb (length b) k then Ok (unbe b) else Exc.

(** ord(b[i:i+1]): TypeError on the empty slice *)
Definition ord1 (b : bytes) : res N := match b with [x] => Ok x | _ => Exc end.

(** * MAC text *)

(** struct.pack('!B', z) for each z, joined *)
Fixpoint pack_octets (zs : list Z) : res bytes :=
  match zs with
  | [] => Ok []
  | z :: r => if ((0 <=? z) && (z <=? 255))%Z
              then bind (pack_octets r) (fun t => Ok (Z.to_N z :: t)) else Exc
  end.

(** EVPN.construct_mac: groups = mac.split('-'); six groups or ValueError;
    b''.join([struct.pack('!B', int(i, 16)) for i in groups]) *)
Definition construct_mac (s : str) : res bytes :=
  if negb (Nat.eqb (length (split_on 45 s)) 6) then Exc
  else match parse_mac_parts s with
       | None => Exc
       | Some zs => pack_octets zs
       end.

(** str(netaddr.EUI(int(binascii.b2a_hex(b), 16))): EUI-48 text up to 2^48-1, EUI-64 text up to
    2^64-1 (never reached: the callers pass at most six octets), AddrFormatError above *)
Definition parse_mac (b : bytes) : res str :=
  bind (int_of_hex b) (fun n =>
  if n <? 2 ^ 48 then Ok (show_mac (be 6 n))
  else if n <? 2 ^ 64 then Ok (show_mac (be 8 n)) else Exc).

(** * Ethernet segment identifier *)
Inductive esi :=
| Esi0 (v : N)                          (* {"type": 0, "value": v} *)
| Esi1 (ce_mac_addr : str) (ce_port_key : N)
| Esi2 (rb_mac_addr : str) (rb_priority : N)
| Esi3 (sys_mac_addr : str) (ld_value : N)
| Esi4 (router_id ld_value : N)
| Esi5 (as_num ld_value : N)
| EsiOther (t : N).                     (* any other type: construct writes nothing, parse gives {} *)

(** len(hex(v).split('0x')[1]) *)
Definition hex_digits (v : N) : N := if v =? 0 then 1 else N.log2 v / 4 + 1.

(** EVPN.construct_esi *)
Definition construct_esi (e : esi) : res bytes :=
  match e with
  | Esi0 v =>
      (* esi_bytes = hex(v) digits, left-padded with '0' to 18 when shorter; a2b_hex raises on an
         odd number of digits; more than 18 digits are written as they are *)
      (* if not 0 <= esi_value < 2 ** 72: raise ValueError (the value is a natural number here) *)
      if 4722366482869645213696 <=? v then Exc else
      let h := hex_digits v in
      let h := if h <? 18 then 18 else h in
      if h mod 2 =? 1 then Exc else Ok ([0] ++ be (N.to_nat (h / 2)) v)
  | Esi1 mac key =>
      bind (construct_mac mac) (fun m => bind (pk 2 key) (fun k => Ok ([1] ++ m ++ k ++ [0])))
  | Esi2 mac prio =>
      bind (construct_mac mac) (fun m => bind (pk 2 prio) (fun k => Ok ([2] ++ m ++ k ++ [0])))
  | Esi3 mac ld =>
      (* 3-octet local discriminator (commit 1a23553): ValueError above 0xffffff *)
      bind (construct_mac mac) (fun m =>
      if 16777215 <? ld then Exc else bind (pk 4 ld) (fun l => Ok ([3] ++ m ++ drop 1 l)))
  | Esi4 rid ld =>
      bind (pk 4 rid) (fun r => bind (pk 4 ld) (fun l => Ok ([4] ++ r ++ l ++ [0])))
  | Esi5 asn ld =>
      bind (pk 4 asn) (fun r => bind (pk 4 ld) (fun l => Ok ([5] ++ r ++ l ++ [0])))
  | EsiOther _ => Ok []
  end.

(** EVPN.parse_esi(esi) *)
Definition parse_esi (e : bytes) : res esi :=
  match e with
  | [] => Exc                                            (* struct.unpack("!B", b'') *)
  | t :: _ =>
      if t =? c_ESI_BGPNLRI_EVPN_TYPE_0 then
        bind (int_of_hex (drop 1 e)) (fun v => Ok (Esi0 v))
      else if t =? c_ESI_BGPNLRI_EVPN_TYPE_1 then
        bind (parse_mac (slice 1 7 e)) (fun m => bind (unpk 2 (slice 7 9 e)) (fun k => Ok (Esi1 m k)))
      else if t =? c_ESI_BGPNLRI_EVPN_TYPE_2 then
        bind (parse_mac (slice 1 7 e)) (fun m => bind (unpk 2 (slice 7 9 e)) (fun k => Ok (Esi2 m k)))
      else if t =? c_ESI_BGPNLRI_EVPN_TYPE_3 then
        bind (parse_mac (slice 1 7 e)) (fun m => bind (int_of_hex (drop 7 e)) (fun l => Ok (Esi3 m l)))
      else if t =? c_ESI_BGPNLRI_EVPN_TYPE_4 then
        bind (int_of_hex (slice 1 5 e)) (fun r => bind (unpk 4 (slice 5 9 e)) (fun l => Ok (Esi4 r l)))
      else if t =? c_ESI_BGPNLRI_EVPN_TYPE_5 then
        bind (int_of_hex (slice 1 5 e)) (fun r => bind (unpk 4 (slice 5 9 e)) (fun l => Ok (Esi5 r l)))
      else Ok (EsiOther t)
  end.

(** * routes *)

(** the 'value' dictionary of one NLRI, by 'type'.  [ip = None]: key absent, None or ''.
    Type 5 (IPRoutePrefix) is outside property C07 and its construct packs the ESI as a float:
    it has no constructor here (the decoder below does handle it) *)
Inductive eroute :=
| EAutoDiscovery (r : rd) (e : esi) (eth_tag : N) (labels : list N)                          (* 1 *)
| EMacIp (r : rd) (e : esi) (eth_tag : N) (mac : str) (ip : option addr) (labels : list N)  (* 2 *)
| EMulticast (r : rd) (eth_tag : N) (ip : option addr)                                       (* 3 *)
| ESegment (r : rd) (e : esi) (ip : option addr)                                             (* 4 *)
| EUnknown (t : N).                       (* a 'type' other than 1..5: EVPN.construct skips it *)

Definition route_type (r : eroute) : N :=
  match r with
  | EAutoDiscovery _ _ _ _ => c_BGPNLRI_EVPN_ETHERNET_AUTO_DISCOVERY
  | EMacIp _ _ _ _ _ _ => c_BGPNLRI_EVPN_MAC_IP_ADVERTISEMENT
  | EMulticast _ _ _ => c_BGPNLRI_EVPN_INCLUSIVE_MULTICAST_ETHERNET_TAG
  | ESegment _ _ _ => c_BGPNLRI_EVPN_ETHERNET_SEGMENT
  | EUnknown t => t
  end.

(** netaddr.IPAddress(text).packed *)
Definition construct_ip (a : addr) : res bytes :=
  match a with V4 n => pk 4 n | V6 n => pk 16 n end.

(** ip_hex = IPAddress(ip).packed; struct.pack('!B', len(ip_hex) * 8) + ip_hex *)
Definition construct_len_ip (a : addr) : res bytes :=
  bind (construct_ip a) (fun ib => bind (pk 1 (len ib * 8)) (fun il => Ok (il ++ ib))).

(** the construct classmethod of the route class *)
Definition construct_route (x : eroute) : res bytes :=
  match x with
  | EAutoDiscovery r e tag labels =>
      bind (construct_rd r) (fun b1 =>
      bind (construct_esi e) (fun b2 =>
      bind (pk 4 tag) (fun b3 =>
      bind (construct_labels labels) (fun b4 => Ok (b1 ++ b2 ++ b3 ++ b4)))))
  | EMacIp r e tag mac ip labels =>
      bind (construct_rd r) (fun b1 =>
      bind (construct_esi e) (fun b2 =>
      bind (pk 4 tag) (fun b3 =>
      bind (construct_mac mac) (fun m =>
      bind (pk 1 (len m * 8)) (fun ml =>
      bind (match ip with Some a => construct_len_ip a | None => Ok [0] end) (fun b5 =>
      (* if value.get('label'): *)
      bind (match labels with [] => Ok [] | _ => construct_labels labels end) (fun b6 =>
      Ok (b1 ++ b2 ++ b3 ++ ml ++ m ++ b5 ++ b6))))))))
  | EMulticast r tag ip =>
      bind (construct_rd r) (fun b1 =>
      bind (pk 4 tag) (fun b3 =>
      (* if not value.get('ip'): raise ValueError (commit 4aa533e) *)
      match ip with
      | None => Exc
      | Some a => bind (construct_len_ip a) (fun b5 => Ok (b1 ++ b3 ++ b5))
      end))
  | ESegment r e ip =>
      bind (construct_rd r) (fun b1 =>
      bind (construct_esi e) (fun b2 =>
      match ip with
      | None => Exc
      | Some a => bind (construct_len_ip a) (fun b5 => Ok (b1 ++ b2 ++ b5))
      end))
  | EUnknown _ => Ok []
  end.

(** EVPN.construct(nlri_list): if nlri_hex: struct.pack('!2B', type, len(nlri_hex)) + nlri_hex *)
Fixpoint construct_evpn (rs : list eroute) : res bytes :=
  match rs with
  | [] => Ok []
  | x :: t =>
      bind (construct_route x) (fun b =>
      bind (match b with
            | [] => Ok []
            | _ => bind (pk 1 (route_type x)) (fun ty => bind (pk 1 (len b)) (fun l => Ok (ty ++ l ++ b)))
            end) (fun hb =>
      bind (construct_evpn t) (fun bt => Ok (hb ++ bt))))
  end.

(** a decoded route; the constructor is the 'type' *)
Inductive proute :=
| PAutoDiscovery (r : rdv) (e : esi) (eth_tag : N) (labels : list N)
| PMacIp (r : rdv) (e : esi) (eth_tag : N) (mac : str) (ip : option addr) (labels : list N)
| PMulticast (r : rdv) (eth_tag : N) (ip : option addr)
| PSegment (r : rdv) (e : esi) (ip : option addr)
| PPrefix (r : rdv) (e : esi) (eth_tag plen : N) (prefix gateway : addr) (labels : list N).

(** ip_addr_len = ord(value[o:o+1]); if ip_addr_len != 0: route['ip'] =
    str(IPAddress(int(b2a_hex(value[o+1 : o+1 + ip_addr_len // 8]), 16))) *)
Definition parse_len_ip (o : nat) (v : bytes) : res (N * option addr) :=
  bind (ord1 (slice o (o + 1) v)) (fun l =>
  if l =? 0 then Ok (l, None)
  else bind (addr_of_bytes (slice (o + 1) (o + 1 + N.to_nat (l / 8)) v)) (fun a => Ok (l, Some a))).

(** EthernetAutoDiscovery.parse *)
Definition parse_autodiscovery (v : bytes) : res proute :=
  bind (parse_rd (take 8 v)) (fun r =>
  bind (parse_esi (slice 8 18 v)) (fun e =>
  bind (unpk 4 (slice 18 22 v)) (fun tag =>
  Ok (PAutoDiscovery r e tag (parse_labels (drop 22 v)))))).

(** MacIPAdvertisment.parse: the MAC length octet (offset 22) is skipped unread *)
Definition parse_macip (v : bytes) : res proute :=
  bind (parse_rd (take 8 v)) (fun r =>
  bind (parse_esi (slice 8 18 v)) (fun e =>
  bind (unpk 4 (slice 18 22 v)) (fun tag =>
  bind (parse_mac (slice 23 29 v)) (fun mac =>
  bind (parse_len_ip 29 v) (fun '(l, ip) =>
  (* offset += 1; if ip_addr_len != 0: offset += int(ip_addr_len / 8) *)
  let off := if l =? 0 then 30%nat else (30 + N.to_nat (l / 8))%nat in
  Ok (PMacIp r e tag mac ip (parse_labels (drop off v)))))))).

(** InclusiveMulticastEthernetTag.parse *)
Definition parse_multicast (v : bytes) : res proute :=
  bind (parse_rd (take 8 v)) (fun r =>
  bind (unpk 4 (slice 8 12 v)) (fun tag =>
  bind (parse_len_ip 12 v) (fun '(_, ip) => Ok (PMulticast r tag ip)))).

(** EthernetSegment.parse *)
Definition parse_segment (v : bytes) : res proute :=
  bind (parse_rd (take 8 v)) (fun r =>
  bind (parse_esi (slice 8 18 v)) (fun e =>
  bind (parse_len_ip 18 v) (fun '(_, ip) => Ok (PSegment r e ip)))).

(** IPRoutePrefix.parse: the address width comes from the number of octets left (11 / 35);
    otherwise [offset] keeps its value 23 *)
Definition parse_prefix (v : bytes) : res proute :=
  bind (parse_rd (take 8 v)) (fun r =>
  bind (parse_esi (slice 8 18 v)) (fun e =>
  bind (unpk 4 (slice 18 22 v)) (fun tag =>
  bind (ord1 (slice 22 23 v)) (fun plen =>
  let v1 := drop 23 v in
  let off := if Nat.eqb (length v1) 11 then 4%nat else if Nat.eqb (length v1) 35 then 16%nat else 23%nat in
  bind (addr_of_bytes (take off v1)) (fun p =>
  let v2 := drop off v1 in
  bind (addr_of_bytes (take off v2)) (fun g =>
  Ok (PPrefix r e tag plen p g (parse_labels (drop off v2))))))))).

(** the dispatch of EVPN.parse: [None] = route stays {} and is not appended *)
Definition parse_route (t : N) (v : bytes) : res (option proute) :=
  if t =? c_BGPNLRI_EVPN_ETHERNET_AUTO_DISCOVERY then bind (parse_autodiscovery v) (fun p => Ok (Some p))
  else if t =? c_BGPNLRI_EVPN_MAC_IP_ADVERTISEMENT then bind (parse_macip v) (fun p => Ok (Some p))
  else if t =? c_BGPNLRI_EVPN_INCLUSIVE_MULTICAST_ETHERNET_TAG then bind (parse_multicast v) (fun p => Ok (Some p))
  else if t =? c_BGPNLRI_EVPN_ETHERNET_SEGMENT then bind (parse_segment v) (fun p => Ok (Some p))
  else if t =? c_BGPNLRI_EVPN_IP_ROUTE_PREFIX then bind (parse_prefix v) (fun p => Ok (Some p))
  else Ok None.

(** EVPN.parse(nlri_data).  One iteration consumes at least two octets. *)
Fixpoint parse_evpn (fuel : nat) (d : bytes) : res (list proute) :=
  match fuel with
  | O => Fuel
  | S f =>
      match d with
      | [] => Ok []
      | [_] => Exc                                       (* ord(nlri_data[1:2]) on b'' *)
      | t :: l :: _ =>
          let n := (N.to_nat l + 2)%nat in
          bind (parse_route t (slice 2 n d)) (fun ro =>
          bind (parse_evpn f (drop n d)) (fun rest =>
          Ok (match ro with Some p => p :: rest | None => rest end)))
      end
  end.
Definition parse_evpn_all (d : bytes) : res (list proute) := parse_evpn (S (length d)) d.

(** * MP_REACH_NLRI / MP_UNREACH_NLRI (25, 70) *)

(** MpReachNLRI.construct: nexthop_bin = IPAddress(nexthop).packed *)
Definition reachevpn_construct (nh : addr) (rs : list eroute) : res bytes :=
  bind (construct_ip nh) (fun nhb =>
  bind (construct_evpn rs) (fun nlri =>
  reach_attr AFI_L2VPN SAFI_EVPN (len nhb) nhb nlri)).

Definition reachevpn_result := (addr * list proute)%type.

(** MpReachNLRI.parse *)
Definition reachevpn_parse (v : bytes) : res reachevpn_result :=
  bind (reach_split v) (fun '(afi, safi, nh, nlri) =>
  if (afi =? AFI_L2VPN) && (safi =? SAFI_EVPN) then
    bind (addr_of_bytes nh) (fun a =>
    bind (parse_evpn_all nlri) (fun t => Ok (a, t)))
  else Exc).

(** MpUnReachNLRI.construct: None when EVPN.construct returned no octets *)
Definition unreachevpn_construct (rs : list eroute) : res (option bytes) :=
  bind (construct_evpn rs) (fun nlri =>
  match nlri with
  | [] => Ok None
  | _ => bind (unreach_attr AFI_L2VPN SAFI_EVPN nlri) (fun b => Ok (Some b))
  end).

Definition unreachevpn_parse (v : bytes) : res (list proute) :=
  bind (unreach_split v) (fun '(afi, safi, nlri) =>
  if (afi =? AFI_L2VPN) && (safi =? SAFI_EVPN) then parse_evpn_all nlri else Exc).

(** * rendering for the correspondence check *)
Definition sx_esi (e : esi) : sx :=
  match e with
  | Esi0 v => SL [SN 0; SN v]
  | Esi1 m k => SL [SN 1; SB m; SN k]
  | Esi2 m k => SL [SN 2; SB m; SN k]
  | Esi3 m l => SL [SN 3; SB m; SN l]
  | Esi4 r l => SL [SN 4; SN r; SN l]
  | Esi5 r l => SL [SN 5; SN r; SN l]
  | EsiOther t => SL [SN t]
  end.
Definition sx_proute (p : proute) : sx :=
  match p with
  | PAutoDiscovery r e tag ls => SL [SN 1; sx_rdv r; sx_esi e; SN tag; sx_labels ls]
  | PMacIp r e tag mac ip ls => SL [SN 2; sx_rdv r; sx_esi e; SN tag; SB mac; sx_opt sx_addr ip; sx_labels ls]
  | PMulticast r tag ip => SL [SN 3; sx_rdv r; SN tag; sx_opt sx_addr ip]
  | PSegment r e ip => SL [SN 4; sx_rdv r; sx_esi e; sx_opt sx_addr ip]
  | PPrefix r e tag plen p g ls => SL [SN 5; sx_rdv r; sx_esi e; SN tag; SN plen; sx_addr p; sx_addr g; sx_labels ls]
  end.
Definition sx_reachevpn (v : reachevpn_result) : sx :=
  let '(a, t) := v in SL [sx_addr a; sx_list sx_proute t].
