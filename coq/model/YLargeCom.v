(** yabgp/message/attribute/largecommunity.py: LargeCommunity.parse / construct.

    Modelled with the proposed repair build/proposed/c17-largecommunity-unsigned.diff applied
    (struct format '!%dI' instead of the signed '!%di', which renders fields >= 2^31 as negative
    numbers that construct then refuses). *)
From Coq Require Import String ZArith.
From YV Require Import lib.Base lib.Dec gen.Consts model.YExtCom.
Open Scope N_scope.

Definition large_text (g : bytes) : str :=
  colon (show_dec (unbe (slice 0 4 g))) (colon (show_dec (unbe (slice 4 8 g))) (show_dec (unbe (slice 8 12 g)))).

Fixpoint large_parse_groups (fuel : nat) (b : bytes) : list str :=
  match fuel, b with
  | S fuel', _ :: _ => large_text (take 12 b) :: large_parse_groups fuel' (drop 12 b)
  | _, _ => []
  end.

(** any length that is not a multiple of 12 ends in struct.error / IndexError ->
    UpdateMessageError(ATTR_LEN) *)
Definition large_parse (b : bytes) : pres (list str) :=
  if (len b) mod 12 =? 0 then Ok (large_parse_groups (length b) b) else Err c_ERR_MSG_UPDATE_ATTR_LEN.

(** every ':'-separated part is packed as one 32-bit field (however many parts there are; the
    total is checked in large_construct) *)
Definition large_item (t : str) : option bytes :=
  l <- map_opt (fun p => obind (py_int p) (pack 4)) (split_on 58 t) ;; Some (concat l).

Fixpoint large_items (l : list str) : option bytes :=
  match l with [] => Some [] | t :: r => a <- large_item t ;; b <- large_items r ;; Some (a ++ b) end.

(** LargeCommunity.construct(value): the octets of all texts together must be a non-zero multiple
    of 12 (RFC 8092), else UpdateMessageError(ATTR_LEN) like any conversion failure *)
Definition large_construct (l : list str) : pres bytes :=
  match large_items l with
  | None => Err c_ERR_MSG_UPDATE_ATTR_LEN
  | Some b =>
      if (len b =? 0) || negb ((len b) mod 12 =? 0) then Err c_ERR_MSG_UPDATE_ATTR_LEN
      else match packn 1 (len b) with
           | Some lb => Ok (c_ATTR_LargeCommunity_FLAG :: c_ATTR_LargeCommunity_ID :: lb ++ b)
           | None => Exc
           end
  end.
