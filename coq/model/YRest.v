(** Model of yabgp's REST surface (yabgp/api/app.py, v1.py, utils.py) on top of the session
    model: the route table, the decorators (auth.login_required, log_request,
    makesure_peer_establish) interpreted in the order they are applied, and every view body
    reduced to its effect on the session world (YSession.v) and a response class.

    Tied to the code by (a) [gen/RestInventory.v] (regenerated from the live Flask app on every
    run; RestProofs.inventory_matches) and (b) the exhaustive sweep of harness/props/c16.py which
    evaluates [rest_case_sx] inside Coq against the real application behind Flask's test client.

    Flask itself (routing, 405, automatic OPTIONS/HEAD, request.json raising 415 on a POST without
    a JSON body) and Flask-HTTPAuth's Basic scheme are modelled as they behave in the installed
    versions; they are trusted, not verified. *)
From Coq Require Import String.
From YV Require Import lib.Base model.YWorld model.YProto gen.Consts gen.FsmGen model.YSession
  model.YSessionSx gen.RestInventory.

(** ---- the route table the model knows (must equal gen_routes) ---- *)
Definition modelled_routes : list route := [
  mkRoute "/" "index" [MGET] [];
  mkRoute "/static/<path:filename>" "static" [MGET] [];
  mkRoute "/v1/" "v1.root" [MGET] [DLog];
  mkRoute "/v1/peer/<peer_ip>/adj-rib-in" "v1.search_adj_rib_in" [MPOST] [DAuth; DLog; DGate];
  mkRoute "/v1/peer/<peer_ip>/adj-rib-out" "v1.search_adj_rib_out" [MPOST] [DAuth; DLog; DGate];
  mkRoute "/v1/peer/<peer_ip>/json_to_bin" "v1.json_to_bin" [MPOST] [DAuth; DLog; DGate];
  mkRoute "/v1/peer/<peer_ip>/manual-start" "v1.manual_start" [MGET] [DAuth; DLog];
  mkRoute "/v1/peer/<peer_ip>/manual-stop" "v1.manual_stop" [MGET] [DAuth; DLog];
  mkRoute "/v1/peer/<peer_ip>/send/bin_update" "v1.send_bin_update" [MPOST] [DAuth; DLog; DGate];
  mkRoute "/v1/peer/<peer_ip>/send/route-refresh" "v1.send_route_refresh" [MPOST] [DAuth; DLog; DGate];
  mkRoute "/v1/peer/<peer_ip>/send/update" "v1.send_update_message" [MPOST] [DAuth; DLog; DGate];
  mkRoute "/v1/peer/<peer_ip>/state" "v1.peer" [MGET] [DAuth; DLog];
  mkRoute "/v1/peer/<peer_ip>/statistic" "v1.get_peer_statistic" [MGET] [DAuth; DLog];
  mkRoute "/v1/peer/<peer_ip>/version/<action>" "v1.get_peer_version" [MGET] [DAuth; DLog]
]%string.
Definition modelled_hooks : list string := [].

(** ---- views ---- *)
Inductive vid :=
| VIndex | VStatic | VRoot
| VState | VVersion | VStatistic
| VRouteRefresh | VSendUpdate | VSendBin
| VManualStart | VManualStop
| VRibIn | VRibOut | VJsonToBin.

Definition view_table : list (string * vid) := [
  ("index", VIndex); ("static", VStatic); ("v1.root", VRoot);
  ("v1.peer", VState); ("v1.get_peer_version", VVersion); ("v1.get_peer_statistic", VStatistic);
  ("v1.send_route_refresh", VRouteRefresh); ("v1.send_update_message", VSendUpdate);
  ("v1.send_bin_update", VSendBin);
  ("v1.manual_start", VManualStart); ("v1.manual_stop", VManualStop);
  ("v1.search_adj_rib_in", VRibIn); ("v1.search_adj_rib_out", VRibOut); ("v1.json_to_bin", VJsonToBin)
]%string.
Fixpoint assoc_str {A} (k : string) (l : list (string * A)) : option A :=
  match l with
  | [] => None
  | (k', v) :: r => if String.eqb k' k then Some v else assoc_str k r
  end.
Definition view_of (ep : string) : option vid := assoc_str ep view_table.

(** ---- classification ---- *)
Inductive effect :=
| EfNone            (* no effect on the session world *)
| EfBookkeeping     (* only process-local bookkeeping outside the session world (keep-alive probe time) *)
| EfSendUpdate      (* ESendUpdate (+ send-version bookkeeping) *)
| EfSendBin         (* ESendBin *)
| EfRouteRefresh    (* a ROUTE-REFRESH on the tracked connection *)
| EfManualStop      (* EManualStop *)
| EfManualStart.    (* EManualStart *)

(** does the view reveal or change peer state? *)
Definition peer_state_view (v : vid) : bool :=
  match v with VIndex | VStatic | VRoot => false | _ => true end.
Definition effect_of_view (v : vid) : effect :=
  match v with
  | VRoot => EfBookkeeping
  | VRouteRefresh => EfRouteRefresh | VSendUpdate => EfSendUpdate | VSendBin => EfSendBin
  | VManualStart => EfManualStart | VManualStop => EfManualStop
  | VIndex | VStatic | VState | VVersion | VStatistic | VRibIn | VRibOut | VJsonToBin => EfNone
  end.
Definition sends (e : effect) : bool :=
  match e with EfSendUpdate | EfSendBin | EfRouteRefresh => true | _ => false end.

Definition peer_state_route (r : route) : bool :=
  match view_of (r_endpoint r) with Some v => peer_state_view v | None => true end.
Definition effect_of (r : route) : option effect := option_map effect_of_view (view_of (r_endpoint r)).
Definition under_peer (r : route) : bool := String.prefix "/v1/peer/" (r_rule r).

(** authentication is the OUTERMOST decorator *)
Definition requires_auth (r : route) : bool :=
  match r_decos r with DAuth :: _ => true | _ => false end.
Definition is_gate (d : deco) : bool := match d with DGate => true | _ => false end.
Definition gated (r : route) : bool := existsb is_gate (r_decos r).

(** ---- requests ---- *)
Definition creds := option (string * string).      (* Basic credentials, if well-formed ones were sent *)

(** get_pw + HTTPBasicAuth.authenticate: the stored password of the configured user, compared
    with the client's *)
Definition auth (conf : string * string) (c : creds) : bool :=
  match c with
  | None => false
  | Some (u, p) => String.eqb u (fst conf) && String.eqb p (snd conf)
  end.

(** UPDATE request after JSON decoding (attribute keys made integers, the extended-community
    text re-combined into yabgp's numeric form): attribute list in the order of the request;
    integer values are kept, every other value / prefix is an opaque token *)
Inductive aval := AVNum (n : N) | AVTok (t : N).
Record umsg : Type := mkU { u_attr : list (N * aval); u_nlri : list N; u_withdraw : list N }.

Inductive payload :=
| PNone                               (* no JSON body *)
| PJunk                               (* a JSON object without any of the keys the view looks at *)
| PAction (known : bool)              (* version/<action>: "send"/"received", or anything else *)
| PUpdate (m : umsg)                  (* send/update, json_to_bin *)
| PRefresh (afi safi res : N)         (* send/route-refresh with integer afi, safi (, res) *)
| PBin (b : bytes)                    (* send/bin_update with valid hex text *)
| PRib (wf : bool)                    (* adj-rib-in/out: "data" is a list of strings and afi_safi is ipv4 *)
| PUpdateCap (m : umsg).              (* like PUpdate, but the extended-community text of the request is one
                                         whose re-combination reads the peer's four_bytes_as capability first
                                         (route-origin:<as>:<n>, route-target with an AS above 65535) *)

Record request : Type := mkReq {
  q_route : route; q_meth : meth; q_creds : creds; q_payload : payload
}.

Inductive resp :=
| R401          (* 401 *)
| RNotEstab     (* 200 {"status": false, "code": "Please check the peer's state"} *)
| ROk           (* 200, no "status": false *)
| RFail         (* 200 {"status": false, ...} for another reason *)
| R405          (* method not allowed *)
| RErr          (* any other HTTP error (400, 404, 415, 500) *)
| ROptions.     (* Flask's automatic OPTIONS answer *)

Definition meth_eqb (a b : meth) : bool :=
  match a, b with
  | MGET, MGET | MPOST, MPOST | MPUT, MPUT | MDELETE, MDELETE | MPATCH, MPATCH
  | MHEAD, MHEAD | MOPTIONS, MOPTIONS => true
  | _, _ => false
  end.
(** werkzeug: HEAD is accepted wherever GET is *)
Definition method_allowed (m : meth) (r : route) : bool :=
  existsb (meth_eqb m) (r_methods r) ||
  (meth_eqb m MHEAD && existsb (meth_eqb MGET) (r_methods r)).

(** ---- the iBGP default LOCAL_PREF (v1.py: `if attr: ... if 5 not in attr and remote_as ==
    local_as: attr[5] = 100`): only when the request has attributes at all *)
Definition has_attr (t : N) (l : list (N * aval)) : bool := existsb (fun p => fst p =? t) l.
Definition nonempty {A} (l : list A) : bool := match l with [] => false | _ => true end.
Definition default_local_pref (ibgp : bool) (m : umsg) : umsg :=
  if nonempty (u_attr m) && negb (has_attr 5 (u_attr m)) && ibgp
  then mkU (u_attr m ++ [(5, AVNum 100)]) (u_nlri m) (u_withdraw m)
  else m.
Definition ibgp (w : world) : bool := cf_remote_as (w_cfg w) =? cf_local_as (w_cfg w).

(** v1.py: `if (attr and nlri) or withdraw: send  elif 14 in attr or 15 in attr: send  else: refuse` *)
Definition sendable (m : umsg) : bool :=
  (nonempty (u_attr m) && nonempty (u_nlri m)) || nonempty (u_withdraw m)
  || has_attr 14 (u_attr m) || has_attr 15 (u_attr m).

(** the world with the output buffer of the previous step cleared: "no effect" *)
Definition quiet (w : world) : world := set_w_out [] w.

Section Rest.
Variable conf : string * string.            (* CONF.rest.username / password *)
Variable D : decoders.
(** Update().construct(msg, asn4, addpath): the bytes, or None when it raises or returns None *)
Variable construct : bool -> bool -> umsg -> option bytes.

Definition wire_of (w : world) (m : umsg) : option bytes :=
  match w_proto w with
  | Some c => construct (c_asn4 (get_conn c w)) (c_ap_send (get_conn c w)) m
  | None => None
  end.

(** BGP.send_route_refresh on the tracked connection *)
Definition rr_type (w : world) : option N :=
  if cap_has KCiscoRouteRefresh (w_capr w) then Some c_MSG_CISCOROUTEREFRESH
  else if cap_has KRouteRefresh (w_capr w) then Some c_MSG_ROUTEREFRESH
  else None.
Definition rr_family_ok (afi safi : N) (w : world) : bool :=
  match cap_get KAfiSafi (w_capr w) with
  | Some (CVAfiSafi l) => existsb (fun p => (fst p =? afi) && (snd p =? safi)) l
  | _ => false
  end.
Definition view_route_refresh (p : payload) (w : world) : world * resp :=
  match p with
  | PRefresh afi safi res =>
      match rr_type w, w_proto w with
      | Some ty, Some c =>
          if rr_family_ok afi safi w && (afi <? 65536) && (safi <? 256) && (res <? 256)
          then (upd_conn c (on_sent bump_rr) (conn_write c (WRouteRefresh ty afi res safi) w), ROk)
          else (w, RFail)
      | _, _ => (w, RFail)
      end
  | _ => (w, RFail)
  end.

(** v1.py, extended-community re-combination: `if remote: four_bytes_as = remote['four_bytes_as'] else:
    return {'status': False, ...}` - an empty remote capability dict is refused, a non-empty one without
    the key is a KeyError (500) *)
Definition cap_lookup (w : world) : option resp :=
  match w_capr w with
  | [] => Some RFail
  | _ => if cap_has KFourBytesAs (w_capr w) then None else Some RErr
  end.

Definition send_update_core (m : umsg) (w : world) : world * resp :=
  let m' := default_local_pref (ibgp w) m in
  if sendable m' then
    match w_proto w with
    | None => (w, RErr)
    | Some _ =>
        match wire_of w m' with
        | Some b => (do_event D (ESendUpdate true b) w, ROk)
        | None => (do_event D (ESendUpdate false []) w, RFail)
        end
    end
  else (w, RFail).

Definition view_send_update (p : payload) (w : world) : world * resp :=
  match p with
  | PUpdate m => send_update_core m w
  | PUpdateCap m =>
      match cap_lookup w with
      | Some r => (w, r)
      | None => send_update_core m w
      end
  | _ => (w, RFail)
  end.

Definition json_to_bin_core (m : umsg) (w : world) : world * resp :=
  let m' := default_local_pref (ibgp w) m in
  if sendable m' then
    match wire_of w m' with Some _ => (w, ROk) | None => (w, RErr) end
  else (w, RFail).

Definition view_json_to_bin (p : payload) (w : world) : world * resp :=
  match p with
  | PUpdate m => json_to_bin_core m w
  | PUpdateCap m =>
      match cap_lookup w with
      | Some r => (w, r)
      | None => json_to_bin_core m w
      end
  | _ => (w, RFail)
  end.

Definition view_send_bin (p : payload) (w : world) : world * resp :=
  match p with
  | PBin (x :: b) =>
      match w_proto w with
      | Some _ => (do_event D (ESendBin (x :: b)) w, ROk)
      | None => (w, RFail)
      end
  | _ => (w, RFail)
  end.

Definition resp_manual_start (w : world) : resp :=
  if st_is w StEstablished then RFail
  else if st_is w StIdle then (if fst (fsm_manual_start false w) then ROk else RFail)
  else RFail.

Definition needs_proto (w : world) (ok : resp) : resp :=
  match w_proto w with Some _ => ok | None => RErr end.

Definition view (v : vid) (p : payload) (w : world) : world * resp :=
  match v with
  | VIndex | VRoot | VState => (w, ROk)
  | VStatic => (w, RErr)                        (* no static folder in the tree: 404 *)
  | VVersion =>
      match p with
      | PAction true => (w, needs_proto w ROk)
      | _ => (w, RFail)
      end
  | VStatistic => (w, needs_proto w ROk)
  | VRouteRefresh => view_route_refresh p w
  | VSendUpdate => view_send_update p w
  | VSendBin => view_send_bin p w
  | VManualStart => (do_event D EManualStart w, resp_manual_start w)
  | VManualStop => (do_event D EManualStop w, if fst (F_manual_stop w) then ROk else RFail)
  | VRibIn | VRibOut =>
      match p, w_proto w with
      | PRib true, Some _ => (w, ROk)
      | _, _ => (w, RFail)
      end
  | VJsonToBin => view_json_to_bin p w
  end.

Definition is_pnone (p : payload) : bool := match p with PNone => true | _ => false end.

(** the decorators, outermost first *)
Fixpoint run_decos (ds : list deco) (q : request) (k : world -> world * resp) (w : world) : world * resp :=
  match ds with
  | [] => k w
  | DAuth :: r => if auth conf (q_creds q) then run_decos r q k w else (w, R401)
  | DLog :: r =>       (* log_request reads request.json on POST: 415/400 without a JSON body *)
      if meth_eqb (q_meth q) MPOST && is_pnone (q_payload q) then (w, RErr) else run_decos r q k w
  | DGate :: r => if st_is w StEstablished then run_decos r q k w else (w, RNotEstab)
  end.

Definition run_view (r : route) (p : payload) (w : world) : world * resp :=
  match view_of (r_endpoint r) with
  | Some v => view v p w
  | None => (w, RErr)
  end.

(** one HTTP request against the application *)
Definition rest_step (w : world) (q : request) : world * resp :=
  let w0 := quiet w in
  let r := q_route q in
  match q_meth q with
  | MOPTIONS => (w0, ROptions)
  | m =>
      if method_allowed m r
      then run_decos (r_decos r) q (run_view r (q_payload q)) w0
      else (w0, R405)
  end.

(** ---- rendering for the correspondence check ---- *)
Definition resp_num (r : resp) : N :=
  match r with R401 => 0 | RNotEstab => 1 | ROk => 2 | RFail => 3 | R405 => 4 | RErr => 5 | ROptions => 6 end.
(** a HEAD answer has no body: a 200 is all the client (and the check) sees *)
Definition resp_num_head (r : resp) : N :=
  match r with ROk | RFail | RNotEstab => 7 | _ => resp_num r end.
Definition rest_case_sx (w : world) (q : request) : sx :=
  let r := rest_step w q in
  SL [SN ((if meth_eqb (q_meth q) MHEAD then resp_num_head else resp_num) (snd r));
      SL (map sx_out (rev (w_out (fst r)))); sx_world (fst r)].

End Rest.

(** the route of a rule text ("" endpoint, i.e. no view, when the model does not know the rule) *)
Definition route_by_rule (rule : string) : route :=
  match find (fun r => String.eqb (r_rule r) rule) modelled_routes with
  | Some r => r
  | None => mkRoute rule "" [MGET; MPOST; MPUT; MDELETE; MPATCH] []
  end.

(** finite construct table filled by the harness from the real Update().construct *)
Definition aval_eqb (a b : aval) : bool :=
  match a, b with
  | AVNum x, AVNum y | AVTok x, AVTok y => x =? y
  | _, _ => false
  end.
Fixpoint list_eqb {A} (e : A -> A -> bool) (a b : list A) : bool :=
  match a, b with
  | [], [] => true
  | x :: a', y :: b' => e x y && list_eqb e a' b'
  | _, _ => false
  end.
Definition umsg_eqb (a b : umsg) : bool :=
  list_eqb (fun p q => (fst p =? fst q) && aval_eqb (snd p) (snd q)) (u_attr a) (u_attr b)
  && list_eqb N.eqb (u_nlri a) (u_nlri b) && list_eqb N.eqb (u_withdraw a) (u_withdraw b).
Fixpoint tbl_construct (t : list (bool * bool * umsg * option bytes)) (asn4 ap : bool) (m : umsg)
  : option bytes :=
  match t with
  | [] => None
  | (a, p, k, v) :: r =>
      if Bool.eqb a asn4 && Bool.eqb p ap && umsg_eqb k m then v else tbl_construct r asn4 ap m
  end.
