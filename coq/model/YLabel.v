(** MPLS label stacks and route distinguishers (yabgp/message/attribute/nlri/__init__.py,
    mpls_vpn.py: construct_mpls_label_stack / parse_mpls_label_stack / construct_rd / parse_rd;
    evpn.py has identical copies of the RD functions). *)
From YV Require Import lib.Base gen.Consts model.YMp.

(** struct.pack('!L', x)[1:] : raises at 2^32, otherwise the low 24 bits *)
Definition pack24 (x : N) : res bytes := if 2 ^ 32 <=? x then Exc else Ok (be 3 x).

(** construct_mpls_label_stack: labels[-1] raises on the empty list; every label but the last
    is label << 4; the last is (label << 4 | 1), except that a last label 0 is written as
    00 00 00 - without the bottom-of-stack bit *)
Fixpoint construct_labels (ls : list N) : res bytes :=
  match ls with
  | [] => Exc
  | [l] => if l =? 0 then Ok [0; 0; 0] else pack24 (l * 16 + 1)
  | l :: r => bind (pack24 (l * 16)) (fun b => bind (construct_labels r) (fun br => Ok (b ++ br)))
  end.

(** parse_mpls_label_stack: reads 3 octets at a time until the bottom-of-stack bit or fewer
    than 3 octets are left; returns only the labels *)
Fixpoint parse_labels (d : bytes) : list N :=
  match d with
  | a :: b :: c :: r =>
      let v := a * 65536 + b * 256 + c in
      (v / 16) :: (if v mod 2 =? 1 then [] else parse_labels r)
  | _ => []
  end.

Definition WITHDRAW_LABEL_HEX : bytes := [128; 0; 0].   (* MPLSVPN.WITHDARW_LABEL_HEX *)
Definition WITHDRAW_LABEL : N := 524288.                  (* MPLSVPN.WITHDARW_LABEL *)

(** a route distinguisher as the API sees it: the text "asn:an" or "a.b.c.d:an" *)
Inductive rd := RdAs (asn an : N) | RdIp (ip an : N).

(** construct_rd *)
Definition construct_rd (r : rd) : res bytes :=
  match r with
  | RdIp ip an =>
      if 65535 <? an then Exc
      else Ok (be 2 c_BGP_ROUTE_DISTINGUISHER_TYPE_1 ++ be 4 ip ++ be 2 an)
  | RdAs asn an =>
      if asn <=? 65535 then
        if 2 ^ 32 <=? an then Exc
        else Ok (be 2 c_BGP_ROUTE_DISTINGUISHER_TYPE_0 ++ be 2 asn ++ be 4 an)
      else if (2 ^ 32 <=? asn) || (65535 <? an) then Exc
      else Ok (be 2 c_BGP_ROUTE_DISTINGUISHER_TYPE_2 ++ be 4 asn ++ be 2 an)
  end.

(** parse_rd result: the two text shapes, or str(bytes) for an unknown type *)
Inductive rdv := PRd (r : rd) | POther.

(** parse_rd(data): unpack('!H', data[0:2]); rd_value = data[2:8]; the unpack calls need the
    exact number of octets *)
Definition parse_rd (d : bytes) : res rdv :=
  if negb (Nat.eqb (length (take 2 d)) 2) then Exc else
  let t := unbe (take 2 d) in
  let v := slice 2 8 d in
  if t =? c_BGP_ROUTE_DISTINGUISHER_TYPE_0 then
    if Nat.eqb (length v) 6 then Ok (PRd (RdAs (unbe (take 2 v)) (unbe (drop 2 v)))) else Exc
  else if t =? c_BGP_ROUTE_DISTINGUISHER_TYPE_1 then
    if Nat.eqb (length v) 6 then Ok (PRd (RdIp (unbe (take 4 v)) (unbe (drop 4 v)))) else Exc
  else if t =? c_BGP_ROUTE_DISTINGUISHER_TYPE_2 then
    if Nat.eqb (length v) 6 then Ok (PRd (RdAs (unbe (take 4 v)) (unbe (drop 4 v)))) else Exc
  else Ok POther.

(** rendering *)
Definition sx_rd (r : rd) : sx :=
  match r with RdAs a b => SL [SN 0; SN a; SN b] | RdIp a b => SL [SN 1; SN a; SN b] end.
Definition sx_rdv (r : rdv) : sx := match r with PRd r => sx_rd r | POther => SL [SN 3] end.
Definition sx_labels (l : list N) : sx := SL (map SN l).
