(** yabgp/message/attribute/pmsitunnel.py: PMSITunnel.construct (construct_pmsi_label,
    construct_tunnel_type) and PMSITunnel.parse (parse_mpls_label / parse_vni, parse_tunnel_id).

    Inputs are what the REST API hands over: 'leaf_info_required', 'tunnel_type' and the first
    'mpls_label' as Python integers (any sign, any size: [Z]); 'tunnel_id' as the address netaddr
    reads from the text (IPv6? , value) - netaddr itself is not modelled, the harness converts the
    text with it; the [evpn_overlay] argument is False / a dictionary {evpn, encap_ec, encap_value}.
    [None] = a Python exception (struct.error, TypeError, AddrFormatError): construction fails. *)
From Coq Require Import ZArith.
From YV Require Import lib.Base gen.Consts model.YExtCom.
Open Scope N_scope.

Inductive overlay := OvOff | OvOn (both : bool) (encap : N).

Record pmsi := mk_pmsi { p_leaf : Z; p_type : Z; p_label : Z; p_id6 : bool; p_id : N }.

(** the 3-octet label field: "struct.pack('!L', x)[1:]" - the high octet of the 32-bit word is
    dropped without a check *)
Definition pack3_of_4 (z : Z) : option bytes := p <- pack 4 z ;; Some (drop 1 p).

Definition pmsi_label (ov : overlay) (label : Z) : option bytes :=
  match ov with
  | OvOn true enc =>
      if (enc =? c_BGP_TUNNEL_ENCAPS_VXLAN) || (enc =? c_BGP_TUNNEL_ENCAPS_NVGRE)
      then pack3_of_4 label           (* 24-bit VNI *)
      else None                       (* the function returns None: "bytes += None" is a TypeError *)
  | _ => pack3_of_4 (label * 16)      (* "label << 4" *)
  end.

(** construct_tunnel_type: only ingress replication writes an identifier; every other type returns
    the str '' which cannot be appended to bytes on Python 3 (TypeError) *)
Definition pmsi_tunnel_id (v : pmsi) : option bytes :=
  if (p_type v =? Z.of_N c_PMSI_TUNNEL_TYPE_INGRESS_REPL)%Z
  then Some (if p_id6 v then be 16 (p_id v) else be 4 (p_id v))
  else None.

Definition pmsi_construct (ov : overlay) (v : pmsi) : option bytes :=
  f <- pack 1 (p_leaf v) ;;
  t <- pack 1 (p_type v) ;;
  l <- pmsi_label ov (p_label v) ;;
  i <- pmsi_tunnel_id v ;;
  let body := f ++ t ++ l ++ i in
  lb <- packn 1 (len body) ;;
  Some (c_ATTR_PMSITunnel_FLAG :: c_ATTR_PMSITunnel_ID :: lb ++ body).

(** the range netaddr accepts for the identifier (the harness only produces such values) *)
Definition pmsi_id_ok (v : pmsi) : bool :=
  if p_id6 v then p_id v <? 2 ^ 128 else p_id v <? 2 ^ 32.

(* ------------------------------------------------------------------------------------- *)
(** PMSITunnel.parse(value, evpn_overlay): (flag, type, label, identifier).  identifier:
    [PidNone] (type 0), [PidAddr n] (type 6: the address whose VALUE is n - netaddr renders a value
    below 2^32 as IPv4 text whatever the field size), [PidOther] ('not supported') *)
Inductive pid := PidNone | PidAddr (n : N) | PidOther.

Definition pmsi_parse (vni : bool) (b : bytes) : option (N * N * N * pid) :=
  match b with
  | fl :: ty :: l2 :: l1 :: l0 :: id =>
      let w := unbe [l2; l1; l0] in
      let label := if vni then w else w / 16 in
      if ty =? c_PMSI_TUNNEL_TYPE_NO_TUNNEL then Some (fl, ty, label, PidNone)
      else if ty =? c_PMSI_TUNNEL_TYPE_INGRESS_REPL then
        match id with
        | [] => None                               (* int('', 16): ValueError *)
        | _ => if unbe id <? 2 ^ 128 then Some (fl, ty, label, PidAddr (unbe id)) else None
        end
      else Some (fl, ty, label, PidOther)
  | _ => None                                      (* ord(b'') / struct.error *)
  end.

Definition sx_pid (p : pid) : sx :=
  match p with PidNone => SL [] | PidAddr n => SL [SN n] | PidOther => SN 0 end.
Definition sx_pmsi_parse (r : option (N * N * N * pid)) : sx :=
  match r with
  | Some (fl, ty, l, p) => SL [SN fl; SN ty; SN l; sx_pid p]
  | None => SN 2
  end.
Definition sx_pmsi_construct (r : option bytes) : sx :=
  match r with Some b => SB b | None => SN 2 end.
