(** C11 — one-iteration models of EVERY `while` loop of yabgp/message/** (the list is
    gen/Inventory.v, regenerated from the source on every run) and of the three recursive call
    sites; plus the exception funnel of Update.parse.

    A loop is modelled by its SHAPE: the loop condition, how many octets one iteration removes
    from the front of the remaining data ([None] = the iteration raises before it assigns the
    shorter slice), and whether the iteration ends with `break`.  Whatever else an iteration does
    (decoding the element, appending to a result list, calling another decoder on the element's
    value slice) cannot change the remaining data; it can only raise, which is the [raises]
    parameter of [body] (an arbitrary function: the theorems hold for every element decoder).
    Python slices clamp: `x[n:]` is [drop n x] = [skipn n x]. *)
From Coq Require Import String Ascii.
From YV Require Import lib.Base gen.Inventory.   (* after String: [length] is List.length *)

Inductive step := Continue (rest : bytes) | Last | Stop | Raise.
(** result of running a loop: number of iterations begun and finished normally *)
Inductive outcome := Done (iters : nat) | Raised (iters : nat) | OutOfFuel.

Record shape := mkShape {
  cond : bytes -> bool;              (* the `while` test on the remaining data *)
  consume : bytes -> option nat;     (* octets sliced off by one iteration; None = raises *)
  last : bytes -> bool               (* the iteration ends in `break` *)
}.

Definition body (s : shape) (raises : bytes -> bool) (d : bytes) : step :=
  if cond s d then
    match consume s d with
    | None => Raise
    | Some n => if raises d then Raise else if last s d then Last else Continue (drop n d)
    end
  else Stop.

Fixpoint run (b : bytes -> step) (fuel : nat) (d : bytes) : outcome :=
  match fuel with
  | O => OutOfFuel
  | S f =>
      match b d with
      | Stop => Done 0
      | Raise => Raised 0
      | Last => Done 1
      | Continue r =>
          match run b f r with
          | Done n => Done (S n)
          | Raised n => Raised (S n)
          | OutOfFuel => OutOfFuel
          end
      end
  end.

Definition no_raise : bytes -> bool := fun _ => false.
Definition never : bytes -> bool := fun _ => false.

(** ------------------------------------------------------------------------------------ *)
(** helpers *)
Definition nonempty (d : bytes) : bool := match d with [] => false | _ => true end.
Definition at_ (i : nat) (d : bytes) : N := nth i d 0.
Definition u16_at (i : nat) (d : bytes) : N := at_ i d * 256 + at_ (S i) d.
Definition ceil8 (n : N) : N := (n + 7) / 8.
Definition shorter (d : bytes) (k : nat) : bool := Nat.ltb (length d) k.
(** `struct.unpack` / indexing needs [k] octets, then [n] octets are sliced off *)
Definition need (k : nat) (d : bytes) (n : nat) : option nat := if shorter d k then None else Some n.

(** ------------------------------------------------------------------------------------ *)
(** shapes *)

(** `while v: x = unpack(fmt, v[:k]); v = v[k:]` — ClusterList(4), SRLGList(4), IGPRouteTagList(4),
    ExtIGPRouteTagList(8), multi-topology ids(2), ext-nexthop capability(6); Community(2) and
    LargeCommunity(3) run over the list of unpacked words (indexing past the end raises). *)
Definition fixed_strict (k : nat) : shape := mkShape nonempty (fun d => need k d k) never.

(** ExtCommunity.parse: `unpack('!BB', value[0:2])` needs 2 octets, `value = value[8:]` *)
Definition extcomm : shape := mkShape nonempty (fun d => need 2 d 8) never.

(** parse_mpls_label_stack: `while len(data) >= 3: ...; data = data[3:]; if label & 1: break` *)
Definition label_stack : shape :=
  mkShape (fun d => Nat.leb 3 (length d)) (fun _ => Some 3%nat) (fun d => N.odd (at_ 2 d)).

(** Open.parse, add-path capability: `while len(v) % 4 == 0 and v: ...; v = v[4:]` *)
Definition cap_addpath : shape :=
  mkShape (fun d => Nat.eqb (Nat.modulo (length d) 4) 0 && nonempty d) (fun _ => Some 4%nat) never.
(** LLGR capability: `while len(v) >= 7: ...; v = v[7:]` *)
Definition cap_llgr : shape := mkShape (fun d => Nat.leb 7 (length d)) (fun _ => Some 7%nat) never.

(** type/length/value walkers: header of [h] octets (reading it raises when fewer remain) with a
    [w]-octet big-endian length at offset [off]; `data = data[h + length:]`.
    2+2: LinkState.unpack, SRv6EndXSID/SRv6LANEndXSID/SRv6Locator sub-TLVs, BGPLS.parse,
    parse_nlri, parse_node_descriptor.  1+2: BGPPrefixSID, SRv6L3Service, SRv6SIDInformation.
    1+1: OPEN optional parameters, capabilities, EVPN routes. *)
Definition tlv_len (off w : nat) (d : bytes) : N := unbe (slice off (off + w) d).
Definition tlv (h off w : nat) : shape :=
  mkShape nonempty (fun d => need h d (h + N.to_nat (tlv_len off w d))) never.

(** Open.parse optional parameters: additionally raises when the parameter type is not 2 *)
Definition open_optparam : shape :=
  mkShape nonempty
    (fun d => if shorter d 2 then None else if at_ 0 d =? 2 then Some (2 + N.to_nat (at_ 1 d))%nat else None)
    never.

(** ASPath.parse: (type, count) then count AS numbers of [w] octets; an unknown segment type or a
    short segment raises *)
Definition aspath (w : nat) : shape :=
  mkShape nonempty
    (fun d => if shorter d 2 then None
              else if (1 <=? at_ 0 d) && (at_ 0 d <=? 4)
                   then need (2 + N.to_nat (at_ 1 d) * w) d (2 + N.to_nat (at_ 1 d) * w)
                   else None)
    never.

(** Update.parse_prefix_list / IPv4Unicast.parse: optional 4-octet path id, length octet (> 32
    raises), ceil(len/8) octets; `prefix_data[-1] &= mask` raises when no octet follows a length
    that is not a multiple of 8 *)
Definition with_path_id (addpath : bool) (f : bytes -> option nat) (d : bytes) : option nat :=
  if addpath then
    if shorter d 4 then None else match f (drop 4 d) with Some n => Some (4 + n)%nat | None => None end
  else f d.
Definition prefix4_elem (d : bytes) : option nat :=
  match d with
  | [] => None
  | l :: r => if 32 <? l then None
              else if negb (l mod 8 =? 0) && negb (nonempty r) then None
              else Some (N.to_nat (ceil8 l) + 1)%nat
  end.
Definition prefix4 (addpath : bool) : shape :=
  mkShape nonempty (with_path_id addpath prefix4_elem) never.

(** IPv6Unicast.parse (`nlri == b'\0\0'` is skipped as a whole), LabeledUnicast.parse, MPLSVPN.parse:
    optional path id, bit-length octet, ceil(len/8) octets *)
Definition bitlen_elem (d : bytes) : option nat :=
  match d with [] => None | l :: _ => Some (N.to_nat (ceil8 l) + 1)%nat end.
Definition prefix6 (addpath : bool) : shape :=
  mkShape nonempty
    (fun d => match d with [0; 0] => Some 2%nat | _ => with_path_id addpath bitlen_elem d end) never.
Definition bitlen_nlri (addpath : bool) : shape :=
  mkShape nonempty (with_path_id addpath bitlen_elem) never.

(** MpReachNLRI/MpUnReachNLRI flow-spec NLRI list: 1-octet length, or 2 octets when the high
    nibble is 0xf and more than 2 octets remain (the 2-octet value is used unmasked) *)
Definition flowspec_list : shape :=
  mkShape nonempty
    (fun d => if (at_ 0 d / 16 =? 15) && Nat.ltb 2 (length d)
              then Some (N.to_nat (u16_at 0 d) + 2)%nat else Some (N.to_nat (at_ 0 d) + 1)%nat)
    never.

(** parse_operators: operator octet + 1<<((op>>4)&3) value octets (an empty value slice raises in
    int(hexlify(..), 16)); `break` after an operator with the end-of-list bit *)
Definition op_len (o : N) : nat := Nat.pow 2 (N.to_nat ((o / 16) mod 4)).
Definition operators : shape :=
  mkShape nonempty (fun d => need 2 d (1 + op_len (at_ 0 d))) (fun d => 128 <=? at_ 0 d).
(** the `offset` parse_operators returns (not clamped to the data), structural in the fuel *)
Fixpoint ops_offset (fuel : nat) (d : bytes) : option nat :=
  match fuel with
  | O => Some 0%nat
  | S f =>
      match body operators never d with
      | Stop => Some 0%nat
      | Raise => None
      | Last => Some (1 + op_len (at_ 0 d))%nat
      | Continue r => match ops_offset f r with Some n => Some (1 + op_len (at_ 0 d) + n)%nat | None => None end
      end
  end.
(** IPv4FlowSpec.parse / IPv6FlowSpec.parse: type octet, then a prefix (types 1, 2) or an operator
    list; `value = value[offset:]` with offset = 1 + what the component decoder reports *)
Definition flowspec_prefix (d : bytes) : option nat :=
  match d with
  | [] => None                                       (* ord(b'') *)
  | l :: r => if (ceil8 l =? 0) || negb (nonempty r) then None     (* tmp[0] on an empty slice *)
              else Some (N.to_nat (ceil8 l) + 1)%nat
  end.
Definition flowspec_comp : shape :=
  mkShape nonempty
    (fun d => match d with
              | [] => None
              | t :: r => match (if (t =? 1) || (t =? 2) then flowspec_prefix r else ops_offset (length r) r) with
                          | Some n => Some (1 + n)%nat | None => None end
              end)
    never.

(** Update.parse_attributes: flags, type, 1- or 2-octet length (extended-length bit 0x10) *)
Definition attributes : shape :=
  mkShape nonempty
    (fun d => if shorter d 2 then None
              else if N.odd (at_ 0 d / 16)
                   then need 4 d (4 + N.to_nat (u16_at 2 d))
                   else need 3 d (3 + N.to_nat (at_ 2 d)))
    never.

(** SRCapabilities.unpack / SRLB.unpack (`while True: if len(value) == 0: break ...`):
    range(3) type(2) length(2) then a 3-octet label or 4-octet SID.
    [srcap_orig] is the code as found: for any other length NOTHING is sliced off.
    [srcap] is the repaired code (build/proposed/c11-srcap-srlb.diff): skip the sub-TLV. *)
Definition srcap_consume (other : N -> nat) (d : bytes) : option nat :=
  if shorter d 7 then None
  else let l := u16_at 5 d in
       if l =? 3 then need 10 d 10
       else if l =? 4 then need 11 d 11
       else Some (other l).
Definition srcap_orig : shape := mkShape nonempty (srcap_consume (fun _ => 0%nat)) never.
Definition srcap : shape := mkShape nonempty (srcap_consume (fun l => 7 + N.to_nat l)%nat) never.

(** ------------------------------------------------------------------------------------ *)
(** nested decoders: the work of a loop whose iterations hand a slice of the current element to
    another decoder costing [inner] *)
Fixpoint total (b : bytes -> step) (inner : bytes -> nat) (fuel : nat) (d : bytes) : nat :=
  match fuel with
  | O => 0
  | S f =>
      match b d with
      | Continue r => 1 + inner d + total b inner f r
      | Last => 1 + inner d
      | Stop | Raise => 0
      end
  end.

(** LabeledUnicast.parse / MPLSVPN.parse call parse_mpls_label_stack inside every iteration.
    AS FOUND the label parser gets the whole rest of the NLRI field (`nlri_data[1:]`), so the
    work of all iterations together is quadratic; REPAIRED
    (build/proposed/c11-label-stack-bound.diff) it gets the octets of the current NLRI only. *)
Definition label_iters (d : bytes) : nat :=
  match run (body label_stack never) (S (length d)) d with Done n | Raised n => n | OutOfFuel => 0%nat end.
Definition pre (addpath : bool) : nat := if addpath then 4%nat else 0%nat.
Definition nlri_octets (addpath : bool) (d : bytes) : nat :=
  N.to_nat (ceil8 (at_ (pre addpath) d)).
Definition lu_inner_orig (addpath : bool) (d : bytes) : nat := label_iters (drop (pre addpath + 1) d).
Definition lu_inner (addpath : bool) (d : bytes) : nat :=
  label_iters (slice (pre addpath + 1) (pre addpath + 1 + nlri_octets addpath d) d).
Definition lu_total_orig (addpath : bool) (d : bytes) : nat :=
  total (body (bitlen_nlri addpath) never) (lu_inner_orig addpath) (S (length d)) d.
Definition lu_total (addpath : bool) (raises : bytes -> bool) (d : bytes) : nat :=
  total (body (bitlen_nlri addpath) raises) (lu_inner addpath) (S (length d)) d.

(** the recursive call sites: SRv6EndXSID / SRv6LANEndXSID / SRv6Locator.unpack walk 2+2 sub-TLVs
    of `data[fixed:]` and call `LinkState.registered_tlvs[t].unpack(sub_value)`, which may be one
    of these three again.  [depth] is the recursion fuel; [skip t] is the fixed part the callee
    drops before its own sub-TLVs (22 / 28 / 8 octets in the code; any function here). *)
Definition sub_value (d : bytes) : bytes := slice 4 (4 + N.to_nat (tlv_len 2 2 d)) d.
Fixpoint rec_work (skip : N -> nat) (depth : nat) (d : bytes) : option nat :=
  match depth with
  | O => None                                        (* recursion fuel exhausted *)
  | S k =>
      (fix walk (fuel : nat) (d : bytes) : option nat :=
         match fuel with
         | O => None
         | S f =>
             match body (tlv 4 2 2) never d with
             | Continue r =>
                 match rec_work skip k (drop (skip (u16_at 0 d)) (sub_value d)), walk f r with
                 | Some a, Some b => Some (1 + a + b)%nat
                 | _, _ => None
                 end
             | _ => Some 0%nat
             end
         end) (S (length d)) d
  end.

(** ------------------------------------------------------------------------------------ *)
(** Update.parse: the two length fields are read OUTSIDE any try block; everything else runs
    inside `try: ... except Exception` (prefix lists) or `except UpdateMessageError / except
    Exception` (attributes).  The component decoders are arbitrary functions that return a value
    or raise. *)
Inductive dres (A : Type) := Val (a : A) | RaisesUpdErr (sub : N) | RaisesOther.
Arguments Val {A} a. Arguments RaisesUpdErr {A} sub. Arguments RaisesOther {A}.

Record upd_result (P A : Type) := mkUpd {
  u_withdraw : option P; u_nlri : option P; u_attr : option A; u_sub_error : option N }.
Arguments mkUpd {P A}.

Definition lengths_in_range (b : bytes) : Prop :=
  (N.to_nat (u16_at 0 b) + 4 <= length b)%nat.
Definition lengths_in_rangeb (b : bytes) : bool :=
  Nat.leb (N.to_nat (u16_at 0 b) + 4) (length b).

Definition c_STR_ERR : N := 1000.    (* results['sub_error'] = str(e): not a number *)

Definition update_parse {P A} (prefixes : bytes -> dres P) (attrs : bytes -> dres A) (b : bytes)
  : option (upd_result P A) :=
  if shorter b 2 then None                                        (* struct.error escapes *)
  else
    let wl := N.to_nat (u16_at 0 b) in
    if shorter (slice (wl + 2) (wl + 4) b) 2 then None            (* struct.error escapes *)
    else
      let al := N.to_nat (u16_at (wl + 2) b) in
      let w := prefixes (slice 2 (wl + 2) b) in
      let n := prefixes (drop (wl + 4 + al) b) in
      let '(rw, rn, e1) :=
        match w, n with
        | Val pw, Val pn => (Some pw, Some pn, None)
        | _, _ => (None, None, Some 10)              (* ERR_MSG_UPDATE_INVALID_NETWORK_FIELD *)
        end in
      match attrs (slice (wl + 4) (wl + 4 + al) b) with
      | Val a => Some (mkUpd rw rn (Some a) e1)
      | RaisesUpdErr s => Some (mkUpd rw rn None (Some s))
      | RaisesOther => Some (mkUpd rw rn None (Some c_STR_ERR))
      end.

(** ------------------------------------------------------------------------------------ *)
(** the inventory of modelled loops: (file, function, fingerprint, condition class, shape) *)
Fixpoint s2b (s : string) : list N :=
  match s with
  | EmptyString => []
  | String c r => N_of_ascii c :: s2b r
  end.

(** several shapes = the instantiations of the loop for the function's flag arguments
    (asn4, addpath) *)
Definition entry := (string * string * N * N * list shape)%type.
Definition e_shapes (e : entry) : list shape := snd e.
Definition e_class (e : entry) : N := snd (fst e).
Definition e_key (e : entry) : list N * list N * N * N :=
  let '(f, q, fp, c, _) := e in (s2b f, s2b q, fp, c).

(** what a condition class of the inventory means for the modelled [cond]
    (1 `while X:`, 2 `while len(X) > 0:`, 4 `while True:` whose body starts with
    `if len(X) == 0: break`, 300+K `while len(X) >= K:`, 500+K `while len(X) % K == 0 and X:`) *)
Definition cond_agrees (c : N) (s : shape) : Prop :=
  if (c =? 1) || (c =? 2) || (c =? 4) then forall d, cond s d = nonempty d
  else if (300 <? c) && (c <? 400) then forall d, cond s d = Nat.leb (N.to_nat (c - 300)) (length d)
  else if (500 <? c) && (c <? 600)
       then forall d, cond s d = Nat.eqb (Nat.modulo (length d) (N.to_nat (c - 500))) 0 && nonempty d
  else False.

Open Scope string_scope.
Definition modelled_loops : list entry := [
  (* while len(value) > 0 *)
  ("yabgp/message/attribute/aspath.py", "ASPath.parse", 212281796950102, 2, [aspath 2; aspath 4]);
  (* while value *)
  ("yabgp/message/attribute/clusterlist.py", "ClusterList.parse", 51726291986690, 1, [fixed_strict 4]);
  (* while value_list *)
  ("yabgp/message/attribute/community.py", "Community.parse", 222136028617482, 1, [fixed_strict 2]);
  (* while value *)
  ("yabgp/message/attribute/extcommunity.py", "ExtCommunity.parse", 82221732120692, 1, [extcomm]);
  (* while value_list *)
  ("yabgp/message/attribute/largecommunity.py", "LargeCommunity.parse", 189469990219683, 1, [fixed_strict 3]);
  (* while value *)
  ("yabgp/message/attribute/linkstate/link/srlg.py", "SRLGList.unpack", 87809642134572, 1, [fixed_strict 4]);
  (* while sub_tlvs_bin_data *)
  ("yabgp/message/attribute/linkstate/link/srv6_end_x_sid.py", "SRv6EndXSID.unpack", 183083686606678, 1, [tlv 4 2 2]);
  (* while sub_tlvs_bin_data *)
  ("yabgp/message/attribute/linkstate/link/srv6_lan_end_x_sid.py", "SRv6LANEndXSID.unpack", 183083686606678, 1, [tlv 4 2 2]);
  (* while data *)
  ("yabgp/message/attribute/linkstate/linkstate.py", "LinkState.unpack", 225365190031882, 1, [tlv 4 2 2]);
  (* while True *)
  ("yabgp/message/attribute/linkstate/node/sr_capabilities.py", "SRCapabilities.unpack", 11185737188271, 4, [srcap]);
  (* while True *)
  ("yabgp/message/attribute/linkstate/node/srlb.py", "SRLB.unpack", 11185737188271, 4, [srcap]);
  (* while value *)
  ("yabgp/message/attribute/linkstate/prefix/ext_igp_route_tag_list.py", "ExtIGPRouteTagList.unpack", 111279243601381, 1, [fixed_strict 8]);
  (* while value *)
  ("yabgp/message/attribute/linkstate/prefix/igp_route_tag_list.py", "IGPRouteTagList.unpack", 229223233826330, 1, [fixed_strict 4]);
  (* while sub_tlvs_bin_data *)
  ("yabgp/message/attribute/linkstate/prefix/srv6_locator.py", "SRv6Locator.unpack", 183083686606678, 1, [tlv 4 2 2]);
  (* while nlri_bin *)
  ("yabgp/message/attribute/mpreachnlri.py", "MpReachNLRI.parse", 13887393685111, 1, [flowspec_list]);
  (* while nlri_bin *)
  ("yabgp/message/attribute/mpunreachnlri.py", "MpUnReachNLRI.parse", 14218739882811, 1, [flowspec_list]);
  (* while len(data) >= 3 *)
  ("yabgp/message/attribute/nlri/__init__.py", "NLRI.parse_mpls_label_stack", 77497252748358, 303, [label_stack]);
  (* while nlri_data *)
  ("yabgp/message/attribute/nlri/evpn.py", "EVPN.parse", 50085850887321, 1, [tlv 2 1 1]);
  (* while value *)
  ("yabgp/message/attribute/nlri/ipv4_flowspec.py", "IPv4FlowSpec.parse", 171588528834803, 1, [flowspec_comp]);
  (* while data *)
  ("yabgp/message/attribute/nlri/ipv4_flowspec.py", "IPv4FlowSpec.parse_operators", 245450390449829, 1, [operators]);
  (* while len(postfix) > 0 *)
  ("yabgp/message/attribute/nlri/ipv4_unicast.py", "IPv4Unicast.parse", 204856815405439, 2, [prefix4 false; prefix4 true]);
  (* while value *)
  ("yabgp/message/attribute/nlri/ipv6_flowspec.py", "IPv6FlowSpec.parse", 171588528834803, 1, [flowspec_comp]);
  (* while data *)
  ("yabgp/message/attribute/nlri/ipv6_flowspec.py", "IPv6FlowSpec.parse_operators", 245450390449829, 1, [operators]);
  (* while nlri_data *)
  ("yabgp/message/attribute/nlri/ipv6_unicast.py", "IPv6Unicast.parse", 270917806124499, 1, [prefix6 false; prefix6 true]);
  (* while nlri_data *)
  ("yabgp/message/attribute/nlri/labeled_unicast/__init__.py", "LabeledUnicast.parse", 218146085880738, 1, [bitlen_nlri false; bitlen_nlri true]);
  (* while nlri_data *)
  ("yabgp/message/attribute/nlri/linkstate.py", "BGPLS.parse", 215165781479941, 1, [tlv 4 2 2]);
  (* while descriptors *)
  ("yabgp/message/attribute/nlri/linkstate.py", "BGPLS.parse_nlri", 49277093933271, 1, [tlv 4 2 2]);
  (* while value *)
  ("yabgp/message/attribute/nlri/linkstate.py", "BGPLS.parse_nlri", 214108422893416, 1, [fixed_strict 2]);
  (* while data *)
  ("yabgp/message/attribute/nlri/linkstate.py", "BGPLS.parse_node_descriptor", 188939119181195, 1, [tlv 4 2 2]);
  (* while value *)
  ("yabgp/message/attribute/nlri/mpls_vpn.py", "MPLSVPN.parse", 215897225341786, 1, [bitlen_nlri false; bitlen_nlri true]);
  (* while len(data) >= 3 *)
  ("yabgp/message/attribute/nlri/mpls_vpn.py", "MPLSVPN.parse_mpls_label_stack", 77497252748358, 303, [label_stack]);
  (* while data *)
  ("yabgp/message/attribute/sr/bgpprefixsid.py", "BGPPrefixSID.unpack", 144426291290910, 1, [tlv 3 1 2]);
  (* while data *)
  ("yabgp/message/attribute/sr/srv6/l3service.py", "SRv6L3Service.unpack", 140967724761574, 1, [tlv 3 1 2]);
  (* while data *)
  ("yabgp/message/attribute/sr/srv6/sidinformation.py", "SRv6SIDInformation.unpack", 214869836572345, 1, [tlv 3 1 2]);
  (* while len(capability.capa_value) > 0 *)
  ("yabgp/message/open.py", "Open.parse", 177750502052013, 2, [fixed_strict 6]);
  (* while len(capability.capa_value) % 4 == 0 and capability.capa_value *)
  ("yabgp/message/open.py", "Open.parse", 207923631267892, 504, [cap_addpath]);
  (* while capabilities *)
  ("yabgp/message/open.py", "Open.parse", 226045451294943, 1, [tlv 2 1 1]);
  (* while len(capability.capa_value) >= 7 *)
  ("yabgp/message/open.py", "Open.parse", 248941751103596, 307, [cap_llgr]);
  (* while self.opt_paras *)
  ("yabgp/message/open.py", "Open.parse", 276349704929673, 1, [open_optparam]);
  (* while len(postfix) > 0 *)
  ("yabgp/message/update.py", "Update.parse_attributes", 230227159599573, 2, [attributes]);
  (* while len(postfix) > 0 *)
  ("yabgp/message/update.py", "Update.parse_prefix_list", 18451367181106, 2, [prefix4 false; prefix4 true])
].
Close Scope string_scope.

(** loops of the inventory that have no model yet (must stay empty) *)
Definition unmodelled_loops : list (list N * list N * N * N) := [].

(** the three recursive call sites (all `LinkState.registered_tlvs[t].unpack(sub_value)` inside the
    2+2 sub-TLV walkers above), modelled by [rec_work] *)
Open Scope string_scope.
Definition modelled_rec_sites : list (string * string * string * N) := [
  ("yabgp/message/attribute/linkstate/link/srv6_end_x_sid.py", "SRv6EndXSID.unpack", "LinkState.registered_tlvs[sub_tlvs_type_code].unpack", 18074518157883);
  ("yabgp/message/attribute/linkstate/link/srv6_lan_end_x_sid.py", "SRv6LANEndXSID.unpack", "LinkState.registered_tlvs[sub_tlvs_type_code].unpack", 18074518157883);
  ("yabgp/message/attribute/linkstate/prefix/srv6_locator.py", "SRv6Locator.unpack", "LinkState.registered_tlvs[sub_tlvs_type_code].unpack", 18074518157883)
].
Close Scope string_scope.
Definition rec_key (e : string * string * string * N) : list N * list N * list N * N :=
  let '(f, q, c, fp) := e in (s2b f, s2b q, s2b c, fp).
