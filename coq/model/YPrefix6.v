(** IPv6 unicast NLRI (yabgp/message/attribute/nlri/ipv6_unicast.py) and its MP_REACH /
    MP_UNREACH branches.  A route is (address as a 128-bit integer, prefix length). *)
From YV Require Import lib.Base gen.Consts model.YMp.

Definition route6 := (N * N)%type.

(** IPv6Unicast.construct: length octet, then prefix.ip.packed[:ceil(len/8)] *)
Definition enc_route6 (r : route6) : bytes :=
  let '(a, l) := r in l :: take (N.to_nat (ceil8 l)) (be 16 a).
Definition construct6 (rs : list route6) : bytes := flat_map enc_route6 rs.

(** IPv6Unicast.parse (addpath=False).  One iteration consumes at least one octet. *)
Fixpoint parse6 (fuel : nat) (d : bytes) : res (list (addr * N)) :=
  match fuel with
  | O => Fuel
  | S f =>
      match d with
      | [] => Ok []
      | l :: _ =>
          if bytes_eqb d [0; 0] then Ok []          (* the "== b'\x00\x00'" special case *)
          else
            let k := N.to_nat (ceil8 l) in
            let pb := slice 1 (1 + k) d ++ repeat 0 (N.to_nat ((128 - l) / 8)) in
            bind (addr_of_bytes pb) (fun a =>
            bind (parse6 f (drop (1 + k) d)) (fun r => Ok ((a, l) :: r)))
      end
  end.
Definition parse6_all (d : bytes) : res (list (addr * N)) := parse6 (S (length d)) d.

(** MpReachNLRI.construct, (AFI 2, SAFI 1): next hop = global address [g], optionally followed
    by the link-local address; the length octet is 16 or 32 *)
Definition reach6u_construct (g : N) (ll : option N) (rs : list route6) : res bytes :=
  let nh := be 16 g ++ match ll with Some x => be 16 x | None => [] end in
  reach_attr AFI_INET6 SAFI_UNICAST (match ll with Some _ => 32 | None => 16 end) nh (construct6 rs).

Definition reach6u_result := (addr * option addr * list (addr * N))%type.

(** MpReachNLRI.parse, branch (2, 1) *)
Definition reach6u_parse (v : bytes) : res reach6u_result :=
  bind (reach_split v) (fun '(afi, safi, nh, nlri) =>
  if (afi =? AFI_INET6) && (safi =? SAFI_UNICAST) then
    bind (addr_of_bytes (take 16 nh)) (fun g =>
    bind (if len nh =? 32 then bind (addr_of_bytes (drop 16 nh)) (fun x => Ok (Some x)) else Ok None)
      (fun ll =>
    bind (parse6_all nlri) (fun r => Ok (g, ll, r))))
  else Exc).

(** MpUnReachNLRI.construct (2, 1): None when there is nothing to withdraw *)
Definition unreach6u_construct (rs : list route6) : res (option bytes) :=
  match construct6 rs with
  | [] => Ok None
  | nlri => bind (unreach_attr AFI_INET6 SAFI_UNICAST nlri) (fun b => Ok (Some b))
  end.

Definition unreach6u_parse (v : bytes) : res (list (addr * N)) :=
  bind (unreach_split v) (fun '(afi, safi, nlri) =>
  if (afi =? AFI_INET6) && (safi =? SAFI_UNICAST) then parse6_all nlri else Exc).

(** rendering *)
Definition sx_route (r : addr * N) : sx := SL [sx_addr (fst r); SN (snd r)].
Definition sx_reach6u (v : reach6u_result) : sx :=
  let '(g, ll, r) := v in SL [sx_addr g; sx_opt sx_addr ll; sx_list sx_route r].
