(** UPDATE message: Update.construct_attributes / parse_attributes (attribute framing),
    Update.construct / Update.parse of yabgp/message/update.py.

    REPAIRED behaviour modelled (build/proposed/c06-withdraw-with-attributes.diff): when
    attributes are given the withdrawn routes are still encoded.  The unrepaired code writes a
    zero "withdrawn routes length" and drops them.
    Kept as the code has it: NLRI given without attributes is not encoded (with withdrawals:
    only those are sent; without: construct returns None). *)
From YV Require Import lib.Base gen.Consts model.YMsg model.YPrefix4 model.YAttr.

Record upd := mkUpd { u_withdraw : list pfx; u_attrs : list (N * aval); u_nlri : list pfx }.

(** ---- construct_attributes: dict iteration order = insertion order ---- *)
Fixpoint construct_attributes (asn4 : bool) (l : list (N * aval)) : res bytes :=
  match l with
  | [] => Ok []
  | (tc, v) :: r =>
    bind (construct_attr asn4 tc v) (fun a => bind (construct_attributes asn4 r) (fun b => Ok (a ++ b)))
  end.

(** ---- parse_attributes ---- *)
(** attributes[type_code] = value: a repeated type code overwrites in place *)
Fixpoint dict_set (k : N) (v : aval) (d : list (N * aval)) : list (N * aval) :=
  match d with
  | [] => [(k, v)]
  | (k', v') :: r => if k' =? k then (k, v) :: r else (k', v') :: dict_set k v r
  end.

(** flags, type, 1- or 2-octet length, value (slices clamp), rest.
    None = struct.error / IndexError on a truncated attribute header *)
Definition parse_tlv (d : bytes) : option (N * bytes * bytes) :=
  match d with
  | flags :: tc :: r2 =>
    if (flags / 16) mod 2 =? 1 then
      match r2 with
      | l1 :: l0 :: r4 => let n := N.to_nat (l1 * 256 + l0) in Some (tc, take n r4, drop n r4)
      | _ => None
      end
    else
      match r2 with
      | l :: r3 => let n := N.to_nat l in Some (tc, take n r3, drop n r3)
      | [] => None
      end
  | _ => None
  end.

Definition sub_OutOfFuel : N := 65536.     (* not an octet: no yabgp path produces it *)

(** result: the attributes decoded so far and the sub-error, if any (UpdateMessageError carries
    sub_results; any other exception becomes MALFORMED_ATTR_LIST) *)
Fixpoint parse_attrs_f (fuel : nat) (asn4 : bool) (acc : list (N * aval)) (d : bytes)
  : list (N * aval) * option N :=
  match d with
  | [] => (acc, None)
  | _ :: _ =>
    match fuel with
    | O => (acc, Some sub_OutOfFuel)
    | S f =>
      match parse_tlv d with
      | None => (acc, Some c_ERR_MSG_UPDATE_MALFORMED_ATTR_LIST)
      | Some (tc, v, rest) =>
        match parse_attr asn4 tc v with
        | Ok a => parse_attrs_f f asn4 (dict_set tc a acc) rest
        | Err _ s => (acc, Some s)
        | PyExc => (acc, Some c_ERR_MSG_UPDATE_MALFORMED_ATTR_LIST)
        end
      end
    end
  end.
Definition parse_attributes (asn4 : bool) (d : bytes) : list (N * aval) * option N :=
  parse_attrs_f (length d) asn4 [] d.

(** ---- Update.construct ---- *)
(** Ok None = the function returns None (nothing to send) *)
Definition construct_body (wd ad nd : bytes) : bytes :=
  be 2 (len wd) ++ wd ++ be 2 (len ad) ++ ad ++ nd.

Definition construct (asn4 : bool) (m : upd) : res (option bytes) :=
  (* `if msg_dict.get(k): x_hex = f(...)`: an absent or empty part gives b'', which is also what
     the constructors return on an empty dict / list *)
  bind (construct_attributes asn4 (u_attrs m)) (fun ad =>
  bind (construct_prefix_v4 (u_nlri m)) (fun nd =>
  bind (construct_prefix_v4 (u_withdraw m)) (fun wd =>
  match ad with
  | _ :: _ =>
    (* struct.pack('!H') of the two lengths, then construct_header *)
    if (65535 <? len wd) || (65535 <? len ad) then PyExc
    else bind (header c_MSG_UPDATE (construct_body wd ad nd)) (fun b => Ok (Some b))
  | [] =>
    match wd with
    | _ :: _ =>
      if 65535 <? len wd then PyExc
      else bind (header c_MSG_UPDATE (construct_body wd [] [])) (fun b => Ok (Some b))
    | [] => Ok None
    end
  end))).

(** ---- Update.parse ---- *)
Record parsed := mkParsed { p_withdraw : list pfx; p_attrs : list (N * aval); p_nlri : list pfx;
                            p_sub : option N }.

(** the two struct.unpack('!H') calls at the top are outside every try: PyExc on a short body *)
Definition parse_full (asn4 : bool) (msg : bytes) : res parsed :=
  if Nat.eqb (length (take 2 msg)) 2 then
    let wl := N.to_nat (unbe (take 2 msg)) in
    let wd := slice 2 (wl + 2) msg in
    let al_raw := slice (wl + 2) (wl + 4) msg in
    if Nat.eqb (length al_raw) 2 then
      let al := N.to_nat (unbe al_raw) in
      let ad := slice (wl + 4) (wl + 4 + al) msg in
      let nd := drop (wl + 4 + al) msg in
      (* first try block: any exception -> INVALID_NETWORK_FIELD; a withdraw list already
         parsed is kept *)
      let '(w, n, sub1) :=
        match parse_prefix_list wd with
        | Ok w =>
          match parse_prefix_list nd with
          | Ok n => (w, n, None)
          | _ => (w, [], Some c_ERR_MSG_UPDATE_INVALID_NETWORK_FIELD)
          end
        | _ => ([], [], Some c_ERR_MSG_UPDATE_INVALID_NETWORK_FIELD)
        end in
      (* second try block: an attribute error overwrites sub_error *)
      let '(a, sub2) := parse_attributes asn4 ad in
      Ok (mkParsed w a n (match sub2 with Some s => Some s | None => sub1 end))
    else PyExc
  else PyExc.

(** the error funnel: a message whose sub_error is set is answered with NOTIFICATION (3, sub) *)
Definition parse (asn4 : bool) (msg : bytes) : res upd :=
  bind (parse_full asn4 msg) (fun p =>
    match p_sub p with
    | Some s => Err c_ERR_MSG_UPDATE s
    | None => Ok (mkUpd (p_withdraw p) (p_attrs p) (p_nlri p))
    end).

Definition canon (m : upd) : upd :=
  mkUpd (u_withdraw m) (map (fun kv => (fst kv, canon_val (snd kv))) (u_attrs m)) (u_nlri m).

(** rendering for the correspondence check *)
Definition sx_attrs (l : list (N * aval)) : sx := SL (map (fun kv => SL [SN (fst kv); sx_aval (snd kv)]) l).
Definition sx_parsed (p : parsed) : sx :=
  SL [sx_list sx_pfx (p_withdraw p); sx_attrs (p_attrs p); sx_list sx_pfx (p_nlri p); sx_opt SN (p_sub p)].
Definition sx_pattrs (r : list (N * aval) * option N) : sx := SL [sx_attrs (fst r); sx_opt SN (snd r)].
Definition sx_optbytes (o : option bytes) : sx := sx_opt SB o.
