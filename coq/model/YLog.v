(** Message log of yabgp/handler/default_handler.py (DefaultHandler): init / init_msg_file /
    get_last_seq_and_file, write_msg, check_file_size and the callbacks, over an abstract
    file system.  Executable model; no proofs here.

    What is modelled, and the assumptions under which it is a model of the code:

    - The directory <write_dir>/<peer>/msg/ is a list of files, NEWEST FIRST.  File names are
      "%s.msg" % time.time(); the code sorts them as strings and takes the last one.
      ASSUMPTION (names): time.time() strictly increases between two file creations and the
      decimal renderings sort as strings in time order (true for 10-digit epoch seconds, i.e.
      2001-09-09 .. 2286-11-20; the harness drives time.time itself).  Hence "last name in
      sorted order" = "file created last" = the file the running handler appends to, and names
      need not be represented.
    - A file is a list of lines, NEWEST FIRST, a flag [fopen] (the last line is not terminated
      by a newline yet) and its size in octets.  A line is classified by what
      get_last_seq_and_file does with it:
        [Full s]   a complete record {"t":..,"seq":s,"type":..,"msg":..}: json.loads gives seq s
        [Torn]     starts with '{' but json.loads raises (a proper prefix of a record, a prefix
                   followed by a newline, or a fragment with another record appended to it)
        [Legacy s] starts with '[' : eval(line)[1] = s (old list format)
        [Blank]    anything not starting with '{' or '[' (e.g. an empty line): ignored, seq 0
      ASSUMPTION (json): a line written by write_msg is valid JSON iff it is one complete
      record: every non-empty proper prefix of a record is unparseable, and a non-empty prefix
      of a record (proper or not) followed by further record text is unparseable.  The harness
      validates this on every byte offset of every torn write by calling json.loads.
    - ASSUMPTION (fsync): write_msg does flush + fsync before it returns, so when a callback
      has returned its line is on disk in full; only the write in progress at the moment of a
      crash can be cut, at any octet offset.  [Crash cb ok sz k] is that event: the callback is
      entered, [k] of the [sz] octets of its line reach the disk, the process dies (before the
      sequence number is incremented in memory -- irrelevant, memory is lost -- and before
      check_file_size), and the agent is started again.
    - Sizes: the event carries the number of octets [sz] that its line occupies including the
      newline (>= 2); check_file_size compares the file size with the threshold in octets
      (check_msg_config has multiplied the configured megabytes by 1024*1024 beforehand).
      [sz] is UNBOUNDED: the JSON text of an UPDATE is several times longer than the message on
      the wire (4096 octets), and nothing in start-up may depend on it.  In [scan]/[get_last] a
      line is a list element, so "the last line, whatever its length" is built in; the section
      "octet level" below spells the same thing out on octets ([lines_of], [last_line],
      [newest_line]) and proof/LogSizes.v proves that it returns the last line for every length
      and that it refines [scan].  The harness drives the code with records of 46 .. 2^20+1
      octets (restart right after them, rotation thresholds below and above them, torn tails)
      and compares both levels with the code.
    - [ok] = the payload can be serialised by simplejson (false: an object of an unsupported
      type or bytes that are not UTF-8 somewhere inside the payload).  keepalive_received and
      on_connection_lost log "msg": null and are always serialisable.

    Two code versions are modelled, selected by [cfg]:
      [cfg_orig]  the code as found;
      [cfg_fixed] with the two repairs proposed in build/proposed/c20-*.diff:
         fix_scan: get_last_seq_and_file takes the last line of the newest NON-EMPTY file
         fix_ser : write_msg serialises to a string first and writes it with one call; a payload
                   that cannot be serialised is logged as its repr(), so the line is complete. *)
From YV Require Import lib.Base.

Inductive line := Full (s : N) | Torn | Legacy (s : N) | Blank.

Record file := File { flines : list line; fopen : bool; fsize : N }.
Definition empty_file : file := File [] false 0.

Record cfg := Cfg { fix_scan : bool; fix_ser : bool }.
Definition cfg_orig : cfg := Cfg false false.
Definition cfg_fixed : cfg := Cfg true true.

(** [alive = Some n]: a DefaultHandler is running and msg_sequence[peer] = n; its open file is
    the newest file.  [exits]: how many times init ended in sys.exit().  [nrep]: ghost counter,
    number of write_msg calls whose line reached the disk in full. *)
Record state := State { disk : list file; alive : option N; exits : N; nrep : N }.

Inductive callback :=
| SendOpen | OpenReceived | UpdateReceived | UpdateError | Keepalive (write_keepalive : bool)
| RouteRefresh | Notification | ConnLost | ConnFailed.

Definition writes (cb : callback) : bool := match cb with Keepalive w => w | _ => true end.
Definition checks_size (cb : callback) : bool := match cb with UpdateReceived => true | _ => false end.
Definition has_payload (cb : callback) : bool :=
  match cb with Keepalive _ | ConnLost => false | _ => true end.

(** the callback inventory (name index, calls write_msg, calls check_file_size): compared by
    the harness with what an ast walk over default_handler.py finds.  Index = position in
    [send_open; open_received; update_received; on_update_error; keepalive_received;
     route_refresh_received; notification_received; on_connection_lost; on_connection_failed] *)
Definition all_callbacks : list callback :=
  [SendOpen; OpenReceived; UpdateReceived; UpdateError; Keepalive true; RouteRefresh; Notification;
   ConnLost; ConnFailed].
Definition inventory : list (bool * bool * bool) :=
  map (fun cb => (writes cb, checks_size cb, has_payload cb)) all_callbacks.

Inductive event :=
| Ev (cb : callback) (ok : bool) (sz : N)
| Restart
| Crash (cb : callback) (ok : bool) (sz : N) (k : N).

Definition history := list event.

(** ---- get_last_seq_and_file ---- *)
(** None = the except branch with sys.exit() *)
Definition seq_of_line (l : line) : option N :=
  match l with Full s => Some s | Legacy s => Some s | Blank => Some 0 | Torn => None end.

(** repaired: newest file that has a line *)
Fixpoint scan (fs : list file) : option N :=
  match fs with
  | [] => Some 0
  | f :: r => match flines f with [] => scan r | l :: _ => seq_of_line l end
  end.

(** original: the newest file only; an empty newest file gives 0 *)
Definition newest_only (fs : list file) : option N :=
  match fs with
  | [] => Some 0
  | f :: _ => match flines f with [] => Some 0 | l :: _ => seq_of_line l end
  end.

Definition get_last (c : cfg) (fs : list file) : option N :=
  if fix_scan c then scan fs else newest_only fs.

(** ---- init (DefaultHandler() ; init()) on the current directory ---- *)
Definition init (c : cfg) (st : state) : state :=
  match get_last c (disk st) with
  | None => State (disk st) None (exits st + 1) (nrep st)
  | Some s =>
      State (match disk st with [] => [empty_file] | d => d end) (Some (s + 1)) (exits st) (nrep st)
  end.

(** ---- write_msg ---- *)
Definition head_file (d : list file) : file := match d with f :: _ => f | [] => empty_file end.
Definition set_head (f : file) (d : list file) : list file :=
  match d with _ :: r => f :: r | [] => [f] end.

(** append one terminated line of [sz] octets; text appended to an unterminated fragment makes
    one unparseable line *)
Definition append (l : line) (sz : N) (f : file) : file :=
  if fopen f then File (Torn :: tl (flines f)) false (fsize f + sz)
  else File (l :: flines f) false (fsize f + sz).

(** the same write cut after [k] octets *)
Definition cut_append (l : line) (sz k : N) (f : file) : file :=
  if k =? 0 then f
  else if sz <=? k then append l sz f
  else if fopen f then File (Torn :: tl (flines f)) true (fsize f + k)
  else File ((if k =? sz - 1 then l else Torn) :: flines f) true (fsize f + k).

Definition the_line (c : cfg) (cb : callback) (ok : bool) (n : N) : line :=
  if ok || negb (has_payload cb) || fix_ser c then Full n else Torn.

Definition write_msg (c : cfg) (cb : callback) (ok : bool) (sz : N) (st : state) : state :=
  match alive st with
  | None => st
  | Some n =>
      State (set_head (append (the_line c cb ok n) sz (head_file (disk st))) (disk st))
            (Some (n + 1)) (exits st) (nrep st + 1)
  end.

(** ---- check_file_size (size >= threshold: open a new file) ---- *)
Definition check_file_size (thr : N) (st : state) : state :=
  match alive st with
  | None => st
  | Some _ =>
      if thr <=? fsize (head_file (disk st))
      then State (empty_file :: disk st) (alive st) (exits st) (nrep st)
      else st
  end.

Definition callback_step (c : cfg) (thr : N) (cb : callback) (ok : bool) (sz : N) (st : state) : state :=
  if writes cb then
    let st' := write_msg c cb ok sz st in
    if checks_size cb then check_file_size thr st' else st'
  else st.

(** ---- crash in the middle of a callback's write ---- *)
Definition crash_write (c : cfg) (cb : callback) (ok : bool) (sz k : N) (st : state) : state :=
  match alive st with
  | None => st
  | Some n =>
      if writes cb then
        State (set_head (cut_append (the_line c cb ok n) sz k (head_file (disk st))) (disk st))
              None (exits st) (nrep st + (if (sz <=? k) && negb (k =? 0) then 1 else 0))
      else st
  end.

Definition kill (st : state) : state := State (disk st) None (exits st) (nrep st).

Definition step (c : cfg) (thr : N) (st : state) (e : event) : state :=
  match e with
  | Ev cb ok sz => callback_step c thr cb ok sz st
  | Restart => init c (kill st)
  | Crash cb ok sz k => init c (kill (crash_write c cb ok sz k st))
  end.

(** the agent is started on directory contents [d], then the history happens *)
Definition start_on (c : cfg) (d : list file) : state := init c (State d None 0 0).
Definition run_from (c : cfg) (thr : N) (d : list file) (h : history) : state :=
  fold_left (step c thr) h (start_on c d).
Definition run (c : cfg) (thr : N) (h : history) : state := run_from c thr [] h.

(** states after the start and after every event *)
Fixpoint trace_of (c : cfg) (thr : N) (st : state) (h : history) : list state :=
  st :: match h with [] => [] | e :: r => trace_of c thr (step c thr st e) r end.
Definition trace_from (c : cfg) (thr : N) (d : list file) (h : history) : list state :=
  trace_of c thr (start_on c d) h.

(** ---- peer addresses: the handler's dictionaries ----
    peer_files and msg_sequence are dictionaries keyed by the peer address.  The key is the
    LOWER-CASED text of the address: init() registers CONF.bgp.running_config['remote_addr'].lower()
    (the directory <write_dir>/<key>/msg/ is named after it too), while every callback arrives with
    the address as configured (factory.peer_addr; oslo.config's IPOpt keeps the spelling, so an IPv6
    address may contain upper-case hex digits) and write_msg / check_file_size look up
    peer.lower() -- for reading AND for storing the file a rotation opens.  The model makes the
    normalisation explicit: an event carries the address as spelled, every access goes through
    [lower].  A callback for a key that is not registered does nothing (msg_path is None).
    One process serves one configured peer; init_msg_file can register more, which is modelled
    too ([hstart] with several addresses).  A restart or a crash ends the process, i.e. every
    registered log is re-initialised. *)
(** the session layer: BGPPeering.__init__ keeps the configured text as it is (self.peer_addr =
    peeraddr) and every callback is made with it (protocol.factory.peer_addr, or the string itself
    in clientConnectionFailed), while init() registers the lower-cased configured text.  The two
    agree only because nothing on the way rewrites the text (compared with the real factory
    object on every run, for canonical and non-canonical IPv6 text forms). *)
Definition factory_peer_addr (configured : bytes) : bytes := configured.

Definition lower_octet (x : N) : N := if (65 <=? x) && (x <=? 90) then x + 32 else x.
Definition lower (a : bytes) : bytes := map lower_octet a.

Definition handler := list (bytes * state).

Fixpoint hget (k : bytes) (h : handler) : option state :=
  match h with
  | [] => None
  | (k', s) :: r => if bytes_eqb k k' then Some s else hget k r
  end.

Fixpoint hupd (k : bytes) (f : state -> state) (h : handler) : handler :=
  match h with
  | [] => []
  | (k', s) :: r => if bytes_eqb k k' then (k', f s) :: r else (k', s) :: hupd k f r
  end.

Definition hall (f : state -> state) (h : handler) : handler := map (fun ks => (fst ks, f (snd ks))) h.

Inductive hevent :=
| HEv (a : bytes) (cb : callback) (ok : bool) (sz : N)
| HRestart
| HCrash (a : bytes) (cb : callback) (ok : bool) (sz : N) (k : N).

Definition hstep (c : cfg) (thr : N) (h : handler) (e : hevent) : handler :=
  match e with
  | HEv a cb ok sz => hupd (lower a) (callback_step c thr cb ok sz) h
  | HRestart => hall (fun s => init c (kill s)) h
  | HCrash a cb ok sz k =>
      hall (fun s => init c (kill s)) (hupd (lower a) (crash_write c cb ok sz k) h)
  end.

(** init_msg_file(a.lower()) for every address, on empty directories; a key that is registered
    already is left alone (`peer_addr not in self.peer_files`) *)
Definition hregister (c : cfg) (h : handler) (a : bytes) : handler :=
  match hget (lower a) h with Some _ => h | None => h ++ [(lower a, start_on c [])] end.
Definition hstart (c : cfg) (peers : list bytes) : handler := fold_left (hregister c) peers [].
Definition hrun (c : cfg) (thr : N) (peers : list bytes) (es : list hevent) : handler :=
  fold_left (hstep c thr) es (hstart c peers).

(** what one peer's log sees of a handler history *)
Definition proj (k : bytes) (e : hevent) : history :=
  match e with
  | HEv a cb ok sz => if bytes_eqb (lower a) k then [Ev cb ok sz] else []
  | HRestart => [Restart]
  | HCrash a cb ok sz j => if bytes_eqb (lower a) k then [Crash cb ok sz j] else [Restart]
  end.

Fixpoint htrace_of (c : cfg) (thr : N) (h : handler) (es : list hevent) : list handler :=
  h :: match es with [] => [] | e :: r => htrace_of c thr (hstep c thr h e) r end.
Definition htrace (c : cfg) (thr : N) (peers : list bytes) (es : list hevent) : list handler :=
  htrace_of c thr (hstart c peers) es.

(** ---- the octet level of get_last_seq_and_file ----
    The abstract functions above take "the last line of a file" as the head of a list.  What the
    code does to get it is spelled out here on octets, so that it is explicit that NO length
    enters: `for line in fh: pass` cuts the text after every newline (octet 10) and leaves the
    last piece in `line`, however long that piece is and however much text precedes it; `if
    line:` skips a file without any octet; the branch is taken on the first character.  The
    harness runs these functions on directories whose last line is up to tens of thousands of
    octets long and compares with the text the code actually hands to json.loads / eval. *)
Fixpoint lines_of (b : bytes) : list bytes :=
  match b with
  | [] => []
  | x :: r =>
      if x =? 10 then [x] :: lines_of r
      else match lines_of r with
           | [] => [[x]]
           | l :: ls => (x :: l) :: ls
           end
  end.

(** `line` after the loop ([] stands for both None and no octet) *)
Definition last_line (b : bytes) : bytes := last (lines_of b) [].

(** the loop over reversed(file_list): contents of the files NEWEST FIRST *)
Fixpoint newest_line (fs : list bytes) : bytes :=
  match fs with
  | [] => []
  | f :: r => match last_line f with [] => newest_line r | l => l end
  end.

(** what get_last_seq_and_file does with the line it found; [pj l] = json.loads(l)['seq'] and
    [pl l] = eval(l)[1], None when they raise (left abstract: any two functions) *)
Definition abs_line (pj pl : bytes -> option N) (l : bytes) : line :=
  match l with
  | [] => Blank
  | x :: _ =>
      if x =? 123 then match pj l with Some s => Full s | None => Torn end
      else if x =? 91 then match pl l with Some s => Legacy s | None => Torn end
      else Blank
  end.

Definition recover_octets (pj pl : bytes -> option N) (fs : list bytes) : option N :=
  match newest_line fs with
  | [] => Some 0
  | l => seq_of_line (abs_line pj pl l)
  end.

(** the abstract file a text stands for (lines newest first) *)
Definition abs_file (pj pl : bytes -> option N) (b : bytes) : file :=
  File (rev (map (abs_line pj pl) (lines_of b))) (negb (last b 10 =? 10)) (len b).

(** ---- rendering for the correspondence check (files oldest first, lines oldest first) ---- *)
Definition sx_line (l : line) : sx :=
  match l with
  | Full s => SL [SN 0; SN s] | Torn => SL [SN 1] | Legacy s => SL [SN 2; SN s] | Blank => SL [SN 3]
  end.
Definition sx_file (f : file) : sx :=
  SL [SL (map sx_line (rev (flines f))); sx_bool (fopen f); SN (fsize f)].
Definition sx_state (st : state) : sx :=
  SL [SL (map sx_file (rev (disk st))); sx_opt SN (alive st); SN (exits st); SN (nrep st)].
Definition sx_trace (skip : nat) (t : list state) : sx := SL (map sx_state (skipn skip t)).
(** all registered logs, in registration order, after the start and after every event *)
Definition sx_handler (h : handler) : sx := SL (map (fun ks => sx_state (snd ks)) h).
Definition sx_htrace (t : list handler) : sx := SL (map sx_handler t).
(** what start-up parsed: which reader was called (1 json.loads, 2 eval, 0 none), and the text it
    was given, as (octet count, first 24 octets, last 4 octets) *)
Definition rep (x n : N) : bytes := repeat x (N.to_nat n).
Definition sx_parsed (l : bytes) : sx :=
  let k := match l with
           | x :: _ => if x =? 123 then 1 else if x =? 91 then 2 else 0
           | [] => 0
           end in
  if k =? 0 then SL [SN 0; SN 0; SB []; SB []]
  else SL [SN k; SN (len l); SB (firstn 24 l); SB (skipn (length l - 4) l)].
Definition sx_inventory : sx :=
  SL (map (fun t => match t with (a, b, p) => SL [sx_bool a; sx_bool b; sx_bool p] end) inventory).
