(** Session-layer world: everything yabgp's FSM / BGP protocol / BGPPeering objects and the
    abstract reactor hold, as one flat record, plus the primitive operations the FSM
    methods (generated in gen/FsmGen.v from yabgp/core/fsm.py) are written in.

    Time is in THIRDS of a second (all configured times are whole seconds, the only
    derived time is hold_time / 3), deadlines are absolute. *)
From YV Require Import lib.Base.
Set Primitive Projections.

Inductive bst := StIdle | StConnect | StActive | StOpenSent | StOpenConfirm | StEstablished.
Definition bst_num (s : bst) : N :=
  match s with StIdle => 1 | StConnect => 2 | StActive => 3 | StOpenSent => 4
             | StOpenConfirm => 5 | StEstablished => 6 end.
Definition bst_eqb (a b : bst) : bool :=
  match a, b with
  | StIdle, StIdle | StConnect, StConnect | StActive, StActive | StOpenSent, StOpenSent
  | StOpenConfirm, StOpenConfirm | StEstablished, StEstablished => true
  | _, _ => false
  end.

Inductive tid := TConnectRetry | THold | TKeepAlive | TDelayOpen | TIdleHold.

(** BGPTimer: [t_dl] = deadline of the live DelayedCall, if any; [t_status] = the
    [status] attribute (stale after a timer has fired; [active()] sets it). *)
Record timer : Type := mkTimer { t_dl : option N; t_status : bool }.
Definition timer0 := mkTimer None false.

Record cfg : Type := mkCfg {
  cf_local_as : N; cf_remote_as : N;
  cf_hold : N; cf_ka : N; cf_retry : N; cf_idle_hold : N; cf_delay_open : N;  (* seconds *)
  cf_delay_open_on : bool;
  cf_bgp_id : N
}.

(** capability dictionaries (CONF.bgp.running_config['capability']) *)
Inductive capkey :=
| KFourBytesAs | KRouteRefresh | KCiscoRouteRefresh | KEnhancedRouteRefresh
| KGracefulRestart | KCiscoMultiSession | KAddPath | KAfiSafi | KExtNexthop | KLLGR
| KOther (code : N).
Definition capkey_num (k : capkey) : N :=
  match k with
  | KFourBytesAs => 0 | KRouteRefresh => 1 | KCiscoRouteRefresh => 2 | KEnhancedRouteRefresh => 3
  | KGracefulRestart => 4 | KCiscoMultiSession => 5 | KAddPath => 6 | KAfiSafi => 7
  | KExtNexthop => 8 | KLLGR => 9 | KOther c => 10 + c end.
Definition capkey_eqb (a b : capkey) : bool := capkey_num a =? capkey_num b.
(** value: truthiness / add-path mode (0 none,1 receive,2 send,3 both) / list of (afi,safi) *)
Inductive capval := CVBool (b : bool) | CVAddPath (m : N) | CVAfiSafi (l : list (N * N)) | CVOpaque.
Definition cap := (capkey * capval)%type.

(** one capability TLV as it appears in the OPEN the agent writes *)
Inductive capitem :=
| CiMp (afi safi : N) | CiCiscoRR | CiRR | CiAs4 (asn : N) | CiExtNh | CiAddPath (m : N) | CiEnhRR.

Inductive wmsg :=
| WOpen (asn hold bgpid : N) (caps : list capitem)
| WKeepalive
| WNotif (code sub : N) (data : bytes)
| WRouteRefresh (ty afi res safi : N)
| WRaw (b : bytes).

Inductive hcall :=
| HEstablished | HConnFailed | HConnLost | HSendOpen | HOpenReceived | HKeepalive
| HUpdate | HUpdateError | HNotification | HRouteRefresh (ty : N).

Inductive out :=
| OConnect (c : nat) | OWrite (c : nat) (m : wmsg) | OLose (c : nat) | OHandler (h : hcall)
| OExc    (* an exception no handler in yabgp catches *)
| OFuel.  (* model artefact: loop fuel exhausted (proved unreachable) *)

Inductive cst := CConnecting | CConnected | CFailed | CClosed.

Record stats : Type := mkStats { s_open : N; s_notif : N; s_upd : N; s_ka : N; s_rr : N }.
Definition stats0 := mkStats 0 0 0 0 0.

Record conn : Type := mkConn {
  c_st : cst;
  c_closing : bool;
  c_disc : bool;
  c_buf : bytes;
  c_asn4 : bool;
  c_ap_recv : bool;
  c_ap_send : bool;
  c_sent : stats;
  c_recv : stats
}.
Definition set_c_st (v : cst) (r : conn) : conn :=
  {| c_st := v; c_closing := c_closing r; c_disc := c_disc r; c_buf := c_buf r; c_asn4 := c_asn4 r; c_ap_recv := c_ap_recv r; c_ap_send := c_ap_send r; c_sent := c_sent r; c_recv := c_recv r |}.
Definition set_c_closing (v : bool) (r : conn) : conn :=
  {| c_st := c_st r; c_closing := v; c_disc := c_disc r; c_buf := c_buf r; c_asn4 := c_asn4 r; c_ap_recv := c_ap_recv r; c_ap_send := c_ap_send r; c_sent := c_sent r; c_recv := c_recv r |}.
Definition set_c_disc (v : bool) (r : conn) : conn :=
  {| c_st := c_st r; c_closing := c_closing r; c_disc := v; c_buf := c_buf r; c_asn4 := c_asn4 r; c_ap_recv := c_ap_recv r; c_ap_send := c_ap_send r; c_sent := c_sent r; c_recv := c_recv r |}.
Definition set_c_buf (v : bytes) (r : conn) : conn :=
  {| c_st := c_st r; c_closing := c_closing r; c_disc := c_disc r; c_buf := v; c_asn4 := c_asn4 r; c_ap_recv := c_ap_recv r; c_ap_send := c_ap_send r; c_sent := c_sent r; c_recv := c_recv r |}.
Definition set_c_asn4 (v : bool) (r : conn) : conn :=
  {| c_st := c_st r; c_closing := c_closing r; c_disc := c_disc r; c_buf := c_buf r; c_asn4 := v; c_ap_recv := c_ap_recv r; c_ap_send := c_ap_send r; c_sent := c_sent r; c_recv := c_recv r |}.
Definition set_c_ap_recv (v : bool) (r : conn) : conn :=
  {| c_st := c_st r; c_closing := c_closing r; c_disc := c_disc r; c_buf := c_buf r; c_asn4 := c_asn4 r; c_ap_recv := v; c_ap_send := c_ap_send r; c_sent := c_sent r; c_recv := c_recv r |}.
Definition set_c_ap_send (v : bool) (r : conn) : conn :=
  {| c_st := c_st r; c_closing := c_closing r; c_disc := c_disc r; c_buf := c_buf r; c_asn4 := c_asn4 r; c_ap_recv := c_ap_recv r; c_ap_send := v; c_sent := c_sent r; c_recv := c_recv r |}.
Definition set_c_sent (v : stats) (r : conn) : conn :=
  {| c_st := c_st r; c_closing := c_closing r; c_disc := c_disc r; c_buf := c_buf r; c_asn4 := c_asn4 r; c_ap_recv := c_ap_recv r; c_ap_send := c_ap_send r; c_sent := v; c_recv := c_recv r |}.
Definition set_c_recv (v : stats) (r : conn) : conn :=
  {| c_st := c_st r; c_closing := c_closing r; c_disc := c_disc r; c_buf := c_buf r; c_asn4 := c_asn4 r; c_ap_recv := c_ap_recv r; c_ap_send := c_ap_send r; c_sent := c_sent r; c_recv := v |}.
Record world : Type := mkW {
  w_cfg : cfg;
  w_state : bst;
  w_hold : N;
  w_ka3 : N;
  w_crc : N;
  w_auto : bool;
  w_proto : option nat;
  w_tcr : timer;
  w_th : timer;
  w_tka : timer;
  w_tdo : timer;
  w_tih : timer;
  w_conns : list conn;
  w_estab : option nat;
  w_status : bool;
  w_now : N;
  w_capl : list cap;
  w_capr : list cap;
  w_out : list out
}.
Definition set_w_cfg (v : cfg) (r : world) : world :=
  {| w_cfg := v; w_state := w_state r; w_hold := w_hold r; w_ka3 := w_ka3 r; w_crc := w_crc r; w_auto := w_auto r; w_proto := w_proto r; w_tcr := w_tcr r; w_th := w_th r; w_tka := w_tka r; w_tdo := w_tdo r; w_tih := w_tih r; w_conns := w_conns r; w_estab := w_estab r; w_status := w_status r; w_now := w_now r; w_capl := w_capl r; w_capr := w_capr r; w_out := w_out r |}.
Definition set_w_state (v : bst) (r : world) : world :=
  {| w_cfg := w_cfg r; w_state := v; w_hold := w_hold r; w_ka3 := w_ka3 r; w_crc := w_crc r; w_auto := w_auto r; w_proto := w_proto r; w_tcr := w_tcr r; w_th := w_th r; w_tka := w_tka r; w_tdo := w_tdo r; w_tih := w_tih r; w_conns := w_conns r; w_estab := w_estab r; w_status := w_status r; w_now := w_now r; w_capl := w_capl r; w_capr := w_capr r; w_out := w_out r |}.
Definition set_w_hold (v : N) (r : world) : world :=
  {| w_cfg := w_cfg r; w_state := w_state r; w_hold := v; w_ka3 := w_ka3 r; w_crc := w_crc r; w_auto := w_auto r; w_proto := w_proto r; w_tcr := w_tcr r; w_th := w_th r; w_tka := w_tka r; w_tdo := w_tdo r; w_tih := w_tih r; w_conns := w_conns r; w_estab := w_estab r; w_status := w_status r; w_now := w_now r; w_capl := w_capl r; w_capr := w_capr r; w_out := w_out r |}.
Definition set_w_ka3 (v : N) (r : world) : world :=
  {| w_cfg := w_cfg r; w_state := w_state r; w_hold := w_hold r; w_ka3 := v; w_crc := w_crc r; w_auto := w_auto r; w_proto := w_proto r; w_tcr := w_tcr r; w_th := w_th r; w_tka := w_tka r; w_tdo := w_tdo r; w_tih := w_tih r; w_conns := w_conns r; w_estab := w_estab r; w_status := w_status r; w_now := w_now r; w_capl := w_capl r; w_capr := w_capr r; w_out := w_out r |}.
Definition set_w_crc (v : N) (r : world) : world :=
  {| w_cfg := w_cfg r; w_state := w_state r; w_hold := w_hold r; w_ka3 := w_ka3 r; w_crc := v; w_auto := w_auto r; w_proto := w_proto r; w_tcr := w_tcr r; w_th := w_th r; w_tka := w_tka r; w_tdo := w_tdo r; w_tih := w_tih r; w_conns := w_conns r; w_estab := w_estab r; w_status := w_status r; w_now := w_now r; w_capl := w_capl r; w_capr := w_capr r; w_out := w_out r |}.
Definition set_w_auto (v : bool) (r : world) : world :=
  {| w_cfg := w_cfg r; w_state := w_state r; w_hold := w_hold r; w_ka3 := w_ka3 r; w_crc := w_crc r; w_auto := v; w_proto := w_proto r; w_tcr := w_tcr r; w_th := w_th r; w_tka := w_tka r; w_tdo := w_tdo r; w_tih := w_tih r; w_conns := w_conns r; w_estab := w_estab r; w_status := w_status r; w_now := w_now r; w_capl := w_capl r; w_capr := w_capr r; w_out := w_out r |}.
Definition set_w_proto (v : option nat) (r : world) : world :=
  {| w_cfg := w_cfg r; w_state := w_state r; w_hold := w_hold r; w_ka3 := w_ka3 r; w_crc := w_crc r; w_auto := w_auto r; w_proto := v; w_tcr := w_tcr r; w_th := w_th r; w_tka := w_tka r; w_tdo := w_tdo r; w_tih := w_tih r; w_conns := w_conns r; w_estab := w_estab r; w_status := w_status r; w_now := w_now r; w_capl := w_capl r; w_capr := w_capr r; w_out := w_out r |}.
Definition set_w_tcr (v : timer) (r : world) : world :=
  {| w_cfg := w_cfg r; w_state := w_state r; w_hold := w_hold r; w_ka3 := w_ka3 r; w_crc := w_crc r; w_auto := w_auto r; w_proto := w_proto r; w_tcr := v; w_th := w_th r; w_tka := w_tka r; w_tdo := w_tdo r; w_tih := w_tih r; w_conns := w_conns r; w_estab := w_estab r; w_status := w_status r; w_now := w_now r; w_capl := w_capl r; w_capr := w_capr r; w_out := w_out r |}.
Definition set_w_th (v : timer) (r : world) : world :=
  {| w_cfg := w_cfg r; w_state := w_state r; w_hold := w_hold r; w_ka3 := w_ka3 r; w_crc := w_crc r; w_auto := w_auto r; w_proto := w_proto r; w_tcr := w_tcr r; w_th := v; w_tka := w_tka r; w_tdo := w_tdo r; w_tih := w_tih r; w_conns := w_conns r; w_estab := w_estab r; w_status := w_status r; w_now := w_now r; w_capl := w_capl r; w_capr := w_capr r; w_out := w_out r |}.
Definition set_w_tka (v : timer) (r : world) : world :=
  {| w_cfg := w_cfg r; w_state := w_state r; w_hold := w_hold r; w_ka3 := w_ka3 r; w_crc := w_crc r; w_auto := w_auto r; w_proto := w_proto r; w_tcr := w_tcr r; w_th := w_th r; w_tka := v; w_tdo := w_tdo r; w_tih := w_tih r; w_conns := w_conns r; w_estab := w_estab r; w_status := w_status r; w_now := w_now r; w_capl := w_capl r; w_capr := w_capr r; w_out := w_out r |}.
Definition set_w_tdo (v : timer) (r : world) : world :=
  {| w_cfg := w_cfg r; w_state := w_state r; w_hold := w_hold r; w_ka3 := w_ka3 r; w_crc := w_crc r; w_auto := w_auto r; w_proto := w_proto r; w_tcr := w_tcr r; w_th := w_th r; w_tka := w_tka r; w_tdo := v; w_tih := w_tih r; w_conns := w_conns r; w_estab := w_estab r; w_status := w_status r; w_now := w_now r; w_capl := w_capl r; w_capr := w_capr r; w_out := w_out r |}.
Definition set_w_tih (v : timer) (r : world) : world :=
  {| w_cfg := w_cfg r; w_state := w_state r; w_hold := w_hold r; w_ka3 := w_ka3 r; w_crc := w_crc r; w_auto := w_auto r; w_proto := w_proto r; w_tcr := w_tcr r; w_th := w_th r; w_tka := w_tka r; w_tdo := w_tdo r; w_tih := v; w_conns := w_conns r; w_estab := w_estab r; w_status := w_status r; w_now := w_now r; w_capl := w_capl r; w_capr := w_capr r; w_out := w_out r |}.
Definition set_w_conns (v : list conn) (r : world) : world :=
  {| w_cfg := w_cfg r; w_state := w_state r; w_hold := w_hold r; w_ka3 := w_ka3 r; w_crc := w_crc r; w_auto := w_auto r; w_proto := w_proto r; w_tcr := w_tcr r; w_th := w_th r; w_tka := w_tka r; w_tdo := w_tdo r; w_tih := w_tih r; w_conns := v; w_estab := w_estab r; w_status := w_status r; w_now := w_now r; w_capl := w_capl r; w_capr := w_capr r; w_out := w_out r |}.
Definition set_w_estab (v : option nat) (r : world) : world :=
  {| w_cfg := w_cfg r; w_state := w_state r; w_hold := w_hold r; w_ka3 := w_ka3 r; w_crc := w_crc r; w_auto := w_auto r; w_proto := w_proto r; w_tcr := w_tcr r; w_th := w_th r; w_tka := w_tka r; w_tdo := w_tdo r; w_tih := w_tih r; w_conns := w_conns r; w_estab := v; w_status := w_status r; w_now := w_now r; w_capl := w_capl r; w_capr := w_capr r; w_out := w_out r |}.
Definition set_w_status (v : bool) (r : world) : world :=
  {| w_cfg := w_cfg r; w_state := w_state r; w_hold := w_hold r; w_ka3 := w_ka3 r; w_crc := w_crc r; w_auto := w_auto r; w_proto := w_proto r; w_tcr := w_tcr r; w_th := w_th r; w_tka := w_tka r; w_tdo := w_tdo r; w_tih := w_tih r; w_conns := w_conns r; w_estab := w_estab r; w_status := v; w_now := w_now r; w_capl := w_capl r; w_capr := w_capr r; w_out := w_out r |}.
Definition set_w_now (v : N) (r : world) : world :=
  {| w_cfg := w_cfg r; w_state := w_state r; w_hold := w_hold r; w_ka3 := w_ka3 r; w_crc := w_crc r; w_auto := w_auto r; w_proto := w_proto r; w_tcr := w_tcr r; w_th := w_th r; w_tka := w_tka r; w_tdo := w_tdo r; w_tih := w_tih r; w_conns := w_conns r; w_estab := w_estab r; w_status := w_status r; w_now := v; w_capl := w_capl r; w_capr := w_capr r; w_out := w_out r |}.
Definition set_w_capl (v : list cap) (r : world) : world :=
  {| w_cfg := w_cfg r; w_state := w_state r; w_hold := w_hold r; w_ka3 := w_ka3 r; w_crc := w_crc r; w_auto := w_auto r; w_proto := w_proto r; w_tcr := w_tcr r; w_th := w_th r; w_tka := w_tka r; w_tdo := w_tdo r; w_tih := w_tih r; w_conns := w_conns r; w_estab := w_estab r; w_status := w_status r; w_now := w_now r; w_capl := v; w_capr := w_capr r; w_out := w_out r |}.
Definition set_w_capr (v : list cap) (r : world) : world :=
  {| w_cfg := w_cfg r; w_state := w_state r; w_hold := w_hold r; w_ka3 := w_ka3 r; w_crc := w_crc r; w_auto := w_auto r; w_proto := w_proto r; w_tcr := w_tcr r; w_th := w_th r; w_tka := w_tka r; w_tdo := w_tdo r; w_tih := w_tih r; w_conns := w_conns r; w_estab := w_estab r; w_status := w_status r; w_now := w_now r; w_capl := w_capl r; w_capr := v; w_out := w_out r |}.
Definition set_w_out (v : list out) (r : world) : world :=
  {| w_cfg := w_cfg r; w_state := w_state r; w_hold := w_hold r; w_ka3 := w_ka3 r; w_crc := w_crc r; w_auto := w_auto r; w_proto := w_proto r; w_tcr := w_tcr r; w_th := w_th r; w_tka := w_tka r; w_tdo := w_tdo r; w_tih := w_tih r; w_conns := w_conns r; w_estab := w_estab r; w_status := w_status r; w_now := w_now r; w_capl := w_capl r; w_capr := w_capr r; w_out := v |}.

Definition secs (x : N) : N := 3 * x.

Definition cst_eqb (a b : cst) : bool :=
  match a, b with
  | CConnecting, CConnecting | CConnected, CConnected | CFailed, CFailed | CClosed, CClosed => true
  | _, _ => false
  end.

Definition is_some {A} (o : option A) : bool := match o with Some _ => true | None => false end.

(** ---- outputs (most recent first) ---- *)
Definition emit (o : out) (w : world) : world := set_w_out (o :: w_out w) w.

(** ---- timers ---- *)
Definition get_tm (t : tid) (w : world) : timer :=
  match t with
  | TConnectRetry => w_tcr w | THold => w_th w | TKeepAlive => w_tka w
  | TDelayOpen => w_tdo w | TIdleHold => w_tih w
  end.
Definition set_tm (t : tid) (v : timer) (w : world) : world :=
  match t with
  | TConnectRetry => set_w_tcr v w | THold => set_w_th v w | TKeepAlive => set_w_tka v w
  | TDelayOpen => set_w_tdo v w | TIdleHold => set_w_tih v w
  end.

(** BGPTimer.cancel: only a live delayed call is cancelled and only then status := False *)
Definition cancel_timer (tm : timer) : timer :=
  match t_dl tm with Some _ => mkTimer None false | None => tm end.
Definition tm_cancel (t : tid) (w : world) : world := set_tm t (cancel_timer (get_tm t w)) w.
(** BGPTimer.reset: status := True; move the live call or schedule a new one *)
Definition tm_reset (t : tid) (d3 : N) (w : world) : world :=
  set_tm t (mkTimer (Some (w_now w + d3)) true) w.
(** BGPTimer.active(): status := True (sic); is there a live call? *)
Definition tm_active (t : tid) (w : world) : bool * world :=
  (is_some (t_dl (get_tm t w)), set_tm t (mkTimer (t_dl (get_tm t w)) true) w).
Definition tm_status (t : tid) (w : world) : bool := t_status (get_tm t w).

(** ---- FSM fields ---- *)
Definition st_is (w : world) (s : bst) : bool := bst_eqb (w_state w) s.
Definition st_in (w : world) (l : list bst) : bool := existsb (bst_eqb (w_state w)) l.

(** FSM.__setattr__('state', v): reports on_established when the value changes to Established *)
Definition set_state (s : bst) (w : world) : world :=
  if bst_eqb s (w_state w) then w
  else match s with
       | StEstablished => emit (OHandler HEstablished) (set_w_state s w)
       | _ => set_w_state s w
       end.

(** ---- connections ---- *)
Definition conn0 : conn := mkConn CConnecting false false [] false false false stats0 stats0.

Fixpoint upd_nth {A} (i : nat) (f : A -> A) (l : list A) : list A :=
  match l, i with
  | [], _ => []
  | x :: r, O => f x :: r
  | x :: r, S i' => x :: upd_nth i' f r
  end.
Definition upd_conn (c : nat) (f : conn -> conn) (w : world) : world :=
  set_w_conns (upd_nth c f (w_conns w)) w.
Definition get_conn (c : nat) (w : world) : conn := nth c (w_conns w) conn0.
Definition conn_connected (c : nat) (w : world) : bool :=
  match nth_error (w_conns w) c with
  | Some k => cst_eqb (c_st k) CConnected
  | None => false
  end.

(** transport.write: bytes reach the wire only while the transport is connected
    (Twisted drops writes on a disconnected transport) *)
Definition conn_write (c : nat) (m : wmsg) (w : world) : world :=
  if conn_connected c w then emit (OWrite c m) w else w.

(** transport.loseConnection: first call starts the close (and stops reading) *)
Definition lose_conn (k : conn) : conn := set_c_disc true (set_c_closing true k).
Definition conn_close (c : nat) (w : world) : world :=
  if conn_connected c w then
    let w := if c_closing (get_conn c w) then w else emit (OLose c) w in
    upd_conn c lose_conn w
  else w.

Definition bump_open (s : stats) := mkStats (s_open s + 1) (s_notif s) (s_upd s) (s_ka s) (s_rr s).
Definition bump_notif (n : N) (s : stats) := mkStats (s_open s) (s_notif s + n) (s_upd s) (s_ka s) (s_rr s).
Definition bump_upd (s : stats) := mkStats (s_open s) (s_notif s) (s_upd s + 1) (s_ka s) (s_rr s).
Definition bump_ka (s : stats) := mkStats (s_open s) (s_notif s) (s_upd s) (s_ka s + 1) (s_rr s).
Definition bump_rr (s : stats) := mkStats (s_open s) (s_notif s) (s_upd s) (s_ka s) (s_rr s + 1).
Definition on_sent (f : stats -> stats) (k : conn) : conn := set_c_sent (f (c_sent k)) k.
Definition on_recv (f : stats -> stats) (k : conn) : conn := set_c_recv (f (c_recv k)) k.

(** ---- capability dictionaries ---- *)
Definition cap_has (k : capkey) (d : list cap) : bool := existsb (fun e => capkey_eqb (fst e) k) d.
Fixpoint cap_get (k : capkey) (d : list cap) : option capval :=
  match d with
  | [] => None
  | (k', v) :: r => if capkey_eqb k' k then Some v else cap_get k r
  end.
Definition capval_truthy (v : capval) : bool :=
  match v with
  | CVBool b => b
  | CVAddPath m => negb (m =? 0)
  | CVAfiSafi l => match l with [] => false | _ => true end
  | CVOpaque => true
  end.
Definition cap_truthy (k : capkey) (d : list cap) : bool :=
  match cap_get k d with Some v => capval_truthy v | None => false end.

(** BGP.capability_negotiate: once a peer OPEN has been seen, every local capability the
    peer did not advertise is POPPED from the process-wide configuration *)
Definition capability_negotiate (w : world) : world :=
  match w_capr w with
  | [] => w
  | _ => set_w_capl (filter (fun e => cap_has (fst e) (w_capr w)) (w_capl w)) w
  end.

Definition c_AS_TRANS : N := 23456.

(** Open.construct: which capability TLVs go into the OPEN and in which order *)
Definition open_caps (asn : N) (d : list cap) : list capitem :=
  (match cap_get KAfiSafi d with
   | Some (CVAfiSafi l) => map (fun p => CiMp (fst p) (snd p)) l
   | _ => []
   end)
  ++ (if cap_truthy KCiscoRouteRefresh d then [CiCiscoRR] else [])
  ++ (if cap_truthy KRouteRefresh d then [CiRR] else [])
  ++ (if 65535 <? asn then [CiAs4 asn] else if cap_truthy KFourBytesAs d then [CiAs4 asn] else [])
  ++ (if cap_has KExtNexthop d then [CiExtNh] else [])
  ++ (match cap_get KAddPath d with
      | Some (CVAddPath m) => if m =? 0 then [] else [CiAddPath m]
      | _ => []
      end)
  ++ (if cap_truthy KEnhancedRouteRefresh d then [CiEnhRR] else []).
Definition open_asn_field (asn : N) : N := if 65535 <? asn then c_AS_TRANS else asn.

(** ---- BGP protocol methods, on connection [c] ---- *)
Definition conn_send_keepalive (c : nat) (w : world) : world :=
  conn_write c WKeepalive (upd_conn c (on_sent bump_ka) w).

(** [notif_bump]: how many times send_notification increments the counter (generated from
    the source by the translator: see gen/Consts.v) *)
Definition conn_send_notification (bump : N) (c : nat) (code sub : N) (data : bytes) (w : world) : world :=
  conn_write c (WNotif code sub data) (upd_conn c (on_sent (bump_notif bump)) w).

Definition conn_send_open (c : nat) (w : world) : world :=
  let w := capability_negotiate w in
  let asn := cf_local_as (w_cfg w) in
  let w := conn_write c (WOpen (open_asn_field asn) (w_hold w) (cf_bgp_id (w_cfg w)) (open_caps asn (w_capl w))) w in
  let w := upd_conn c (on_sent bump_open) w in
  emit (OHandler HSendOpen) w.

(** BGPPeering.connect: reactor.connectTCP unless Established *)
Definition peering_connect (w : world) : world :=
  if st_is w StEstablished then w
  else emit (OConnect (length (w_conns w))) (set_w_conns (w_conns w ++ [conn0]) w).
