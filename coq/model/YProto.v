(** What the FSM calls on [self.protocol] (yabgp/core/protocol.py), lifted to "the connection
    the FSM is tracking".  A call through [self.protocol = None] is an AttributeError that no
    yabgp code catches on these paths: output [OExc]. *)
From YV Require Import lib.Base model.YWorld.

Definition with_proto (f : nat -> world -> world) (w : world) : world :=
  match w_proto w with
  | Some c => f c w
  | None => emit OExc w
  end.

Definition p_send_open : world -> world := with_proto conn_send_open.
Definition p_send_keepalive : world -> world := with_proto conn_send_keepalive.
Definition p_send_notification (code sub : N) (data : bytes) : world -> world :=
  with_proto (fun c => conn_send_notification 1 c code sub data).
Definition p_close_connection : world -> world := with_proto conn_close.

(** FSM.__init__ / BGPPeering.__init__ *)
Definition world0 (cf : cfg) (capl : list cap) : world :=
  mkW cf StIdle (cf_hold cf) (secs (cf_ka cf)) 0 true None
      timer0 timer0 timer0 timer0 timer0
      [] None false 0 capl [] [].
