(** The names Open.parse puts into the 'add_path' entries of the capability dictionary
    (yabgp/message/open.py, branch (8)):

        {'afi_safi': bgp_cons.AFI_SAFI_DICT[(afi, safi)], 'send/receive': bgp_cons.ADD_PATH_ACT_DICT[send_rev]}

    YOpen.v keeps an entry as (afi, safi, code) — the dictionary KEYS — and [afi_safi_known] /
    [add_path_act_known] only say which keys exist.  This file adds the VALUES: the two
    dictionaries of yabgp/common/constants.py as they are in /repo (dictionaries are not in
    gen/Consts.v; c14_open.py compares them, keys and names, with the live module on every run),
    and the rendering of a parse result with the names spelled out.  Names are ASCII octet
    strings.  Nothing of YOpen.v is changed. *)
From YV Require Import lib.Base gen.Consts model.YMsg model.YOpen.
From Coq Require Import String Ascii.

Definition py_str (s : string) : bytes := List.map N_of_ascii (list_ascii_of_string s).

Local Open Scope string_scope.

(** constants.AFI_SAFI_DICT, in source order *)
Definition afi_safi_dict : list ((N * N) * bytes) :=
  [((1, 1), py_str "ipv4");
   ((1, 2), py_str "ipv4_mcast");
   ((2, 1), py_str "ipv6");
   ((1, 4), py_str "ipv4_lu");
   ((2, 4), py_str "ipv6_lu");
   ((1, 133), py_str "flowspec");
   ((1, 128), py_str "vpnv4");
   ((2, 128), py_str "vpnv6");
   ((25, 70), py_str "evpn");
   ((16388, 71), py_str "bgpls");
   ((1, 73), py_str "ipv4_srte");
   ((2, 133), py_str "ipv6_flowspec")].

(** constants.ADD_PATH_ACT_DICT *)
Definition add_path_act_dict : list (N * bytes) :=
  [(1, py_str "receive"); (2, py_str "send"); (3, py_str "both")].

Local Close Scope string_scope.

(** [AFI_SAFI_DICT[(afi, safi)]] / [ADD_PATH_ACT_DICT[v]]; [None] = KeyError *)
Fixpoint afi_safi_get (l : list ((N * N) * bytes)) (k : N * N) : option bytes :=
  match l with
  | [] => None
  | (k', v) :: r => if pair_eqb k' k then Some v else afi_safi_get r k
  end.
Fixpoint act_get (l : list (N * bytes)) (k : N) : option bytes :=
  match l with
  | [] => None
  | (k', v) :: r => if k' =? k then Some v else act_get r k
  end.

(** the two strings of one 'add_path' entry *)
Definition addpath_entry_names (e : N * N * N) : option (bytes * bytes) :=
  match afi_safi_get afi_safi_dict (fst e), act_get add_path_act_dict (snd e) with
  | Some a, Some b => Some (a, b)
  | _, _ => None
  end.

(** capa_dict['add_path'] as the Python value: the list of (family name, mode name) *)
Definition cd_add_path_named (d : capa_dict) : option (list (option (bytes * bytes))) :=
  match cd_add_path d with
  | Some l => Some (List.map addpath_entry_names l)
  | None => None
  end.

(* ------------------------------------------------------------------------------------- *)
(** * rendering for the correspondence check: as YOpen.sx_open_parse, 'add_path' entries by name *)
Definition sx_named_entry (e : N * N * N) : sx :=
  match addpath_entry_names e with
  | Some (a, b) => SL [SB a; SB b]
  | None => SL [SN 999]
  end.
Definition sx_capa_dict_n (d : capa_dict) : sx :=
  SL [sx_bool (cd_four d); sx_optlist sx_pair (cd_afi_safi d); sx_bool (cd_rr d); sx_bool (cd_cisco_rr d);
      sx_bool (cd_gr d); sx_bool (cd_cisco_ms d); sx_bool (cd_err d); sx_optlist sx_named_entry (cd_add_path d);
      sx_optlist sx_triple (cd_llgr d); sx_optlist sx_triple (cd_ext_nh d);
      SL (List.map (fun p => SL [SN (fst p); SB (snd p)]) (cd_other d))].
Definition sx_open_msg_n (o : open_msg) : sx :=
  SL [SN (o_version o); SN (o_asn o); SN (o_hold o); SN (o_id o); sx_capa_dict_n (o_caps o)].
Definition sx_open_parse_n (r : open_msg * option open_msg) : sx :=
  SL [sx_open_msg_n (fst r); sx_opt sx_open_msg_n (snd r)].

(** the two dictionaries, items in order (compared with the live constants module) *)
Definition sx_const_names : sx :=
  SL [SL (List.map (fun p => SL [SN (fst (fst p)); SN (snd (fst p)); SB (snd p)]) afi_safi_dict);
      SL (List.map (fun p => SL [SN (fst p); SB (snd p)]) add_path_act_dict)].
