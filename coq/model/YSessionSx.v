(** Canonical rendering of the session world and its outputs for the correspondence check,
    and finite-table decoders (the harness fills the tables from the real decoders). *)
From YV Require Import lib.Base model.YWorld model.YProto gen.Consts gen.FsmGen model.YSession.

Definition sx_timer (t : timer) : sx := SL [sx_opt SN (t_dl t); sx_bool (t_status t)].
Definition sx_stats (s : stats) : sx := SL [SN (s_open s); SN (s_notif s); SN (s_upd s); SN (s_ka s); SN (s_rr s)].
Definition cst_num (s : cst) : N := match s with CConnecting => 0 | CConnected => 1 | CFailed => 2 | CClosed => 3 end.
Definition sx_conn (k : conn) : sx :=
  SL [SN (cst_num (c_st k)); sx_bool (c_closing k); sx_bool (c_disc k); SB (c_buf k);
      sx_bool (c_asn4 k); sx_bool (c_ap_recv k); sx_bool (c_ap_send k);
      sx_stats (c_sent k); sx_stats (c_recv k)].
Definition sx_capval (v : capval) : sx :=
  match v with
  | CVBool b => SL [SN 0; sx_bool b]
  | CVAddPath m => SL [SN 1; SN m]
  | CVAfiSafi l => SL [SN 2; SL (map (fun p => SL [SN (fst p); SN (snd p)]) l)]
  | CVOpaque => SL [SN 3]
  end.
Definition sx_cap (e : cap) : sx := SL [SN (capkey_num (fst e)); sx_capval (snd e)].

Definition sx_world (w : world) : sx :=
  SL [SN (bst_num (w_state w)); SN (w_hold w); SN (w_ka3 w); SN (w_crc w); sx_bool (w_auto w);
      sx_opt sx_nat (w_proto w);
      SL [sx_timer (w_tcr w); sx_timer (w_th w); sx_timer (w_tka w); sx_timer (w_tdo w); sx_timer (w_tih w)];
      SL (map sx_conn (w_conns w)); sx_opt sx_nat (w_estab w); sx_bool (w_status w); SN (w_now w);
      SL (map sx_cap (w_capl w)); SL (map sx_cap (w_capr w))].

Definition sx_capitem (c : capitem) : sx :=
  match c with
  | CiMp afi safi => SL [SN 1; SB (be 2 afi ++ [0; safi])]
  | CiCiscoRR => SL [SN 128; SB []]
  | CiRR => SL [SN 2; SB []]
  | CiAs4 asn => SL [SN 65; SB (be 4 asn)]
  | CiExtNh => SL [SN 5]
  | CiAddPath m => SL [SN 69; SB [0; 1; 1; m]]
  | CiEnhRR => SL [SN 70; SB []]
  end.
Definition sx_wmsg (m : wmsg) : sx :=
  match m with
  | WOpen asn hold id caps => SL [SN 1; SN asn; SN hold; SN id; SL (map sx_capitem caps)]
  | WKeepalive => SL [SN 4]
  | WNotif c s d => SL [SN 3; SN c; SN s; SB d]
  | WRouteRefresh ty afi res safi => SL [SN ty; SN afi; SN res; SN safi]
  | WRaw b => SL [SN 2; SB b]
  end.
Definition hcall_num (h : hcall) : N :=
  match h with
  | HEstablished => 0 | HConnFailed => 1 | HConnLost => 2 | HSendOpen => 3 | HOpenReceived => 4
  | HKeepalive => 5 | HUpdate => 6 | HUpdateError => 7 | HNotification => 8
  | HRouteRefresh ty => 100 + ty
  end.
Definition sx_out (o : out) : sx :=
  match o with
  | OConnect c => SL [SN 0; sx_nat c]
  | OWrite c m => SL [SN 1; sx_nat c; sx_wmsg m]
  | OLose c => SL [SN 2; sx_nat c]
  | OHandler h => SL [SN 3; SN (hcall_num h)]
  | OExc => SL [SN 4]
  | OFuel => SL [SN 5]
  end.

(** finite-table decoders *)
Fixpoint tbl_get {A} (t : list (bytes * A)) (d : A) (b : bytes) : A :=
  match t with
  | [] => d
  | (k, v) :: r => if bytes_eqb k b then v else tbl_get r d b
  end.
Definition tbl_dec (to : list (bytes * open_res)) (tu4 tu2 : list (bytes * upd_res)) : decoders :=
  mkDec (tbl_get to OpExc) (fun asn4 => if asn4 then tbl_get tu4 UpExc else tbl_get tu2 UpExc).

Section Trace.
Variable D : decoders.
(** per step: [enabled?; outputs (oldest first); state after] *)
Fixpoint trace_sx (w : world) (es : list event) : list sx :=
  match es with
  | [] => []
  | e :: r =>
      let w' := step D w e in
      SL [sx_bool (enabled w e); SL (map sx_out (rev (w_out w'))); sx_world w'] :: trace_sx w' r
  end.
End Trace.

Fixpoint first_diff_from (i : N) (a b : list sx) : option N :=
  match a, b with
  | [], [] => None
  | x :: a', y :: b' => if sx_eqb x y then first_diff_from (i + 1) a' b' else Some i
  | _, _ => Some i
  end.
(** for every trace: where (if anywhere) model and implementation first differ *)
Fixpoint trace_diffs_from (i : N) (l : list (list sx * list sx)) : list (N * N) :=
  match l with
  | [] => []
  | (a, b) :: r =>
      match first_diff_from 0 a b with
      | None => trace_diffs_from (i + 1) r
      | Some j => (i, j) :: trace_diffs_from (i + 1) r
      end
  end.
