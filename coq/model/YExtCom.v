(** yabgp/message/attribute/extcommunity.py: ExtCommunity.parse (octets -> list of text) and
    ExtCommunity.construct (list of [code, value...] items -> attribute octets).

    Modelled with the proposed repair build/proposed/c17-traffic-action-decode.diff applied
    (parse_bit(ord(value_tmp[-1:])) instead of ord(value_tmp[-1]), which raises on Python 3).

    The name table BGP_EXT_COM_STR_DICT is a hand copy; harness/props/c17.py compares it with
    the live dictionary on every run.  Text is ASCII, [str = list N]. *)
From Coq Require Import String ZArith.
From YV Require Import lib.Base lib.Dec gen.Consts.
Open Scope N_scope.

Inductive pres (A : Type) := Ok (a : A) | Err (sub : N) | Exc.
Arguments Ok {A} a. Arguments Err {A} sub. Arguments Exc {A}.

Definition obind {A B} (o : option A) (f : A -> option B) : option B :=
  match o with Some a => f a | None => None end.
Notation "x <- e ;; k" := (obind e (fun x => k)) (at level 61, e at next level, right associativity).
Definition of_opt {A} (o : option A) : pres A := match o with Some a => Ok a | None => Exc end.

Fixpoint assoc_n {A} (k : N) (l : list (N * A)) : option A :=
  match l with [] => None | (k', v) :: r => if k =? k' then Some v else assoc_n k r end.
Fixpoint assoc_s {A} (k : str) (l : list (str * A)) : option A :=
  match l with [] => None | (k', v) :: r => if str_eqb k k' then Some v else assoc_s k r end.

(** constants.BGP_EXT_COM_STR_DICT *)
Definition ext_com_str_dict : list (N * str) :=
  [ (258, codes "route-target"); (2, codes "route-target"); (514, codes "route-target");
    (779, codes "color"); (16388, codes "dmzlink-bw");
    (259, codes "route-origin"); (515, codes "route-origin"); (3, codes "route-origin");
    (32776, codes "redirect-vrf"); (2048, codes "redirect-nexthop");
    (1537, codes "esi-label"); (1536, codes "mac-mobility");
    (32777, codes "traffic-marking-dscp"); (32774, codes "traffic-rate");
    (51052544, codes "color-00"); (51068928, codes "color-01"); (51085312, codes "color-10");
    (51101696, codes "color-11"); (780, codes "encapsulation"); (1538, codes "es-import");
    (1539, codes "router-mac"); (32775, codes "traffic-action") ].

(** * IEEE 754 binary32 <-> Python int (struct '!f' and int(float)) *)
(** int(struct.unpack('!f', w)): None = ValueError (NaN) / OverflowError (infinity) *)
Definition f32_to_int (w : N) : option Z :=
  let sign := w / 2147483648 in
  let e := (w / 8388608) mod 256 in
  let f := w mod 8388608 in
  if e =? 255 then None
  else
    let mag := if e =? 0 then 0
               else let m := 8388608 + f in
                    if 150 <=? e then m * 2 ^ (e - 150) else m / 2 ^ (150 - e) in
    Some (if sign =? 1 then Z.opp (Z.of_N mag) else Z.of_N mag).

(** nearest integer with at most [p] significant bits, ties to even *)
Definition round_bits (p : N) (n : N) : N :=
  let e := N.log2 n in
  if e <? p then n
  else
    let sh := e + 1 - p in
    let q := n / 2 ^ sh in
    let r := n mod 2 ^ sh in
    let half := 2 ^ (sh - 1) in
    (if (half <? r) || ((r =? half) && N.odd q) then q + 1 else q) * 2 ^ sh.

(** struct.pack('!f', n) for a Python int n: CPython converts the int to a double (53 bits,
    ties to even) and the double to binary32 (24 bits, ties to even); None = OverflowError *)
Definition int_to_f32 (z : Z) : option N :=
  let sign := if (z <? 0)%Z then 1 else 0 in
  let n := round_bits 24 (round_bits 53 (Z.to_N (Z.abs z))) in
  if n =? 0 then Some 0
  else
    let e := N.log2 n in
    if 128 <=? e then None
    else
      let q := if e <=? 23 then n * 2 ^ (23 - e) else n / 2 ^ (e - 23) in
      Some (sign * 2147483648 + (e + 127) * 8388608 + (q - 8388608)).

(** * parse *)
Inductive ectext := Txt (s : str) | Unk (v : bytes).

Definition colon (a b : str) : str := a ++ 58 :: b.

(** str(netaddr.EUI(n)) for a 6-octet value / str(netaddr.IPAddress(n)) for a 4-octet one *)
Definition mac_text (v : bytes) : str := show_mac v.
Definition ip_text (v : bytes) : str := show_ip4 (unbe v).

Definition bit (n k : N) : N := (n / 2 ^ k) mod 2.

(** text of the value octets [v] (6 octets) under the name [nm], by layout *)
Definition txt_as2 (v : bytes) (nm : str) : option str :=
  Some (colon nm (colon (show_dec (unbe (take 2 v))) (show_dec (unbe (drop 2 v))))).
Definition txt_ip4 (v : bytes) (nm : str) : option str :=
  Some (colon nm (colon (ip_text (take 4 v)) (show_dec (unbe (drop 4 v))))).
Definition txt_as4 (v : bytes) (nm : str) : option str :=
  Some (colon nm (colon (show_dec (unbe (take 4 v))) (show_dec (unbe (drop 4 v))))).
Definition txt_rate (v : bytes) (nm : str) : option str :=
  match f32_to_int (unbe (drop 2 v)) with
  | Some r => Some (colon nm (colon (show_dec (unbe (take 2 v))) (show_z r)))
  | None => None
  end.
Definition txt_action (v : bytes) (nm : str) : option str :=
  let last := nth 5 v 0 in
  Some (colon nm (codes "S:" ++ show_dec (bit last 1) ++ codes ",T:" ++ show_dec (bit last 0))).
Definition txt_last (v : bytes) (nm : str) : option str := Some (colon nm (show_dec (nth 5 v 0))).
Definition txt_low4 (v : bytes) (nm : str) : option str := Some (colon nm (show_dec (unbe (drop 2 v)))).
Definition txt_mac (v : bytes) (nm : str) : option str := Some (colon nm (mac_text v)).
Definition txt_mobility (v : bytes) (nm : str) : option str :=
  Some (colon nm (colon (show_dec (nth 0 v 0)) (show_dec (unbe (drop 2 v))))).
Definition txt_esi (v : bytes) (nm : str) : option str :=
  Some (colon nm (colon (show_dec (nth 0 v 0)) (show_dec (unbe (drop 3 v) / 16)))).

(** BGP_EXT_COM_STR_DICT[comm_code] (KeyError when absent), then the format *)
Definition named (code : N) (k : str -> option str) : pres ectext :=
  match assoc_n code ext_com_str_dict with
  | None => Exc
  | Some nm => match k nm with Some t => Ok (Txt t) | None => Exc end
  end.

(** the if/elif chain of parse on the type code [code] and the 6 value octets [v] *)
Definition ec_parse_code (code : N) (v : bytes) : pres ectext :=
  if code =? c_BGP_EXT_COM_RT_0 then named code (txt_as2 v)
  else if code =? c_BGP_EXT_COM_RT_1 then named code (txt_ip4 v)
  else if code =? c_BGP_EXT_COM_RT_2 then named code (txt_as4 v)
  else if code =? c_BGP_EXT_COM_RO_0 then named code (txt_as2 v)
  else if code =? c_BGP_EXT_COM_RO_1 then named code (txt_ip4 v)
  else if code =? c_BGP_EXT_COM_RO_2 then named code (txt_as4 v)
  else if code =? c_BGP_EXT_REDIRECT_NH then named code (txt_ip4 v)
  else if code =? c_BGP_EXT_TRA_RATE then named code (txt_rate v)
  else if code =? c_BGP_EXT_TRA_ACTION then named code (txt_action v)
  else if code =? c_BGP_EXT_REDIRECT_VRF then named code (txt_as2 v)
  else if code =? c_BGP_EXT_TRA_MARK then named code (txt_last v)
  else if code =? c_BGP_EXT_COM_ENCAP then named code (txt_low4 v)
  else if code =? c_BGP_EXT_COM_COLOR then named code (txt_low4 v)
  else if code =? c_BGP_EXT_COM_EVPN_ES_IMPORT then named code (txt_mac v)
  else if code =? c_BGP_EXT_COM_EVPN_MAC_MOBIL then named code (txt_mobility v)
  else if code =? c_BGP_EXT_COM_EVPN_ESI_MPLS_LABEL then named code (txt_esi v)
  else if code =? c_BGP_EXT_COM_EVPN_ROUTE_MAC then named code (txt_mac v)
  else if code =? c_BGP_EXT_COM_LINK_BW then named code (txt_as2 v)
  else Ok (Unk v).

(** one 8-octet community *)
Definition ec_parse1 (g : bytes) : pres ectext := ec_parse_code (unbe (take 2 g)) (drop 2 g).

Fixpoint ec_parse_groups (fuel : nat) (b : bytes) : pres (list ectext) :=
  match b with
  | [] => Ok []
  | _ => match fuel with
         | O => Exc
         | S fuel' =>
             match ec_parse1 (take 8 b) with
             | Ok t => match ec_parse_groups fuel' (drop 8 b) with
                       | Ok r => Ok (t :: r) | Err s => Err s | Exc => Exc end
             | Err s => Err s
             | Exc => Exc
             end
         end
  end.

(** ExtCommunity.parse(value) *)
Definition ec_parse (b : bytes) : pres (list ectext) :=
  if (len b) mod 8 =? 0 then ec_parse_groups (length b) b else Err c_ERR_MSG_UPDATE_ATTR_LEN.

(** * construct *)
Inductive item :=
| ItS (code : N) (s : str)               (* [code, 'text'] *)
| ItI (code : N) (n : Z)                 (* [code, int] *)
| ItSI (code : N) (s : str) (n : Z)      (* [code, 'text', int] *)
| ItII (code : N) (a b : Z)              (* [code, int, int] *)
| ItD (code : N) (s t : option Z).       (* [code, {'s': .., 't': ..}] *)

Definition item_code (i : item) : N :=
  match i with ItS c _ | ItI c _ | ItSI c _ _ | ItII c _ _ | ItD c _ _ => c end.

(** struct.pack of one unsigned big-endian field of k octets: struct.error out of range *)
Definition pack (k : nat) (z : Z) : option bytes :=
  if ((0 <=? z) && (z <? 256 ^ Z.of_nat k))%Z then Some (be k (Z.to_N z)) else None.
Definition packn (k : nat) (n : N) : option bytes := pack k (Z.of_N n).

(** "a, b = s.split(':')" *)
Definition two_parts (s : str) : option (str * str) :=
  match split_on 58 s with [a; b] => Some (a, b) | _ => None end.

(** construct_mac: exactly six '-' groups, each int(g, 16) packed as one octet *)
Definition mac_octets (s : str) : option bytes :=
  l <- parse_mac_parts s ;;
  if Nat.eqb (length l) 6 then
    r <- map_opt (pack 1) l ;;
    Some (concat r)
  else None.

(** the struct.pack lines of construct, by layout; [k] is the type-code constant packed first *)
Definition ec_as2 (k : N) (s : str) : option bytes :=
  p <- two_parts s ;; h <- packn 2 k ;; a <- obind (py_int (fst p)) (pack 2) ;;
  n <- obind (py_int (snd p)) (pack 4) ;; Some (h ++ a ++ n).
Definition ec_as4 (k : N) (s : str) : option bytes :=
  p <- two_parts s ;; h <- packn 2 k ;; a <- obind (py_int (fst p)) (pack 4) ;;
  n <- obind (py_int (snd p)) (pack 2) ;; Some (h ++ a ++ n).
Definition ec_ip4 (k : N) (s : str) : option bytes :=
  p <- two_parts s ;; h <- packn 2 k ;; a <- obind (parse_ip4 (fst p)) (packn 4) ;;
  n <- obind (py_int (snd p)) (pack 2) ;; Some (h ++ a ++ n).
Definition ec_opaque4 (k : N) (s : str) : option bytes :=
  h <- packn 2 k ;; n <- obind (py_int s) (pack 4) ;; Some (h ++ [0; 0] ++ n).
Definition ec_color_x (k : N) (s : str) : option bytes :=
  h <- packn 4 k ;; n <- obind (py_int s) (pack 4) ;; Some (h ++ n).
Definition ec_mac (k : N) (s : str) : option bytes := h <- packn 2 k ;; m <- mac_octets s ;; Some (h ++ m).
Definition ec_nh (k : N) (s : str) (n : Z) : option bytes :=
  a <- obind (parse_ip4 s) (packn 4) ;; f <- pack 2 n ;; h <- packn 2 k ;; Some (h ++ a ++ f).
Definition ec_last (k : N) (n : Z) : option bytes :=
  h <- packn 2 k ;; m <- pack 1 n ;; Some (h ++ [0; 0; 0; 0; 0] ++ m).
Definition ec_rate (k : N) (s : str) : option bytes :=
  p <- two_parts s ;; h <- packn 2 k ;; a <- obind (py_int (fst p)) (pack 2) ;;
  r <- obind (py_int (snd p)) int_to_f32 ;; Some (h ++ a ++ be 4 r).
Definition ec_esi (k : N) (a b : Z) : option bytes :=
  h <- packn 2 k ;; f <- pack 1 a ;; l <- pack 4 (b * 16 + 1)%Z ;; Some (h ++ f ++ [0; 0] ++ drop 1 l).
Definition ec_mobility (k : N) (a b : Z) : option bytes :=
  h <- packn 2 k ;; f <- pack 1 a ;; q <- pack 4 b ;; Some (h ++ f ++ [0] ++ q).
Definition ec_action (k : N) (s t : option Z) : option bytes :=
  let sv := match s with Some x => x | None => 0%Z end in
  let tv := match t with Some x => x | None => 0%Z end in
  ec_last k (sv * 2 + tv)%Z.

(** the octets one item contributes; [Some []] = unknown type (warning only), None = exception.
    Items of a shape the REST views cannot produce for that code are treated as exceptions. *)
Definition ec_item (i : item) : option bytes :=
  let c := item_code i in
  if c =? c_BGP_EXT_COM_RT_0 then match i with ItS _ s => ec_as2 c_BGP_EXT_COM_RT_0 s | _ => None end
  else if c =? c_BGP_EXT_COM_RT_1 then match i with ItS _ s => ec_ip4 c_BGP_EXT_COM_RT_1 s | _ => None end
  else if c =? c_BGP_EXT_COM_RT_2 then match i with ItS _ s => ec_as4 c_BGP_EXT_COM_RT_2 s | _ => None end
  else if c =? c_BGP_EXT_COM_RO_0 then match i with ItS _ s => ec_as2 c_BGP_EXT_COM_RO_0 s | _ => None end
  else if c =? c_BGP_EXT_COM_RO_1 then match i with ItS _ s => ec_ip4 c_BGP_EXT_COM_RO_1 s | _ => None end
  else if c =? c_BGP_EXT_COM_RO_2 then match i with ItS _ s => ec_as4 c_BGP_EXT_COM_RO_2 s | _ => None end
  else if c =? c_BGP_EXT_REDIRECT_VRF then match i with ItS _ s => ec_as2 c_BGP_EXT_REDIRECT_VRF s | _ => None end
  else if c =? c_BGP_EXT_REDIRECT_NH then match i with ItSI _ s n => ec_nh c_BGP_EXT_REDIRECT_NH s n | _ => None end
  else if c =? c_BGP_EXT_TRA_MARK then match i with ItI _ n => ec_last c_BGP_EXT_TRA_MARK n | _ => None end
  else if c =? c_BGP_EXT_TRA_RATE then match i with ItS _ s => ec_rate c_BGP_EXT_TRA_RATE s | _ => None end
  else if c =? c_BGP_EXT_COM_COLOR then match i with ItS _ s => ec_opaque4 c_BGP_EXT_COM_COLOR s | _ => None end
  else if c =? c_BGP_EXT_COM_COLOR_00 then match i with ItS _ s => ec_color_x c_BGP_EXT_COM_COLOR_00 s | _ => None end
  else if c =? c_BGP_EXT_COM_COLOR_01 then match i with ItS _ s => ec_color_x c_BGP_EXT_COM_COLOR_01 s | _ => None end
  else if c =? c_BGP_EXT_COM_COLOR_10 then match i with ItS _ s => ec_color_x c_BGP_EXT_COM_COLOR_10 s | _ => None end
  else if c =? c_BGP_EXT_COM_COLOR_11 then match i with ItS _ s => ec_color_x c_BGP_EXT_COM_COLOR_11 s | _ => None end
  else if c =? c_BGP_EXT_COM_ENCAP then match i with ItS _ s => ec_opaque4 c_BGP_EXT_COM_ENCAP s | _ => None end
  else if c =? c_BGP_EXT_COM_EVPN_ES_IMPORT then match i with ItS _ s => ec_mac c s | _ => None end
  else if c =? c_BGP_EXT_COM_EVPN_ESI_MPLS_LABEL then match i with ItII _ a b => ec_esi c a b | _ => None end
  else if c =? c_BGP_EXT_COM_EVPN_MAC_MOBIL then match i with ItII _ a b => ec_mobility c a b | _ => None end
  else if c =? c_BGP_EXT_COM_EVPN_ROUTE_MAC then match i with ItS _ s => ec_mac c s | _ => None end
  else if c =? c_BGP_EXT_COM_LINK_BW then match i with ItS _ s => ec_as2 c_BGP_EXT_COM_LINK_BW s | _ => None end
  else if c =? c_BGP_EXT_TRA_ACTION then match i with ItD _ s t => ec_action c s t | _ => None end
  else Some [].

Fixpoint ec_items (l : list item) : option bytes :=
  match l with
  | [] => Some []
  | i :: r => a <- ec_item i ;; b <- ec_items r ;; Some (a ++ b)
  end.

(** ExtCommunity.construct(value): [Ok None] is the "construct error" return value None *)
Definition ec_construct (l : list item) : pres (option bytes) :=
  match ec_items l with
  | None => Exc
  | Some [] => Ok None
  | Some b => match packn 1 (len b) with
              | Some lb => Ok (Some (c_ATTR_ExtCommunity_FLAG :: c_ATTR_ExtCommunity_ID :: lb ++ b))
              | None => Exc
              end
  end.

(** * rendering for the correspondence check *)
Definition sx_z (z : Z) : sx := SL [SN (if (z <? 0)%Z then 1 else 0); SN (Z.to_N (Z.abs z))].
Definition sx_pres {A} (f : A -> sx) (r : pres A) : sx :=
  match r with Ok a => SL [SN 0; f a] | Err s => SL [SN 1; SN s] | Exc => SL [SN 2] end.
Definition sx_ectext (t : ectext) : sx := match t with Txt s => SL [SN 0; SB s] | Unk v => SL [SN 1; SB v] end.
Definition sx_texts (l : list ectext) : sx := SL (map sx_ectext l).
Definition sx_oz (o : option Z) : sx := sx_opt sx_z o.
Definition sx_item (i : item) : sx :=
  match i with
  | ItS c s => SL [SN 0; SN c; SB s]
  | ItI c n => SL [SN 1; SN c; sx_z n]
  | ItSI c s n => SL [SN 2; SN c; SB s; sx_z n]
  | ItII c a b => SL [SN 3; SN c; sx_z a; sx_z b]
  | ItD c s t => SL [SN 4; SN c; sx_oz s; sx_oz t]
  end.
Definition sx_obytes (o : option bytes) : sx := sx_opt SB o.
Definition sx_strs (l : list str) : sx := SL (map SB l).
