(** IPv4 flow specification NLRI (yabgp/message/attribute/nlri/ipv4_flowspec.py) and the
    MP_REACH / MP_UNREACH branches for (1, 133).  Operator TEXT ("=80|>=8080") is not modelled:
    an operator list is [(flag bits LT*4+GT*2+EQ, value)], OR-ed; the harness converts.
    ('&' items are silently skipped by construct_operators and are outside the property.) *)
From YV Require Import lib.Base gen.Consts model.YMp.

Definition op := (N * N)%type.                    (* comparison bits, value *)
Record flow := { f_dst : option (N * N); f_src : option (N * N); f_ops : list (N * list op) }.
Definition mk_flow d s o : flow := {| f_dst := d; f_src := s; f_ops := o |}.

(** construct_prefix: '1.1.1.0/24' -> 18 01 01 01; masklen 0 sets ip_hex = '' (str) and
    bytes + str raises.  The address must be an IPv4 address (an IPv6 address is passed as its
    integer, 2^32 or more for the ones that are not also IPv4 numbers) and the length must be in
    0..32, else ValueError (fix: a prefix length outside the address size must be an error when
    an NLRI is constructed, build/proposed/c08-prefix-length-range.patch) *)
Definition fs_construct_prefix (p : N * N) : res bytes :=
  let '(a, l) := p in
  let b := be 4 a in
  if (32 <? l) || (2 ^ 32 <=? a) then Exc else
  if (16 <? l) && (l <=? 24) then Ok (l :: take 3 b)
  else if (8 <? l) && (l <=? 16) then Ok (l :: take 2 b)
  else if (0 <? l) && (l <=? 8) then Ok (l :: take 1 b)
  else if l =? 0 then Exc
  else Ok (l :: b).

(** number of octets of hex(v) padded to an even number of digits *)
Fixpoint nbytes_fuel (fuel : nat) (v : N) : nat :=
  match fuel with
  | O => 1
  | S f => if v <? 256 then 1 else S (nbytes_fuel f (v / 256))
  end.
Definition nbytes_raw (v : N) : nat := nbytes_fuel 40 v.
(** operands are left-padded to the next of 1, 2, 4, 8 octets (longer ones are left alone and
    then fail the width lookup)  [build/proposed/c08-flowspec-framing.diff] *)
Definition nbytes (v : N) : nat :=
  let n := nbytes_raw v in
  if Nat.leb n 1 then 1 else if Nat.leb n 2 then 2 else if Nat.leb n 4 then 4 else if Nat.leb n 8 then 8 else n.

(** opt_dict['LEN'] : {1: 0x00, 2: 0x10, 4: 0x20, 8: 0x30}, KeyError otherwise *)
Definition len_code (n : nat) : res N :=
  if Nat.eqb n 1 then Ok 0 else if Nat.eqb n 2 then Ok 16 else if Nat.eqb n 4 then Ok 32
  else if Nat.eqb n 8 then Ok 48 else Exc.

(** construct_operators on a '|'-separated list; the last item carries EOL *)
Fixpoint fs_construct_ops (ops : list op) : res bytes :=
  match ops with
  | [] => Ok []
  | (c, v) :: r =>
      let n := nbytes v in
      bind (len_code n) (fun lc =>
      bind (fs_construct_ops r) (fun br =>
      let eol := match r with [] => 128 | _ => 0 end in
      Ok ((eol + lc + c) :: be n v ++ br)))
  end.

Fixpoint lookup {A} (t : N) (l : list (N * A)) : option A :=
  match l with [] => None | (k, v) :: r => if k =? t then Some v else lookup t r end.

Definition fs_op_types : list N :=
  [c_BGPNLRI_FSPEC_IP_PROTO; c_BGPNLRI_FSPEC_PORT; c_BGPNLRI_FSPEC_DST_PORT; c_BGPNLRI_FSPEC_SRC_PORT;
   c_BGPNLRI_FSPEC_ICMP_TP; c_BGPNLRI_FSPEC_ICMP_CD; c_BGPNLRI_FSPEC_PCK_LEN; c_BGPNLRI_FSPEC_DSCP].

Fixpoint fs_construct_comps (ts : list N) (o : list (N * list op)) : res bytes :=
  match ts with
  | [] => Ok []
  | t :: r =>
      bind (match lookup t o with
            | Some (x :: xs) => bind (fs_construct_ops (x :: xs)) (fun b => Ok (t :: b))
            | _ => Ok []
            end) (fun b => bind (fs_construct_comps r o) (fun br => Ok (b ++ br)))
  end.

Definition fs_opt_prefix (t : N) (p : option (N * N)) : res bytes :=
  match p with None => Ok [] | Some p => bind (fs_construct_prefix p) (fun b => Ok (t :: b)) end.

(** the length prefix construct_nlri puts in front of the components of one rule (RFC 8955 4.1):
    one octet below 240 octets, 0xf000 | length on two octets from 240 to 4095, ValueError above;
    None for an empty rule (the caller then fails on bytes += None) *)
Definition fs_len_threshold : N := 240.
Definition fs_len_max : N := 4095.
Definition fs_frame (b : bytes) : res bytes :=
  if fs_len_threshold <=? len b
  then (if fs_len_max <? len b then Exc else Ok (be 2 (61440 + len b) ++ b))   (* 0xf000 | len *)
  else match b with [] => Exc | _ => Ok (len b :: b) end.

(** construct_nlri *)
Definition fs_construct_nlri (f : flow) : res bytes :=
  bind (fs_opt_prefix c_BGPNLRI_FSPEC_DST_PFIX (f_dst f)) (fun b1 =>
  bind (fs_opt_prefix c_BGPNLRI_FSPEC_SRC_PFIX (f_src f)) (fun b2 =>
  bind (fs_construct_comps fs_op_types (f_ops f)) (fun b3 =>
  fs_frame (b1 ++ b2 ++ b3)))).

Fixpoint fs_construct (fs : list flow) : res bytes :=
  match fs with
  | [] => Ok []
  | f :: r => bind (fs_construct_nlri f) (fun b => bind (fs_construct r) (fun br => Ok (b ++ br)))
  end.

(** ---- decoding ---- *)
(** parse_prefix -> ((address, length), octets consumed) *)
Definition fs_parse_prefix (d : bytes) : res ((N * N) * nat) :=
  match d with
  | [] => Exc
  | l :: _ =>
      let k := N.to_nat (ceil8 l) in
      match slice 1 (1 + k) d with
      | [] => Exc
      | tmp => Ok ((unbe (take 4 (tmp ++ [0; 0; 0; 0])), l), S k)
      end
  end.

(** a decoded operator: AND bit, comparison bits (LT*4+GT*2+EQ), value *)
Definition pop := (N * N * N)%type.

Fixpoint fs_parse_ops (fuel : nat) (d : bytes) : res (list pop * nat) :=
  match fuel with
  | O => Fuel
  | S f =>
      match d with
      | [] => Ok ([], 1%nat)
      | fl :: r =>
          let n := N.to_nat (2 ^ ((fl / 16) mod 4)) in
          bind (int_of_hex (take n r)) (fun v =>
          let item := ((fl / 64) mod 2, (fl mod 8), v) in
          if (fl / 128) mod 2 =? 1 then Ok ([item], (1 + n + 1)%nat)
          else bind (fs_parse_ops f (drop n r)) (fun '(t, off) => Ok (item :: t, (1 + n + off)%nat)))
      end
  end.

Inductive comp := CPfx (p : N * N) | COps (o : list pop).

(** dict assignment keyed by component type (sorted association list, later wins) *)
Fixpoint dict_set (t : N) (c : comp) (l : list (N * comp)) : list (N * comp) :=
  match l with
  | [] => [(t, c)]
  | (k, v) :: r => if t <? k then (t, c) :: l else if t =? k then (t, c) :: r else (k, v) :: dict_set t c r
  end.

(** IPv4FlowSpec.parse *)
Fixpoint fs_parse (fuel : nat) (d : bytes) (acc : list (N * comp)) : res (list (N * comp)) :=
  match fuel with
  | O => Fuel
  | S f =>
      match d with
      | [] => Ok acc
      | t :: r =>
          if (t =? c_BGPNLRI_FSPEC_DST_PFIX) || (t =? c_BGPNLRI_FSPEC_SRC_PFIX) then
            bind (fs_parse_prefix r) (fun '(p, k) => fs_parse f (drop (1 + k) d) (dict_set t (CPfx p) acc))
          else
            bind (fs_parse_ops (S (length r)) r) (fun '(o, off) =>
            fs_parse f (drop off d) (dict_set t (COps o) acc))
      end
  end.

(** the length prefix as the NLRI loop of MpReachNLRI.parse / MpUnReachNLRI.parse reads it:
    (octets of the first rule, octets after it).  `length >> 4 == 0xf and len(nlri_bin) > 2`
    selects the 2-octet form, whose value is used as it stands (0xf000 is not masked off), so
    the slice runs to the end of the attribute *)
Definition fs_unframe (d : bytes) : bytes * bytes :=
  match d with
  | [] => ([], [])
  | l0 :: _ =>
      let two := (l0 / 16 =? 15) && (Nat.ltb 2 (length d)) in
      let l := if two then N.to_nat (unbe (take 2 d)) else N.to_nat l0 in
      let h := if two then 2%nat else 1%nat in
      (slice h (l + h) d, drop (l + h) d)
  end.

(** the NLRI loop of MpReachNLRI.parse / MpUnReachNLRI.parse for (1, 133): 1- or 2-octet length
    ([fs_unframe]); empty rules are dropped *)
Fixpoint fs_parse_nlris (fuel : nat) (d : bytes) : res (list (list (N * comp))) :=
  match fuel with
  | O => Fuel
  | S f =>
      match d with
      | [] => Ok []
      | _ :: _ =>
          let '(body, rest) := fs_unframe d in
          bind (fs_parse (S (length body)) body []) (fun r =>
          bind (fs_parse_nlris f rest) (fun t =>
          Ok (match r with [] => t | _ => r :: t end)))
      end
  end.
Definition fs_parse_all (d : bytes) := fs_parse_nlris (S (length d)) d.

(** MpReachNLRI.construct (1, 133): next hop = netaddr.IPAddress(text).packed - 4 octets for an
    IPv4 address (false, a), 16 for an IPv6 address (true, a) - or nothing when the text is not
    an address; None when the NLRI is empty *)
Definition reachfs_construct_x (nh : option (bool * N)) (fs : list flow) : res (option bytes) :=
  let nhb := match nh with Some (nh6, a) => if nh6 then be 16 a else be 4 a | None => [] end in
  bind (fs_construct fs) (fun nlri =>
  match nlri with
  | [] => Ok None
  | _ => bind (reach_attr AFI_INET SAFI_FSPEC_RULE (len nhb) nhb nlri) (fun b => Ok (Some b))
  end).
(** an IPv4 next hop or none *)
Definition reachfs_construct (nh : option N) : list flow -> res (option bytes) :=
  reachfs_construct_x (match nh with Some a => Some (false, a) | None => None end).

Definition reachfs_parse (v : bytes) : res (option addr * list (list (N * comp))) :=
  bind (reach_split v) (fun '(afi, safi, nh, nlri) =>
  if (afi =? AFI_INET) && (safi =? SAFI_FSPEC_RULE) then
    bind (fs_parse_all nlri) (fun t =>
    bind (match nh with [] => Ok None | _ => bind (addr_of_bytes nh) (fun a => Ok (Some a)) end) (fun a =>
    Ok (a, t)))
  else Exc).

Definition unreachfs_construct (fs : list flow) : res (option bytes) :=
  match fs with
  | [] => Ok None
  | _ => bind (fs_construct fs) (fun nlri =>
         bind (unreach_attr AFI_INET SAFI_FSPEC_RULE nlri) (fun b => Ok (Some b)))
  end.

Definition unreachfs_parse (v : bytes) : res (list (list (N * comp))) :=
  bind (unreach_split v) (fun '(afi, safi, nlri) =>
  if (afi =? AFI_INET) && (safi =? SAFI_FSPEC_RULE) then fs_parse_all nlri else Exc).

(** rendering *)
Definition sx_pop (p : pop) : sx := let '(a, c, v) := p in SL [SN a; SN c; SN v].
Definition sx_comp (c : N * comp) : sx :=
  match snd c with
  | CPfx (a, l) => SL [SN (fst c); SL [SN a; SN l]]
  | COps o => SL [SN (fst c); sx_list sx_pop o]
  end.
Definition sx_flows (l : list (list (N * comp))) : sx := sx_list (sx_list sx_comp) l.
Definition sx_reachfs (v : option addr * list (list (N * comp))) : sx :=
  SL [sx_opt sx_addr (fst v); sx_flows (snd v)].
