(** NOTIFICATION / KEEPALIVE / ROUTE-REFRESH codecs (yabgp/message/notification.py,
    keepalive.py, route_refresh.py) and the common 19-octet header. *)
From YV Require Import lib.Base gen.Consts.

Inductive res (A : Type) := Ok (a : A) | Err (code sub : N) | PyExc.
Arguments Ok {A} a. Arguments Err {A} code sub. Arguments PyExc {A}.

Definition marker16 : bytes := repeat 255 16.

(** construct_header: marker, 2-octet length (struct.pack('!H') raises above 65535), type *)
Definition header (ty : N) (body : bytes) : res bytes :=
  let l := len body + 19 in
  if 65535 <? l then PyExc else Ok (marker16 ++ be 2 l ++ [ty] ++ body).

(** Notification.construct(error, suberror, data): struct.pack('!BB') needs 0..255 *)
Definition notification_construct (e s : N) (data : bytes) : res bytes :=
  if (255 <? e) || (255 <? s) then PyExc else header c_MSG_NOTIFICATION ([e; s] ++ data).
(** Notification.parse(body) -> (error, suberror, data) *)
Definition notification_parse (body : bytes) : res (N * N * bytes) :=
  match body with
  | e :: s :: d => Ok (e, s, d)
  | _ => PyExc
  end.

Definition keepalive_construct : bytes := marker16 ++ be 2 19 ++ [4].
Definition keepalive_parse (body : bytes) : res unit :=
  match body with [] => Ok tt | _ => Err c_ERR_MSG_HDR c_ERR_MSG_HDR_BAD_MSG_LEN end.

(** RouteRefresh(afi, safi, res).construct(msg_type) *)
Definition rr_construct (ty afi r safi : N) : res bytes :=
  if (65535 <? afi) || (255 <? r) || (255 <? safi) || (255 <? ty) then PyExc
  else header ty (be 2 afi ++ [r] ++ [safi]).
Definition rr_parse (body : bytes) : res (N * N * N) :=
  match body with
  | [a1; a0; r; s] => Ok (a1 * 256 + a0, r, s)
  | _ => PyExc
  end.

(** strip a well-formed header: (type, body) *)
Definition unframe (m : bytes) : option (N * bytes) :=
  if bytes_eqb (take 16 m) marker16 && (unbe (slice 16 18 m) =? len m) && (19 <=? len m)
  then Some (nth 18 m 0, drop 19 m) else None.

(** rendering for the correspondence check *)
Definition sx_res {A} (f : A -> sx) (r : res A) : sx :=
  match r with Ok a => SL [SN 0; f a] | Err c s => SL [SN 1; SN c; SN s] | PyExc => SL [SN 2] end.
Definition sx_notif (v : N * N * bytes) : sx := let '(e, s, d) := v in SL [SN e; SN s; SB d].
Definition sx_rr (v : N * N * N) : sx := let '(a, r, s) := v in SL [SN a; SN r; SN s].
