(** Shared definitions: octet strings as [list N], big-endian fields, Python slices,
    a universal value type for the correspondence boundary. *)
From Coq Require Export List NArith Bool Lia.
From Coq Require Import ZArith ZifyBool ZifyNat ZifyN.
Export ListNotations.
Open Scope N_scope.

Definition byte := N.
Definition bytes := list N.

Definition wf_bytes (b : bytes) : Prop := Forall (fun x => x < 256) b.
Definition wf_bytesb (b : bytes) : bool := forallb (fun x => x <? 256) b.

(** big-endian encoding of [n] on [k] octets (truncating like a C cast; Python's
    struct.pack raises instead — callers guard the range) *)
Fixpoint be (k : nat) (n : N) : bytes :=
  match k with
  | O => []
  | S k' => ((n / 256 ^ N.of_nat k') mod 256) :: be k' n
  end.

Fixpoint unbe_acc (acc : N) (b : bytes) : N :=
  match b with
  | [] => acc
  | x :: r => unbe_acc (acc * 256 + x) r
  end.
Definition unbe (b : bytes) : N := unbe_acc 0 b.

(** Python slices on lists ([b[i:]], [b[:j]], [b[i:j]]) clamp *)
Definition drop (i : nat) (b : bytes) : bytes := skipn i b.
Definition take (j : nat) (b : bytes) : bytes := firstn j b.
Definition slice (i j : nat) (b : bytes) : bytes := firstn (j - i) (skipn i b).

Definition len (b : bytes) : N := N.of_nat (length b).

Fixpoint bytes_eqb (a b : bytes) : bool :=
  match a, b with
  | [], [] => true
  | x :: a', y :: b' => (x =? y) && bytes_eqb a' b'
  | _, _ => false
  end.

Lemma bytes_eqb_eq a b : bytes_eqb a b = true <-> a = b.
Proof.
  revert b; induction a as [|x a IH]; destruct b as [|y b]; cbn; try (split; congruence).
  rewrite andb_true_iff, N.eqb_eq, IH. split; [intros [-> ->]; reflexivity | intros H; inversion H; auto].
Qed.

Definition repeat_byte (x : N) (k : nat) : bytes := repeat x k.

(** universal value used at the correspondence boundary *)
Inductive sx : Type :=
| SN : N -> sx
| SB : bytes -> sx
| SL : list sx -> sx.

Fixpoint sx_eqb (a b : sx) {struct a} : bool :=
  match a, b with
  | SN x, SN y => x =? y
  | SB x, SB y => bytes_eqb x y
  | SL x, SL y =>
      (fix go (l1 l2 : list sx) {struct l1} : bool :=
         match l1, l2 with
         | [], [] => true
         | p :: l1', q :: l2' => sx_eqb p q && go l1' l2'
         | _, _ => false
         end) x y
  | _, _ => false
  end.

(** indices of the cases whose model value differs from the implementation's *)
Fixpoint mismatches_from (i : N) (l : list (sx * sx)) : list N :=
  match l with
  | [] => []
  | (a, b) :: r => if sx_eqb a b then mismatches_from (i + 1) r else i :: mismatches_from (i + 1) r
  end.
Definition mismatches := mismatches_from 0.

Definition sx_bool (b : bool) : sx := SN (if b then 1 else 0).
Definition sx_opt {A} (f : A -> sx) (o : option A) : sx :=
  match o with None => SL [] | Some a => SL [f a] end.
Definition sx_nat (n : nat) : sx := SN (N.of_nat n).

(** basic facts *)
Lemma length_be k n : length (be k n) = k.
Proof. induction k; cbn; auto. Qed.

Lemma wf_be k n : wf_bytes (be k n).
Proof.
  induction k as [|k IH]; cbn; constructor; auto.
  apply N.mod_lt; discriminate.
Qed.

Lemma unbe_acc_app acc a b : unbe_acc acc (a ++ b) = unbe_acc (unbe_acc acc a) b.
Proof. revert acc; induction a; cbn; auto. Qed.

Lemma unbe_acc_be k : forall acc n, n < 256 ^ N.of_nat k ->
  unbe_acc acc (be k n) = acc * 256 ^ N.of_nat k + n.
Proof.
  induction k as [|k IH]; intros acc n Hn.
  - cbn in *. assert (n = 0) by lia. subst. lia.
  - cbn [be unbe_acc].
    assert (Hp : 256 ^ N.of_nat (S k) = 256 * 256 ^ N.of_nat k).
    { rewrite Nnat.Nat2N.inj_succ, N.pow_succ_r'. reflexivity. }
    rewrite Hp in *.
    set (p := 256 ^ N.of_nat k) in *.
    assert (p <> 0) by (apply N.pow_nonzero; discriminate).
    assert (Hq : n / p < 256) by (apply N.div_lt_upper_bound; lia).
    rewrite (N.mod_small (n / p) 256 Hq).
    assert (Hr : be k n = be k (n mod p)).
    { clear IH Hn Hq Hp. clear acc.
      assert (G : forall j, (j <= k)%nat -> be j n = be j (n mod p)).
      { induction j as [|j IHj]; intros Hj; cbn; auto.
        rewrite IHj by lia. f_equal.
        unfold p.
        replace (N.of_nat k) with (N.of_nat j + (N.of_nat k - N.of_nat j)) by lia.
        rewrite N.pow_add_r.
        set (a := 256 ^ N.of_nat j). set (c := 256 ^ (N.of_nat k - N.of_nat j)).
        assert (a <> 0) by (apply N.pow_nonzero; discriminate).
        assert (c <> 0) by (apply N.pow_nonzero; discriminate).
        rewrite N.mod_mul_r by assumption.
        rewrite N.mul_comm, N.div_add by assumption.
        rewrite (N.div_small (n mod a) a) by (apply N.mod_lt; assumption).
        rewrite N.add_0_l.
        assert (Hc : c = 256 * 256 ^ (N.of_nat k - N.of_nat j - 1)).
        { unfold c. replace (N.of_nat k - N.of_nat j) with (N.succ (N.of_nat k - N.of_nat j - 1)) at 1 by lia.
          rewrite N.pow_succ_r'. reflexivity. }
        rewrite Hc.
        set (d := 256 ^ (N.of_nat k - N.of_nat j - 1)).
        assert (d <> 0) by (apply N.pow_nonzero; discriminate).
        rewrite N.mod_mul_r by (try assumption; discriminate).
        rewrite (N.mul_comm 256), N.mod_add by discriminate.
        rewrite N.mod_mod by discriminate. reflexivity. }
      apply G; lia. }
    rewrite Hr, IH by (apply N.mod_lt; assumption).
    pose proof (N.div_mod n p ltac:(assumption)). lia.
Qed.

Lemma unbe_be k n : n < 256 ^ N.of_nat k -> unbe (be k n) = n.
Proof. intros H. unfold unbe. rewrite unbe_acc_be by assumption. lia. Qed.
