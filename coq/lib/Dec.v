(** Text as lists of character codes ([str := list N], ASCII): decimal / hexadecimal rendering
    and parsing of numbers on top of the stdlib ([DecimalString], [DecimalN]), Python's
    [str.split], [str.strip], [str.lower]/[upper], [int(s)], [int(s, 16)], dotted-quad IPv4 and
    [XX-XX-XX-XX-XX-XX] MAC text, each with the round-trip lemma property C17 needs. *)
From Coq Require Import String Ascii Decimal DecimalString DecimalN DecimalPos ZArith Lia.
From YV Require Import lib.Base.
Open Scope N_scope.

Definition str := list N.

Fixpoint codes (s : string) : str :=
  match s with EmptyString => [] | String a r => N_of_ascii a :: codes r end.
Fixpoint to_string (l : str) : string :=
  match l with [] => EmptyString | x :: r => String (ascii_of_N x) (to_string r) end.

Lemma to_string_codes s : to_string (codes s) = s.
Proof. induction s as [|a s IH]; cbn; [reflexivity|]. rewrite ascii_N_embedding, IH. reflexivity. Qed.

Fixpoint str_eqb (a b : str) : bool :=
  match a, b with
  | [], [] => true
  | x :: a', y :: b' => (x =? y) && str_eqb a' b'
  | _, _ => false
  end.
Lemma str_eqb_refl a : str_eqb a a = true.
Proof. induction a; cbn; auto. rewrite N.eqb_refl. exact IHa. Qed.
Lemma str_eqb_eq a b : str_eqb a b = true <-> a = b.
Proof. exact (bytes_eqb_eq a b). Qed.

Definition mem (c : N) (s : str) : bool := existsb (N.eqb c) s.
Lemma mem_false c s : mem c s = false <-> ~ In c s.
Proof.
  unfold mem. split.
  - intros H Hin. assert (existsb (N.eqb c) s = true) by (apply existsb_exists; exists c; split; [assumption | apply N.eqb_refl]). congruence.
  - intros H. destruct (existsb (N.eqb c) s) eqn:E; [|reflexivity].
    apply existsb_exists in E. destruct E as [x [Hx Hc]]. apply N.eqb_eq in Hc. subst. contradiction.
Qed.

(** * character classes *)
Definition is_digit (x : N) : bool := (48 <=? x) && (x <=? 57).
(** str.strip(): ASCII whitespace incl. FS/GS/RS/US; int(): without those four *)
Definition is_ws (x : N) : bool := ((9 <=? x) && (x <=? 13)) || ((28 <=? x) && (x <=? 32)).
Definition is_ws_int (x : N) : bool := ((9 <=? x) && (x <=? 13)) || (x =? 32).
Definition lower1 (x : N) : N := if (65 <=? x) && (x <=? 90) then x + 32 else x.
Definition upper1 (x : N) : N := if (97 <=? x) && (x <=? 122) then x - 32 else x.
Definition lower (s : str) : str := map lower1 s.
Definition upper (s : str) : str := map upper1 s.

Definition all_digits (s : str) : bool := forallb is_digit s.

Lemma all_digits_app a b : all_digits (a ++ b) = all_digits a && all_digits b.
Proof. apply forallb_app. Qed.

Lemma all_digits_in s x : all_digits s = true -> In x s -> 48 <= x <= 57.
Proof.
  intros H Hin. unfold all_digits in H. rewrite forallb_forall in H. specialize (H x Hin).
  unfold is_digit in H. lia.
Qed.

Lemma all_digits_notin s c : all_digits s = true -> (c < 48 \/ 57 < c) -> ~ In c s.
Proof. intros H Hc Hin. pose proof (all_digits_in s c H Hin). lia. Qed.

(** * strip *)
Fixpoint dropws (f : N -> bool) (s : str) : str :=
  match s with [] => [] | x :: r => if f x then dropws f r else s end.
Definition strip_with (f : N -> bool) (s : str) : str := rev (dropws f (rev (dropws f s))).
Definition strip := strip_with is_ws.

Definition no_ws (s : str) : Prop := forall x, In x s -> is_ws x = false.

Lemma dropws_clean f s : (forall x, In x s -> f x = false) -> dropws f s = s.
Proof. destruct s as [|x r]; cbn; intros H; [reflexivity|]. rewrite (H x) by (left; reflexivity). reflexivity. Qed.

Lemma strip_with_clean f s : (forall x, In x s -> f x = false) -> strip_with f s = s.
Proof.
  intros H. unfold strip_with. rewrite (dropws_clean f s H).
  rewrite dropws_clean by (intros x Hx; apply H, in_rev; assumption).
  apply rev_involutive.
Qed.
Lemma strip_clean s : no_ws s -> strip s = s.
Proof. apply strip_with_clean. Qed.

Lemma no_ws_app a b : no_ws a -> no_ws b -> no_ws (a ++ b).
Proof. intros Ha Hb x Hx. apply in_app_or in Hx. destruct Hx; auto. Qed.
Lemma no_ws_cons x a : is_ws x = false -> no_ws a -> no_ws (x :: a).
Proof. intros Hx Ha y [<-|Hy]; auto. Qed.
Lemma no_ws_digits s : all_digits s = true -> no_ws s.
Proof. intros H x Hx. pose proof (all_digits_in s x H Hx). unfold is_ws. lia. Qed.
Lemma no_ws_int_digits s : all_digits s = true -> forall x, In x s -> is_ws_int x = false.
Proof. intros H x Hx. pose proof (all_digits_in s x H Hx). unfold is_ws_int. lia. Qed.

Lemma lower_digits s : all_digits s = true -> lower s = s.
Proof.
  induction s as [|x r IH]; [reflexivity|]. intros H. apply andb_prop in H. destruct H as [Hx Hr].
  change (lower (x :: r)) with (lower1 x :: lower r).
  rewrite (IH Hr). unfold lower1, is_digit in *. replace ((65 <=? x) && (x <=? 90)) with false by lia. reflexivity.
Qed.
Lemma upper_digits s : all_digits s = true -> upper s = s.
Proof.
  induction s as [|x r IH]; [reflexivity|]. intros H. apply andb_prop in H. destruct H as [Hx Hr].
  change (upper (x :: r)) with (upper1 x :: upper r).
  rewrite (IH Hr). unfold upper1, is_digit in *. replace ((97 <=? x) && (x <=? 122)) with false by lia. reflexivity.
Qed.
Lemma lower_app a b : lower (a ++ b) = lower a ++ lower b.
Proof. apply map_app. Qed.
Lemma upper_app a b : upper (a ++ b) = upper a ++ upper b.
Proof. apply map_app. Qed.

(** * split: s.split(sep) and s.split(sep, 1) for a one-character separator *)
Fixpoint split_on (sep : N) (s : str) : list str :=
  match s with
  | [] => [[]]
  | x :: r => if x =? sep then [] :: split_on sep r
              else match split_on sep r with h :: t => (x :: h) :: t | [] => [[x]] end
  end.
Fixpoint split1 (sep : N) (s : str) : list str :=
  match s with
  | [] => [[]]
  | x :: r => if x =? sep then [[]; r]
              else match split1 sep r with h :: t => (x :: h) :: t | [] => [[x]] end
  end.

Lemma split_on_app sep a b : ~ In sep a -> split_on sep (a ++ sep :: b) = a :: split_on sep b.
Proof.
  induction a as [|x a IH]; cbn [app split_on]; intros H.
  - rewrite N.eqb_refl. reflexivity.
  - assert (x =? sep = false) by (apply N.eqb_neq; intros ->; apply H; left; reflexivity).
    rewrite H0, IH by (intros Hin; apply H; right; assumption). reflexivity.
Qed.
Lemma split_on_none sep a : ~ In sep a -> split_on sep a = [a].
Proof.
  induction a as [|x a IH]; cbn [split_on]; intros H; [reflexivity|].
  assert (x =? sep = false) by (apply N.eqb_neq; intros ->; apply H; left; reflexivity).
  rewrite H0, IH by (intros Hin; apply H; right; assumption). reflexivity.
Qed.
Lemma split1_app sep a b : ~ In sep a -> split1 sep (a ++ sep :: b) = [a; b].
Proof.
  induction a as [|x a IH]; cbn [app split1]; intros H.
  - rewrite N.eqb_refl. reflexivity.
  - assert (x =? sep = false) by (apply N.eqb_neq; intros ->; apply H; left; reflexivity).
    rewrite H0, IH by (intros Hin; apply H; right; assumption). reflexivity.
Qed.
Lemma split1_none sep a : ~ In sep a -> split1 sep a = [a].
Proof.
  induction a as [|x a IH]; cbn [split1]; intros H; [reflexivity|].
  assert (x =? sep = false) by (apply N.eqb_neq; intros ->; apply H; left; reflexivity).
  rewrite H0, IH by (intros Hin; apply H; right; assumption). reflexivity.
Qed.

Lemma notin_app (c : N) a b : ~ In c a -> ~ In c b -> ~ In c (a ++ b).
Proof. intros Ha Hb H. apply in_app_or in H. tauto. Qed.
Lemma notin_cons (c x : N) a : x <> c -> ~ In c a -> ~ In c (x :: a).
Proof. intros Hx Ha [H|H]; auto. Qed.

(** join *)
Fixpoint join (sep : N) (l : list str) : str :=
  match l with [] => [] | [a] => a | a :: r => a ++ sep :: join sep r end.

(** * decimal *)
Definition show_dec (n : N) : str := codes (NilZero.string_of_uint (N.to_uint n)).

(** digits only, at least one (the core of Python's int()) *)
Definition parse_dec (s : str) : option N :=
  match s with
  | [] => None
  | _ => if all_digits s then option_map N.of_uint (NilEmpty.uint_of_string (to_string s)) else None
  end.

Lemma codes_uint_digits d : all_digits (codes (NilEmpty.string_of_uint d)) = true.
Proof. induction d; cbn; auto. Qed.

Lemma to_uint_not_nil n : N.to_uint n <> Nil.
Proof. destruct n as [|p]; cbn; [discriminate | apply DecimalPos.Unsigned.to_uint_nonnil]. Qed.

Lemma nilzero_nilempty d : d <> Nil -> NilZero.string_of_uint d = NilEmpty.string_of_uint d.
Proof. destruct d; cbn; congruence. Qed.

Lemma show_dec_digits n : all_digits (show_dec n) = true.
Proof. unfold show_dec. rewrite nilzero_nilempty by apply to_uint_not_nil. apply codes_uint_digits. Qed.

Lemma show_dec_nonempty n : show_dec n <> [].
Proof.
  unfold show_dec. rewrite nilzero_nilempty by apply to_uint_not_nil.
  pose proof (to_uint_not_nil n). destruct (N.to_uint n); cbn; congruence.
Qed.

Lemma show_dec_head n : exists d r, show_dec n = d :: r /\ 48 <= d <= 57.
Proof.
  pose proof (show_dec_nonempty n). pose proof (show_dec_digits n).
  destruct (show_dec n) as [|d r]; [congruence|]. exists d, r. split; [reflexivity|].
  apply (all_digits_in (d :: r) d H0). left; reflexivity.
Qed.

Lemma parse_show_dec n : parse_dec (show_dec n) = Some n.
Proof.
  unfold parse_dec. pose proof (show_dec_nonempty n). destruct (show_dec n) eqn:E; [congruence|].
  rewrite <- E. rewrite show_dec_digits. unfold show_dec.
  rewrite to_string_codes, nilzero_nilempty by apply to_uint_not_nil.
  rewrite NilEmpty.usu. cbn. rewrite DecimalN.Unsigned.of_to. reflexivity.
Qed.

(** Python's int(s) for ASCII text: surrounding whitespace, an optional sign, digits with single
    underscores between digits *)
Fixpoint us_ok (prev_digit : bool) (s : str) : bool :=
  match s with
  | [] => true
  | x :: r => if x =? 95
              then prev_digit && (match r with y :: _ => is_digit y | [] => false end) && us_ok false r
              else us_ok (is_digit x) r
  end.
Definition drop_us (s : str) : str := filter (fun x => negb (x =? 95)) s.
Definition int_digits (s : str) : option N := if us_ok false s then parse_dec (drop_us s) else None.
Definition py_int (s : str) : option Z :=
  match strip_with is_ws_int s with
  | 45 :: r => option_map (fun n => Z.opp (Z.of_N n)) (int_digits r)
  | 43 :: r => option_map Z.of_N (int_digits r)
  | t => option_map Z.of_N (int_digits t)
  end.

Lemma us_ok_digits s b : all_digits s = true -> us_ok b s = true.
Proof.
  revert b; induction s as [|x r IH]; cbn; intros b H; [reflexivity|].
  apply andb_prop in H. destruct H as [Hx Hr]. unfold is_digit in Hx.
  replace (x =? 95) with false by lia. apply IH; assumption.
Qed.
Lemma drop_us_digits s : all_digits s = true -> drop_us s = s.
Proof.
  induction s as [|x r IH]; intros H; [reflexivity|].
  apply andb_prop in H. destruct H as [Hx Hr]. unfold is_digit in Hx.
  unfold drop_us in *. cbn [filter].
  replace (x =? 95) with false by lia. cbn [negb]. rewrite IH; auto.
Qed.

Lemma py_int_show_dec n : py_int (show_dec n) = Some (Z.of_N n).
Proof.
  unfold py_int. rewrite strip_with_clean by (apply no_ws_int_digits, show_dec_digits).
  destruct (show_dec_head n) as [d [r [E Hd]]].
  assert (G : option_map Z.of_N (int_digits (show_dec n)) = Some (Z.of_N n)).
  { unfold int_digits. rewrite us_ok_digits, drop_us_digits, parse_show_dec by apply show_dec_digits. reflexivity. }
  rewrite E in *.
  destruct d as [|p]; [lia|].
  do 6 (destruct p as [p|p|]; try lia; try exact G).
Qed.

(** text of a Python int ('%s' % n) *)
Definition show_z (z : Z) : str :=
  match z with Zneg p => 45 :: show_dec (Npos p) | _ => show_dec (Z.to_N z) end.

(** * hexadecimal (two upper-case digits per octet, as netaddr's EUI prints) *)
Definition hexd (d : N) : N := if d <? 10 then 48 + d else 55 + d.
Definition hex_val (x : N) : option N :=
  if is_digit x then Some (x - 48)
  else if (65 <=? x) && (x <=? 70) then Some (x - 55)
  else if (97 <=? x) && (x <=? 102) then Some (x - 87) else None.
Fixpoint parse_hex_acc (acc : N) (s : str) : option N :=
  match s with
  | [] => Some acc
  | x :: r => match hex_val x with Some d => parse_hex_acc (acc * 16 + d) r | None => None end
  end.
(** int(s, 16) for ASCII text: surrounding whitespace, optional sign, optional 0x/0X, hex digits
    with single underscores between digits (and one allowed right after the 0x prefix) *)
Definition is_hexd (x : N) : bool := match hex_val x with Some _ => true | None => false end.
Fixpoint us_ok16 (prev_digit : bool) (s : str) : bool :=
  match s with
  | [] => true
  | x :: r => if x =? 95
              then prev_digit && (match r with y :: _ => is_hexd y | [] => false end) && us_ok16 false r
              else us_ok16 (is_hexd x) r
  end.
Definition py_int16 (s : str) : option Z :=
  let digits (t : str) : option N :=
    if us_ok16 false t then match drop_us t with [] => None | d => parse_hex_acc 0 d end else None in
  let body (t : str) : option N :=
    match t with
    | 48 :: 120 :: 95 :: r | 48 :: 88 :: 95 :: r => digits r
    | 48 :: 120 :: r | 48 :: 88 :: r => digits r
    | _ => digits t
    end in
  match strip_with is_ws_int s with
  | 45 :: r => option_map (fun n => Z.opp (Z.of_N n)) (body r)
  | 43 :: r => option_map Z.of_N (body r)
  | t => option_map Z.of_N (body t)
  end.
Definition show_hex2 (b : N) : str := [hexd (b / 16); hexd (b mod 16)].

Lemma py_int16_show_hex2 b : b < 256 -> py_int16 (show_hex2 b) = Some (Z.of_N b).
Proof.
  intros Hb.
  assert (Hq : b / 16 < 16) by (apply N.div_lt_upper_bound; lia).
  assert (Hr : b mod 16 < 16) by (apply N.mod_lt; lia).
  pose proof (N.div_mod b 16 ltac:(lia)) as Hdm.
  set (q := b / 16) in *. set (r := b mod 16) in *.
  assert (Eb : b = 16 * q + r) by lia. rewrite Eb. clear Eb Hdm Hb. clearbody q r.
  assert (Cq : q = 0 \/ q = 1 \/ q = 2 \/ q = 3 \/ q = 4 \/ q = 5 \/ q = 6 \/ q = 7 \/ q = 8 \/ q = 9 \/
               q = 10 \/ q = 11 \/ q = 12 \/ q = 13 \/ q = 14 \/ q = 15) by lia.
  assert (Cr : r = 0 \/ r = 1 \/ r = 2 \/ r = 3 \/ r = 4 \/ r = 5 \/ r = 6 \/ r = 7 \/ r = 8 \/ r = 9 \/
               r = 10 \/ r = 11 \/ r = 12 \/ r = 13 \/ r = 14 \/ r = 15) by lia.
  repeat (destruct Cq as [Cq|Cq]; [subst q; repeat (destruct Cr as [Cr|Cr]; [subst r; vm_compute; reflexivity|]); subst r; vm_compute; reflexivity|]).
  subst q; repeat (destruct Cr as [Cr|Cr]; [subst r; vm_compute; reflexivity|]); subst r; vm_compute; reflexivity.
Qed.

Lemma show_hex2_no_dash b : b < 256 -> ~ In 45 (show_hex2 b).
Proof.
  intros Hb. unfold show_hex2, hexd.
  assert (b / 16 < 16) by (apply N.div_lt_upper_bound; lia).
  assert (b mod 16 < 16) by (apply N.mod_lt; lia).
  intros [H1|[H1|[]]]; destruct (_ <? 10) eqn:E in H1; lia.
Qed.

(** MAC text XX-XX-...: octets joined by '-' *)
Definition show_mac (octs : bytes) : str := join 45 (map show_hex2 octs).
(** the decoder side of the code: [int(i, 16) for i in s.split('-')] *)
Fixpoint map_opt {A B} (f : A -> option B) (l : list A) : option (list B) :=
  match l with
  | [] => Some []
  | a :: r => match f a, map_opt f r with Some b, Some t => Some (b :: t) | _, _ => None end
  end.
Definition parse_mac_parts (s : str) : option (list Z) := map_opt py_int16 (split_on 45 s).

Lemma parse_show_mac octs : octs <> [] -> wf_bytes octs ->
  parse_mac_parts (show_mac octs) = Some (map Z.of_N octs).
Proof.
  unfold parse_mac_parts, show_mac. induction octs as [|b r IH]; [congruence|].
  intros _ Hwf. inversion Hwf as [|? ? Hb Hr]; subst.
  destruct r as [|b2 r'].
  - cbn [map join]. rewrite split_on_none by (apply show_hex2_no_dash; assumption).
    cbn [map_opt]. rewrite py_int16_show_hex2 by assumption. reflexivity.
  - change (join 45 (map show_hex2 (b :: b2 :: r'))) with (show_hex2 b ++ 45 :: join 45 (map show_hex2 (b2 :: r'))).
    rewrite split_on_app by (apply show_hex2_no_dash; assumption).
    cbn [map_opt]. rewrite py_int16_show_hex2 by assumption.
    rewrite IH by (congruence || assumption). reflexivity.
Qed.

(** * dotted-quad IPv4 (netaddr.IPAddress(int) -> str and the strict inet_pton form back) *)
Definition show_ip4 (n : N) : str :=
  show_dec (n / 16777216 mod 256) ++ 46 :: show_dec (n / 65536 mod 256) ++ 46 ::
  show_dec (n / 256 mod 256) ++ 46 :: show_dec (n mod 256).

(** one part: 1-3 digits, no leading zero unless it is "0", at most 255 *)
Definition ip4_part (s : str) : option N :=
  match s with
  | [] => None
  | 48 :: _ :: _ => None
  | _ => if (length s <=? 3)%nat then
           match parse_dec s with Some v => if v <=? 255 then Some v else None | None => None end
         else None
  end.
Definition parse_ip4 (s : str) : option N :=
  match map_opt ip4_part (split_on 46 s) with
  | Some [a; b; c; d] => Some (a * 16777216 + b * 65536 + c * 256 + d)
  | _ => None
  end.

Lemma show_dec_small v : v < 256 -> ip4_part (show_dec v) = Some v.
Proof.
  intros Hv.
  assert (G : forall k, (k < 256)%nat -> ip4_part (show_dec (N.of_nat k)) = Some (N.of_nat k)).
  { intros k Hk. do 256 (destruct k as [|k]; [vm_compute; reflexivity|]). lia. }
  specialize (G (N.to_nat v) ltac:(lia)). rewrite Nnat.N2Nat.id in G. exact G.
Qed.

Lemma show_dec_no_dot v : ~ In 46 (show_dec v).
Proof. apply all_digits_notin; [apply show_dec_digits | lia]. Qed.

Lemma parse_show_ip4 n : n < 4294967296 -> parse_ip4 (show_ip4 n) = Some n.
Proof.
  intros Hn. unfold parse_ip4, show_ip4.
  rewrite !split_on_app by apply show_dec_no_dot.
  rewrite split_on_none by apply show_dec_no_dot.
  cbn [map_opt].
  rewrite !show_dec_small by (apply N.mod_lt; lia).
  f_equal.
  Ltac Zify.zify_post_hook ::= Z.to_euclidean_division_equations.
  lia.
Qed.

Lemma show_ip4_chars n x : In x (show_ip4 n) -> x = 46 \/ 48 <= x <= 57.
Proof.
  unfold show_ip4. intros H.
  repeat (apply in_app_or in H; destruct H as [H|H];
          [right; apply (all_digits_in _ _ (show_dec_digits _) H)|];
          destruct H as [H|H]; [left; auto|]).
  right; apply (all_digits_in _ _ (show_dec_digits _) H).
Qed.

Lemma show_ip4_has_dot n : mem 46 (show_ip4 n) = true.
Proof.
  unfold mem, show_ip4. apply existsb_exists. exists 46. split; [|reflexivity].
  apply in_or_app. right. left. reflexivity.
Qed.
