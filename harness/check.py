#!/venv/bin/python
"""./bin/check <Cnn> [--tier quick|thorough] [--replay file]

Generic flow (DESIGN.md section 2.4/2.5):
  1. regenerate coq/gen/*.v from /repo (fail-closed translators)
  2. build the property's Coq targets (proof obligations)        -> proof_ok
  3. audit (no Admitted/Axiom/...), Print Assumptions of props/<Cnn>.v
  4. property module: correspondence (model vs implementation on the same inputs)
     and the property oracle run directly on the implementation
  5. verdict, evidence/<Cnn>.json, exit status
"""
import argparse
import importlib
import json
import os
import random
import sys
import time
import traceback

HERE = os.path.dirname(os.path.abspath(__file__))
sys.path.insert(0, HERE)
import common  # noqa: E402


class Ctx(object):
    pass


def main():
    # a runaway state (e.g. a buffer that grows without bound) must end as a MemoryError inside this process,
    # which is reported, not as an OOM kill of the machine
    try:
        import resource
        lim = 24 * 1024 ** 3
        resource.setrlimit(resource.RLIMIT_AS, (lim, lim))
    except Exception:
        pass
    ap = argparse.ArgumentParser()
    ap.add_argument('prop')
    ap.add_argument('--tier', default=os.environ.get('VERIF_TIER', 'quick'))
    ap.add_argument('--replay')
    a = ap.parse_args()
    prop = a.prop.upper()
    t0 = time.time()
    seed = int(os.environ.get('VERIF_SEED', '0'))
    mod = importlib.import_module('props.%s' % prop.lower())
    ctx = Ctx()
    ctx.prop, ctx.tier, ctx.seed, ctx.rng = prop, a.tier, seed, random.Random(seed)
    ctx.thorough = a.tier == 'thorough'
    ctx.replay = a.replay

    if a.replay:
        rc = mod.replay(ctx, json.load(open(a.replay)))
        sys.exit(rc)

    broken = []          # proof obligations / correspondences that no longer check
    # 1. regenerate
    for name, rc, out in common.regen(prop):
        broken.append({'kind': 'translator', 'what': 'coq/gen/%s' % name, 'detail': out})
    # 2. build
    targets = getattr(mod, 'COQ_TARGETS', ['props/%s.vo' % prop])
    proof_ok = True
    if not broken:
        rc, out = common.build(targets)
        if rc != 0:
            proof_ok = False
            broken.append({'kind': 'proof', 'what': common.first_error(out), 'detail': out[-3000:]})
    else:
        proof_ok = False
    # 3. audit + assumptions
    thms, ass_text = [], ''
    if proof_ok:
        hits = common.audit()
        if hits:
            broken.append({'kind': 'audit', 'what': '; '.join(hits[:10]), 'detail': ''})
        ok, thms, ass_text, err = common.assumptions(prop)
        if not ok:
            broken.append({'kind': 'assumptions', 'what': err, 'detail': ass_text[-2000:]})
    ctx.coq_ok = proof_ok
    # 4. property module
    try:
        res = mod.run(ctx)
    except BaseException as hang:
        if type(hang).__name__ != 'EventHang':
            raise
        evs = hang.args[0] if hang.args else []
        def short(e):
            return [x if not isinstance(x, (bytes, bytearray)) else bytes(x).hex() for x in e]
        res = {'evaluations': 0, 'distinct': 0, 'samples': [], 'rule': '', 'mismatches': [], 'extra': {},
               'violations': [{'what': 'a session event did not return within the CPU limit (endless loop): the last '
                                       'event of the replay never finishes',
                               'events': [short(e) for e in evs], 'config': repr(hang.args[1] if len(hang.args) > 1 else {}),
                               'known': None}]}
    except Exception:
        res = {'evaluations': 0, 'distinct': 0, 'samples': [], 'rule': '', 'mismatches': [],
               'violations': [], 'extra': {}}
        broken.append({'kind': 'harness', 'what': 'property module crashed', 'detail': traceback.format_exc()})
    for m in res.get('mismatches', []):
        broken.append({'kind': 'correspondence', 'what': m.get('what', 'model and implementation differ'),
                       'detail': m})
    # 5. verdict
    known = common.known_findings(prop)
    new_viol, known_hit = [], {}
    for v in res.get('violations', []):
        kid = v.get('known')
        if kid and any(k['id'] == kid for k in known):
            known_hit.setdefault(kid, v)
        else:
            new_viol.append(v)
    for kid, v in sorted(known_hit.items()):
        k = [k for k in known if k['id'] == kid][0]
        print('KNOWN-FINDING: property=%s %s [%s]' % (prop, k['what'], kid))
    rc = 0
    nviol = 0
    if new_viol:
        v = new_viol[0]
        path = common.write_replay(prop, 'violation', {'property': prop, 'violation': v,
                                                       'others': new_viol[1:20], 'broken': broken})
        print('VIOLATION property=%s replay=%s' % (prop, path))
        print('  ' + str(v.get('what', ''))[:500])
        rc, nviol = 1, len(new_viol)
    elif broken:
        path = common.write_replay(prop, 'broken', {'property': prop, 'no_longer_checks': broken})
        print('VIOLATION property=%s replay=%s %s: %s no-failing-input-found'
              % (prop, path, broken[0]['kind'], str(broken[0]['what'])[:300]))
        rc, nviol = 1, len(broken)
    cov = {
        'obligations': len(thms), 'discharged': len(thms) if proof_ok else 0,
        'checker_cmd': 'coqc (make -f Makefile.coq %s); Print Assumptions under every theorem of coq/props/%s.v'
                       % (' '.join(targets), prop),
        'trusted_base': common.TRUSTED_BASE + getattr(mod, 'TRUSTED', []),
        'theorems': thms,
        'print_assumptions': ('all closed under the global context' if ass_text and 'Axioms:' not in ass_text
                              else ass_text[-1500:]),
        'evaluations': res.get('evaluations', 0),
        'distinct_nontrivial': res.get('distinct', 0),
        'rule': res.get('rule', ''),
        'samples': res.get('samples', [])[:8],
        'known_findings_reproduced': sorted(known_hit),
        'no_longer_checks': [{'kind': b['kind'], 'what': str(b['what'])[:400]} for b in broken],
    }
    # per-property extras; a key the evidence schema reserves for a count keeps its meaning
    for k, v in res.get('extra', {}).items():
        if k in ('states', 'transitions', 'traces_validated_against_impl', 'obligations', 'discharged',
                 'evaluations', 'distinct_nontrivial') and not isinstance(v, int):
            k = k + '_detail'
        if k in ('evaluations', 'distinct_nontrivial', 'rule', 'samples', 'obligations', 'discharged') and k in cov:
            k = 'extra_' + k
        cov[k] = v
    common.write_evidence(prop, a.tier, seed, cov, getattr(mod, 'ASSUMPTIONS', []), time.time() - t0, nviol)
    if rc == 0:
        print('OK property=%s tier=%s theorems=%d cases=%d wall=%.1fs'
              % (prop, a.tier, len(thms), res.get('evaluations', 0), time.time() - t0))
    sys.exit(rc)


if __name__ == '__main__':
    main()
