"""Driving the real session layer (BGPPeering/FSM/BGP on the simulated reactor) event by event,
extracting the abstract state the Coq model (coq/model/YSession.v) predicts, and printing
events / expected values as Coq terms."""
import struct
from fractions import Fraction

import env
from env import CONF, bgp_cons

TIMER_ATTR = [('TConnectRetry', 'connect_retry_timer'), ('THold', 'hold_timer'),
              ('TKeepAlive', 'keep_alive_timer'), ('TDelayOpen', 'delay_open_timer'),
              ('TIdleHold', 'idle_hold_timer')]
TIMER_OF = dict(TIMER_ATTR)

CAPKEYS = {'four_bytes_as': 0, 'route_refresh': 1, 'cisco_route_refresh': 2,
           'enhanced_route_refresh': 3, 'graceful_restart': 4, 'cisco_multi_session': 5,
           'add_path': 6, 'afi_safi': 7, 'ext_nexthop': 8, 'LLGR': 9}
CAPKEY_COQ = {0: 'KFourBytesAs', 1: 'KRouteRefresh', 2: 'KCiscoRouteRefresh',
              3: 'KEnhancedRouteRefresh', 4: 'KGracefulRestart', 5: 'KCiscoMultiSession',
              6: 'KAddPath', 7: 'KAfiSafi', 8: 'KExtNexthop', 9: 'KLLGR'}
ADDPATH = {None: 0, 'ipv4_receive': 1, 'ipv4_send': 2, 'ipv4_both': 3}
HCALL = {'on_established': 0, 'on_connection_failed': 1, 'on_connection_lost': 2, 'send_open': 3,
         'open_received': 4, 'keepalive_received': 5, 'update_received': 6, 'on_update_error': 7,
         'notification_received': 8}


class Bytes(bytes):
    """marks a value to be rendered as SB"""


def thirds(x):
    f = Fraction(x).limit_denominator(3) * 3
    assert f.denominator == 1, x
    return int(f)


def cap_item(k, v):
    """(capkey number, capval) -> python structure mirroring sx_cap"""
    if k in CAPKEYS:
        kn = CAPKEYS[k]
    else:
        kn = 10 + int(k)
    if k == 'afi_safi' and isinstance(v, (list, tuple)) and all(
            isinstance(p, (list, tuple)) and len(p) == 2 for p in v):
        val = [2, [[int(a), int(b)] for a, b in v]]
    elif k == 'add_path' and (v is None or isinstance(v, str)):
        val = [1, ADDPATH[v]]
    elif isinstance(v, bool):
        val = [0, 1 if v else 0]
    else:
        val = [3]
    return [kn, val]


def coq_cap(item):
    kn, val = item
    key = CAPKEY_COQ.get(kn) or '(KOther %d)' % (kn - 10)
    if val[0] == 0:
        v = '(CVBool %s)' % ('true' if val[1] else 'false')
    elif val[0] == 1:
        v = '(CVAddPath %d)' % val[1]
    elif val[0] == 2:
        v = '(CVAfiSafi [%s])' % '; '.join('(%d, %d)' % (a, b) for a, b in val[1])
    else:
        v = 'CVOpaque'
    return '(%s, %s)' % (key, v)


def coq_bytes(b):
    return '[%s]' % '; '.join('%d' % x for x in b)


def coq_sx(v):
    if isinstance(v, Bytes):
        return 'SB %s' % coq_bytes(v)
    if isinstance(v, bool):
        return 'SN %d' % (1 if v else 0)
    if isinstance(v, int):
        return 'SN %d' % v
    if isinstance(v, (list, tuple)):
        return 'SL [%s]' % '; '.join(coq_sx(x) for x in v)
    if v is None:
        return 'SL []'
    raise TypeError(repr(v))


def opt(v):
    return [] if v is None else [v]


def coq_event(e):
    k = e[0]
    if k == 'boot':
        return 'EBoot'
    if k in ('connok', 'connfail', 'lost'):
        return '(%s %d%%nat)' % ({'connok': 'EConnOk', 'connfail': 'EConnFail', 'lost': 'ELost'}[k], e[1])
    if k == 'data':
        return '(EData %d%%nat %s)' % (e[1], coq_bytes(e[2]))
    if k == 'fire':
        return '(EFire %s)' % e[1]
    if k == 'advance':
        return '(EAdvance %d)' % e[1]
    if k == 'stop':
        return 'EManualStop'
    if k == 'start':
        return 'EManualStart'
    if k == 'sendupd':
        return '(ESendUpdate %s %s)' % ('true' if e[1] else 'false', coq_bytes(e[2]))
    if k == 'sendbin':
        return '(ESendBin %s)' % coq_bytes(e[1])
    raise ValueError(e)


def parse_written(data):
    """bytes written by the agent -> structure mirroring sx_wmsg (independent little parser)"""
    ty = data[18]
    body = data[19:]
    if ty == 1:
        ver, asn, hold, bid, optlen = struct.unpack('!BHHIB', body[:10])
        assert ver == 4
        caps = []
        rest = body[10:10 + optlen]
        while rest:
            pt, pl = rest[0], rest[1]
            assert pt == 2
            cs = rest[2:2 + pl]
            while cs:
                code, cl = cs[0], cs[1]
                val = cs[2:2 + cl]
                if code == 5:
                    caps.append([5])
                else:
                    caps.append([code, Bytes(val)])
                cs = cs[2 + cl:]
            rest = rest[2 + pl:]
        return [1, asn, hold, bid, caps]
    if ty == 4:
        return [4]
    if ty == 3:
        return [3, body[0], body[1], Bytes(body[2:])]
    if ty in (5, 128) and len(body) == 4:
        afi, res, safi = struct.unpack('!HBB', body)
        return [ty, afi, res, safi]
    return [2, Bytes(data)]


EVENT_CPU_LIMIT = 20.0


class EventHang(BaseException):
    """one driver event used more than EVENT_CPU_LIMIT seconds of CPU: args = (events so far, configuration)"""


def _hang_alarm(signum, frame):
    raise EventHang()


class Driver(object):
    """one real peering on a fresh simulated reactor"""

    def __init__(self, **kw):
        self.kw = kw
        self.sim, self.peering, self.handler = env.make_world(**kw)
        self.tables = {'open': {}, 'upd4': {}, 'upd2': {}}
        self._patch()
        self.exc = 0

    # -- record what the decoders returned to the session layer ------------
    def _patch(self):
        from yabgp.message.open import Open
        from yabgp.core.protocol import BGP
        from yabgp.common import exception as excep
        drv = self
        if not hasattr(Open, '_verif_orig_parse'):
            Open._verif_orig_parse = Open.parse
            BGP._verif_orig_upd = BGP._update_received

        def parse(self_, message):
            try:
                r = Open._verif_orig_parse(self_, message)
            except excep.MessageHeaderError as e:
                Driver.current.tables['open'][bytes(message)] = ('hdr', e.sub_error)
                raise
            except excep.OpenMessageError as e:
                Driver.current.tables['open'][bytes(message)] = ('open', e.sub_error)
                raise
            except Exception:
                Driver.current.tables['open'][bytes(message)] = ('exc',)
                raise
            Driver.current.tables['open'][bytes(message)] = (
                'ok', self_.asn, self_.hold_time, [cap_item(k, v) for k, v in self_.capa_dict.items()])
            return r

        def upd(self_, timestamp, msg):
            d = Driver.current
            key = 'upd4' if self_.fourbytesas else 'upd2'
            n = len(d.handler.calls)
            try:
                r = BGP._verif_orig_upd(self_, timestamp, msg)
            except Exception:
                d.tables[key][bytes(msg)] = 'UpExc'
                raise
            names = [c[0] for c in d.handler.calls[n:]]
            d.tables[key][bytes(msg)] = 'UpSubErr' if 'on_update_error' in names else 'UpOk'
            return r
        Open.parse = parse
        BGP._update_received = upd
        Driver.current = self

    # -- abstract state -----------------------------------------------------
    def cid_of(self, proto):
        if proto is None:
            return None
        for c in self.sim.connectors:
            if c.protocol is proto:
                return c.cid
        raise AssertionError('protocol without connector')

    def state(self):
        f = self.peering.fsm
        timers = []
        for _, attr in TIMER_ATTR:
            t = getattr(f, attr)
            dc = t.delayed_call
            dl = thirds(dc.time) if (dc is not None and dc.active()) else None
            timers.append([opt(dl), bool(t.status)])
        conns = []
        for c in self.sim.connectors:
            st = {'connecting': 0, 'connected': 1, 'failed': 2, 'closed': 3}[c.state]
            p = c.protocol
            if p is None:
                conns.append([st, False, False, Bytes(b''), False, False, False,
                              [0, 0, 0, 0, 0], [0, 0, 0, 0, 0]])
            else:
                order = ['Opens', 'Notifications', 'Updates', 'Keepalives', 'RouteRefresh']
                conns.append([st, bool(c.transport.disconnecting), bool(p.disconnected),
                              Bytes(p._receive_buffer), bool(p.fourbytesas),
                              bool(p.add_path_ipv4_receive), bool(p.add_path_ipv4_send),
                              [p.msg_sent_stat[k] for k in order], [p.msg_recv_stat[k] for k in order]])
        capd = CONF.bgp.running_config['capability']
        return [f.state, f.hold_time, thirds(f.keep_alive_time), f.connect_retry_counter,
                bool(f.allow_automatic_start), opt(self.cid_of(f.protocol)), timers, conns,
                opt(self.cid_of(self.peering.estab_protocol)), bool(self.peering.status),
                thirds(self.sim.now),
                [cap_item(k, v) for k, v in capd['local'].items()],
                [cap_item(k, v) for k, v in capd['remote'].items()]]

    # -- events -------------------------------------------------------------
    def timer_dc(self, tname):
        t = getattr(self.peering.fsm, TIMER_OF[tname])
        dc = t.delayed_call
        return dc if (dc is not None and dc.active()) else None

    def enabled(self, e):
        k = e[0]
        sim = self.sim
        if k in ('boot', 'stop', 'start'):
            return True
        if k in ('connok', 'connfail'):
            return e[1] < len(sim.connectors) and sim.connectors[e[1]].state == 'connecting'
        if k == 'lost':
            return e[1] < len(sim.connectors) and sim.connectors[e[1]].state == 'connected'
        if k == 'data':
            return e[1] < len(sim.connectors) and sim.connectors[e[1]].readable()
        if k == 'fire':
            dc = self.timer_dc(e[1])
            return dc is not None and dc.time == sim.next_due()
        if k == 'advance':
            nd = sim.next_due()
            return nd is None or sim.now + Fraction(e[1], 3) <= nd
        if k in ('sendupd', 'sendbin'):
            return self.peering.fsm.state == bgp_cons.ST_ESTABLISHED
        raise ValueError(e)

    def coq_event(self, e):
        """Coq term of the event; for API sends the construct result is the decoder-like
        oracle: (does Update.construct succeed, the bytes it returned)"""
        if e[0] == 'sendupd':
            p = self.peering.fsm.protocol
            if p is None:
                return '(ESendUpdate false [])'
            b = p.construct_update_to_bin(e[1])
            if isinstance(b, bytes):
                return '(ESendUpdate true %s)' % coq_bytes(b)
            return '(ESendUpdate false [])'
        return coq_event(e)

    def apply(self, e):
        """returns [enabled, outs, state] mirroring trace_sx"""
        Driver.current = self
        en = self.enabled(e)
        n0 = len(self.sim.log)
        if en:
            self.history = getattr(self, 'history', [])
            self.history.append(e)
            # an event that does not return (an endless loop in the receive path) must end as a report, not hang
            # the check: CPU-time alarm, raised as a BaseException so that no catch-all of yabgp swallows it
            import signal
            old = signal.signal(signal.SIGVTALRM, _hang_alarm)
            signal.setitimer(signal.ITIMER_VIRTUAL, EVENT_CPU_LIMIT)
            try:
                try:
                    self._do(e)
                except Exception:
                    self.exc += 1
                    self.sim.log.append(('exc',))
            except EventHang:
                raise EventHang(list(self.history), dict(self.kw))
            finally:
                signal.setitimer(signal.ITIMER_VIRTUAL, 0)
                signal.signal(signal.SIGVTALRM, old)
        outs = []
        for item in self.sim.log[n0:]:
            if item[0] == 'connect':
                outs.append([0, item[1]])
            elif item[0] == 'write':
                outs.append([1, item[1], parse_written(item[2])])
            elif item[0] == 'lose':
                outs.append([2, item[1]])
            elif item[0] == 'handler':
                if item[1] == 'route_refresh_received':
                    outs.append([3, 100 + item[3]])
                else:
                    outs.append([3, HCALL[item[1]]])
            elif item[0] == 'exc':
                outs.append([4])
        return [en, outs, self.state()]

    def _do(self, e):
        k = e[0]
        sim = self.sim
        if k == 'boot':
            self.peering.automatic_start()
        elif k == 'connok':
            sim.connectors[e[1]].succeed()
        elif k == 'connfail':
            sim.connectors[e[1]].fail()
        elif k == 'lost':
            sim.connectors[e[1]].lose()
        elif k == 'data':
            sim.connectors[e[1]].deliver(bytes(e[2]))
        elif k == 'fire':
            sim.fire(self.timer_dc(e[1]))
        elif k == 'advance':
            sim.advance(Fraction(e[1], 3))
        elif k == 'stop':
            self.peering.manual_stop()
        elif k == 'start':
            self.peering.manual_start()
        elif k == 'sendupd':
            self.peering.fsm.protocol.send_update(e[1])
        elif k == 'sendbin':
            self.peering.fsm.protocol.send_bin_update(bytes(e[1]))
        else:
            raise ValueError(e)

    # -- Coq text -------------------------------------------------------------
    def coq_cfg(self):
        kw = dict(local_as=65001, remote_as=65002, hold_time=180, keep_alive_time=60,
                  connect_retry_time=30, idle_hold_time=30, delay_open_time=10,
                  local_addr='10.0.0.1')
        kw.update(self.kw)
        import netaddr
        return '(mkCfg %d %d %d %d %d %d %d false %d)' % (
            kw['local_as'], kw['remote_as'], kw['hold_time'], kw['keep_alive_time'],
            kw['connect_retry_time'], kw['idle_hold_time'], kw['delay_open_time'],
            int(netaddr.IPAddress(kw['local_addr'])))

    def coq_tables(self):
        def open_res(v):
            if v[0] == 'hdr':
                return '(OpHdrErr %d)' % v[1]
            if v[0] == 'open':
                return '(OpOpenErr %d)' % v[1]
            if v[0] == 'exc':
                return 'OpExc'
            return '(OpOk %d %d [%s])' % (v[1], v[2], '; '.join(coq_cap(c) for c in v[3]))
        to = '; '.join('(%s, %s)' % (coq_bytes(k), open_res(v)) for k, v in self.tables['open'].items())
        t4 = '; '.join('(%s, %s)' % (coq_bytes(k), v) for k, v in self.tables['upd4'].items())
        t2 = '; '.join('(%s, %s)' % (coq_bytes(k), v) for k, v in self.tables['upd2'].items())
        return '(tbl_dec [%s] [%s] [%s])' % (to, t4, t2)


def initial_caps(kw):
    caps = dict(env.DEFAULT_CAPS if kw.get('caps') is None else kw['caps'])
    afl = [bgp_cons.AFI_SAFI_STR_DICT[a] for a in kw.get('afi_safi', ('ipv4',))]
    caps['afi_safi'] = afl
    return [cap_item(k, v) for k, v in caps.items()]


def run_trace(kw, events):
    """fresh driver, apply events; returns (driver, [coq event terms], [step results])"""
    d = Driver(**kw)
    cevs, res = [], []
    for e in events:
        cevs.append(d.coq_event(e))
        res.append(d.apply(e))
    return d, cevs, res


def coq_case(kw, cevs, d, res):
    """one trace as a Coq pair (model steps, implementation steps)"""
    model = 'trace_sx %s (world0 %s [%s]) [%s]' % (
        d.coq_tables(), d.coq_cfg(), '; '.join(coq_cap(c) for c in initial_caps(kw)),
        '; '.join(cevs))
    impl = '[%s]' % '; '.join(coq_sx(r) for r in res)
    return '(%s, %s)' % (model, impl)
