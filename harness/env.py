"""Harness environment: puts the stubs and /repo on sys.path, configures oslo.config,
builds a real BGPPeering/FSM/BGP on the simulated reactor.

Import this module before anything from yabgp.
"""
import os
import sys
import logging

HERE = os.path.dirname(os.path.abspath(__file__))
VERIF = os.path.dirname(HERE)
REPO = os.environ.get('YABGP_REPO', '/repo')
STUBS = os.path.join(HERE, 'stubs')

for p in (REPO, STUBS):
    if p in sys.path:
        sys.path.remove(p)
sys.path.insert(0, REPO)
sys.path.insert(0, STUBS)
if HERE not in sys.path:
    sys.path.append(HERE)

logging.disable(logging.CRITICAL)

from oslo_config import cfg  # noqa: E402
from twisted.internet import reactor as sim_reactor  # noqa: E402

import yabgp.config  # noqa: E402,F401  (registers option groups)
from yabgp.common import constants as bgp_cons  # noqa: E402

CONF = cfg.CONF
_conf_inited = False


def init_conf():
    global _conf_inited
    if not _conf_inited:
        CONF(args=[], project='yabgp', default_config_files=[])
        _conf_inited = True


DEFAULT_CAPS = {
    'four_bytes_as': True,
    'route_refresh': True,
    'cisco_route_refresh': True,
    'enhanced_route_refresh': True,
    'graceful_restart': True,
    'cisco_multi_session': True,
    'add_path': None,
}


class RecHandler(object):
    """records every callback the session layer makes (name + canonical payload)"""

    def __init__(self, sim):
        from six.moves.queue import Queue  # same class BaseHandler uses
        self.inter_mq = Queue()
        self.sim = sim
        self.calls = []

    def init(self):
        pass

    def _rec(self, name, *payload):
        self.calls.append((name,) + payload)
        self.sim.log.append(('handler', name) + payload)

    def on_update_error(self, peer, timestamp, msg):
        self._rec('on_update_error', msg)

    def update_received(self, peer, timestamp, msg):
        self._rec('update_received', msg)

    def keepalive_received(self, peer, timestamp):
        self._rec('keepalive_received')

    def open_received(self, peer, timestamp, result):
        self._rec('open_received', result)

    def send_open(self, peer, timestamp, result):
        self._rec('send_open', dict(result, capabilities=dict(result['capabilities'])))

    def route_refresh_received(self, peer, msg, msg_type):
        self._rec('route_refresh_received', msg, msg_type)

    def notification_received(self, peer, msg):
        self._rec('notification_received', msg)

    def on_connection_lost(self, peer):
        self._rec('on_connection_lost')

    def on_connection_failed(self, peer, msg):
        self._rec('on_connection_failed')

    def on_established(self, peer, msg):
        self._rec('on_established')


def make_world(local_as=65001, remote_as=65002, hold_time=180, keep_alive_time=60,
               connect_retry_time=30, idle_hold_time=30, delay_open_time=10,
               caps=None, afi_safi=('ipv4',), rib=False, local_addr='10.0.0.1',
               remote_addr='10.0.0.2', handler=None):
    """returns (sim, peering, handler).  All set_override calls come first; running_config
    is assigned last (oslo.config resets plain attributes on override)."""
    init_conf()
    CONF.clear_override('hold_time', group='time')
    CONF.set_override('hold_time', hold_time, group='time')
    CONF.set_override('keep_alive_time', keep_alive_time, group='time')
    CONF.set_override('connect_retry_time', connect_retry_time, group='time')
    CONF.set_override('idle_hold_time', idle_hold_time, group='time')
    CONF.set_override('delay_open_time', delay_open_time, group='time')
    CONF.set_override('afi_safi', list(afi_safi), group='bgp')
    CONF.set_override('rib', rib, group='bgp')
    local_caps = dict(DEFAULT_CAPS if caps is None else caps)
    afl = [bgp_cons.AFI_SAFI_STR_DICT[a] for a in afi_safi]
    local_caps['afi_safi'] = afl
    sim = sim_reactor.install()
    from yabgp.core.factory import BGPPeering
    h = handler or RecHandler(sim)
    CONF.bgp.running_config = {
        'remote_as': remote_as, 'remote_addr': remote_addr,
        'local_as': local_as, 'local_addr': local_addr, 'md5': None,
        'afi_safi': afl,
        'capability': {'local': local_caps, 'remote': {}},
    }
    peering = BGPPeering(myasn=local_as, myaddr=local_addr, peerasn=remote_as,
                         peeraddr=remote_addr, afisafi=afl, md5=None, handler=h)
    CONF.bgp.running_config['factory'] = peering
    return sim, peering, h
