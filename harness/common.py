"""Shared machinery of the checks: regeneration of coq/gen from /repo, Coq build, running
generated case files through coqc, audit, Print Assumptions, evidence, verdict protocol."""
import fcntl
import glob
import json
import os
import re
import subprocess
import sys
import time

HERE = os.path.dirname(os.path.abspath(__file__))
VERIF = os.path.dirname(HERE)
COQ = os.path.join(VERIF, 'coq')
BUILD = os.path.join(VERIF, 'build')
REPO = os.environ.get('YABGP_REPO', '/repo')
PY = '/venv/bin/python'
NPROC = int(os.environ.get('VERIF_JOBS', '16'))

IMPORTS = ('From YV Require Import lib.Base model.YWorld model.YProto gen.Consts gen.FsmGen '
           'model.YSession model.YSessionSx.\n')


def sh(cmd, timeout=1800, cwd=None, env=None):
    e = dict(os.environ)
    e['PYTHONHASHSEED'] = '0'
    if env:
        e.update(env)
    p = subprocess.run(cmd, shell=isinstance(cmd, str), cwd=cwd, env=e, timeout=timeout,
                       stdout=subprocess.PIPE, stderr=subprocess.STDOUT)
    out = p.stdout.decode('utf-8', 'replace')
    out = '\n'.join(l for l in out.split('\n') if 'WARNING: conda' not in l and 'conda.cli' not in l)
    return p.returncode, out


class Lock(object):
    def __init__(self, name='coq'):
        os.makedirs(BUILD, exist_ok=True)
        self.path = os.path.join(BUILD, '.%s.lock' % name)

    def __enter__(self):
        self.f = open(self.path, 'w')
        fcntl.flock(self.f, fcntl.LOCK_EX)
        return self

    def __exit__(self, *a):
        fcntl.flock(self.f, fcntl.LOCK_UN)
        self.f.close()


# ---------------------------------------------------------------------------------
# regeneration of coq/gen/*.v from /repo (translators); fail-closed
# ---------------------------------------------------------------------------------
GENERATORS = [
    # (generated file, command, properties whose proofs depend on it; None = all)
    ('Consts.v', [PY, '-B', os.path.join(HERE, 'translate_consts.py')], None),
    ('FsmGen.v', [PY, '-B', os.path.join(HERE, 'translate_fsm.py'),
                  os.path.join(REPO, 'yabgp/core/fsm.py')],
     {'C01', 'C02', 'C03', 'C04', 'C05', 'C10', 'C12', 'C13', 'C16', 'C18'}),
    ('Inventory.v', [PY, '-B', os.path.join(HERE, 'inventory.py')], {'C11', 'C15'}),
    ('RestInventory.v', [PY, '-B', os.path.join(HERE, 'inventory_rest.py')], {'C16'}),
]


def regen(prop=None):
    """run every generator; returns list of (file, rc, output) for generators that failed
    and that property `prop` depends on (all failures when prop is None)"""
    failed = []
    os.makedirs(os.path.join(COQ, 'gen'), exist_ok=True)
    with Lock('gen'):
        for name, cmd, deps in GENERATORS:
            if not os.path.exists(cmd[2]):
                continue
            # a check regenerates only what its own Coq files import (a missing file is always generated, so
            # that a partial tree still builds); `regen` without a property regenerates everything
            if prop is not None and deps is not None and prop not in deps and \
                    os.path.exists(os.path.join(COQ, 'gen', name)):
                continue
            rc, out = sh(cmd + [os.path.join(COQ, 'gen', name)], timeout=300)
            if rc != 0 and (prop is None or deps is None or prop in deps):
                failed.append((name, rc, out.strip()[-2000:]))
    return failed


def coq_files():
    fs = []
    for sub in ('lib', 'gen', 'model', 'spec', 'proof', 'props'):
        fs += sorted(glob.glob(os.path.join(COQ, sub, '*.v')))
    return [os.path.relpath(f, COQ) for f in fs]


def write_coqproject():
    text = '-Q . YV\n' + '\n'.join(coq_files()) + '\n'
    p = os.path.join(COQ, '_CoqProject')
    old = open(p).read() if os.path.exists(p) else None
    if old != text or not os.path.exists(os.path.join(COQ, 'Makefile.coq')):
        open(p, 'w').write(text)
        rc, out = sh('coq_makefile -f _CoqProject -o Makefile.coq', cwd=COQ)
        if rc != 0:
            raise RuntimeError(out)


FILE_TIMEOUT = int(os.environ.get('VERIF_COQC_TIMEOUT', '900'))


def build(targets=None, timeout=3000):
    """make the given .vo targets (relative to coq/), or everything.  returns (rc, output)"""
    with Lock('coq'):
        write_coqproject()
        tg = ' '.join(targets) if targets else ''
        # every file gets its own time limit: a change of the code can make a proof script diverge (seen: 20 min
        # and 9 GB on a symbolic execution with 3^5 paths); that must end as "proof no longer checks", quickly
        return sh('timeout %d make -f Makefile.coq -j%d COQC="timeout %d coqc" %s 2>&1' % (timeout, NPROC, FILE_TIMEOUT, tg),
                  cwd=COQ, timeout=timeout + 60)


def first_error(out):
    m = re.search(r'File "([^"]+)", line (\d+), characters [^\n]*\n(Error:.*?)(?:\n\S|\Z)', out, re.S)
    if m:
        return '%s:%s %s' % (m.group(1), m.group(2), ' '.join(m.group(3).split())[:600])
    return out.strip()[-800:]


# ---------------------------------------------------------------------------------
# audit + Print Assumptions
# ---------------------------------------------------------------------------------
FORBIDDEN = re.compile(r'\b(Admitted|admit|Axiom|Axioms|Parameter|Parameters|Conjecture|Conjectures|'
                       r'Admit Obligations|bypass_check|Unset Guard Checking|Unset Positivity Checking|'
                       r'Unset Universe Checking|type-in-type|impredicative-set)\b')


def strip_comments(src):
    out, depth, i = [], 0, 0
    while i < len(src):
        if src.startswith('(*', i):
            depth += 1
            i += 2
        elif src.startswith('*)', i) and depth:
            depth -= 1
            i += 2
        else:
            if not depth:
                out.append(src[i])
            i += 1
    return ''.join(out)


def audit():
    """forbidden vernacular anywhere in the development (comments stripped)"""
    hits = []
    for f in coq_files():
        src = strip_comments(open(os.path.join(COQ, f)).read())
        # Variable/Hypothesis outside a Section
        depth = 0
        for ln, line in enumerate(src.split('\n'), 1):
            if re.match(r'\s*Section\b', line):
                depth += 1
            elif re.match(r'\s*End\b', line) and depth:
                depth -= 1
            m = FORBIDDEN.search(line)
            if m:
                hits.append('%s:%d %s' % (f, ln, m.group(0)))
            if depth == 0 and re.match(r'\s*(Variable|Variables|Hypothesis|Hypotheses|Context)\b', line):
                hits.append('%s:%d %s outside a Section' % (f, ln, line.strip()[:40]))
    return hits


ALLOWED_AXIOMS = ()    # target: every property theorem is closed under the global context


def assumptions(prop):
    """compile props/<prop>.v (dependencies must be built) and parse Print Assumptions.
    returns (ok, theorems, text, error)"""
    rel = 'props/%s.v' % prop
    with Lock('coq'):
        rc, out = sh('timeout 900 coqc -Q . YV %s' % rel, cwd=COQ, timeout=960)
    if rc != 0:
        return False, [], out, first_error(out)
    src = strip_comments(open(os.path.join(COQ, rel)).read())
    thms = re.findall(r'^\s*(?:Theorem|Lemma|Corollary)\s+(\w+)', src, re.M)
    printed = re.findall(r'Print Assumptions\s+(\w+)', src)
    missing = [t for t in thms if t not in printed]
    blocks = re.split(r'(?=Closed under the global context|Axioms:)', out)
    closed = out.count('Closed under the global context')
    axioms = re.findall(r'^Axioms:\n((?:.+\n?)+)', out, re.M)
    bad = []
    if axioms:
        bad.append('axioms used: ' + ' | '.join(a.strip()[:300] for a in axioms))
    if missing:
        bad.append('no Print Assumptions for: %s' % ', '.join(missing))
    if closed != len(printed):
        bad.append('%d Print Assumptions but %d closed' % (len(printed), closed))
    return (not bad), thms, out, '; '.join(bad)


# ---------------------------------------------------------------------------------
# running generated case files
# ---------------------------------------------------------------------------------
def run_dir(prop):
    d = os.path.join(BUILD, 'run', prop)
    os.makedirs(d, exist_ok=True)
    for f in glob.glob(os.path.join(d, 'cases_*')):
        os.remove(f)
    return d


def coq_eval_shards(prop, shards, imports=IMPORTS, timeout=900):
    """shards: list of Coq source texts (without imports), each ending in Eval commands.
    returns list of (rc, output) in order.  Needs the imported .vo files built."""
    d = run_dir(prop)
    names = []
    # every model file the case files import is brought up to date first (a model file edited since the
    # last full build would otherwise be loaded stale: "inconsistent assumptions")
    mods = set()
    for text in [imports] + list(shards[:1]):
        for blk in re.findall(r'From YV Require Import ([^.]*(?:\.[A-Za-z_][^.]*)*)\.\s', text + ' '):
            for m in blk.split():
                if re.fullmatch(r'[a-z]+\.[A-Za-z0-9_]+', m):
                    mods.add(m.replace('.', '/') + '.vo')
    if mods:
        build(sorted(mods))
    for i, text in enumerate(shards):
        p = os.path.join(d, 'cases_%04d.v' % i)
        with open(p, 'w') as f:
            f.write(imports)
            f.write(text)
        names.append(p)
    procs = []
    results = [None] * len(names)
    idx = 0
    running = []
    while idx < len(names) or running:
        while idx < len(names) and len(running) < NPROC:
            p = subprocess.Popen('ulimit -s unlimited 2>/dev/null; timeout %d coqc -Q %s YV -Q %s Cases %s'
                                 % (timeout, COQ, d, names[idx]), shell=True,
                                 stdout=subprocess.PIPE, stderr=subprocess.STDOUT)
            running.append((idx, p))
            idx += 1
        for item in list(running):
            i, p = item
            if p.poll() is not None:
                results[i] = (p.returncode, p.stdout.read().decode('utf-8', 'replace'))
                running.remove(item)
        time.sleep(0.02)
    for f in glob.glob(os.path.join(d, '*.vo')) + glob.glob(os.path.join(d, '*.glob')) + \
            glob.glob(os.path.join(d, '.*.aux')) + glob.glob(os.path.join(d, '*.vok')) + \
            glob.glob(os.path.join(d, '*.vos')):
        os.remove(f)
    return results


def parse_pairs(out):
    """'= [(1, 2); (3, 4)] : list (N * N)' -> [(1,2),(3,4)]"""
    m = re.search(r'=\s*(\[.*?\])\s*:\s*list', out, re.S)
    if not m:
        return None
    return [(int(a), int(b)) for a, b in re.findall(r'\((\d+),\s*(\d+)\)', m.group(1))]


def parse_nats(out):
    m = re.search(r'=\s*(\[.*?\])\s*:\s*list', out, re.S)
    if not m:
        return None
    return [int(x) for x in re.findall(r'\d+', m.group(1))]


# ---------------------------------------------------------------------------------
# findings / evidence / verdict
# ---------------------------------------------------------------------------------
def known_findings(prop):
    p = os.path.join(VERIF, 'known_findings.json')
    ks = []
    if os.path.exists(p):
        ks += json.load(open(p)).get('known', [])
    # development aid only (never set by the registered commands): extra entries being proposed
    extra = os.environ.get('VERIF_KNOWN_EXTRA')
    if extra and os.path.exists(extra):
        x = json.load(open(extra))
        ks += x if isinstance(x, list) else x.get('known', [x])
    return [k for k in ks if k['property'] == prop]


def write_replay(prop, name, obj):
    d = os.path.join(BUILD, 'replay')
    os.makedirs(d, exist_ok=True)
    p = os.path.join(d, '%s_%s.json' % (prop, name))
    with open(p, 'w') as f:
        json.dump(obj, f, indent=1, default=lambda o: o.hex() if isinstance(o, (bytes, bytearray)) else repr(o))
    return p


def write_evidence(prop, tier, seed, coverage, assumptions_, wall, violations):
    # tools/seed.py (runs on deliberately broken trees) redirects this: evidence/ itself only ever holds
    # records of runs against /repo as it stands
    evdir = os.environ.get('VERIF_EVIDENCE_DIR') or os.path.join(VERIF, 'evidence')
    os.makedirs(evdir, exist_ok=True)
    ev = {
        'property_id': prop, 'tier': tier, 'seed': seed, 'level': 'proof',
        'coverage': coverage, 'assumptions': assumptions_, 'wall_s': round(wall, 2),
        'violations': violations,
    }
    with open(os.path.join(evdir, '%s.json' % prop), 'w') as f:
        json.dump(ev, f, indent=1, default=lambda o: o.hex() if isinstance(o, (bytes, bytearray)) else repr(o))


TRUSTED_BASE = [
    'Coq 8.16.1 kernel (coqc, vm_compute; no native_compute)',
    'harness/translate_fsm.py and translate_consts.py (fail-closed translators) and the semantics '
    'their target primitives get in coq/model/YWorld.v, YProto.v',
    'correspondence harness: generators, canonicalisation, Coq term printers (harness/*.py)',
    'stubs of twisted / radix / simplejson under harness/stubs (not installed in this sandbox)',
]


if __name__ == '__main__':
    cmd = sys.argv[1]
    if cmd == 'regen':
        bad = regen()
        for b in bad:
            print('GENERATOR FAILED', b)
        sys.exit(1 if bad else 0)
    if cmd == 'build-all':
        # build everything that builds (-k): a file that does not compile must not prevent the
        # other properties' checks from running; each check rebuilds and reports its own targets
        NPROC = min(NPROC, 8)
        with Lock('coq'):
            write_coqproject()
            rc, out = sh('timeout 3000 make -k -f Makefile.coq -j%d COQC="timeout %d coqc" 2>&1' % (NPROC, FILE_TIMEOUT), cwd=COQ, timeout=3100)
        if rc != 0:
            print('SETUP WARNING: some Coq files did not build (their checks will report it):')
            print('\n'.join(l for l in out.split('\n') if 'Error' in l or l.startswith('File '))[-3000:])
        sys.exit(0)
    if cmd == 'audit':
        h = audit()
        print('\n'.join(h))
        sys.exit(1 if h else 0)
