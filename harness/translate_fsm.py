#!/usr/bin/env python3
"""Fail-closed translator: yabgp/core/fsm.py  ->  coq/gen/FsmGen.v

Every method of class FSM (except __init__/__setattr__, which are part of the hand-written
prelude and are checked structurally below) becomes one Gallina definition over the
`world` record of model/YWorld.v.  Any construct outside the subset aborts with
exit status 2 — the caller treats that as "correspondence broken", never as a skip.

Semantics given to the subset (the trusted part of this translator):
  self.state == / != / in C          -> st_is / negb st_is / st_in
  self.state = C                     -> set_state C           (FSM.__setattr__ hook)
  self.<timer>.reset(self.<time>)    -> tm_reset T <thirds>   (BGPTimer.reset)
  self.<timer>.cancel()              -> tm_cancel T
  self.<timer>.active()              -> tm_active T           (sets status := True)
  <timer>.status                     -> tm_status T
  self.protocol.send_*() / closeConnection()  -> p_send_* / p_close_connection
  self.bgp_peering.<cb>(...)         -> Section variables cb_connect_retry /
                                        cb_automatic_start / cb_connection_closed
  self.bgp_peering  (truth test)     -> true   (FSM is always built by BGPPeering)
  self.bgp_peering.fsm.state = C     -> set_state C           (same object)
  LOG.*(...) / docstrings / pass     -> nothing
"""
import ast
import sys

TIMERS = {
    'connect_retry_timer': 'TConnectRetry', 'hold_timer': 'THold',
    'keep_alive_timer': 'TKeepAlive', 'delay_open_timer': 'TDelayOpen',
    'idle_hold_timer': 'TIdleHold',
}
# time-valued attributes, as THIRDS of a second
TIMES = {
    'connect_retry_time': 'secs (cf_retry (w_cfg w))',
    'hold_time': 'secs (w_hold w)',
    'keep_alive_time': 'w_ka3 w',
    'delay_open_time': 'secs (cf_delay_open (w_cfg w))',
    'idle_hold_time': 'secs (cf_idle_hold (w_cfg w))',
    'large_hold_time': 'secs c_FSM_large_hold_time',
}
STATES = {
    'ST_IDLE': 'StIdle', 'ST_CONNECT': 'StConnect', 'ST_ACTIVE': 'StActive',
    'ST_OPENSENT': 'StOpenSent', 'ST_OPENCONFIRM': 'StOpenConfirm',
    'ST_ESTABLISHED': 'StEstablished',
}
CALLBACKS = {'connect_retry': 0, 'automatic_start': 1, 'connection_closed': 1}
SKIP_METHODS = {'__init__', '__setattr__'}


class Unsupported(Exception):
    pass


def bad(node, why):
    raise Unsupported('fsm.py line %s: %s: %s' % (getattr(node, 'lineno', '?'), why,
                                                   ast.dump(node)[:200]))


def is_self_attr(n, name=None):
    return (isinstance(n, ast.Attribute) and isinstance(n.value, ast.Name) and n.value.id == 'self'
            and (name is None or n.attr == name))


def cons_name(n):
    """bgp_cons.X -> X"""
    if isinstance(n, ast.Attribute) and isinstance(n.value, ast.Name) and n.value.id == 'bgp_cons':
        return n.attr
    return None


class Method(object):
    def __init__(self, cls, fn, methods):
        self.cls = cls
        self.fn = fn
        self.methods = methods
        self.name = fn.name
        self.params = [a.arg for a in fn.args.args[1:]]
        self.calls = set()
        self.uses_cb = set()
        self.returns_value = any(isinstance(n, ast.Return) and n.value is not None
                                 for n in ast.walk(fn))
        self.loopvar = {}     # name -> timer constructor during unrolling

    # ---------- expressions -------------------------------------------------
    def state(self, n):
        c = cons_name(n)
        if c in STATES:
            return STATES[c]
        bad(n, 'expected a state constant')

    def num(self, n):
        if isinstance(n, ast.Constant) and isinstance(n.value, int) and not isinstance(n.value, bool):
            return '%d' % n.value
        c = cons_name(n)
        if c is not None and c.startswith('ERR_'):
            return 'c_' + c
        if isinstance(n, ast.Name) and n.id in self.params:
            return n.id
        bad(n, 'expected a number')

    def bytes_(self, n):
        if isinstance(n, ast.Constant) and n.value == b'':
            return '[]'
        if isinstance(n, ast.Name) and n.id in self.params:
            return n.id
        bad(n, 'expected bytes')

    def timer(self, n):
        if is_self_attr(n) and n.attr in TIMERS:
            return TIMERS[n.attr]
        if isinstance(n, ast.Name) and n.id in self.loopvar:
            return self.loopvar[n.id]
        bad(n, 'expected a timer')

    def cond(self, n):
        """returns (pre, boolexpr): pre = list of 'let' lines executed before the test"""
        if isinstance(n, ast.BoolOp) and isinstance(n.op, ast.And):
            pres, parts = [], []
            for v in n.values:
                p, b = self.cond(v)
                if p and parts:
                    bad(n, 'effectful operand after the first in and')
                pres += p
                parts.append(b)
            return pres, '(' + ' && '.join(parts) + ')'
        if isinstance(n, ast.Compare) and len(n.ops) == 1:
            l, op, r = n.left, n.ops[0], n.comparators[0]
            if is_self_attr(l, 'state'):
                if isinstance(op, ast.Eq):
                    return [], 'st_is w %s' % self.state(r)
                if isinstance(op, ast.NotEq):
                    return [], 'negb (st_is w %s)' % self.state(r)
                if isinstance(op, ast.In) and isinstance(r, (ast.Tuple, ast.List)):
                    return [], 'st_in w [%s]' % '; '.join(self.state(e) for e in r.elts)
            if is_self_attr(l, 'hold_time') and isinstance(r, ast.Constant) and r.value == 0:
                if isinstance(op, ast.Gt):
                    return [], '(0 <? w_hold w)'
                if isinstance(op, ast.NotEq):
                    return [], 'negb (w_hold w =? 0)'
            if is_self_attr(l, 'protocol') and isinstance(op, ast.IsNot) \
                    and isinstance(r, ast.Constant) and r.value is None:
                return [], 'is_some (w_proto w)'
            if isinstance(l, ast.Name) and l.id in self.params and isinstance(op, ast.Eq):
                return [], '(%s =? %s)' % (l.id, self.num(r))
            bad(n, 'unsupported comparison')
        if is_self_attr(n, 'hold_time'):
            return [], 'negb (w_hold w =? 0)'
        if is_self_attr(n, 'delay_open'):
            return [], 'false'      # FSM.__init__ sets delay_open = False (checked by check_init)
        if is_self_attr(n, 'allow_automatic_start'):
            return [], 'w_auto w'
        if is_self_attr(n, 'bgp_peering'):
            return [], 'true'
        if isinstance(n, ast.Name) and n.id in self.params:
            return [], n.id
        if isinstance(n, ast.Attribute) and n.attr == 'status':
            return [], 'tm_status %s w' % self.timer(n.value)
        if isinstance(n, ast.Call) and isinstance(n.func, ast.Attribute) and n.func.attr == 'active' \
                and not n.args and not n.keywords:
            t = self.timer(n.func.value)
            return ['let r := tm_active %s w in' % t, 'let w := snd r in'], 'fst r'
        bad(n, 'unsupported condition')

    # ---------- statements --------------------------------------------------
    def call_stmt(self, c):
        """a call used as a statement -> 'let w := ... in' line(s), or [] when dropped"""
        f = c.func
        if isinstance(f, ast.Attribute) and isinstance(f.value, ast.Name) and f.value.id == 'LOG':
            return []
        if not isinstance(f, ast.Attribute):
            bad(c, 'unsupported call')
        # timers
        if f.attr == 'reset' and len(c.args) == 1 and not c.keywords:
            a = c.args[0]
            if not (is_self_attr(a) and a.attr in TIMES):
                bad(c, 'reset() argument must be a time attribute of self')
            return ['let w := tm_reset %s (%s) w in' % (self.timer(f.value), TIMES[a.attr])]
        if f.attr == 'cancel' and not c.args and not c.keywords:
            return ['let w := tm_cancel %s w in' % self.timer(f.value)]
        # self.protocol.X(...)
        if is_self_attr(f.value, 'protocol'):
            if f.attr == 'send_open' and not c.args and not c.keywords:
                return ['let w := p_send_open w in']
            if f.attr == 'send_keepalive' and not c.args and not c.keywords:
                return ['let w := p_send_keepalive w in']
            if f.attr == 'closeConnection' and not c.args and not c.keywords:
                return ['let w := p_close_connection w in']
            if f.attr == 'send_notification' and not c.keywords and len(c.args) in (2, 3):
                d = self.bytes_(c.args[2]) if len(c.args) == 3 else '[]'
                return ['let w := p_send_notification (%s) (%s) (%s) w in'
                        % (self.num(c.args[0]), self.num(c.args[1]), d)]
            bad(c, 'unsupported protocol call')
        # self.bgp_peering.X(...)
        if is_self_attr(f.value, 'bgp_peering'):
            if f.attr not in CALLBACKS:
                bad(c, 'unknown peering callback')
            self.uses_cb.add(f.attr)
            if f.attr == 'connect_retry' and not c.args and not c.keywords:
                return ['let w := cb_connect_retry w in']
            if f.attr == 'automatic_start' and not c.args and len(c.keywords) == 1 \
                    and c.keywords[0].arg == 'idle_hold' \
                    and isinstance(c.keywords[0].value, ast.Constant) \
                    and isinstance(c.keywords[0].value.value, bool):
                return ['let w := cb_automatic_start %s w in'
                        % ('true' if c.keywords[0].value.value else 'false')]
            if f.attr == 'connection_closed' and len(c.args) == 1 and not c.keywords \
                    and is_self_attr(c.args[0], 'protocol'):
                return ['let w := cb_connection_closed (w_proto w) w in']
            bad(c, 'unsupported peering callback form')
        # own methods
        if is_self_attr(f) and f.attr in self.methods:
            m = self.methods[f.attr]
            if c.keywords or len(c.args) != len(m.params):
                bad(c, 'own-method call must pass every parameter positionally')
            self.calls.add(f.attr)
            args = ' '.join('(%s)' % self.arg(a) for a in c.args)
            call = ('fsm_%s %s w' % (f.attr, args)).replace('  ', ' ')
            if m.returns_value:
                return ['let w := snd (%s) in' % call]
            return ['let w := %s in' % call]
        bad(c, 'unsupported call')

    def arg(self, a):
        if isinstance(a, ast.Name) and a.id in self.params:
            return a.id
        if isinstance(a, ast.Constant) and isinstance(a.value, bool):
            return 'true' if a.value else 'false'
        return self.num(a)

    def assign(self, s):
        tgts = s.targets
        val = s.value
        lines = []
        for t in tgts:
            if is_self_attr(t, 'state') or (
                    isinstance(t, ast.Attribute) and t.attr == 'state'
                    and isinstance(t.value, ast.Attribute) and t.value.attr == 'fsm'
                    and is_self_attr(t.value.value, 'bgp_peering')):
                lines.append('let w := set_state %s w in' % self.state(val))
            elif is_self_attr(t, 'connect_retry_counter') and isinstance(val, ast.Constant) \
                    and val.value == 0:
                lines.append('let w := set_w_crc 0 w in')
            elif is_self_attr(t, 'allow_automatic_start') and isinstance(val, ast.Constant) \
                    and isinstance(val.value, bool):
                lines.append('let w := set_w_auto %s w in' % ('true' if val.value else 'false'))
            else:
                bad(s, 'unsupported assignment')
        return lines

    def block(self, stmts, k, ind):
        """translate statements followed by continuation text k (a Gallina expr over w)"""
        if not stmts:
            return [ind + k]
        s, rest = stmts[0], stmts[1:]
        if isinstance(s, ast.Expr):
            if isinstance(s.value, ast.Constant) and isinstance(s.value.value, str):
                return self.block(rest, k, ind)
            if isinstance(s.value, ast.Call):
                return [ind + l for l in self.call_stmt(s.value)] + self.block(rest, k, ind)
            bad(s, 'unsupported expression statement')
        if isinstance(s, ast.Pass):
            return self.block(rest, k, ind)
        if isinstance(s, ast.Assign):
            return [ind + l for l in self.assign(s)] + self.block(rest, k, ind)
        if isinstance(s, ast.AugAssign):
            if is_self_attr(s.target, 'connect_retry_counter') and isinstance(s.op, ast.Add) \
                    and isinstance(s.value, ast.Constant) and s.value.value == 1:
                return [ind + 'let w := set_w_crc (w_crc w + 1) w in'] + self.block(rest, k, ind)
            bad(s, 'unsupported augmented assignment')
        if isinstance(s, ast.Return):
            if rest:
                bad(s, 'code after return')
            if not self.returns_value:
                if s.value is not None:
                    bad(s, 'value return in a procedure')
                return [ind + 'w']
            if isinstance(s.value, ast.Constant) and isinstance(s.value.value, bool):
                return [ind + '(%s, w)' % ('true' if s.value.value else 'false')]
            bad(s, 'unsupported return value')
        if isinstance(s, ast.For):
            if s.orelse or not isinstance(s.target, ast.Name) or not isinstance(s.iter, ast.Tuple):
                bad(s, 'unsupported for loop')
            unrolled = []
            name = s.target.id
            lines = []
            # unroll: the body may not contain return/break/continue
            for n in ast.walk(s):
                if isinstance(n, (ast.Return, ast.Break, ast.Continue)):
                    bad(s, 'control transfer inside for loop')
            def unroll(elts):
                if not elts:
                    return self.block(rest, k, ind)
                self.loopvar[name] = self.timer(elts[0])
                body_k = '__NEXT__'
                out = self.block(s.body, body_k, ind)
                del self.loopvar[name]
                # replace the continuation marker by the remaining iterations; since the body
                # may branch, bind the remainder as a local function
                nxt = unroll(elts[1:])
                kn = 'k_%d_%d' % (s.lineno, len(elts))
                res = [ind + 'let %s := fun w : world =>' % kn] + ['  ' + l for l in nxt] + [ind + 'in']
                res += [l.replace('__NEXT__', '%s w' % kn) for l in out]
                return res
            return unroll(list(s.iter.elts))
        if isinstance(s, ast.If):
            pre, c = self.cond(s.test)
            if rest:
                kn = 'k_%d' % s.lineno
                head = [ind + 'let %s := fun w : world =>' % kn] + \
                       ['  ' + l for l in self.block(rest, k, ind)] + [ind + 'in']
                k2 = '%s w' % kn
            else:
                head, k2 = [], k
            out = head + [ind + p for p in pre]
            out.append(ind + 'if %s then' % c)
            out += self.block(s.body, k2, ind + '  ')
            out.append(ind + 'else')
            out += self.block(s.orelse, k2, ind + '  ')
            return out
        bad(s, 'unsupported statement')

    def emit(self):
        self.calls = set()
        self.uses_cb = set()
        if self.returns_value:
            k = '__FALLOFF__'
            rty = 'bool * world'
        else:
            k = 'w'
            rty = 'world'
        body = self.block(self.fn.body, k, '  ')
        if any('__FALLOFF__' in l for l in body):
            bad(self.fn, 'a path of a value-returning method falls off the end')
        ps = ''
        for p in self.params:
            d = self.default_of(p)
            ty = {'idle_hold': 'bool', 'suberror': 'N', 'error': 'N', 'data': 'bytes'}.get(p)
            if ty is None:
                bad(self.fn, 'unknown parameter %s' % p)
            ps += ' (%s : %s)' % (p, ty)
        return 'Definition fsm_%s%s (w : world) : %s :=\n%s.\n' % (self.name, ps, rty, '\n'.join(body))

    def default_of(self, p):
        return None


def translate(src):
    tree = ast.parse(src)
    cls = [n for n in tree.body if isinstance(n, ast.ClassDef) and n.name == 'FSM']
    if len(cls) != 1:
        raise Unsupported('expected exactly one class FSM')
    cls = cls[0]
    fns = {}
    for n in cls.body:
        if isinstance(n, ast.FunctionDef):
            if n.decorator_list:
                bad(n, 'decorated method')
            fns[n.name] = n
        elif isinstance(n, ast.Expr) and isinstance(n.value, ast.Constant):
            pass
        elif isinstance(n, ast.Assign):
            pass   # class attributes: protocol/state/large_hold_time (checked through Consts)
        else:
            bad(n, 'unsupported class-level statement')
    check_init(fns.get('__init__'))
    check_setattr(fns.get('__setattr__'))
    methods = {}
    for name, fn in fns.items():
        if name in SKIP_METHODS:
            continue
        methods[name] = Method(cls, fn, methods)
    texts = {}
    for name, m in methods.items():
        texts[name] = m.emit()
    # topological order over own-method calls
    order, seen, stack = [], set(), set()

    def visit(n):
        if n in seen:
            return
        if n in stack:
            raise Unsupported('recursive FSM methods: %s' % n)
        stack.add(n)
        for c in sorted(methods[n].calls):
            visit(c)
        stack.discard(n)
        seen.add(n)
        order.append(n)
    for n in methods:   # source order
        visit(n)
    out = [
        '(** GENERATED by harness/translate_fsm.py from yabgp/core/fsm.py - do not edit. *)',
        'From YV Require Import lib.Base model.YWorld model.YProto gen.Consts.',
        'Section FsmGen.',
        'Variable cb_connect_retry : world -> world.',
        'Variable cb_automatic_start : bool -> world -> world.',
        'Variable cb_connection_closed : option nat -> world -> world.',
        '',
    ]
    for n in order:
        out.append(texts[n])
    out.append('End FsmGen.')
    out.append('')
    # uniform-signature wrappers: every method takes the three peering callbacks
    used = {}

    def closure(n):
        if n not in used:
            u = set(methods[n].uses_cb)
            for c in methods[n].calls:
                u |= closure(c)
            used[n] = u
        return used[n]
    for n in order:
        u = closure(n)
        args = ''.join(' cb_%s' % c for c in ('connect_retry', 'automatic_start', 'connection_closed')
                       if c in u)
        out.append('Definition fsmU_%s (cb_connect_retry : world -> world) '
                   '(cb_automatic_start : bool -> world -> world) '
                   '(cb_connection_closed : option nat -> world -> world) := fsm_%s%s.'
                   % (n, n, args))
    out.append('')
    out.append('Definition fsm_method_names : list (list N) := [')
    out.append(';\n'.join('  [%s]' % '; '.join(str(ord(ch)) for ch in n) for n in sorted(methods)))
    out.append('].')
    return '\n'.join(out) + '\n'


def check_init(fn):
    """__init__ is hand-modelled (world0 in YProto.v): check it still has the shape modelled:
    only assignments of configuration values / timers / constants to self attributes."""
    if fn is None:
        raise Unsupported('FSM.__init__ missing')
    expect = {
        'bgp_peering': None, 'protocol': None, 'state': 'ST_IDLE', 'connect_retry_counter': 0,
        'connect_retry_time': 'CONF.time.connect_retry_time', 'connect_retry_timer': 'timer',
        'hold_time': 'CONF.time.hold_time', 'hold_timer': 'timer',
        'keep_alive_time': 'CONF.time.keep_alive_time', 'keep_alive_timer': 'timer',
        'allow_automatic_start': True, 'allow_automatic_stop': False, 'delay_open': False,
        'delay_open_time': 'CONF.time.delay_open_time', 'delay_open_timer': 'timer',
        'idle_hold_time': 'CONF.time.idle_hold_time', 'idle_hold_timer': 'timer', 'uptime': None,
    }
    events = {'connect_retry_timer': 'connect_retry_time_event', 'hold_timer': 'hold_time_event',
              'keep_alive_timer': 'keep_alive_time_event', 'delay_open_timer': 'delay_open_time_event',
              'idle_hold_timer': 'idle_hold_time_event'}
    seen = set()
    for s in fn.body:
        if isinstance(s, ast.Expr) and isinstance(s.value, ast.Constant):
            continue
        if not (isinstance(s, ast.Assign) and len(s.targets) == 1 and is_self_attr(s.targets[0])):
            bad(s, '__init__: unsupported statement')
        a = s.targets[0].attr
        if a not in expect:
            bad(s, '__init__: unknown attribute')
        seen.add(a)
        want = expect[a]
        v = s.value
        if want == 'timer':
            ok = (isinstance(v, ast.Call) and isinstance(v.func, ast.Name) and v.func.id == 'BGPTimer'
                  and is_self_attr(v.args[0], events[a]))
        elif isinstance(want, str) and want.startswith('CONF.'):
            ok = ast.unparse(v) == want
        elif isinstance(want, str):
            ok = cons_name(v) == want
        elif want is None and a in ('bgp_peering', 'protocol'):
            ok = isinstance(v, ast.Name) and v.id == a
        else:
            ok = isinstance(v, ast.Constant) and v.value is want or \
                (isinstance(v, ast.Constant) and v.value == want and type(v.value) is type(want))
        if not ok:
            bad(s, '__init__: value differs from the modelled one')
    missing = set(expect) - seen
    if missing:
        raise Unsupported('__init__: attributes no longer initialised: %s' % sorted(missing))


SETATTR_SRC = """
def __setattr__(self, name, value):
    if name == 'state' and value != getattr(self, name):
        LOG.info('[%s]State is now:%s', self.bgp_peering.peer_addr, bgp_cons.stateDescr[value])
        if value == bgp_cons.ST_ESTABLISHED:
            self.uptime = time.time()
            self.bgp_peering.handler.on_established(peer=self.bgp_peering.peer_addr, msg=self.uptime)
    super(FSM, self).__setattr__(name, value)
"""


def check_setattr(fn):
    if fn is None:
        raise Unsupported('FSM.__setattr__ missing')
    want = ast.parse(SETATTR_SRC).body[0]
    if ast.dump(fn) != ast.dump(want):
        raise Unsupported('FSM.__setattr__ differs from the form modelled by set_state')


def main():
    src_path, out_path = sys.argv[1], sys.argv[2]
    try:
        text = translate(open(src_path).read())
    except Unsupported as e:
        sys.stderr.write('translate_fsm: UNSUPPORTED: %s\n' % e)
        sys.exit(2)
    try:
        old = open(out_path).read()
    except IOError:
        old = None
    if old != text:
        with open(out_path, 'w') as f:
            f.write(text)
    sys.exit(0)


if __name__ == '__main__':
    main()
