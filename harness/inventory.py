#!/usr/bin/env python3
"""coq/gen/Inventory.v from the SOURCE of yabgp/message/**/*.py (C11).

Fail-closed `ast` pass (repo location: env YABGP_REPO, default /repo) that emits

  gen_loops      every `while` loop: (file, qualified function, fingerprint, condition class)
  gen_rec_sites  every call site that lies on a cycle of the (over-approximated) call graph,
                 i.e. every (mutually) recursive call: (file, caller, callee text, fingerprint)
  gen_for_loops  every `for` loop / comprehension generator with the class of its iterable
                 (all classes are finite containers / ranges; anything else aborts)

Strings are `list N` (character codes).  A fingerprint is the first 48 bits of the SHA-256 of
`ast.dump(node)` WITHOUT line/column attributes, so moving code keeps it and any edit inside the
loop (condition or body, nested loops included) changes it.  Records are sorted by
(file, function, fingerprint), so reordering functions does not matter either.

Any loop condition / iterable shape the classifier does not know => exit status 2 (the check
counts that as "correspondence broken").  The file is written only when its content changes.
"""
import ast
import glob
import hashlib
import os
import sys

REPO = os.environ.get('YABGP_REPO', '/repo')
ROOT = 'yabgp/message'

# ---- loop-condition classes (number, description) -----------------------------------------
COND_NONEMPTY = 1      # while NAME:            (bytes / list truthiness = non-empty)
COND_LEN_GT0 = 2       # while len(NAME) > 0:
COND_LEN_GE_K = 3      # while len(NAME) >= K:  (K literal, recorded as class 300+K)
COND_TRUE = 4          # while True:            (exit only by break/raise in the body)
COND_MOD_AND_NONEMPTY = 5   # while len(X) % K == 0 and X:   (recorded as 500+K)

# ---- for-loop iterable classes ---------------------------------------------------------------
FOR_RANGE = 1          # range(...)
FOR_NAME = 2           # a local name / attribute / subscript / slice of one (a finite container)
FOR_LITERAL = 3        # list/tuple/set/dict display
FOR_VIEW = 4           # X.split(..) / X.items() / X.keys() / X.values() / enumerate(X) / zip(..) / sorted(X) / reversed(X) / list(X)


class Abort(Exception):
    pass


def is_attr_chain(n):
    """NAME(.attr)* — e.g. value, self.opt_paras, capability.capa_value"""
    while isinstance(n, ast.Attribute):
        n = n.value
    return isinstance(n, ast.Name)


def is_len_of(n):
    return (isinstance(n, ast.Call) and isinstance(n.func, ast.Name) and n.func.id == 'len'
            and len(n.args) == 1 and not n.keywords and is_attr_chain(n.args[0]))


def classify_cond(t, where):
    if isinstance(t, ast.Constant) and t.value is True:
        return COND_TRUE
    if is_attr_chain(t):
        return COND_NONEMPTY
    if isinstance(t, ast.Compare) and len(t.ops) == 1 and is_len_of(t.left) \
            and isinstance(t.comparators[0], ast.Constant) and isinstance(t.comparators[0].value, int):
        k = t.comparators[0].value
        if isinstance(t.ops[0], ast.Gt) and k == 0:
            return COND_LEN_GT0
        if isinstance(t.ops[0], ast.GtE) and 1 <= k < 100:
            return COND_LEN_GE_K * 100 + k
    if isinstance(t, ast.BoolOp) and isinstance(t.op, ast.And) and len(t.values) == 2:
        a, b = t.values
        if is_attr_chain(b) and isinstance(a, ast.Compare) and len(a.ops) == 1 and isinstance(a.ops[0], ast.Eq) \
                and isinstance(a.comparators[0], ast.Constant) and a.comparators[0].value == 0 \
                and isinstance(a.left, ast.BinOp) and isinstance(a.left.op, ast.Mod) and is_len_of(a.left.left) \
                and isinstance(a.left.right, ast.Constant) and isinstance(a.left.right.value, int) \
                and 1 <= a.left.right.value < 100 \
                and ast.dump(a.left.left.args[0]) == ast.dump(b):
            return COND_MOD_AND_NONEMPTY * 100 + a.left.right.value
    raise Abort('%s: unknown while-condition shape: %s' % (where, ast.unparse(t)))


def classify_iter(it, where):
    if isinstance(it, ast.Call) and isinstance(it.func, ast.Name):
        if it.func.id == 'range':
            return FOR_RANGE
        if it.func.id in ('enumerate', 'zip', 'sorted', 'reversed', 'list', 'tuple', 'set'):
            for a in it.args:
                classify_iter(a, where)
            return FOR_VIEW
    if isinstance(it, ast.Call) and isinstance(it.func, ast.Attribute) \
            and it.func.attr in ('items', 'keys', 'values') and not it.args:
        classify_iter(it.func.value, where)
        return FOR_VIEW
    if isinstance(it, ast.Call) and isinstance(it.func, ast.Attribute) and it.func.attr == 'split':
        return FOR_VIEW                       # str.split(..): a finite list
    if isinstance(it, ast.Call) and isinstance(it.func, ast.Attribute) and it.func.attr == 'unpack' \
            and isinstance(it.func.value, ast.Name) and it.func.value.id == 'struct':
        return FOR_VIEW                       # struct.unpack(..): a finite tuple
    if isinstance(it, (ast.List, ast.Tuple, ast.Set, ast.Dict)):
        return FOR_LITERAL
    n = it
    while isinstance(n, (ast.Attribute, ast.Subscript)):
        n = n.value
    if isinstance(n, ast.Name):
        return FOR_NAME
    raise Abort('%s: unknown for-iterable shape: %s' % (where, ast.unparse(it)))


def fingerprint(node):
    d = ast.dump(node, annotate_fields=True, include_attributes=False)
    return int(hashlib.sha256(d.encode('utf-8')).hexdigest()[:12], 16)


class FileScan(ast.NodeVisitor):
    def __init__(self, rel, inv):
        self.rel, self.inv, self.stack, self.cls_stack, self.kinds = rel, inv, [], [], []

    def qual(self):
        return '.'.join(self.stack) if self.stack else '<module>'

    def visit_Import(self, n):
        for a in n.names:
            top = a.name.split('.')[0]
            if top == 'yabgp':
                self.inv.imported.add(a.name)
            else:
                self.inv.external.setdefault(self.rel, set()).add((a.asname or a.name).split('.')[0])

    def visit_ImportFrom(self, n):
        mod = n.module or ''
        if n.level:                                  # relative import: resolve against this file's package
            pkg = os.path.dirname(self.rel).split('/')
            pkg = pkg[:len(pkg) - (n.level - 1)]
            mod = '.'.join(pkg + ([mod] if mod else []))
        if mod.split('.')[0] == 'yabgp':
            self.inv.imported.add(mod)
            for a in n.names:
                self.inv.imported.add(mod + '.' + a.name)      # may be a sub-module
        else:
            for a in n.names:
                self.inv.external.setdefault(self.rel, set()).add(a.asname or a.name)

    def visit_ClassDef(self, n):
        bases = []
        for b in n.bases:
            if isinstance(b, ast.Name):
                bases.append(b.id)
            elif isinstance(b, ast.Attribute):
                bases.append(b.attr)
        regs = []
        for d in n.decorator_list:
            f = d.func if isinstance(d, ast.Call) else d
            if isinstance(f, ast.Attribute) and f.attr.startswith('register') and isinstance(f.value, ast.Name):
                regs.append(f.value.id)
        self.inv.classes.setdefault(n.name, []).append({'file': self.rel, 'bases': bases, 'registers_in': regs,
                                                        'methods': set()})
        self.stack.append(n.name)
        self.kinds.append('class')
        self.cls_stack.append(self.inv.classes[n.name][-1])
        self.generic_visit(n)
        self.cls_stack.pop()
        self.kinds.pop()
        self.stack.pop()

    def visit_FunctionDef(self, n):
        in_class = bool(self.kinds) and self.kinds[-1] == 'class'
        cname = self.stack[-1] if in_class else None
        if in_class:
            self.cls_stack[-1]['methods'].add(n.name)
        self.stack.append(n.name)
        self.kinds.append('func')
        key = (self.rel, self.qual())
        if key in self.inv.funcs:
            raise Abort('%s: duplicate definition of %s' % key)
        self.inv.funcs[key] = {'node': n, 'cls': cname}
        if not in_class:
            self.inv.module_funcs.setdefault(n.name, []).append(key)
        self.generic_visit(n)
        self.kinds.pop()
        self.stack.pop()

    visit_AsyncFunctionDef = visit_FunctionDef

    def visit_While(self, n):
        where = '%s:%s:%d' % (self.rel, self.qual(), n.lineno)
        if n.orelse:
            raise Abort('%s: while/else is not supported' % where)
        self.inv.loops.append((self.rel, self.qual(), fingerprint(n), classify_cond(n.test, where),
                               ast.unparse(n.test), n.lineno))
        self.generic_visit(n)

    def visit_For(self, n):
        where = '%s:%s:%d' % (self.rel, self.qual(), n.lineno)
        self.inv.fors.append((self.rel, self.qual(), classify_iter(n.iter, where), ast.unparse(n.iter), n.lineno))
        self.generic_visit(n)

    def visit_AsyncFor(self, n):
        raise Abort('%s:%d async for' % (self.rel, n.lineno))

    def visit_comprehension(self, n):
        where = '%s:%s:comprehension' % (self.rel, self.qual())
        self.inv.fors.append((self.rel, self.qual(), classify_iter(n.iter, where), ast.unparse(n.iter), 0))
        self.generic_visit(n)

    def visit_Lambda(self, n):
        self.generic_visit(n)


class Inventory(object):
    def __init__(self):
        self.loops, self.fors = [], []
        self.classes = {}        # name -> [ {file, bases, registers_in, methods} ]
        self.funcs = {}          # (file, qual) -> {node, cls}
        self.module_funcs = {}   # name -> [(file, qual)]
        self.imported = set()    # yabgp.* modules imported by scanned files
        self.external = {}       # file -> names bound to non-yabgp modules/objects

    # ---- call graph (over-approximation; every unresolved `x.m(...)` whose method name is defined
    # ---- somewhere in the package gets an edge to every such definition) -------------------------
    def methods_named(self, cname, m, seen=None):
        """definitions of method m visible from class cname (own or inherited inside the package)"""
        seen = seen or set()
        out = []
        for c in self.classes.get(cname, []):
            key = (c['file'], '%s.%s' % (cname, m))
            if key in self.funcs:
                out.append(key)
            else:
                for b in c['bases']:
                    if b not in seen:
                        out += self.methods_named(b, m, seen | {cname})
        return out

    def subclasses(self, cname):
        out, todo = {cname}, [cname]
        while todo:                                  # finite: walks the class table
            c = todo.pop()
            for n, defs in self.classes.items():
                if n not in out and any(c in d['bases'] for d in defs):
                    out.add(n)
                    todo.append(n)
        return out

    def all_named(self, m):
        return [k for k in self.funcs if k[1].split('.')[-1] == m]

    def local_types(self, fnode):
        """x = ClassName(...)  =>  x : ClassName"""
        t = {}
        for n in ast.walk(fnode):
            if isinstance(n, ast.Assign) and len(n.targets) == 1 and isinstance(n.targets[0], ast.Name) \
                    and isinstance(n.value, ast.Call) and isinstance(n.value.func, ast.Name) \
                    and n.value.func.id in self.classes:
                t.setdefault(n.targets[0].id, set()).add(n.value.func.id)
        return t

    def resolve(self, call, caller_key, ltypes):
        f = call.func
        cls = self.funcs[caller_key]['cls']
        if isinstance(f, ast.Name):
            if f.id in self.classes:
                return self.methods_named(f.id, '__init__')
            return list(self.module_funcs.get(f.id, []))
        if not isinstance(f, ast.Attribute):
            # e.g. (lambda ..)(..), table[k](..): nothing in the package does this today
            raise Abort('%s:%s: unsupported call shape %s' % (caller_key[0], caller_key[1], ast.unparse(call)[:80]))
        m, v = f.attr, f.value
        # registry dispatch: X.registered_tlvs[code].unpack(...)
        if isinstance(v, ast.Subscript) and isinstance(v.value, ast.Attribute) and v.value.attr.startswith('registered'):
            owner = v.value.value.id if isinstance(v.value.value, ast.Name) else None
            if owner in ('cls', 'self'):
                owner = cls
            out = []
            owners = self.subclasses(owner) if owner in self.classes else None
            for cname, defs in self.classes.items():
                for d in defs:
                    if d['registers_in'] and (owners is None or set(d['registers_in']) & owners):
                        out += self.methods_named(cname, m)
            return out
        if isinstance(v, ast.Name) and v.id in self.external.get(caller_key[0], ()) and v.id not in self.classes:
            return []                                # struct.unpack, binascii.b2a_hex, netaddr.IPAddress ...
        if isinstance(v, ast.Name):
            if v.id in ('cls', 'self') and cls:
                tgt = []
                for c in self.subclasses(cls):       # dynamic dispatch: the class or any subclass
                    tgt += self.methods_named(c, m)
                return sorted(set(tgt))
            if v.id in self.classes:
                return self.methods_named(v.id, m)
            if v.id in ltypes:
                out = []
                for c in ltypes[v.id]:
                    out += self.methods_named(c, m)
                return out
        if isinstance(v, ast.Call) and isinstance(v.func, ast.Name) and v.func.id in self.classes:
            return self.methods_named(v.func.id, m)          # ClassName(...).m(...)
        if isinstance(v, ast.Call) and isinstance(v.func, ast.Name) and v.func.id == 'super':
            out = []
            for c in self.classes.get(cls, []):
                for b in c['bases']:
                    out += self.methods_named(b, m)
            return out
        # unknown receiver: every definition of that method name in the package
        return self.all_named(m)

    def recursion_sites(self):
        edges = {}      # caller -> set(callee)
        sites = []      # (caller, callee set, call node)
        for key, info in self.funcs.items():
            lt = self.local_types(info['node'])
            edges.setdefault(key, set())
            for n in ast.walk(info['node']):
                if isinstance(n, ast.Call):
                    tg = self.resolve(n, key, lt)
                    if tg:
                        edges[key].update(tg)
                        sites.append((key, set(tg), n))
        # transitive reachability (small graph)
        reach = {}
        for k in edges:
            seen, todo = set(), list(edges[k])
            while todo:                              # finite: each node enters `seen` once
                x = todo.pop()
                if x in seen:
                    continue
                seen.add(x)
                todo.extend(edges.get(x, ()))
            reach[k] = seen
        out = []
        for caller, tg, node in sites:
            cyc = sorted(t for t in tg if caller in reach.get(t, ()) or t == caller)
            if cyc:
                out.append((caller[0], caller[1], ast.unparse(node.func), fingerprint(node),
                            [c[1] for c in cyc]))
        return out


def coq_str(s):
    return '[' + ';'.join(str(ord(c)) for c in s) + ']'


def main():
    out_path = sys.argv[1]
    inv = Inventory()
    files = sorted(glob.glob(os.path.join(REPO, ROOT, '**', '*.py'), recursive=True))
    if len(files) < 20:
        sys.stderr.write('inventory: only %d files under %s/%s\n' % (len(files), REPO, ROOT))
        sys.exit(2)
    try:
        done = set()
        todo = list(files)
        while todo:                                  # finite: each file is scanned once
            f = todo.pop(0)
            if f in done:
                continue
            done.add(f)
            rel = os.path.relpath(f, REPO)
            tree = ast.parse(open(f).read(), filename=f)
            FileScan(rel, inv).visit(tree)
            # helper modules of yabgp that the decoders import (yabgp/tlv.py, yabgp/net.py, ...)
            for m in sorted(inv.imported):
                for cand in (m.replace('.', '/') + '.py', m.replace('.', '/') + '/__init__.py'):
                    c = os.path.join(REPO, cand)
                    if os.path.isfile(c) and c not in done and c not in todo:
                        todo.append(c)
        inv.nfiles = len(done)
        rec = inv.recursion_sites()
    except (Abort, SyntaxError) as e:
        sys.stderr.write('inventory aborted: %s\n' % e)
        sys.exit(2)
    L = ['(** GENERATED by harness/inventory.py from the source of %s/**/*.py - do not edit. *)' % ROOT,
         'From Coq Require Import NArith List.', 'Import ListNotations.', 'Open Scope N_scope.', '',
         '(** while loops: (file, function, fingerprint, condition class)',
         '    condition classes: 1 `while X:`  2 `while len(X) > 0:`  300+K `while len(X) >= K:`',
         '    4 `while True:`  500+K `while len(X) % K == 0 and X:` *)',
         'Definition gen_loops : list (list N * list N * N * N) := [']
    rows = []
    for rel, q, fp, cc, txt, ln in sorted(inv.loops, key=lambda r: (r[0], r[1], r[2])):
        rows.append('  (* %s %s: while %s *)\n  (%s, %s, %d, %d)' % (rel, q, txt, coq_str(rel), coq_str(q), fp, cc))
    L.append(';\n'.join(rows))
    L.append('].')
    L.append('')
    L.append('(** call sites on a cycle of the call graph: (file, caller, callee expression, fingerprint) *)')
    L.append('Definition gen_rec_sites : list (list N * list N * list N * N) := [')
    rows = []
    for rel, q, txt, fp, cyc in sorted(rec, key=lambda r: (r[0], r[1], r[2], r[3])):
        rows.append('  (* %s %s: %s(...) -> %s *)\n  (%s, %s, %s, %d)'
                    % (rel, q, txt, ', '.join(cyc[:6]) + (' ...' if len(cyc) > 6 else ''),
                       coq_str(rel), coq_str(q), coq_str(txt), fp))
    L.append(';\n'.join(rows))
    L.append('].')
    L.append('')
    L.append('(** for loops and comprehension generators: (file, function, iterable class)')
    L.append('    1 range(..)  2 a name/attribute/subscript (finite container)  3 list/tuple/dict display')
    L.append('    4 items()/keys()/values()/enumerate/zip/sorted/reversed/list of one of those *)')
    L.append('Definition gen_for_loops : list (list N * list N * N) := [')
    rows = []
    for rel, q, c, txt, ln in sorted(inv.fors, key=lambda r: (r[0], r[1], r[2], r[3])):
        rows.append('  (* for .. in %s *) (%s, %s, %d)' % (txt.replace('*)', '* )')[:60], coq_str(rel), coq_str(q), c))
    L.append(';\n'.join(rows))
    L.append('].')
    L.append('')
    L.append('(** loops, recursive call sites, for loops, files scanned *)')
    L.append('Definition gen_counts : N * N * N * N := (%d, %d, %d, %d).' % (len(inv.loops), len(rec), len(inv.fors), inv.nfiles))
    text = '\n'.join(L) + '\n'
    try:
        old = open(out_path).read()
    except IOError:
        old = None
    if old != text:
        tmp = '%s.%d.tmp' % (out_path, os.getpid())      # atomic: concurrent checks may regenerate
        with open(tmp, 'w') as f:
            f.write(text)
        os.replace(tmp, out_path)


if __name__ == '__main__':
    main()
