"""Breadth-first exploration of the REAL session layer under the simulated reactor, with
de-duplication on an abstract state, and comparison of every explored edge with the Coq model."""
import random
import struct

import env  # noqa
import netaddr
import session
from session import Driver

MARK = b'\xff' * 16


def frame(ty, body, length=None):
    return MARK + struct.pack('!HB', 19 + len(body) if length is None else length, ty) + body


def open_body(version=4, asn=65002, hold=90, bgp_id='10.0.0.2', caps=(b'\x02\x06\x01\x04\x00\x01\x00\x01',
                                                                       b'\x02\x02\x02\x00'), as4=None):
    opt = b''.join(caps)
    if as4 is not None:
        opt += b'\x02\x06\x41\x04' + struct.pack('!I', as4)
    return struct.pack('!BHHIB', version, asn, hold, int(netaddr.IPAddress(bgp_id)), len(opt)) + opt


UPDATE_OK = bytes.fromhex('0000001c4001010040020e02030000fde90000fdea0000fdeb400304c0a80101180a0a0a')
# ORIGIN value 3 -> sub_error
UPDATE_BAD = bytes.fromhex('000000144001010340020602010000fdea400304c0a80101180a0a0a')


def messages(remote_as=65002):
    """the peer-message alphabet of C01: name -> bytes"""
    return [
        ('open_ok', frame(1, open_body(asn=remote_as if remote_as < 65536 else 23456,
                                       as4=remote_as if remote_as >= 65536 else remote_as))),
        # the same acceptable OPEN from a peer whose BGP identifier has changed since the last session
        ('open_ok_id2', frame(1, open_body(asn=remote_as if remote_as < 65536 else 23456, bgp_id='10.0.0.3',
                                           as4=remote_as if remote_as >= 65536 else remote_as))),
        ('open_hold0', frame(1, open_body(asn=remote_as, hold=0, as4=remote_as))),
        ('open_hold1', frame(1, open_body(asn=remote_as, hold=1, as4=remote_as))),
        ('open_hold2', frame(1, open_body(asn=remote_as, hold=2, as4=remote_as))),
        ('open_hold3', frame(1, open_body(asn=remote_as, hold=3, as4=remote_as))),
        ('open_badver', frame(1, open_body(version=3, asn=remote_as))),
        ('open_wrongas', frame(1, open_body(asn=remote_as + 1))),
        ('open_noopt', frame(1, open_body(asn=remote_as, caps=()))),
        ('open_short', frame(1, b'\x04\x00')),
        ('open_badparam', frame(1, open_body(asn=remote_as, caps=(b'\x01\x02\x00\x00',)))),
        ('keepalive', frame(4, b'')),
        ('keepalive_body', frame(4, b'\x00')),
        ('update_ok', frame(2, UPDATE_OK)),
        ('update_bad', frame(2, UPDATE_BAD)),
        ('update_garbage', frame(2, b'\x00')),
        # UPDATEs without path attributes: End-of-RIB, withdrawals only
        ('update_eor', frame(2, b'\x00\x00\x00\x00')),
        ('update_withdraw', frame(2, b'\x00\x04\x18\x0a\x0a\x0a\x00\x00')),
        ('update_raise', frame(2, b'\x00\x10\x00\x00')),
        # UPDATEs of other address families (MP_REACH_NLRI / MP_UNREACH_NLRI only): IPv4 flow specification
        # announce and withdraw, VPNv4, IPv6 unicast - what the handler does with the decoded routes
        # (version tables, RIB) must not decide whether the FSM sees the UPDATE
        ('update_flow4', frame(2, bytes.fromhex('000000284001010040020040050400000064900e00160001850000100118c058020218c05901050150911f90'))),
        ('update_flow4_wd', frame(2, bytes.fromhex('00000012900f000e0001850a0118c058020218c05901'))),
        ('update_vpnv4', frame(2, bytes.fromhex('000000334001010040020040050400000064900e00210001800c000000000000000002020202007800019100000064000000640b0b0b0b'))),
        ('update_v6', frame(2, bytes.fromhex('0000002e4001010040020040050400000064900e001c0002011020010db8000000000000000000000002003020010db80001'))),
        ('route_refresh_long', frame(5, b'\x00\x01\x00\x01\x00')),
        ('notif_version', frame(3, b'\x02\x01')),
        # every other RFC error code (and one that is not assigned), with and without data
        ('notif_hdr', frame(3, b'\x01\x01')),
        ('notif_upd', frame(3, b'\x03\x01\x00')),
        ('notif_hold', frame(3, b'\x04\x00')),
        ('notif_fsm', frame(3, b'\x05\x00')),
        ('notif_cease_data', frame(3, b'\x06\x04\x08shutdown')),
        ('notif_unassigned', frame(3, b'\x07\x00')),
        ('notif_open_other', frame(3, b'\x02\x06')),
        ('notif_cease', frame(3, b'\x06\x02')),
        ('notif_short', frame(3, b'\x06')),
        ('route_refresh', frame(5, b'\x00\x01\x00\x01')),
        ('route_refresh_cisco', frame(128, b'\x00\x01\x00\x01')),
        ('route_refresh_short', frame(5, b'\x00\x01')),
        ('bad_marker', b'\x00' * 16 + b'\x00\x13\x04'),
        ('bad_len_small', frame(4, b'', length=18)),
        ('bad_len_zero', frame(4, b'', length=0)),
        ('bad_len_big', frame(2, b'', length=4097)),
        ('unknown_type', frame(9, b'')),
        ('unknown_type0', frame(0, b'')),
    ]


CORE_MSGS = ['open_ok', 'open_hold0', 'open_hold1', 'open_badver', 'open_wrongas', 'keepalive',
             'update_ok', 'update_bad', 'notif_version', 'notif_cease', 'route_refresh',
             'bad_marker', 'bad_len_zero', 'unknown_type']


def abstract_key(st):
    """de-duplication key from Driver.state(): times relative to now, counters and dead
    connections dropped (live connections keep their relative order)"""
    (state, hold, ka3, crc, auto, proto, timers, conns, estab, status, now, capl, capr) = st
    live = [i for i, c in enumerate(conns) if c[0] in (0, 1)]
    ren = {c: i for i, c in enumerate(live)}

    def ref(o):
        if not o:
            return None
        return ren.get(o[0], 'dead')
    tms = tuple((None if not dl else dl[0] - now, s) for dl, s in timers)
    cs = tuple((conns[i][0], conns[i][1], conns[i][2], bytes(conns[i][3]), conns[i][4]) for i in live)
    return (state, hold, ka3, min(crc, 2), auto, ref(proto), tms, cs, ref(estab), status,
            repr(capl), repr(capr))


def enabled_events(d, msgs, with_api=False, max_conns=3):
    evs = []
    sim = d.sim
    if not sim.connectors and d.peering.fsm.state == 1 and not sim.calls:
        evs.append(('boot',))
    for c in sim.connectors:
        if c.state == 'connecting':
            evs.append(('connok', c.cid))
            evs.append(('connfail', c.cid))
        elif c.state == 'connected':
            evs.append(('lost', c.cid))
            if c.readable():
                for name, b in msgs:
                    evs.append(('data', c.cid, b))
    for tname, _ in session.TIMER_ATTR:
        if d.enabled(('fire', tname)):
            evs.append(('fire', tname))
    evs.append(('stop',))
    evs.append(('start',))
    return evs


def explore(kw, msgs, depth, max_edges=None, seed=0, extra_events=None, prefix=()):
    """BFS by replay.  returns list of (path_events, coq_events, results, driver_tables) for every
    explored maximal path, plus the edge list [(key_before, event, result, key_after, path)]"""
    rng = random.Random(seed)
    seen = {}
    frontier = [tuple(prefix)]
    edges = []
    leaves = []
    d0, cev0, res0 = session.run_trace(kw, list(prefix))
    seen[abstract_key(d0.state())] = tuple(prefix)
    n_edges = 0
    for level in range(depth):
        nxt = []
        for path in frontier:
            d, cevs, res = session.run_trace(kw, list(path))
            k0 = abstract_key(d.state())
            evs = enabled_events(d, msgs)
            if extra_events:
                evs += extra_events(d)
            expanded = False
            for e in evs:
                if max_edges is not None and n_edges >= max_edges:
                    break
                d2, cevs2, res2 = session.run_trace(kw, list(path) + [e])
                n_edges += 1
                k1 = abstract_key(d2.state())
                edges.append((k0, e, res2[-1], k1, path + (e,)))
                if k1 not in seen:
                    seen[k1] = path + (e,)
                    nxt.append(path + (e,))
                leaves.append((path + (e,), cevs2, res2, d2))
                expanded = True
        frontier = nxt
        if not frontier:
            break
    return leaves, edges, seen, (not frontier)


def leaves_to_shards(leaves, per_shard=40):
    """Coq source: for every explored path the model trace vs the implementation trace"""
    shards = []
    for i in range(0, len(leaves), per_shard):
        chunk = leaves[i:i + per_shard]
        cases = ';\n'.join(session.coq_case(d.kw, cevs, d, res) for (_, cevs, res, d) in chunk)
        shards.append('Definition cases := [\n%s\n].\nEval vm_compute in (trace_diffs_from 0 cases).\n' % cases)
    return shards
