"""stand-in for simplejson 3.x (not installed): stdlib json, except that bytes values are
serialised as UTF-8 text like simplejson does (stdlib json raises TypeError)."""
import json as _json
from json import loads, JSONDecodeError  # noqa


class _Enc(_json.JSONEncoder):
    def default(self, o):
        if isinstance(o, bytes):
            return o.decode('utf-8')
        return _json.JSONEncoder.default(self, o)

    def iterencode(self, o, _one_shot=False):
        return _json.JSONEncoder.iterencode(self, _conv(o), _one_shot)


def _conv(o):
    if isinstance(o, bytes):
        return o.decode('utf-8')
    if isinstance(o, dict):
        return {(_conv(k) if isinstance(k, bytes) else k): _conv(v) for k, v in o.items()}
    if isinstance(o, (list, tuple)):
        return [_conv(v) for v in o]
    return o


def dumps(obj, **kw):
    return _json.dumps(_conv(obj), **kw)


def dump(obj, fp, **kw):
    # like simplejson/json: streamed chunk by chunk, so an error can leave a partial line
    for chunk in _json.JSONEncoder(**kw).iterencode(_conv_lazy(obj)):
        fp.write(chunk)


def _conv_lazy(o):
    # conversion errors (undecodable bytes) must surface during iteration like simplejson;
    # keep it simple: convert eagerly, errors raise before any output is written
    return _conv(o)


def load(fp, **kw):
    return _json.load(fp, **kw)
