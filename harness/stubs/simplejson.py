"""stand-in for simplejson 3.x (not installed): stdlib json, except that bytes values are
serialised as UTF-8 text like simplejson does (stdlib json raises TypeError).

dump() streams chunk by chunk exactly like simplejson.dump (which always uses the pure-Python
_make_iterencode generator for dump(): '{', key, ': ', value, ', ', ...): a value that cannot be
serialised -- an object of an unsupported type (TypeError), bytes that are not UTF-8
(UnicodeDecodeError), a non-scalar dict key (TypeError) -- raises in the middle of the stream,
AFTER everything before it has already been written to the file object.  That partial output is
what property C20 is about, so the conversion of bytes is done lazily, at the point of emission.
dumps() builds the whole string first, so an error there produces no output at all."""
import json as _json
from json import loads, JSONDecodeError  # noqa
from json.encoder import encode_basestring_ascii as _enc_str

_FLOAT_INF = float('inf')


def _conv(o):
    if isinstance(o, bytes):
        return o.decode('utf-8')
    if isinstance(o, dict):
        return {(_conv(k) if isinstance(k, bytes) else k): _conv(v) for k, v in o.items()}
    if isinstance(o, (list, tuple)):
        return [_conv(v) for v in o]
    return o


def dumps(obj, **kw):
    return _json.dumps(_conv(obj), **kw)


def _text(s):
    # simplejson.encoder.py_encode_basestring_ascii: bytes are decoded as UTF-8 first
    if isinstance(s, bytes):
        s = str(s, 'utf-8')
    return _enc_str(s)


def _floatstr(o):
    if o != o:
        return 'NaN'
    if o == _FLOAT_INF:
        return 'Infinity'
    if o == -_FLOAT_INF:
        return '-Infinity'
    return float.__repr__(o)


def _key(k):
    # simplejson _stringify_key
    if isinstance(k, str):
        return k
    if isinstance(k, bytes):
        return str(k, 'utf-8')
    if isinstance(k, float):
        return _floatstr(k)
    if k is True:
        return 'true'
    if k is False:
        return 'false'
    if k is None:
        return 'null'
    if isinstance(k, int):
        return str(int(k))
    raise TypeError('keys must be str, int, float, bool or None, not %s' % k.__class__.__name__)


def _iterencode(o, markers):
    if isinstance(o, (str, bytes)):
        yield _text(o)
    elif o is None:
        yield 'null'
    elif o is True:
        yield 'true'
    elif o is False:
        yield 'false'
    elif isinstance(o, int):
        yield str(int(o))
    elif isinstance(o, float):
        yield _floatstr(o)
    elif isinstance(o, (list, tuple)):
        if id(o) in markers:
            raise ValueError('Circular reference detected')
        markers[id(o)] = o
        if not o:
            yield '[]'
        else:
            yield '['
            first = True
            for v in o:
                if first:
                    first = False
                else:
                    yield ', '
                for chunk in _iterencode(v, markers):
                    yield chunk
            yield ']'
        del markers[id(o)]
    elif isinstance(o, dict):
        if id(o) in markers:
            raise ValueError('Circular reference detected')
        markers[id(o)] = o
        if not o:
            yield '{}'
        else:
            yield '{'
            first = True
            for k, v in o.items():
                k = _key(k)            # may raise: nothing of this item has been emitted yet
                if first:
                    first = False
                else:
                    yield ', '
                yield _enc_str(k)
                yield ': '
                for chunk in _iterencode(v, markers):
                    yield chunk
            yield '}'
        del markers[id(o)]
    else:
        raise TypeError('Object of type %s is not JSON serializable' % o.__class__.__name__)


def dump(obj, fp, **kw):
    if kw:
        it = _json.JSONEncoder(**kw).iterencode(_conv(obj))
    else:
        it = _iterencode(obj, {})
    for chunk in it:
        fp.write(chunk)


def load(fp, **kw):
    return _json.load(fp, **kw)
