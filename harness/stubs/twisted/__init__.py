"""Minimal deterministic stand-in for Twisted (not installed in this sandbox).

Nothing fires by itself: the verification driver chooses every event.
"""
