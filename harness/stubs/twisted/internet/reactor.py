"""Virtual-time reactor.  Time is a Fraction; nothing fires by itself."""
from fractions import Fraction
from . import error

_SIM = None


class DelayedCall(object):
    def __init__(self, sim, time, func, args, kw):
        self.sim = sim
        self.time = time
        self.func = func
        self.args = args
        self.kw = kw
        self.called = 0
        self.cancelled = 0

    def cancel(self):
        if self.cancelled:
            raise error.AlreadyCancelled
        if self.called:
            raise error.AlreadyCalled
        self.cancelled = 1
        self.sim.calls.remove(self)

    def reset(self, seconds):
        if self.cancelled:
            raise error.AlreadyCancelled
        if self.called:
            raise error.AlreadyCalled
        self.time = self.sim.now + _frac(seconds)

    def active(self):
        return not (self.cancelled or self.called)

    def getTime(self):
        return self.time


def _frac(x):
    return Fraction(x).limit_denominator(3)


class Address(object):
    def __init__(self, host, port):
        self.host = host
        self.port = port


class Reason(object):
    def __init__(self, msg='Connection was closed cleanly.'):
        self.msg = msg

    def getErrorMessage(self):
        return self.msg


class Transport(object):
    def __init__(self, connector):
        self.connector = connector
        self.connected = 1
        self.disconnecting = 0
        self.writes = []          # list of (time, bytes)

    def write(self, data):
        if not isinstance(data, (bytes, bytearray)):
            raise TypeError('Data must be bytes')
        if not self.connected:
            return      # Twisted silently drops writes on a disconnected transport
        self.writes.append((self.connector.sim.now, bytes(data)))
        self.connector.sim.log.append(('write', self.connector.cid, bytes(data)))

    def loseConnection(self):
        if not self.disconnecting:
            self.disconnecting = 1
            self.connector.sim.log.append(('lose', self.connector.cid))

    def setTcpNoDelay(self, flag):
        pass

    def getHost(self):
        return Address(self.connector.bind_host, 40000 + self.connector.cid)

    def getPeer(self):
        return Address(self.connector.host, self.connector.port)

    def getHandle(self):
        raise RuntimeError('no socket in the simulation')


class Connector(object):
    """state: connecting -> connected -> closed   or connecting -> failed"""

    def __init__(self, sim, cid, host, port, factory, timeout, bind):
        self.sim = sim
        self.cid = cid
        self.host = host
        self.port = port
        self.factory = factory
        self.timeout = timeout
        self.bind_host = bind[0] if bind else '0.0.0.0'
        self.state = 'connecting'
        self.transport = None
        self.protocol = None

    # ---- driver side -------------------------------------------------
    def succeed(self):
        assert self.state == 'connecting'
        self.state = 'connected'
        p = self.factory.buildProtocol(Address(self.host, self.port))
        self.protocol = p
        self.transport = Transport(self)
        p.makeConnection(self.transport)

    def fail(self, msg='Connection refused'):
        assert self.state == 'connecting'
        self.state = 'failed'
        self.factory.clientConnectionFailed(self, Reason(msg))

    def readable(self):
        # loseConnection() stops reading (twisted.internet.abstract.FileDescriptor)
        return self.state == 'connected' and not self.transport.disconnecting

    def deliver(self, data):
        assert self.readable()
        self.protocol.dataReceived(data)

    def lose(self, msg='Connection was closed cleanly.'):
        assert self.state == 'connected'
        self.state = 'closed'
        self.transport.connected = 0
        self.protocol.connected = 0
        self.protocol.connectionLost(Reason(msg))
        self.factory.clientConnectionLost(self, Reason(msg))

    def live(self):
        return self.state in ('connecting', 'connected')


class Sim(object):
    def __init__(self):
        self.now = Fraction(0)
        self.calls = []
        self.connectors = []
        self.log = []

    def callLater(self, seconds, func, *args, **kw):
        dc = DelayedCall(self, self.now + _frac(seconds), func, args, kw)
        self.calls.append(dc)
        return dc

    def connectTCP(self, host, port, factory, timeout=30, bindAddress=None):
        c = Connector(self, len(self.connectors), host, port, factory, timeout, bindAddress)
        self.connectors.append(c)
        self.log.append(('connect', c.cid))
        factory.startedConnecting(c)
        return c

    # ---- driver side -------------------------------------------------
    def next_due(self):
        """earliest deadline among pending calls, or None"""
        return min((c.time for c in self.calls), default=None)

    def fire(self, dc):
        assert dc in self.calls and dc.time >= self.now
        assert dc.time == self.next_due(), 'time may not skip a timer'
        self.now = dc.time
        self.calls.remove(dc)
        dc.called = 1
        dc.func(*dc.args, **dc.kw)

    def advance(self, seconds):
        t = self.now + _frac(seconds)
        nd = self.next_due()
        assert nd is None or t <= nd, 'time may not skip a timer'
        self.now = t


def install(sim=None):
    global _SIM
    _SIM = sim or Sim()
    return _SIM


def sim():
    return _SIM


def callLater(seconds, func, *args, **kw):
    return _SIM.callLater(seconds, func, *args, **kw)


def callFromThread(func, *args, **kw):
    return func(*args, **kw)


def connectTCP(host, port, factory, timeout=30, bindAddress=None):
    return _SIM.connectTCP(host, port, factory, timeout, bindAddress)


def run(*a, **kw):
    raise RuntimeError('the simulated reactor is driven explicitly')


def stop():
    pass
