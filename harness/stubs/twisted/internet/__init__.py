from . import error, protocol, reactor  # noqa
