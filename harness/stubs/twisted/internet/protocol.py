class Protocol(object):
    transport = None
    connected = 0
    factory = None

    def makeConnection(self, transport):
        self.connected = 1
        self.transport = transport
        self.connectionMade()

    def connectionMade(self):
        pass

    def connectionLost(self, reason=None):
        pass

    def dataReceived(self, data):
        pass


class Factory(object):
    protocol = None

    def buildProtocol(self, addr):
        p = self.protocol()
        p.factory = self
        return p

    def startedConnecting(self, connector):
        pass

    def doStart(self):
        pass

    def doStop(self):
        pass


class ClientFactory(Factory):
    def clientConnectionFailed(self, connector, reason):
        pass

    def clientConnectionLost(self, connector, reason):
        pass
