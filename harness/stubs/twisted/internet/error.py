class AlreadyCalled(ValueError):
    pass


class AlreadyCancelled(ValueError):
    pass


class ConnectionRefusedError(Exception):
    pass
