"""set-of-prefixes stand-in for py-radix (not installed); exact match + naive best match"""
import netaddr


class _Node(object):
    def __init__(self, prefix):
        self.prefix = prefix
        self.data = {}


class Radix(object):
    def __init__(self):
        self._nodes = {}

    def add(self, prefix):
        n = self._nodes.get(prefix)
        if n is None:
            n = self._nodes[prefix] = _Node(prefix)
        return n

    def delete(self, prefix):
        del self._nodes[prefix]

    def search_exact(self, prefix):
        return self._nodes.get(prefix)

    def search_best(self, prefix):
        ip = netaddr.IPNetwork(prefix)
        best = None
        for p, n in self._nodes.items():
            net = netaddr.IPNetwork(p)
            if ip.first >= net.first and ip.last <= net.last:
                if best is None or net.prefixlen > netaddr.IPNetwork(best.prefix).prefixlen:
                    best = n
        return best

    def __contains__(self, prefix):
        return self.search_best(prefix) is not None

    def prefixes(self):
        return list(self._nodes)
