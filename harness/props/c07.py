"""C07 - multiprotocol NLRI round trip (MP_REACH_NLRI / MP_UNREACH_NLRI).

One `Family` object per address family.  A case is a dict
    {'fam': name, 'kind': 'reach'|'unreach', 'v': canonical value (integers only), 'cls': [input classes]}
For every case the check
  * runs the implementation's construct on the textual form of the value and, on the octets it
    produced, the implementation's parse; both results are canonicalised (addresses to
    [version, integer] with netaddr, exceptions to [2], None to [0, []]);
  * evaluates the Coq model's construct on the same value and the model's parse on the same octets
    inside Coq and compares (correspondence);
  * evaluates the property itself on the implementation: parse(construct(v)) == v in canonical form;
    a failure is attributed to a known finding only when the input is in that finding's input class
    AND the observed behaviour is the recorded one; anything else is a new violation.
"""
import importlib
import json

import netaddr

import env  # noqa: F401  (stubs + repo on sys.path)
import common
from session import Bytes, coq_sx, coq_bytes

COQ_TARGETS = ['props/C07.vo']
TRUSTED = ['netaddr text<->integer conversion of IPv4/IPv6 addresses (address text is canonicalised to '
           '(version, integer) by the harness; the model works on integers); EVPN MAC text is NOT trusted: the '
           'model works on the characters (lib/Dec.v split / int(g, 16) / show_mac) and is compared with '
           'construct_mac and str(netaddr.EUI(int)) by the correspondence run',
           'harness rendering of route distinguishers ("a:b" text <-> (kind, a, b)) and flowspec operator '
           'text ("=1|>=2" <-> [(flags, value)])']
ASSUMPTIONS = ['model/YMp.v, YPrefix6.v, YLabel.v, YVpn.v, YLu.v, YFlow4.v, YEvpn.v are hand-written and tied to '
               'yabgp/message/attribute/{mpreachnlri,mpunreachnlri}.py and nlri/*.py by the correspondence run '
               'of this check (construct on generated values, parse on the octets construct produced)']

FAMILY_MODULES = ['c07_v6u', 'c07_vpn', 'c07_lu', 'c07_flow4', 'c07_evpn']
NOT_COVERED = []


# ------------------------------------------------------------------ shared helpers
def ip6(n):
    return str(netaddr.IPAddress(n, 6))


def ip4(n):
    return str(netaddr.IPAddress(n, 4))


def caddr(text):
    a = netaddr.IPAddress(text)
    return [a.version, int(a)]


def cprefix(text):
    a, l = text.split('/')
    return [caddr(a), int(l)]


def mask(a, l, bits):
    return a >> (bits - l) << (bits - l) if l < bits else a


def coq_opt(v, f=str):
    return 'None' if v is None else '(Some %s)' % f(v)


def coq_list(xs, f=str):
    return '[%s]' % '; '.join(f(x) for x in xs)


# attribute VALUE lengths every family is driven to (see Family.gen): around the one-/two-octet
# attribute length switch (MP attributes always set the extended-length flag: a change of that shows
# here), and the largest value struct.pack('!H') can frame; one octet more cannot be constructed
SIZE_TARGETS_QUICK = [254, 255, 256, 257, 65535]
SIZE_TARGETS_THOROUGH = [253, 254, 255, 256, 257, 258, 4069, 4070, 4096, 65534, 65535]
SIZE_UNENCODABLE_QUICK = [65536]
SIZE_UNENCODABLE_THOROUGH = [65536, 65537]
SIZE_BOUNDARIES = [255, 256, 65535, 65536]
SHARD_OCTETS = 250000


def size_targets(ctx):
    """[(attribute value length, constructible?)]"""
    ok = SIZE_TARGETS_THOROUGH if ctx.thorough else SIZE_TARGETS_QUICK
    bad = SIZE_UNENCODABLE_THOROUGH if ctx.thorough else SIZE_UNENCODABLE_QUICK
    return [(t, True) for t in ok] + [(t, False) for t in bad]


def fill_sizes(target, sizes, rng):
    """a list of numbers out of `sizes` (encoded route sizes) that sums to exactly `target`, or None.
    Random choices while far from the target, then an exact change-making table for the rest."""
    sizes = sorted(set(sizes))
    if target < 0 or not sizes:
        return None
    out = []
    rest = target
    slack = 40 * sizes[-1]
    while rest > slack:
        s = rng.choice(sizes)
        out.append(s)
        rest -= s
    via = [None] * (rest + 1)        # via[t] = last coin of one way to pay t
    via[0] = 0
    order = list(sizes)
    for t in range(1, rest + 1):
        rng.shuffle(order)
        for s in order:
            if s <= t and via[t - s] is not None:
                via[t] = s
                break
    if via[rest] is None:
        return None
    while rest:
        out.append(via[rest])
        rest -= via[rest]
    rng.shuffle(out)
    return out


def run_impl(fn):
    try:
        v = fn()
    except BaseException as e:       # noqa  (SystemExit etc. are failures too)
        if isinstance(e, KeyboardInterrupt):
            raise
        return ('exc', e)
    return ('ok', v)


class Family(object):
    """interface; see c07_v6u.py for the worked family"""
    name = ''
    imports = ''                 # Coq imports for the case files
    modelled = True              # False: oracle only (no Coq model yet); listed under not_covered

    def gen(self, ctx):          # -> list of cases
        raise NotImplementedError

    def impl_value(self, case):  # -> argument of MpReachNLRI/MpUnReachNLRI.construct
        raise NotImplementedError

    def coq_construct(self, case):   # -> Coq term : sx
        raise NotImplementedError

    def coq_parse(self, case, octets):   # -> Coq term : sx (octets = attribute value, header stripped)
        raise NotImplementedError

    def canon(self, case, parsed):   # canonical form of the implementation's parse result
        raise NotImplementedError

    def expected(self, case):        # canonical form of the input = what the round trip must give
        raise NotImplementedError

    def describe(self, case):        # extra words for the violation line (encoded sizes, ...)
        return ''

    def classify(self, case, stage, observed):
        """stage: 'construct-exc' | 'construct-none' | 'parse-exc' | 'differs'; observed: canonical
        parse result for 'differs'.  returns known id or None"""
        return None


def load_families():
    fams = []
    for m in FAMILY_MODULES:
        try:
            mod = importlib.import_module('props.' + m)
        except ImportError as e:
            if ('props.' + m) in str(e) or m in str(e):
                NOT_COVERED.append(m)
                continue
            raise
        fams += mod.FAMILIES
    return fams


def impl_roundtrip(fam, case):
    """-> (construct canonical, octets or None, parse canonical or None, verdict)"""
    from yabgp.message.attribute.mpreachnlri import MpReachNLRI
    from yabgp.message.attribute.mpunreachnlri import MpUnReachNLRI
    cls = MpReachNLRI if case['kind'] == 'reach' else MpUnReachNLRI
    val = fam.impl_value(case)
    st, b = run_impl(lambda: cls.construct(val))
    if st == 'exc':
        return [2], None, None, ('construct-exc', None)
    if b is None:
        return [0, []], None, None, ('construct-none', None)
    b = bytes(b)
    octets = b[4:]
    st, p = run_impl(lambda: cls.parse(octets))
    if st == 'exc':
        return [0, Bytes(b)], octets, [2], ('parse-exc', None)
    st2, c = run_impl(lambda: fam.canon(case, p))
    if st2 == 'exc':
        # the result does not even have the shape of a value of this family
        return [0, Bytes(b)], octets, [0, [99]], ('differs', [99, repr(p)[:200]])
    if c == fam.expected(case):
        return [0, Bytes(b)], octets, [0, c], None
    return [0, Bytes(b)], octets, [0, c], ('differs', c)


def run_family(ctx, fam, per_shard=120):
    cases = fam.gen(ctx)
    pairs = []          # (coq term, impl canonical, case, what)
    viol = []
    nontrivial = 0
    vlen = {}           # attribute value length -> number of constructed cases
    fam.value_lengths = vlen
    for case in cases:
        cc, octets, pc, verdict = impl_roundtrip(fam, case)
        if fam.modelled and (ctx.thorough or not case.get('huge')):
            # ('huge' = attribute of about 64 kB: oracle only in the quick tier, the Coq case file of
            # one such attribute takes ~10 s)
            pairs.append((fam.coq_construct(case), cc, case, 'construct'))
            if octets is not None:
                pairs.append((fam.coq_parse(case, octets), pc, case, 'parse'))
        if octets is not None:
            vlen[len(octets)] = vlen.get(len(octets), 0) + 1
        if case.get('out_of_range'):
            # not a value of the property's domain: model and implementation are compared, nothing else
            continue
        if case.get('unencodable'):
            # out of range by size (no octets can carry it): construction has to fail
            if verdict is not None and verdict[0] == 'construct-exc':
                continue
            viol.append({'what': '%s %s: a value that cannot be encoded (%s) was not refused by construct'
                                 % (fam.name, case['kind'], case['unencodable']),
                         'input': {'family': fam.name, 'kind': case['kind'], 'value': fam.impl_value(case)},
                         'observed': 'constructed %s octets' % (None if octets is None else len(octets)),
                         'known': None})
            continue
        if verdict is None:
            nontrivial += 1
            continue
        stage, obs = verdict
        if stage == 'construct-none' and case.get('empty'):
            continue
        kid = fam.classify(case, stage, obs)
        viol.append({'what': '%s %s round trip: %s on input class %s%s' % (fam.name, case['kind'], stage,
                                                                       case.get('cls') or ['in-range'],
                                                                       fam.describe(case)),
                     'input': {'family': fam.name, 'kind': case['kind'], 'value': fam.impl_value(case)},
                     'observed': obs if stage == 'differs' else stage, 'known': kid})
    if fam.modelled and hasattr(fam, 'extra_pairs'):
        # decoder-only inputs (hand-made octet strings): (coq term, implementation canonical, case, what)
        pairs += fam.extra_pairs(ctx)
    mism = []
    if ctx.coq_ok and pairs:
        # a shard is closed at per_shard cases or SHARD_OCTETS of text, whichever comes first (coqc needs
        # about a second per 40 kB of literal octets: big attributes are spread over the parallel jobs)
        shards, owners, cur, cur_len = [], [], [], 0
        texts = ['(%s, %s)' % (p[0], coq_sx(p[1])) for p in pairs]
        for j, t in enumerate(texts):
            if cur and (len(cur) >= per_shard or cur_len + len(t) > SHARD_OCTETS):
                owners.append(cur)
                cur, cur_len = [], 0
            cur.append(j)
            cur_len += len(t)
        if cur:
            owners.append(cur)
        for own in owners:
            shards.append('Definition cases : list (sx * sx) := [\n%s\n].\n'
                          'Eval vm_compute in (mismatches cases).\n' % ';\n'.join(texts[j] for j in own))
        results = common.coq_eval_shards(ctx.prop + '_' + fam.name, shards, imports=fam.imports)
        for k, (rc, out) in enumerate(results):
            idx = common.parse_nats(out)
            if rc != 0 or idx is None:
                mism.append({'what': '%s case file %d does not evaluate: %s' % (fam.name, k, common.first_error(out))})
                continue
            for i in idx:
                term, impl, case, what = pairs[owners[k][i]]
                mism.append({'what': 'model and implementation differ on %s %s %s' % (fam.name, case['kind'], what),
                             'input': {'family': fam.name, 'kind': case['kind'],
                                       'value': case['raw'] if 'raw' in case else fam.impl_value(case)},
                             'impl': impl, 'model_expr': term[:2000]})
    return cases, len(pairs), nontrivial, mism, viol


def run(ctx):
    fams = load_families()
    total, distinct = 0, 0
    mism, viol, samples = [], [], []
    extra = {'families': {}, 'not_covered': list(NOT_COVERED) + [
        'ipv4_flowspec: model + correspondence + oracle; proved: the operator-list codec '
        '(C07_flowspec_operators_roundtrip_partial) and the rule length prefix at every body length 1..4095, both '
        'forms (C07_flowspec_length_prefix_roundtrip/_form/_out_of_range, C07_flowspec_rule_framed); prefix '
        'components, the component loop and the attribute framing have no theorem',
        'labeled unicast / IPv6 flowspec MP_UNREACH and add-path variants: not modelled',
        'evpn route type 5 (IP prefix, outside C07): the decoder is modelled and compared on hand-made octets, '
        'no theorem; its construct (ESI packed as a float) is not modelled'],
        'proved_families': ['ipv6_unicast (reach+unreach)', 'vpnv4/vpnv6 (reach+unreach)',
                            'labeled_unicast_v4/v6 (reach)', 'label stacks', 'route distinguishers',
                            'flowspec operator lists (partial)', 'flowspec rule length prefix (1..4095 octets, both forms)',
                            'evpn route types 1-4, ESI types 0-5, MAC text, label stacks, (25,70) reach+unreach'],
        'patches_assumed_applied': ['build/proposed/c07-1-construct-prefix-v6.diff',
                                    'build/proposed/c07-2-construct-prefix-v4-zero.diff',
                                    'build/proposed/c07-3-evpn-esi-type3-width.diff (optional: otherwise a known finding)']}
    for fam in fams:
        if not fam.modelled:
            extra['not_covered'] = extra['not_covered'] + ['%s: no Coq model / theorem; oracle only' % fam.name]
        cases, npairs, nontrivial, m, v = run_family(ctx, fam)
        total += len(cases) + npairs
        distinct += nontrivial
        mism += m
        viol += v
        by_cls = {}
        for c in cases:
            for k in (c.get('cls') or ['in-range']):
                by_cls[k] = by_cls.get(k, 0) + 1
        extra['families'][fam.name] = {
            'cases': len(cases), 'reach': sum(1 for c in cases if c['kind'] == 'reach'),
            'unreach': sum(1 for c in cases if c['kind'] == 'unreach'),
            'correspondence_pairs': npairs, 'round_trips_ok': nontrivial,
            'property_failures': len(v), 'known_failures': sum(1 for x in v if x['known']),
            'input_classes': by_cls,
            'attribute_value_octets': {
                'min': min(fam.value_lengths or [0]), 'max': max(fam.value_lengths or [0]),
                'distinct': len(fam.value_lengths),
                'cases_at': dict((str(b), fam.value_lengths.get(b, 0)) for b in SIZE_BOUNDARIES),
                'refused_as_unencodable': sum(1 for c in cases if c.get('unencodable'))}}
        extra['families'][fam.name].update(getattr(fam, 'coverage', None) or {})
        samples += [{'family': fam.name, 'kind': c['kind'], 'value': fam.impl_value(c)} for c in cases[:2]]
    # the replay file gets the first new violation: the one with the smallest input
    viol.sort(key=lambda x: (x['known'] is not None, len(json.dumps(x['input'], default=str))))
    return {'evaluations': total, 'distinct': distinct,
            'rule': 'per family: exhaustive sweep of prefix lengths / label values / RD and ESI types at field '
                    'boundaries + seeded random multi-route attributes + attributes driven to the encoded-size '
                    'boundaries (attribute value of 254..257 and 65535 octets, 65536 refused; flowspec rule '
                    'bodies of every length around 240 and 4095); evaluations = oracle round trips + '
                    'model/implementation comparisons; a case is non-trivial (counted in distinct) when the '
                    'implementation constructs it, parses it and returns exactly the input',
            'samples': samples, 'mismatches': mism, 'violations': viol, 'extra': extra}


def replay(ctx, obj):
    """re-run one stored violation on the implementation"""
    v = obj.get('violation', obj)
    inp = v.get('input') or {}
    from yabgp.message.attribute.mpreachnlri import MpReachNLRI
    from yabgp.message.attribute.mpunreachnlri import MpUnReachNLRI
    cls = MpReachNLRI if inp.get('kind') == 'reach' else MpUnReachNLRI
    val = inp.get('value')
    if isinstance(val, dict) and 'afi_safi' in val:
        val['afi_safi'] = tuple(val['afi_safi'])
    st, b = run_impl(lambda: cls.construct(val))
    print('input:', val)
    if st == 'exc' or b is None:
        print('construct ->', repr(b))
        return 1
    st, p = run_impl(lambda: cls.parse(bytes(b)[4:]))
    print('octets:', bytes(b).hex())
    print('parse  ->', repr(p))
    same = (st == 'ok' and _norm(p) == _norm(val))
    print('round trip equal (textually):', same)
    return 0 if same else 1


def _norm(x):
    """JSON turned tuples into lists and integer dictionary keys into strings"""
    if isinstance(x, dict):
        return dict((int(k) if isinstance(k, str) and k.isdigit() else k, _norm(v)) for k, v in x.items())
    if isinstance(x, (list, tuple)):
        return [_norm(v) for v in x]
    return x
