"""C07 - multiprotocol NLRI round trip (MP_REACH_NLRI / MP_UNREACH_NLRI).

One `Family` object per address family.  A case is a dict
    {'fam': name, 'kind': 'reach'|'unreach', 'v': canonical value (integers only), 'cls': [input classes]}
For every case the check
  * runs the implementation's construct on the textual form of the value and, on the octets it
    produced, the implementation's parse; both results are canonicalised (addresses to
    [version, integer] with netaddr, exceptions to [2], None to [0, []]);
  * evaluates the Coq model's construct on the same value and the model's parse on the same octets
    inside Coq and compares (correspondence);
  * evaluates the property itself on the implementation: parse(construct(v)) == v in canonical form;
    a failure is attributed to a known finding only when the input is in that finding's input class
    AND the observed behaviour is the recorded one; anything else is a new violation.
"""
import importlib

import netaddr

import env  # noqa: F401  (stubs + repo on sys.path)
import common
from session import Bytes, coq_sx, coq_bytes

COQ_TARGETS = ['props/C07.vo']
TRUSTED = ['netaddr text<->integer conversion of IPv4/IPv6/MAC addresses (address text is canonicalised to '
           '(version, integer) by the harness; the model works on integers)',
           'harness rendering of route distinguishers ("a:b" text <-> (kind, a, b)) and flowspec operator '
           'text ("=1|>=2" <-> [(flags, value)])']
ASSUMPTIONS = ['model/YMp.v, YPrefix6.v, YLabel.v, YVpn.v, YLu.v, YFlow4.v, YEvpn.v are hand-written and tied to '
               'yabgp/message/attribute/{mpreachnlri,mpunreachnlri}.py and nlri/*.py by the correspondence run '
               'of this check (construct on generated values, parse on the octets construct produced)']

FAMILY_MODULES = ['c07_v6u', 'c07_vpn', 'c07_lu', 'c07_flow4', 'c07_evpn']
NOT_COVERED = []


# ------------------------------------------------------------------ shared helpers
def ip6(n):
    return str(netaddr.IPAddress(n, 6))


def ip4(n):
    return str(netaddr.IPAddress(n, 4))


def caddr(text):
    a = netaddr.IPAddress(text)
    return [a.version, int(a)]


def cprefix(text):
    a, l = text.split('/')
    return [caddr(a), int(l)]


def mask(a, l, bits):
    return a >> (bits - l) << (bits - l) if l < bits else a


def coq_opt(v, f=str):
    return 'None' if v is None else '(Some %s)' % f(v)


def coq_list(xs, f=str):
    return '[%s]' % '; '.join(f(x) for x in xs)


def run_impl(fn):
    try:
        v = fn()
    except BaseException as e:       # noqa  (SystemExit etc. are failures too)
        if isinstance(e, KeyboardInterrupt):
            raise
        return ('exc', e)
    return ('ok', v)


class Family(object):
    """interface; see c07_v6u.py for the worked family"""
    name = ''
    imports = ''                 # Coq imports for the case files
    modelled = True              # False: oracle only (no Coq model yet); listed under not_covered

    def gen(self, ctx):          # -> list of cases
        raise NotImplementedError

    def impl_value(self, case):  # -> argument of MpReachNLRI/MpUnReachNLRI.construct
        raise NotImplementedError

    def coq_construct(self, case):   # -> Coq term : sx
        raise NotImplementedError

    def coq_parse(self, case, octets):   # -> Coq term : sx (octets = attribute value, header stripped)
        raise NotImplementedError

    def canon(self, case, parsed):   # canonical form of the implementation's parse result
        raise NotImplementedError

    def expected(self, case):        # canonical form of the input = what the round trip must give
        raise NotImplementedError

    def classify(self, case, stage, observed):
        """stage: 'construct-exc' | 'construct-none' | 'parse-exc' | 'differs'; observed: canonical
        parse result for 'differs'.  returns known id or None"""
        return None


def load_families():
    fams = []
    for m in FAMILY_MODULES:
        try:
            mod = importlib.import_module('props.' + m)
        except ImportError as e:
            if ('props.' + m) in str(e) or m in str(e):
                NOT_COVERED.append(m)
                continue
            raise
        fams += mod.FAMILIES
    return fams


def impl_roundtrip(fam, case):
    """-> (construct canonical, octets or None, parse canonical or None, verdict)"""
    from yabgp.message.attribute.mpreachnlri import MpReachNLRI
    from yabgp.message.attribute.mpunreachnlri import MpUnReachNLRI
    cls = MpReachNLRI if case['kind'] == 'reach' else MpUnReachNLRI
    val = fam.impl_value(case)
    st, b = run_impl(lambda: cls.construct(val))
    if st == 'exc':
        return [2], None, None, ('construct-exc', None)
    if b is None:
        return [0, []], None, None, ('construct-none', None)
    b = bytes(b)
    octets = b[4:]
    st, p = run_impl(lambda: cls.parse(octets))
    if st == 'exc':
        return [0, Bytes(b)], octets, [2], ('parse-exc', None)
    st2, c = run_impl(lambda: fam.canon(case, p))
    if st2 == 'exc':
        # the result does not even have the shape of a value of this family
        return [0, Bytes(b)], octets, [0, [99]], ('differs', [99, repr(p)[:200]])
    if c == fam.expected(case):
        return [0, Bytes(b)], octets, [0, c], None
    return [0, Bytes(b)], octets, [0, c], ('differs', c)


def run_family(ctx, fam, per_shard=120):
    cases = fam.gen(ctx)
    pairs = []          # (coq term, impl canonical, case, what)
    viol = []
    nontrivial = 0
    for case in cases:
        cc, octets, pc, verdict = impl_roundtrip(fam, case)
        if fam.modelled:
            pairs.append((fam.coq_construct(case), cc, case, 'construct'))
            if octets is not None:
                pairs.append((fam.coq_parse(case, octets), pc, case, 'parse'))
        if verdict is None:
            nontrivial += 1
            continue
        stage, obs = verdict
        if stage == 'construct-none' and case.get('empty'):
            continue
        kid = fam.classify(case, stage, obs)
        viol.append({'what': '%s %s round trip: %s on input class %s' % (fam.name, case['kind'], stage,
                                                                     case.get('cls') or ['in-range']),
                     'input': {'family': fam.name, 'kind': case['kind'], 'value': fam.impl_value(case)},
                     'observed': obs if stage == 'differs' else stage, 'known': kid})
    mism = []
    if ctx.coq_ok and pairs:
        shards = []
        for i in range(0, len(pairs), per_shard):
            body = ';\n'.join('(%s, %s)' % (p[0], coq_sx(p[1])) for p in pairs[i:i + per_shard])
            shards.append('Definition cases : list (sx * sx) := [\n%s\n].\n'
                          'Eval vm_compute in (mismatches cases).\n' % body)
        results = common.coq_eval_shards(ctx.prop + '_' + fam.name, shards, imports=fam.imports)
        for k, (rc, out) in enumerate(results):
            idx = common.parse_nats(out)
            if rc != 0 or idx is None:
                mism.append({'what': '%s case file %d does not evaluate: %s' % (fam.name, k, common.first_error(out))})
                continue
            for i in idx:
                term, impl, case, what = pairs[k * per_shard + i]
                mism.append({'what': 'model and implementation differ on %s %s %s' % (fam.name, case['kind'], what),
                             'input': {'family': fam.name, 'kind': case['kind'], 'value': fam.impl_value(case)},
                             'impl': impl, 'model_expr': term[:2000]})
    return cases, len(pairs), nontrivial, mism, viol


def run(ctx):
    fams = load_families()
    total, distinct = 0, 0
    mism, viol, samples = [], [], []
    extra = {'families': {}, 'not_covered': list(NOT_COVERED) + [
        'ipv4_flowspec: model + correspondence + oracle, but only the operator-list codec is proved '
        '(C07_flowspec_operators_roundtrip_partial); prefix components, rule and attribute framing have no theorem',
        'labeled unicast / IPv6 flowspec MP_UNREACH and add-path variants: not modelled'],
        'proved_families': ['ipv6_unicast (reach+unreach)', 'vpnv4/vpnv6 (reach+unreach)',
                            'labeled_unicast_v4/v6 (reach)', 'label stacks', 'route distinguishers',
                            'flowspec operator lists (partial)'],
        'patches_assumed_applied': ['build/proposed/c07-1-construct-prefix-v6.diff',
                                    'build/proposed/c07-2-construct-prefix-v4-zero.diff',
                                    'build/proposed/c07-3-evpn-esi-type3-width.diff (optional: otherwise a known finding)']}
    for fam in fams:
        if not fam.modelled:
            extra['not_covered'] = extra['not_covered'] + ['%s: no Coq model / theorem; oracle only' % fam.name]
        cases, npairs, nontrivial, m, v = run_family(ctx, fam)
        total += len(cases) + npairs
        distinct += nontrivial
        mism += m
        viol += v
        by_cls = {}
        for c in cases:
            for k in (c.get('cls') or ['in-range']):
                by_cls[k] = by_cls.get(k, 0) + 1
        extra['families'][fam.name] = {
            'cases': len(cases), 'reach': sum(1 for c in cases if c['kind'] == 'reach'),
            'unreach': sum(1 for c in cases if c['kind'] == 'unreach'),
            'correspondence_pairs': npairs, 'round_trips_ok': nontrivial,
            'property_failures': len(v), 'known_failures': sum(1 for x in v if x['known']),
            'input_classes': by_cls}
        samples += [{'family': fam.name, 'kind': c['kind'], 'value': fam.impl_value(c)} for c in cases[:2]]
    return {'evaluations': total, 'distinct': distinct,
            'rule': 'per family: exhaustive sweep of prefix lengths / label values / RD and ESI types at field '
                    'boundaries + seeded random multi-route attributes; evaluations = oracle round trips + '
                    'model/implementation comparisons; a case is non-trivial (counted in distinct) when the '
                    'implementation constructs it, parses it and returns exactly the input',
            'samples': samples, 'mismatches': mism, 'violations': viol, 'extra': extra}


def replay(ctx, obj):
    """re-run one stored violation on the implementation"""
    v = obj.get('violation', obj)
    inp = v.get('input') or {}
    from yabgp.message.attribute.mpreachnlri import MpReachNLRI
    from yabgp.message.attribute.mpunreachnlri import MpUnReachNLRI
    cls = MpReachNLRI if inp.get('kind') == 'reach' else MpUnReachNLRI
    val = inp.get('value')
    if isinstance(val, dict) and 'afi_safi' in val:
        val['afi_safi'] = tuple(val['afi_safi'])
    st, b = run_impl(lambda: cls.construct(val))
    print('input:', val)
    if st == 'exc' or b is None:
        print('construct ->', repr(b))
        return 1
    st, p = run_impl(lambda: cls.parse(bytes(b)[4:]))
    print('octets:', bytes(b).hex())
    print('parse  ->', repr(p))
    same = (st == 'ok' and p == val)
    print('round trip equal (textually):', same)
    return 0 if same else 1
