"""Shared by the session-layer property checks: exploration of the real session layer,
comparison of every explored trace with the Coq model, helpers for oracles."""
import time

import env  # noqa: F401
import common
import explore
import session

ALL_MSGS = dict(explore.messages())
EST_PREFIX = (('boot',), ('connok', 0), ('data', 0, ALL_MSGS['open_ok']), ('data', 0, ALL_MSGS['keepalive']))

TRUSTED = [
    'model/YWorld.v, YProto.v, YFraming.v, YSession.v: hand-written model of yabgp/core/{protocol,factory,timer}.py '
    'and of the abstract reactor, tied to the code by exploration correspondence (every explored trace is replayed on '
    'the model inside Coq and all outputs + abstract states must agree)',
    'gen/FsmGen.v is regenerated from yabgp/core/fsm.py on every run (translator harness/translate_fsm.py)',
    'decoders (Open.parse, BGP._update_received) enter the session model as parameters; in the correspondence they '
    'are finite tables recorded from the real decoders; the theorems hold for every decoder behaviour',
    'Twisted is replaced by harness/stubs/twisted: virtual time, nothing fires by itself, loseConnection stops reading, '
    'writes on a disconnected transport are dropped, one connectionLost per connection',
]
ASSUMPTIONS = [
    'handler callbacks do not raise; the internal message queue of the handler is empty',
    'FSM.delay_open is False and bgp_peering is never None (checked structurally by the translator)',
]


def compare_traces(ctx, traces, per_shard=40):
    """traces: list of (kw, events).  Runs each on the implementation, then the model in Coq.
    returns (results, mismatches): results[i] = (driver, coq_events, step_results)"""
    runs = []
    for kw, events in traces:
        d, cevs, res = session.run_trace(kw, list(events))
        runs.append((d, cevs, res))
    mism = []
    if ctx.coq_ok:
        shards = []
        for i in range(0, len(runs), per_shard):
            cases = ';\n'.join(session.coq_case(d.kw, cevs, d, res) for (d, cevs, res) in runs[i:i + per_shard])
            shards.append('Definition cases := [\n%s\n].\nEval vm_compute in (trace_diffs_from 0 cases).\n' % cases)
        for k, (rc, out) in enumerate(common.coq_eval_shards(ctx.prop, shards)):
            pairs = common.parse_pairs(out)
            if rc != 0 or pairs is None:
                mism.append({'what': 'trace case file %d does not evaluate: %s' % (k, common.first_error(out))})
                continue
            for a, b in pairs:
                j = k * per_shard + a
                kw, events = traces[j]
                mism.append({'what': 'session model and implementation differ at step %d of trace %d' % (b, j),
                             'config': kw, 'events': [list(e) for e in events],
                             'impl_step': runs[j][2][b] if b < len(runs[j][2]) else None})
    return runs, mism


def explore_compare(ctx, kw, msg_names, depth, prefix=(), max_edges=None):
    msgs = [(n, ALL_MSGS[n]) for n in msg_names]
    t0 = time.time()
    leaves, edges, seen, closed = explore.explore(kw, msgs, depth, max_edges=max_edges, prefix=prefix)
    t1 = time.time()
    mism = []
    if ctx.coq_ok:
        shards = explore.leaves_to_shards(leaves, 60)
        for k, (rc, out) in enumerate(common.coq_eval_shards(ctx.prop, shards)):
            pairs = common.parse_pairs(out)
            if rc != 0 or pairs is None:
                mism.append({'what': 'exploration case file %d does not evaluate: %s' % (k, common.first_error(out))})
                continue
            for a, b in pairs:
                path, cevs, res, d = leaves[k * 60 + a]
                mism.append({'what': 'session model and implementation differ at step %d' % b,
                             'config': kw, 'events': [list(e) for e in path], 'impl_step': res[b]})
    stats = {'explored_edges': len(edges), 'abstract_states': len(seen), 'closure_reached': closed,
             'explore_s': round(t1 - t0, 1), 'coq_s': round(time.time() - t1, 1), 'depth': depth}
    return leaves, edges, mism, stats


def name_of(e):
    """short printable form of an event"""
    if e[0] == 'data':
        for n, b in ALL_MSGS.items():
            if b == e[2]:
                return ['data', e[1], n]
        return ['data', e[1], bytes(e[2]).hex()]
    return list(e)
