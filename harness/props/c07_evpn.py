"""C07 family 6: EVPN route types 1-4, ESI types 0-5.  ORACLE ONLY: there is no Coq model of
yabgp/message/attribute/nlri/evpn.py yet (reported as not covered); the round trip is evaluated
on the implementation and failures are attributed to the known input classes."""
import copy

import netaddr

from props.c07 import Family, ip6, ip4, caddr, size_targets, fill_sizes
from props.c07_vpn import rd_text, crd, rd_boundaries, rnd_rd, LABELS

K_ESI3 = 'C07-evpn-esi-type-3-local-discriminator-width'
K_LOW = 'C07-evpn-low-ipv6-address-as-ipv4'


def mac_text(n):
    return '-'.join('%02X' % ((n >> (8 * i)) & 255) for i in range(5, -1, -1))


def cmac(t):
    return int(netaddr.EUI(t))


def nbytes(v):
    return max(1, (v.bit_length() + 7) // 8)


class Evpn(Family):
    name = 'evpn'
    modelled = False
    imports = ''

    def gen(self, ctx):
        rng = ctx.rng
        cases = []

        def addr(v6=None, low=False):
            if v6 is None:
                v6 = rng.random() < .5
            if not v6:
                return (4, rng.choice([0, 1, 2 ** 32 - 1, rng.getrandbits(32)]))
            return (6, rng.getrandbits(32) if low else rng.choice([2 ** 32, 2 ** 128 - 1, rng.getrandbits(128) | 1 << 100]))

        def esi(t, big=None):
            big = rng.random() < .5 if big is None else big
            m = rng.choice([0, 1, 2 ** 48 - 1, rng.getrandbits(48)])
            if t == 0:
                return {'type': 0, 'value': (2 ** 72 - 1 if rng.random() < .3 else rng.getrandbits(72)) if big else rng.choice([0, 1, 255])}
            if t == 1:
                return {'type': 1, 'value': {'ce_mac_addr': mac_text(m), 'ce_port_key': 65535 if big else rng.choice([0, 1])}}
            if t == 2:
                return {'type': 2, 'value': {'rb_mac_addr': mac_text(m), 'rb_priority': 65535 if big else rng.choice([0, 1])}}
            if t == 3:
                return {'type': 3, 'value': {'sys_mac_addr': mac_text(m),
                                             'ld_value': rng.choice([2 ** 24 - 1, 65536, rng.randrange(65536, 2 ** 24)]) if big
                                             else rng.choice([0, 1, 255, 256, 65535])}}
            if t == 4:
                return {'type': 4, 'value': {'router_id': 2 ** 32 - 1 if big else rng.choice([0, 1]),
                                             'ld_value': 2 ** 32 - 1 if big else rng.choice([0, 1])}}
            return {'type': 5, 'value': {'as_num': 2 ** 32 - 1 if big else rng.choice([0, 1, 65535]),
                                         'ld_value': 2 ** 32 - 1 if big else rng.choice([0, 1])}}

        def route(rt, e=None, rd=None, ip=None, labels=None, has_ip=True):
            rd = rd or rnd_rd(rng)
            e = e or esi(rng.randrange(6))
            ip = ip or addr()
            tag = rng.choice([0, 1, 2 ** 32 - 1, rng.getrandbits(32)])
            lab = labels or [rng.choice(LABELS + [rng.randrange(2 ** 20)])]
            v = {'rd': rd}
            if rt == 1:
                v.update(esi=e, eth_tag_id=tag, label=lab)
            elif rt == 2:
                v.update(esi=e, eth_tag_id=tag, mac=rng.choice([0, 2 ** 48 - 1, rng.getrandbits(48)]), label=lab)
                if has_ip:
                    v['ip'] = ip
            elif rt == 3:
                v.update(eth_tag_id=tag, ip=ip)
            else:
                v.update(esi=e, ip=ip)
            return {'type': rt, 'value': v}

        def add(kind, routes, nh=None):
            cls = []
            for r in routes:
                e = r['value'].get('esi')
                if e and e['type'] == 3 and nbytes(e['value']['ld_value']) != 3:
                    cls.append('esi-type-3-discriminator-not-3-octets')
                ip = r['value'].get('ip')
                if ip and ip[0] == 6 and ip[1] < 2 ** 32:
                    cls.append('ipv6-address-below-2^32')
            if nh and nh[0] == 6 and nh[1] < 2 ** 32:
                cls.append('ipv6-address-below-2^32')
            cases.append({'fam': self.name, 'kind': kind, 'v': {'routes': routes, 'nh': nh}, 'cls': sorted(set(cls))})

        for rt in (1, 2, 4):
            for t in range(6):
                for big in (False, True):
                    for _ in range(3 if ctx.thorough else 1):
                        add('reach', [route(rt, esi(t, big))], addr())
                        add('unreach', [route(rt, esi(t, big))])
        for rt in (1, 2, 3, 4):
            for rd in rd_boundaries():
                add('reach', [route(rt, None, rd)], addr())
        # MAC / IP presence combinations, one and two labels
        for has_ip in (False, True):
            for v6 in (False, True):
                for labels in ([16], [16, 17], [0], [2 ** 20 - 1, 1]):
                    add('reach', [route(2, None, None, addr(v6), labels, has_ip)], addr())
        for rt in (2, 3, 4):
            add('reach', [route(rt, esi(0), None, addr(True, low=True))], addr())
        add('reach', [route(3)], addr(True, low=True))
        for _ in range(300 if ctx.thorough else 40):
            add(rng.choice(['reach', 'reach', 'unreach']), [route(rng.randrange(1, 5)) for _ in range(rng.choice([1, 2, 3, 6]))], addr())
        # ---- encoded-size boundaries: attribute value length.  Encoded route sizes (type, length, value):
        # type 3 with IPv4/IPv6 originator 19/31, type 1 27, type 4 25/37, type 2 (one label) 35/39/51
        def sized_route(k):
            e = esi(rng.choice([0, 1, 2, 4, 5]))
            if k in (19, 31):
                return route(3, None, None, addr(k == 31))
            if k == 27:
                return route(1, e, None, None, [rng.randrange(1, 2 ** 20)])
            if k in (25, 37):
                return route(4, e, None, addr(k == 37))
            return route(2, e, None, addr(k == 51), [rng.randrange(1, 2 ** 20)], has_ip=k != 35)
        for target, ok in size_targets(ctx):
            for kind in ('reach', 'unreach'):
                nhv = addr()
                if nhv[0] == 6:
                    nhv = (6, nhv[1] | 1 << 100)
                room = target - (3 if kind == 'unreach' else 5 + (4 if nhv[0] == 4 else 16))
                ks = fill_sizes(room, [19, 25, 27, 31, 35, 37, 39, 51], rng)
                add(kind, [sized_route(k) for k in ks], nhv)
                cases[-1]['huge'] = target > 60000
                if not ok:
                    cases[-1]['unencodable'] = 'attribute value of %d octets' % target
        return cases

    @staticmethod
    def atext(a):
        return ip4(a[1]) if a[0] == 4 else ip6(a[1])

    def impl_value(self, case):
        v = case['v']
        nl = []
        for r in v['routes']:
            x = copy.deepcopy(r['value'])
            x['rd'] = rd_text(x['rd'])
            if 'mac' in x:
                x['mac'] = mac_text(x['mac'])
            if 'ip' in x:
                x['ip'] = self.atext(x['ip'])
            nl.append({'type': r['type'], 'value': x})
        if case['kind'] == 'unreach':
            return {'afi_safi': (25, 70), 'withdraw': nl}
        return {'afi_safi': (25, 70), 'nexthop': self.atext(v['nh']), 'nlri': nl}

    @staticmethod
    def canon_route(r):
        x = dict(r['value'])
        out = [r['type'], crd(x.pop('rd'))]
        e = x.pop('esi', None)
        if e is not None:
            ev = e['value']
            if isinstance(ev, dict):
                ev = sorted((k, cmac(val) if k.endswith('mac_addr') else val) for k, val in ev.items())
            out.append(['esi', e['type'], ev])
        if 'mac' in x:
            out.append(['mac', cmac(x.pop('mac'))])
        if 'ip' in x:
            out.append(['ip', caddr(x.pop('ip'))])
        for k in sorted(x):
            out.append([k, x[k]])
        return out

    def canon(self, case, p):
        assert tuple(p['afi_safi']) == (25, 70)
        if case['kind'] == 'reach':
            return [caddr(p['nexthop']), [self.canon_route(r) for r in p['nlri']]]
        return [self.canon_route(r) for r in p['withdraw']]

    def expected(self, case, low=False):
        val = self.impl_value(case)
        key = 'nlri' if case['kind'] == 'reach' else 'withdraw'
        rs = [self.canon_route(r) for r in val[key]]
        nh = list(case['v']['nh']) if case['kind'] == 'reach' else None
        if low:
            def fix(a):
                return [4, a[1]] if a[1] < 2 ** 32 else a
            for r in rs:
                for f in r[2:]:
                    if f[0] == 'ip':
                        f[1] = fix(f[1])
            if nh:
                nh = fix(nh)
        return [nh, rs] if case['kind'] == 'reach' else rs

    def classify(self, case, stage, obs):
        cls = case['cls']
        if 'esi-type-3-discriminator-not-3-octets' in cls and stage in ('differs', 'parse-exc'):
            return K_ESI3
        if 'ipv6-address-below-2^32' in cls and stage == 'differs' and obs == self.expected(case, low=True):
            return K_LOW
        return None


FAMILIES = [Evpn()]
