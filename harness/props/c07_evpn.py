"""C07 family 6: EVPN route types 1-4, ESI types 0-5 (model coq/model/YEvpn.v, theorems C07_evpn_*).

Every generated value is (a) constructed and parsed by the implementation, (b) constructed and parsed
by the Coq model inside Coq and compared with (a) (correspondence), (c) judged by the round-trip
oracle on the implementation.  Values outside the range of the property (malformed MAC text, a route
type 3/4 without address, out-of-range fields, ...) and hand-made octet strings (route type 5, unknown
route / ESI types, truncated routes) are evaluated on model and implementation only (no oracle).

Canonical form of a route (both sides; the Coq rendering is sx_proute of YEvpn.v):
  [1, rd, esi, tag, labels] / [2, rd, esi, tag, MAC text, [ip]?, labels] / [3, rd, tag, [ip]?] /
  [4, rd, esi, [ip]?] / [5, rd, esi, tag, plen, prefix, gateway, labels]
rd = [kind, a, b] | [3]; esi = [0, v] | [1|2|3, MAC text, n] | [4|5, a, b] | [t]; ip = [version, integer];
MAC text = the characters (the model works on the text: split on '-', int(g, 16), six groups)."""
import copy

import netaddr

from props.c07 import Family, ip6, ip4, caddr, size_targets, fill_sizes, run_impl, coq_opt, coq_list
from props.c07_vpn import rd_text, crd, coq_rd, rd_boundaries, rnd_rd, LABELS
from session import Bytes, coq_bytes

K_ESI3 = 'C07-evpn-esi-type-3-local-discriminator-width'
K_LOW = 'C07-evpn-low-ipv6-address-as-ipv4'
ESI_MAC_KEY = {1: ('ce_mac_addr', 'ce_port_key'), 2: ('rb_mac_addr', 'rb_priority'), 3: ('sys_mac_addr', 'ld_value')}
ESI_INT_KEY = {4: ('router_id', 'ld_value'), 5: ('as_num', 'ld_value')}


def mac_text(n):
    """a MAC in a case is an integer (canonical text is generated) or the text itself"""
    if isinstance(n, str):
        return n
    return '-'.join('%02X' % ((n >> (8 * i)) & 255) for i in range(5, -1, -1))


def cmac(t):
    return int(netaddr.EUI(t))


def ctext(t):
    return Bytes(t.encode('latin-1'))


def nbytes(v):
    return max(1, (v.bit_length() + 7) // 8)


# ------------------------------------------------------------------ canonical forms (implementation side)
def cesi(e):
    t, ev = e['type'], e['value']
    if t == 0 and not isinstance(ev, dict):
        return [0, ev]
    if t in ESI_MAC_KEY:
        a, b = ESI_MAC_KEY[t]
        return [t, ctext(ev[a]), ev[b]]
    if t in ESI_INT_KEY:
        a, b = ESI_INT_KEY[t]
        return [t, ev[a], ev[b]]
    assert ev == {}
    return [t]


def copt_ip(x):
    return [caddr(x['ip'])] if 'ip' in x else []


def canon_route(r):
    """parse result {'type', 'value'} -> canonical list; raises when the shape is not that of the type"""
    t, x = r['type'], r['value']
    if t == 1:
        assert sorted(x) == ['esi', 'eth_tag_id', 'label', 'rd']
        return [1, crd(x['rd']), cesi(x['esi']), x['eth_tag_id'], list(x['label'])]
    if t == 2:
        assert sorted(k for k in x if k != 'ip') == ['esi', 'eth_tag_id', 'label', 'mac', 'rd']
        return [2, crd(x['rd']), cesi(x['esi']), x['eth_tag_id'], ctext(x['mac']), copt_ip(x), list(x['label'])]
    if t == 3:
        assert sorted(k for k in x if k != 'ip') == ['eth_tag_id', 'rd']
        return [3, crd(x['rd']), x['eth_tag_id'], copt_ip(x)]
    if t == 4:
        assert sorted(k for k in x if k != 'ip') == ['esi', 'rd']
        return [4, crd(x['rd']), cesi(x['esi']), copt_ip(x)]
    if t == 5:
        assert sorted(x) == ['esi', 'eth_tag_id', 'gateway', 'label', 'prefix', 'rd']
        a, l = x['prefix'].split('/')
        return [5, crd(x['rd']), cesi(x['esi']), x['eth_tag_id'], int(l), caddr(a), caddr(x['gateway']), list(x['label'])]
    raise AssertionError('route type %r' % t)


# ------------------------------------------------------------------ Coq terms (model side)
def coq_addr(a):
    return '(%s %d)' % ('V4' if a[0] == 4 else 'V6', a[1])


def coq_str(t):
    return coq_bytes(t.encode('latin-1'))


def coq_esi(e):
    t, ev = e['type'], e['value']
    if t == 0:
        return '(Esi0 %d)' % ev
    if t in ESI_MAC_KEY:
        a, b = ESI_MAC_KEY[t]
        return '(Esi%d %s %d)' % (t, coq_str(mac_text(ev[a])), ev[b])
    if t in ESI_INT_KEY:
        a, b = ESI_INT_KEY[t]
        return '(Esi%d %d %d)' % (t, ev[a], ev[b])
    return '(EsiOther %d)' % t


def coq_route(r):
    t, x = r['type'], r['value']
    ip = coq_opt(x.get('ip'), coq_addr)
    if t == 1:
        return '(EAutoDiscovery %s %s %d %s)' % (coq_rd(x['rd']), coq_esi(x['esi']), x['eth_tag_id'], coq_list(x['label']))
    if t == 2:
        return '(EMacIp %s %s %d %s %s %s)' % (coq_rd(x['rd']), coq_esi(x['esi']), x['eth_tag_id'],
                                               coq_str(mac_text(x['mac'])), ip, coq_list(x.get('label') or []))
    if t == 3:
        return '(EMulticast %s %d %s)' % (coq_rd(x['rd']), x['eth_tag_id'], ip)
    if t == 4:
        return '(ESegment %s %s %s)' % (coq_rd(x['rd']), coq_esi(x['esi']), ip)
    return '(EUnknown %d)' % t


class Evpn(Family):
    name = 'evpn'
    modelled = True
    imports = 'From YV Require Import lib.Base lib.Dec gen.Consts model.YMp model.YLabel model.YEvpn.\n'

    def gen(self, ctx):
        rng = ctx.rng
        cases = []
        self.coverage = cov = {'esi_types_small_large': 0, 'label_value_cases': 0, 'rd_boundary_cases': 0,
                               'eth_tag_boundary_cases': 0, 'mac_ip_presence_cases': 0, 'mac_text_forms': 0,
                               'out_of_range_cases': 0, 'routes_per_attribute': {}}

        def addr(v6=None, low=False):
            if v6 is None:
                v6 = rng.random() < .5
            if not v6:
                return (4, rng.choice([0, 1, 2 ** 32 - 1, rng.getrandbits(32)]))
            return (6, rng.getrandbits(32) if low else rng.choice([2 ** 32, 2 ** 128 - 1, rng.getrandbits(128) | 1 << 100]))

        def esi(t, big=None):
            big = rng.random() < .5 if big is None else big
            m = rng.choice([0, 1, 2 ** 48 - 1, rng.getrandbits(48)])
            if t == 0:
                return {'type': 0, 'value': (2 ** 72 - 1 if rng.random() < .3 else rng.getrandbits(72)) if big else rng.choice([0, 1, 255])}
            if t == 1:
                return {'type': 1, 'value': {'ce_mac_addr': m, 'ce_port_key': 65535 if big else rng.choice([0, 1])}}
            if t == 2:
                return {'type': 2, 'value': {'rb_mac_addr': m, 'rb_priority': 65535 if big else rng.choice([0, 1])}}
            if t == 3:
                return {'type': 3, 'value': {'sys_mac_addr': m,
                                             'ld_value': rng.choice([2 ** 24 - 1, 65536, rng.randrange(65536, 2 ** 24)]) if big
                                             else rng.choice([0, 1, 255, 256, 65535])}}
            if t == 4:
                return {'type': 4, 'value': {'router_id': 2 ** 32 - 1 if big else rng.choice([0, 1]),
                                             'ld_value': 2 ** 32 - 1 if big else rng.choice([0, 1])}}
            return {'type': 5, 'value': {'as_num': 2 ** 32 - 1 if big else rng.choice([0, 1, 65535]),
                                         'ld_value': 2 ** 32 - 1 if big else rng.choice([0, 1])}}

        def route(rt, e=None, rd=None, ip=None, labels=None, has_ip=True, tag=None, mac=None):
            rd = rd or rnd_rd(rng)
            e = e or esi(rng.randrange(6))
            ip = ip or addr()
            if tag is None:
                tag = rng.choice([0, 1, 2 ** 32 - 1, rng.getrandbits(32)])
            lab = labels if labels is not None else [rng.choice(LABELS + [rng.randrange(2 ** 20)])]
            v = {'rd': rd}
            if rt == 1:
                v.update(esi=e, eth_tag_id=tag, label=lab)
            elif rt == 2:
                v.update(esi=e, eth_tag_id=tag, mac=rng.choice([0, 2 ** 48 - 1, rng.getrandbits(48)]) if mac is None else mac,
                         label=lab)
                if has_ip:
                    v['ip'] = ip
            elif rt == 3:
                v.update(eth_tag_id=tag)
                if has_ip:
                    v['ip'] = ip
            else:
                v.update(esi=e)
                if has_ip:
                    v['ip'] = ip
            return {'type': rt, 'value': v}

        def add(kind, routes, nh=None, out_of_range=None, noncanon=False):
            cls = []
            for r in routes:
                e = r['value'].get('esi')
                if e and e['type'] == 3 and nbytes(e['value']['ld_value']) != 3:
                    cls.append('esi-type-3-discriminator-not-3-octets')
                ip = r['value'].get('ip')
                if ip and ip[0] == 6 and ip[1] < 2 ** 32:
                    cls.append('ipv6-address-below-2^32')
            if nh and nh[0] == 6 and nh[1] < 2 ** 32:
                cls.append('ipv6-address-below-2^32')
            if noncanon:
                cls.append('mac-text-not-canonical')
            c = {'fam': self.name, 'kind': kind, 'v': {'routes': routes, 'nh': nh}, 'cls': sorted(set(cls))}
            if out_of_range:
                c['out_of_range'] = out_of_range
                c['cls'] = ['out-of-range: ' + out_of_range]
                cov['out_of_range_cases'] += 1
            cov['routes_per_attribute'][len(routes)] = cov['routes_per_attribute'].get(len(routes), 0) + 1
            cases.append(c)

        # every ESI type, small and large field values, in every route type that carries an ESI
        for rt in (1, 2, 4):
            for t in range(6):
                for big in (False, True):
                    for _ in range(3 if ctx.thorough else 1):
                        add('reach', [route(rt, esi(t, big))], addr())
                        add('unreach', [route(rt, esi(t, big))])
                        cov['esi_types_small_large'] += 2
        # ESI field boundaries one by one
        for e in ([{'type': 0, 'value': v} for v in (0, 1, 15, 16, 255, 256, 2 ** 64, 2 ** 68 - 1, 2 ** 68, 2 ** 72 - 1)] +
                  [{'type': t, 'value': {ESI_MAC_KEY[t][0]: m, ESI_MAC_KEY[t][1]: n}}
                   for t in (1, 2) for m in (0, 2 ** 48 - 1) for n in (0, 255, 256, 65535)] +
                  [{'type': 3, 'value': {'sys_mac_addr': m, 'ld_value': n}}
                   for m in (0, 0x0a0b0c0d0e0f) for n in (0, 255, 256, 65535, 65536, 2 ** 24 - 1)] +
                  [{'type': t, 'value': {ESI_INT_KEY[t][0]: a, ESI_INT_KEY[t][1]: b}}
                   for t in (4, 5) for a in (0, 65535, 65536, 2 ** 32 - 1) for b in (0, 2 ** 32 - 1)]):
            add('reach', [route(rng.choice([1, 2, 4]), e)], addr())
            cov['esi_types_small_large'] += 1
        # RD types 0/1/2 at field boundaries, in every route type
        for rt in (1, 2, 3, 4):
            for rd in rd_boundaries():
                add('reach', [route(rt, None, rd)], addr())
                cov['rd_boundary_cases'] += 1
        # ethernet tag 0 / 1 / max
        for rt in (1, 2, 3):
            for tag in (0, 1, 2 ** 31, 2 ** 32 - 1):
                add(rng.choice(['reach', 'unreach']), [route(rt, tag=tag)], addr())
                cov['eth_tag_boundary_cases'] += 1
        # label values: alone, first and last of a stack of two (route types 1 and 2)
        for lab in LABELS:
            for rt in (1, 2):
                add('reach', [route(rt, labels=[lab])], addr())
                add('reach', [route(rt, labels=[lab, 17])], addr())
                add('unreach', [route(rt, labels=[17, lab])])
                cov['label_value_cases'] += 3
        add('reach', [route(1, labels=[16, 0, 2 ** 20 - 1, 0])], addr())
        add('reach', [route(2, labels=[])], addr())                  # a MAC/IP route may come without label
        add('reach', [route(1, esi(0), labels=[rng.randrange(2 ** 20) for _ in range(77)])], addr())   # 255 octets: the longest
        # MAC / IP presence combinations, one and two labels
        for has_ip in (False, True):
            for v6 in (False, True):
                for labels in ([16], [16, 17], [0], [2 ** 20 - 1, 1]):
                    add('reach', [route(2, None, None, addr(v6), labels, has_ip)], addr())
                    cov['mac_ip_presence_cases'] += 1
        for m in (0, 1, 0x00ffffffffff, 0xff0000000000, 0x0123456789ab, 2 ** 48 - 1):
            add('reach', [route(2, mac=m, has_ip=rng.random() < .5)], addr())
            cov['mac_ip_presence_cases'] += 1
        for ipv in ((4, 0), (4, 2 ** 32 - 1), (6, 2 ** 32), (6, 2 ** 128 - 1)):
            for rt in (2, 3, 4):
                add('reach', [route(rt, ip=ipv)], addr())
                cov['mac_ip_presence_cases'] += 1
        # MAC text that is accepted but not in the decoder's form (same address: the expected value is
        # the canonical text)
        for txt in ('aa-bb-cc-dd-ee-ff', '0-1-2-3-4-5', '0a-0B-0c-0D-0e-0F', '0x1f-00-00-00-00-01', ' 1-2-3-4-5-6 ', '+a-0_1-2-3-4-5'):
            add('reach', [route(2, mac=txt)], addr(), noncanon=True)
            et = rng.choice([1, 2, 3])
            add('unreach', [route(1, {'type': et, 'value': {ESI_MAC_KEY[et][0]: txt, ESI_MAC_KEY[et][1]: 7}})],
                None, noncanon=True)
            cov['mac_text_forms'] += 2
        # IPv6 values below 2^32 (known finding)
        for rt in (2, 3, 4):
            add('reach', [route(rt, esi(0), None, addr(True, low=True))], addr())
        add('reach', [route(3)], addr(True, low=True))
        # 1..n routes per attribute
        for n in (1, 2, 3, 4, 5, 6, 8):
            add('reach', [route(rng.randrange(1, 5)) for _ in range(n)], addr())
            add('unreach', [route(rng.randrange(1, 5)) for _ in range(n)])
        for _ in range(300 if ctx.thorough else 40):
            add(rng.choice(['reach', 'reach', 'unreach']), [route(rng.randrange(1, 5)) for _ in range(rng.choice([1, 2, 3, 6]))], addr())
        add('reach', [], addr())
        cases.append({'fam': self.name, 'kind': 'unreach', 'v': {'routes': [], 'nh': None}, 'cls': [], 'empty': True})
        # ---- out of range: model and implementation are compared, the round-trip oracle does not apply
        for txt in ('', '12', '00-11-22-33-44', '00-11-22-33-44-55-66', '00-11-22-33-44-GG', '00-11-22-33-44-100',
                    '00-11-22-33-44--1', '00:11:22:33:44:55', '00-11-22-33-44-', '0_-1-2-3-4-5'):
            add('reach', [route(2, mac=txt)], addr(), out_of_range='MAC text %r' % txt)
            add('reach', [route(4, {'type': 3, 'value': {'sys_mac_addr': txt, 'ld_value': 1}})], addr(),
                out_of_range='ESI MAC text %r' % txt)
        for rt in (3, 4):
            add('reach', [route(rt, has_ip=False)], addr(), out_of_range='route type %d without address' % rt)
            add('unreach', [route(1), route(rt, has_ip=False)], None, out_of_range='route type %d without address' % rt)
        add('reach', [route(1, labels=[])], addr(), out_of_range='route type 1 without label')
        add('reach', [route(1, labels=[16] * 78)], addr(), out_of_range='route of 258 octets')
        add('reach', [route(2, labels=[16] * 74, ip=(6, 2 ** 127))], addr(), out_of_range='route of more than 255 octets')
        add('reach', [route(1, labels=[2 ** 20])], addr(), out_of_range='label 2^20')
        add('reach', [route(1, labels=[2 ** 28 - 1, 5])], addr(), out_of_range='label 2^28-1')
        add('reach', [route(1, labels=[2 ** 28])], addr(), out_of_range='label 2^28')
        for rt in (1, 2, 3):
            add('reach', [route(rt, tag=2 ** 32)], addr(), out_of_range='ethernet tag 2^32')
        for e, why in (({'type': 0, 'value': 2 ** 72}, 'ESI type 0 value 2^72 (19 hex digits)'),
                       ({'type': 0, 'value': 2 ** 76}, 'ESI type 0 value 2^76 (20 hex digits)'),
                       ({'type': 0, 'value': 2 ** 80 - 1}, 'ESI type 0 value 2^80-1'),
                       ({'type': 1, 'value': {'ce_mac_addr': 5, 'ce_port_key': 65536}}, 'ESI port key 65536'),
                       ({'type': 2, 'value': {'rb_mac_addr': 5, 'rb_priority': 65536}}, 'ESI priority 65536'),
                       ({'type': 3, 'value': {'sys_mac_addr': 5, 'ld_value': 2 ** 24}}, 'ESI type 3 discriminator 2^24'),
                       ({'type': 3, 'value': {'sys_mac_addr': 5, 'ld_value': 2 ** 32}}, 'ESI type 3 discriminator 2^32'),
                       ({'type': 4, 'value': {'router_id': 2 ** 32, 'ld_value': 0}}, 'ESI router id 2^32'),
                       ({'type': 5, 'value': {'as_num': 0, 'ld_value': 2 ** 32}}, 'ESI discriminator 2^32'),
                       ({'type': 6, 'value': {}}, 'ESI type 6'), ({'type': 255, 'value': {}}, 'ESI type 255')):
            for rt in (1, 2, 4):
                add('reach', [route(rt, e)], addr(), out_of_range=why)
        for rd in (('as', 65535, 2 ** 32), ('as', 65536, 65536), ('as', 2 ** 32, 1), ('ip', 1, 65536)):
            add('reach', [route(3, None, rd)], addr(), out_of_range='route distinguisher %s' % rd_text(rd))
        for t in (0, 6, 255):
            add('reach', [route(1), {'type': t, 'value': {'rd': ('as', 1, 1)}}, route(3)], addr(),
                out_of_range='route type %d' % t)
            add('unreach', [{'type': t, 'value': {'rd': ('as', 1, 1)}}], None, out_of_range='route type %d' % t)
        # ---- encoded-size boundaries: attribute value length.  Encoded route sizes (type, length, value):
        # type 3 with IPv4/IPv6 originator 19/31, type 1 27, type 4 25/37, type 2 (one label) 35/39/51
        def sized_route(k):
            e = esi(rng.choice([0, 1, 2, 4, 5]))
            if k in (19, 31):
                return route(3, None, None, addr(k == 31))
            if k == 27:
                return route(1, e, None, None, [rng.randrange(1, 2 ** 20)])
            if k in (25, 37):
                return route(4, e, None, addr(k == 37))
            return route(2, e, None, addr(k == 51), [rng.randrange(1, 2 ** 20)], has_ip=k != 35)
        for target, ok in size_targets(ctx):
            for kind in ('reach', 'unreach'):
                nhv = addr()
                if nhv[0] == 6:
                    nhv = (6, nhv[1] | 1 << 100)
                room = target - (3 if kind == 'unreach' else 5 + (4 if nhv[0] == 4 else 16))
                ks = fill_sizes(room, [19, 25, 27, 31, 35, 37, 39, 51], rng)
                add(kind, [sized_route(k) for k in ks], nhv)
                cases[-1]['huge'] = target > 60000
                if not ok:
                    cases[-1]['unencodable'] = 'attribute value of %d octets' % target
        return cases

    @staticmethod
    def atext(a):
        return ip4(a[1]) if a[0] == 4 else ip6(a[1])

    def impl_route(self, r):
        x = copy.deepcopy(r['value'])
        x['rd'] = rd_text(x['rd'])
        if 'mac' in x:
            x['mac'] = mac_text(x['mac'])
        if 'ip' in x:
            x['ip'] = self.atext(x['ip'])
        e = x.get('esi')
        if e and e['type'] in ESI_MAC_KEY:
            k = ESI_MAC_KEY[e['type']][0]
            e['value'][k] = mac_text(e['value'][k])
        return {'type': r['type'], 'value': x}

    def impl_value(self, case):
        v = case['v']
        nl = [self.impl_route(r) for r in v['routes']]
        if case['kind'] == 'unreach':
            return {'afi_safi': (25, 70), 'withdraw': nl}
        return {'afi_safi': (25, 70), 'nexthop': self.atext(v['nh']), 'nlri': nl}

    # ---- model side
    def coq_construct(self, case):
        v = case['v']
        rs = coq_list(v['routes'], coq_route)
        if case['kind'] == 'reach':
            return 'sx_res SB (reachevpn_construct %s %s)' % (coq_addr(v['nh']), rs)
        return 'sx_res sx_optbytes (unreachevpn_construct %s)' % rs

    def coq_parse(self, case, octets):
        if case['kind'] == 'reach':
            return 'sx_res sx_reachevpn (reachevpn_parse %s)' % coq_bytes(octets)
        return 'sx_res (sx_list sx_proute) (unreachevpn_parse %s)' % coq_bytes(octets)

    # ---- implementation side
    def canon(self, case, p):
        assert tuple(p['afi_safi']) == (25, 70)
        if case['kind'] == 'reach':
            return [caddr(p['nexthop']), [canon_route(r) for r in p['nlri']]]
        return [canon_route(r) for r in p['withdraw']]

    def expected(self, case, low=False):
        """the canonical form of the input itself (MAC text in the decoder's spelling)"""
        def fix(a):
            return [4, a[1]] if low and a[1] < 2 ** 32 else list(a)

        if case.get('out_of_range'):
            return None

        def mt(m):
            if isinstance(m, str):      # the address the accepted text stands for
                m = int(''.join('%02x' % int(g, 16) for g in m.split('-')), 16)
            return ctext(mac_text(m))

        def xesi(e):
            t, ev = e['type'], e['value']
            if t == 0:
                return [0, ev]
            if t in ESI_MAC_KEY:
                return [t, mt(ev[ESI_MAC_KEY[t][0]]), ev[ESI_MAC_KEY[t][1]]]
            return [t, ev[ESI_INT_KEY[t][0]], ev[ESI_INT_KEY[t][1]]]
        rs = []
        for r in case['v']['routes']:
            t, x = r['type'], r['value']
            rd = [1 if x['rd'][0] == 'ip' else 0, x['rd'][1], x['rd'][2]]
            ip = [fix(x['ip'])] if 'ip' in x else []
            if t == 1:
                rs.append([1, rd, xesi(x['esi']), x['eth_tag_id'], list(x['label'])])
            elif t == 2:
                rs.append([2, rd, xesi(x['esi']), x['eth_tag_id'], mt(x['mac']), ip, list(x.get('label') or [])])
            elif t == 3:
                rs.append([3, rd, x['eth_tag_id'], ip])
            else:
                rs.append([4, rd, xesi(x['esi']), ip])
        if case['kind'] == 'reach':
            return [fix(case['v']['nh']), rs]
        return rs

    def classify(self, case, stage, obs):
        cls = case['cls']
        if 'esi-type-3-discriminator-not-3-octets' in cls and stage in ('differs', 'parse-exc'):
            return K_ESI3
        if 'ipv6-address-below-2^32' in cls and stage == 'differs' and obs == self.expected(case, low=True):
            return K_LOW
        return None

    # ---- hand-made octet strings for the decoder (no construct side): (coq term, impl canonical, case, what)
    def extra_pairs(self, ctx):
        from yabgp.message.attribute.mpreachnlri import MpReachNLRI
        from yabgp.message.attribute.mpunreachnlri import MpUnReachNLRI
        rng = ctx.rng
        rd0 = bytes([0, 0, 0, 100, 0, 0, 0, 1])
        esi0 = bytes([0] * 9 + [7])
        tag = bytes([0, 0, 0, 9])
        lab = bytes([0, 1, 1])
        v4, v6 = bytes([10, 0, 0, 1]), bytes([0x20, 1] + [0] * 13 + [1])
        routes = []

        def rt(t, body):
            return bytes([t, len(body)]) + body
        # route type 5 with IPv4 / IPv6 widths and with neither
        routes.append(rt(5, rd0 + esi0 + tag + bytes([24]) + v4 + v4 + lab))
        routes.append(rt(5, rd0 + esi0 + tag + bytes([64]) + v6 + v6 + lab))
        routes.append(rt(5, rd0 + esi0 + tag + bytes([24]) + v4 + v4))
        routes.append(rt(5, rd0 + esi0 + tag + bytes([24]) + bytes(8) + bytes(8) + lab * 2))
        routes.append(rt(5, rd0 + esi0 + tag + bytes([24])))
        # unknown route types are skipped, also between known ones
        routes.append(rt(0, b'') + rt(3, rd0 + tag + bytes([32]) + v4) + rt(6, bytes(5)) + rt(255, bytes(3)))
        # ESI types: unknown, and each known type cut short inside the route
        for t in (6, 255):
            routes.append(rt(4, rd0 + bytes([t] + [1] * 9) + bytes([32]) + v4))
        good = {1: rd0 + esi0 + tag + lab,
                2: rd0 + esi0 + tag + bytes([48, 1, 2, 3, 4, 5, 6, 32]) + v4 + lab,
                3: rd0 + tag + bytes([128]) + v6,
                4: rd0 + bytes([3, 1, 2, 3, 4, 5, 6, 9, 9, 9]) + bytes([32]) + v4}
        for t, body in sorted(good.items()):
            cuts = range(len(body) + 1) if ctx.thorough else sorted(set([0, 1, 2, 7, 8, 9, 12, 13, 17, 18, 19, 21, 22, 23, 24,
                                                                      28, 29, 30, 31, len(body) - 1, len(body)]) & set(range(len(body) + 1)))
            for k in cuts:
                routes.append(rt(t, body[:k]))
        # every ESI type with every number of ESI octets present (route type 4 cut inside the ESI is above;
        # here the ESI is complete and the type varies), unusual address lengths, MAC length octet ignored
        for t in range(6):
            routes.append(rt(1, rd0 + bytes([t]) + bytes(rng.getrandbits(8) for _ in range(9)) + tag + lab))
        for l in (0, 1, 7, 8, 31, 32, 33, 64, 127, 128, 129, 136, 255):
            routes.append(rt(3, rd0 + tag + bytes([l]) + bytes([0x20] + [1] * 31)))
            routes.append(rt(2, rd0 + esi0 + tag + bytes([rng.choice([0, 48, 255]), 1, 2, 3, 4, 5, 6, l]) + bytes([0x20] + [1] * 18) + lab))
        for rdt in (0, 1, 2, 3, 65535):
            routes.append(rt(3, bytes([rdt >> 8, rdt & 255, 1, 2, 3, 4, 5, 6]) + tag + bytes([32]) + v4))
        # a truncated NLRI (type octet only), a length octet beyond the end, label stack forms
        routes.append(bytes([3]))
        routes.append(bytes([3, 200]) + rd0 + tag + bytes([32]) + v4)
        routes.append(rt(1, rd0 + esi0 + tag + bytes([0, 1, 0, 0, 2, 1, 0, 3, 1])))
        routes.append(rt(1, rd0 + esi0 + tag + bytes([0, 0, 0, 0, 2, 0, 9])))
        out = []
        for nl in routes:
            for kind in ('reach', 'unreach'):
                if kind == 'reach':
                    nhb = rng.choice([v4, v6, b'', bytes(5)])
                    octets = bytes([0, 25, 70, len(nhb)]) + nhb + b'\x00' + nl
                    cls, render, term = MpReachNLRI, (lambda p: [caddr(p['nexthop']), [canon_route(r) for r in p['nlri']]]), \
                        'sx_res sx_reachevpn (reachevpn_parse %s)' % coq_bytes(octets)
                else:
                    octets = bytes([0, 25, 70]) + nl
                    cls, render, term = MpUnReachNLRI, (lambda p: [canon_route(r) for r in p['withdraw']]), \
                        'sx_res (sx_list sx_proute) (unreachevpn_parse %s)' % coq_bytes(octets)
                st, p = run_impl(lambda: cls.parse(octets))
                if st == 'exc':
                    pc = [2]
                else:
                    st2, c = run_impl(lambda: render(p))
                    pc = [0, c] if st2 == 'ok' else [0, [99]]
                out.append((term, pc, {'fam': self.name, 'kind': kind, 'raw': octets.hex()}, 'parse of hand-made octets'))
        self.coverage['hand_made_octet_strings'] = len(out)
        return out


FAMILIES = [Evpn()]
