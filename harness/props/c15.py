"""C15 - list decoders are compositional; attribute order and unknown TLVs are irrelevant.

Oracle (on the implementation only).  For every list kind named in the property a pool of
well-formed ELEMENT encodings is built (every width the format allows: every prefix length, every
route / ESI / RD type, every TLV type the decoder registers with the smallest and the largest body
it accepts; sources: byte-level builders, yabgp's own constructors, and the byte strings of the
unit tests read with `ast` - nothing is imported from the tests).  On the real decoders:
  * pairs:   dec(a || b) == dec(a) (+) dec(b)  for ordered pairs of pool elements
             (quick: all pairs of the one-element-per-width sub-pool + a random sample of the full
             pool; thorough: all pairs of the full pool up to PAIR_CAP, else sub-pool + large sample)
  * tuples:  random k-tuples (k = 3..8), checked against the element-wise decodings AND against a
             random split into two multi-element lists
  * unknown: an unknown TLV inserted at every position of a tuple of known ones: the others decode
             exactly as before (and the unknown shows up as the decoder documents: kept as hex or dropped)
  * attribute permutations: UPDATE attribute lists (c06 generators + the attribute sections of the
             unit tests' UPDATE messages, incl. MP_REACH/MP_UNREACH/LINK_STATE/PREFIX_SID/PMSI/unknown):
             all permutations up to 5 attributes, random ones beyond: same attribute map
(+) is list concatenation, dictionary update for the decoders that return a dictionary, and the
key-wise merge (flags or-ed, lists concatenated) for OPEN capabilities.

Correspondence: for the kinds that have a Coq model, the model's decoding of the CONCATENATIONS
is compared with the implementation's inside Coq.

Known findings are attributed only when kind + input class + observed behaviour all match.
"""
import ast
import glob
import itertools
import os
import struct
import time

import env  # noqa: F401  (stubs + /repo on sys.path)
import common
from props import c06

COQ_TARGETS = ['props/C15.vo']
TRUSTED = ['element pools of harness/props/c15.py: an element is "well-formed" when it has the framing of '
           'its kind (header + exactly the announced number of octets) and the real decoder accepts it alone',
           'canonicalisation: Python values compared structurally (floats by repr, bytes by hex)']
ASSUMPTIONS = ['the Coq theorems are about model/YPrefix4.v, YAttr.v, YUpdate.v, YOpen.v, YPrefix6.v, YVpn.v, '
               'YLu.v, YFlow4.v, YLabel.v (tied to the code by the correspondence runs of C06/C07/C14 and, on '
               'concatenations, by this check) and about the loop shapes of model/YLoops.v (tied by C11)',
               'EVPN routes, BGP-LS NLRIs / descriptors, link-state attribute TLVs and Prefix-SID TLVs have no '
               'element-level Coq model: for them the generic walker theorem covers the framing (any element '
               'decoder) and the oracle covers the real element decoders']

REPO = os.environ.get('YABGP_REPO', '/repo')
K_V6DD = 'C15-ipv6-unicast-trailing-double-default'
K_FSLEN = 'C15-flowspec-rule-extended-length-unmasked'
K_CAPS = 'C15-open-repeated-llgr-extnexthop-replaced'
K_LSEMPTY = 'C15-empty-linkstate-attribute-order'
PAIR_CAP = 700          # thorough: all ordered pairs of the full pool when it has at most this many elements


# ---------------------------------------------------------------------------------------------
# values
# ---------------------------------------------------------------------------------------------
def canon(v):
    if isinstance(v, bool) or v is None or isinstance(v, (int, str)):
        return v
    if isinstance(v, float):
        return 'f:' + repr(v)
    if isinstance(v, (bytes, bytearray)):
        return 'b:' + bytes(v).hex()
    if isinstance(v, dict):
        return dict(('%s' % (k,), canon(x)) for k, x in v.items())
    if isinstance(v, (list, tuple)):
        return [canon(x) for x in v]
    if hasattr(v, 'dict'):
        return canon(v.dict())
    return 'r:' + repr(v)


def call(fn, data):
    """('ok', canonical value) | ('exc', exception class name)"""
    try:
        return ('ok', canon(fn(data)))
    except Exception as e:      # noqa
        return ('exc', type(e).__name__)


class Elem(object):
    __slots__ = ('label', 'data', 'meta')

    def __init__(self, label, data, **meta):
        self.label, self.data, self.meta = label, bytes(data), meta


def comb_list(parts):
    out = []
    for p in parts:
        out += p
    return out


def comb_dict(parts):
    out = {}
    for p in parts:
        out.update(p)
    return out


def comb_ops(parts):
    """parse_operators -> [operator list, offset]; offset = octets consumed + 1"""
    ops, off = [], 1
    for p in parts:
        ops += p[0]
        off += p[1] - 1
    return [ops, off]


class Kind(object):
    def __init__(self, name, dec, pool, combine=comb_list, unknown=None, unknown_kept=True, maxlen=None,
                 known=None, wrap=None, model=None, nonlast=None, group=None):
        self.name, self.dec, self.combine = name, dec, combine
        self.pool, self.unknown, self.unknown_kept = pool, unknown or [], unknown_kept
        self.maxlen, self.known, self.model = maxlen, known, model
        self.nonlast = nonlast        # predicate: element may stand in a non-final position (flowspec operators)
        self.group = group or name
        self.cache = {}

    def dec1(self, e):
        r = self.cache.get(e.data)
        if r is None:
            r = self.cache[e.data] = call(self.dec, e.data)
        return r


# ---------------------------------------------------------------------------------------------
# corpus of the unit tests (ast only)
# ---------------------------------------------------------------------------------------------
_corpus = None


def harvest():
    global _corpus
    if _corpus is not None:
        return _corpus
    out = set()

    def ev(n):
        if isinstance(n, ast.Constant) and isinstance(n.value, bytes):
            return n.value
        if isinstance(n, ast.BinOp) and isinstance(n.op, ast.Add):
            a, b = ev(n.left), ev(n.right)
            if a is not None and b is not None:
                return a + b
        return None
    for f in sorted(glob.glob(os.path.join(REPO, 'yabgp/tests/**/*.py'), recursive=True)):
        try:
            tree = ast.parse(open(f).read())
        except (SyntaxError, OSError):
            continue
        for n in ast.walk(tree):
            v = ev(n)
            if v is not None and 1 <= len(v) <= 4096:
                out.add(v)
            if isinstance(n, ast.Constant) and isinstance(n.value, str) and len(n.value) >= 8 \
                    and len(n.value) % 2 == 0 and all(c in '0123456789abcdefABCDEF' for c in n.value):
                out.add(bytes.fromhex(n.value))
    extra = set()
    for v in out:
        if v[:16] == b'\xff' * 16 and len(v) >= 19:
            extra.add(v[19:])
    _corpus = sorted(out | extra, key=lambda b: (len(b), b))
    return _corpus


def split_tlv(s, hdr, off, w):
    """split s into complete TLV elements (header hdr octets, w-octet length at off) or None"""
    out = []
    i = 0
    while i < len(s):
        if i + hdr > len(s):
            return None
        n = int.from_bytes(s[i + off:i + off + w], 'big')
        if i + hdr + n > len(s):
            return None
        out.append(s[i:i + hdr + n])
        i += hdr + n
    return out


def attr_split(s):
    """split an attribute section into whole path attributes or None"""
    out = []
    i = 0
    while i < len(s):
        if i + 3 > len(s):
            return None
        if s[i] & 0x10:
            if i + 4 > len(s):
                return None
            n, h = struct.unpack('!H', s[i + 2:i + 4])[0], 4
        else:
            n, h = s[i + 2], 3
        if i + h + n > len(s):
            return None
        out.append(s[i:i + h + n])
        i += h + n
    return out


# ---------------------------------------------------------------------------------------------
# element builders
# ---------------------------------------------------------------------------------------------
def addr_bytes(rng, n, k):
    """k address patterns of n octets"""
    pats = [bytes(n), b'\xff' * n, bytes((0x0a + 17 * i) & 255 for i in range(n)),
            bytes(rng.randrange(256) for _ in range(n))]
    return pats[:k] if n else [b'']


def prefix_elems(rng, bits, per):
    out = []
    for l in range(bits + 1):
        n = (l + 7) // 8
        for j, a in enumerate(addr_bytes(rng, n, per)):
            out.append(Elem('len%d' % l, bytes([l]) + a, plen=l, first=(j == 0)))
    return out


def with_path_id(rng, elems):
    out = []
    for i, e in enumerate(elems):
        pid = [0, 1, 0xffffffff, rng.randrange(1 << 32)][i % 4]
        out.append(Elem(e.label, struct.pack('!I', pid) + e.data, **e.meta))
    return out


def enc_labels(labels, bos=True):
    b = b''
    for i, l in enumerate(labels):
        v = l << 4
        if bos and i == len(labels) - 1:
            v |= 1
        b += struct.pack('!I', v)[1:]
    return b


LABEL_STACKS = [([16], True), ([0], True), ([1048575], True), ([16, 17], True), ([3, 1048575, 0], True),
                ([0], False)]      # the last: yabgp's own encoding of label 0 (no bottom-of-stack bit)


def lu_elems(rng, bits, per):
    out = []
    for l in range(bits + 1):
        n = (l + 7) // 8
        for j in range(per):
            labels, bos = LABEL_STACKS[(l + j) % len(LABEL_STACKS)]
            lab = enc_labels(labels, bos) if (l + j) % 7 else b'\x80\x00\x00'
            if l + 8 * len(lab) > 255:
                lab = enc_labels([16])
            a = addr_bytes(rng, n, 4)[(l + j) % (4 if n else 1)]
            out.append(Elem('len%d' % l, bytes([l + 8 * len(lab)]) + lab + a, first=(j == 0)))
    return out


RDS = [b'\x00\x00\x00\x64\x00\x00\x00\x01', b'\x00\x00\xff\xff\xff\xff\xff\xff', b'\x00\x01\x0a\x00\x00\x01\x00\x02',
       b'\x00\x01\xff\xff\xff\xff\xff\xff', b'\x00\x02\x00\x01\x00\x00\x00\x03', b'\x00\x02\xff\xff\xff\xff\xff\xff',
       b'\x00\x00\x00\x00\x00\x00\x00\x00']


def vpn_elems(rng, bits, per, withdraw):
    out = []
    i = 0
    for l in range(bits + 1):
        n = (l + 7) // 8
        for j in range(per):
            i += 1
            if withdraw:
                lab = b'\x80\x00\x00'
            else:
                labels, bos = LABEL_STACKS[i % len(LABEL_STACKS)]
                lab = enc_labels(labels[:1], bos)
            rd = RDS[i % len(RDS)]
            a = addr_bytes(rng, n, 4)[i % (4 if n else 1)]
            out.append(Elem('len%d' % l, bytes([88 + l]) + lab + rd + a, first=(j == 0)))
    return out


def esi_bytes(t, rng, big):
    body = (b'\xff' * 9) if big else bytes(rng.randrange(256) for _ in range(9))
    if t in (1, 2, 4, 5):
        body = body[:8] + b'\x00'
    return bytes([t]) + body


def evpn_elems(rng, thorough):
    out = []

    def route(rt, body, lab, **meta):
        out.append(Elem('rt%d/%s' % (rt, lab), bytes([rt, len(body)]) + body, **meta))
    for t in range(6):
        for big in (False, True):
            esi = esi_bytes(t, rng, big)
            rd = RDS[(t + big) % len(RDS)]
            tag = struct.pack('!I', rng.choice([0, 1, 0xffffffff, rng.randrange(1 << 32)]))
            lab = enc_labels([rng.choice([0, 16, 1048575])])
            first = not big
            route(1, rd + esi + tag + lab, 'esi%d' % t, first=first)
            mac = bytes(rng.randrange(256) for _ in range(6))
            for ipl, ip in ((0, b''), (32, bytes([10, 0, 0, t])), (128, b'\x20\x01' + bytes(13) + bytes([t + 1]))):
                route(2, rd + esi + tag + b'\x30' + mac + bytes([ipl]) + ip + lab, 'esi%d/ip%d' % (t, ipl),
                      first=first)
            route(2, rd + esi + tag + b'\x30' + mac + b'\x20' + bytes([10, 0, 1, t]) + enc_labels([16, 17]),
                  'esi%d/ip32/2labels' % t, first=first)
            for ipl, ip in ((32, bytes([192, 168, 0, t])), (128, b'\x20\x01\x0d\xb8' + bytes(11) + bytes([t + 1]))):
                route(4, rd + esi + bytes([ipl]) + ip, 'esi%d/ip%d' % (t, ipl), first=first)
                plen = rng.randrange(ipl + 1)
                route(5, rd + esi + tag + bytes([plen]) + ip + ip + lab, 'esi%d/ip%d' % (t, ipl), first=first)
    for i, rd in enumerate(RDS):
        tag = struct.pack('!I', i)
        route(3, rd + tag + b'\x20' + bytes([172, 16, 0, i]), 'ip32/rd%d' % i, first=(i == 0))
        route(3, rd + tag + b'\x80' + b'\xfe\x80' + bytes(13) + bytes([i + 1]), 'ip128/rd%d' % i, first=(i == 0))
    # yabgp's own constructor
    from yabgp.message.attribute.nlri.evpn import EVPN
    vals = [
        {'type': 1, 'value': {'rd': '1.1.1.1:32867', 'esi': {'type': 0, 'value': 0}, 'eth_tag_id': 100, 'label': [10]}},
        {'type': 2, 'value': {'rd': '172.17.0.3:2', 'mac': '00-11-22-33-44-55', 'eth_tag_id': 108,
                              'esi': {'type': 1, 'value': {'ce_mac_addr': '00-11-22-33-44-55', 'ce_port_key': 7}},
                              'ip': '11.11.11.1', 'label': [0]}},
        {'type': 3, 'value': {'rd': '172.16.0.1:5904', 'eth_tag_id': 100, 'ip': '192.168.0.1'}},
        {'type': 4, 'value': {'rd': '172.16.0.1:5904', 'esi': {'type': 4, 'value': {'router_id': 1, 'ld_value': 2}},
                              'ip': '192.168.0.1'}},
        {'type': 4, 'value': {'rd': '65536:2', 'esi': {'type': 3, 'value': {'sys_mac_addr': '00-11-22-33-44-55',
                                                                            'ld_value': 70000}}, 'ip': '2001::1'}},
    ]
    for v in vals:
        try:
            b = EVPN.construct([v])
        except Exception:     # noqa
            continue
        if b:
            out.append(Elem('rt%d/constructed' % v['type'], b, first=False))
    return out


def op_item(rng, lenbits, eol, flags=None):
    n = 1 << lenbits
    fl = (0x80 if eol else 0) | (lenbits << 4) | (rng.choice([1, 2, 3, 4, 5, 6, 0x41, 0x45]) if flags is None else flags)
    val = rng.choice([bytes(n), b'\xff' * n, bytes(rng.randrange(256) for _ in range(n))])
    return bytes([fl]) + val


def fs_components(rng, v6=False):
    """flowspec components (type octet + prefix or operator list ending in EOL)"""
    out = []
    if not v6:
        for l in range(1, 33):
            n = (l + 7) // 8
            for t in (1, 2):
                if (l + t) % 2 == 0 or l in (1, 8, 9, 24, 25, 32):
                    out.append(Elem('t%d/len%d' % (t, l), bytes([t, l]) + addr_bytes(rng, n, 4)[l % 4], ctype=t,
                                    first=(t == 1)))
    for t in range(3, 14 if v6 else 13):
        for lenbits in range(4):
            out.append(Elem('t%d/1op/w%d' % (t, 1 << lenbits), bytes([t]) + op_item(rng, lenbits, True), ctype=t,
                            first=True))
        ops = b''.join(op_item(rng, rng.randrange(4), False) for _ in range(rng.randrange(1, 4)))
        out.append(Elem('t%d/multi' % t, bytes([t]) + ops + op_item(rng, rng.randrange(4), True), ctype=t, first=False))
    return out


def fs_rules(rng, comps, thorough):
    """flowspec NLRI list elements: length (1 octet, or 0xfnnn from 240 octets) + components"""
    out = []

    def rule(body, lab, first=False):
        if len(body) >= 240:
            out.append(Elem(lab, struct.pack('!H', 0xf000 | len(body)) + body, ext=True, first=first))
        else:
            out.append(Elem(lab, bytes([len(body)]) + body, ext=False, first=first))
    for c in comps:
        rule(c.data, 'single:' + c.label, first=c.meta.get('first', False))
    by_t = {}
    for c in comps:
        by_t.setdefault(c.meta['ctype'], []).append(c)
    for _ in range(40 if thorough else 12):
        ts = sorted(rng.sample(sorted(by_t), rng.randrange(2, min(8, len(by_t)))))
        rule(b''.join(rng.choice(by_t[t]).data for t in ts), 'multi:%s' % ts)
    # long rules: 239 / 240 / 241 / ~600 octets (operator lists of 4- and 8-octet values)
    for total in (238, 239, 240, 241, 255, 256, 600):
        body = b''
        t = 3
        while len(body) < total:
            room = total - len(body) - 1
            ops = b''
            while room >= 2 + 9 + 0 and len(ops) < 60:
                ops += op_item(rng, 3, False)
                room -= 9
            if room >= 2:
                k = min(room - 2, 0)
                ops += op_item(rng, 0, True)
                room -= 2
            else:
                break
            body += bytes([t]) + ops
            t += 1
            if t > 12:
                break
        # pad to the exact total with one more 1-octet operator component when possible
        while total - len(body) >= 3 and t <= 12:
            body += bytes([t]) + op_item(rng, 0, True)
            t += 1
        rule(body, 'long:%d' % len(body), first=(len(body) >= 240 and total in (240, 600)))
    return out


# ---------------------------------------------------------------------------------------------
# pools found by probing a TLV decoder with every registered type x body length
# ---------------------------------------------------------------------------------------------
PROBE_LENS = list(range(0, 41)) + [44, 48, 52, 56, 64, 80, 96, 128, 200, 255]


def fills(rng, n, seeds=()):
    out = [bytes(n), b'\x01' * n, bytes((i * 7 + 1) & 255 for i in range(n)), b'\xff' * n,
           bytes(rng.randrange(256) for _ in range(n))]
    for s in seeds:
        if len(s) >= n:
            out.append(s[:n])
        else:
            out.append(s + bytes(n - len(s)))
    return out


def probe(dec, mk, types, rng, accept, seeds=None, keep_mid=1):
    """for each type: accepted elements with the smallest and the largest body (and keep_mid others)"""
    out = []
    for t in types:
        ok = {}
        for n in PROBE_LENS:
            for body in fills(rng, n, (seeds or {}).get(t, ())):
                e = mk(t, body)
                if e is None:
                    continue
                r = call(dec, e)
                if r[0] == 'ok' and accept(r[1]):
                    ok.setdefault(n, e)
                    break
        if not ok:
            continue
        ns = sorted(ok)
        chosen = [ns[0], ns[-1]] + [ns[len(ns) // 2]][:keep_mid]
        seen = set()
        for n in chosen:
            if n not in seen:
                seen.add(n)
                lab = 'min' if n == ns[0] else ('max' if n == ns[-1] else 'mid')
                out.append(Elem('t%d/%s%d' % (t, lab, n), ok[n], ttype=t, first=(n == ns[0])))
    return out


def tlv22(t, body):
    return struct.pack('!HH', t, len(body)) + body if len(body) < 65536 else None


def tlv12(t, body):
    return bytes([t]) + struct.pack('!H', len(body)) + body


def tlv11(t, body):
    return bytes([t, len(body)]) + body if len(body) < 256 else None


def harvested_tlvs(dec, hdr, off, w, typeof, types, accept):
    """elements cut out of the unit tests' byte strings: strings that are a whole TLV sequence"""
    out, seen = [], set()
    for s in harvest():
        parts = split_tlv(s, hdr, off, w)
        if not parts or len(s) < hdr:
            continue
        if not all(typeof(p) in types for p in parts):
            continue
        for p in parts:
            if p in seen:
                continue
            r = call(dec, p)
            if r[0] == 'ok' and accept(r[1]):
                seen.add(p)
                out.append(Elem('t%d/test-literal' % typeof(p), p, ttype=typeof(p), first=False))
    return out


# ---------------------------------------------------------------------------------------------
# the kinds
# ---------------------------------------------------------------------------------------------
OPEN_FIXED = bytes([4]) + struct.pack('!HH', 23456, 180) + bytes([1, 1, 1, 1])
AFI_SAFI = [(1, 1), (1, 2), (2, 1), (1, 4), (2, 4), (1, 133), (1, 128), (2, 128), (25, 70), (16388, 71), (1, 73), (2, 133)]


def open_caps_dec(caps):
    from yabgp.message.open import Open
    r = Open().parse(OPEN_FIXED + bytes([min(len(caps) + 2, 255)]) + bytes([2, len(caps)]) + caps)
    return {'asn': r['asn'], 'capabilities': r['capabilities']}


def open_params_dec(params):
    from yabgp.message.open import Open
    r = Open().parse(OPEN_FIXED + bytes([min(len(params), 255)]) + params)
    return {'asn': r['asn'], 'capabilities': r['capabilities']}


def comb_caps(parts, replace=()):
    asn, caps = 23456, {}
    for p in parts:
        if p['capabilities'].get('four_bytes_as'):
            asn = p['asn']
        for k, v in p['capabilities'].items():
            if isinstance(v, list) and k in caps and k not in replace:
                caps[k] = caps[k] + v
            else:
                caps[k] = v
    return {'asn': asn, 'capabilities': caps}


def cap_elems(rng):
    out = []

    def cap(code, body, lab, first=False):
        out.append(Elem('cap%d/%s' % (code, lab), bytes([code, len(body)]) + body, code=code, first=first))
    for i, (a, s) in enumerate(AFI_SAFI):
        cap(1, struct.pack('!HBB', a, 0, s), 'afi%d-safi%d' % (a, s), first=(i == 0))
    for code in (2, 70, 128, 131):
        cap(code, b'', 'empty', first=True)
    cap(64, b'', 'min0', first=True)
    cap(64, struct.pack('!H', 0x8078), 'restart-time')
    cap(64, struct.pack('!H', 0x8078) + b''.join(struct.pack('!HBB', a, s, 0x80) for a, s in AFI_SAFI[:8]), 'families')
    cap(64, b'\xff' * 253, 'max253')
    for asn in (1, 65535, 65536, 4200000000, 0xffffffff):
        cap(65, struct.pack('!I', asn), 'asn%d' % asn, first=(asn == 65536))
    cap(5, b'', 'min0')
    cap(5, struct.pack('!HHH', 1, 1, 2), 'one', first=True)
    cap(5, b''.join(struct.pack('!HHH', 1, s, 2) for s in (1, 2, 4, 128)), 'four')
    cap(5, b''.join(struct.pack('!HHH', rng.randrange(65536), rng.randrange(65536), rng.randrange(65536))
                    for _ in range(42)), 'max252')
    cap(69, b'', 'min0')
    for i, (a, s) in enumerate(AFI_SAFI):
        cap(69, struct.pack('!HBB', a, s, 1 + i % 3), 'one-%d-%d' % (a, s), first=(i == 0))
    cap(69, b''.join(struct.pack('!HBB', a, s, 3) for a, s in AFI_SAFI), 'all12')
    cap(69, b''.join(struct.pack('!HBB', AFI_SAFI[i % 12][0], AFI_SAFI[i % 12][1], 1 + i % 3) for i in range(63)), 'max252')
    cap(71, b'', 'min0')
    cap(71, struct.pack('!HBB', 1, 1, 0x80) + b'\x00\x00\x3c', 'one', first=True)
    cap(71, b''.join(struct.pack('!HBB', a, s, 0) + bytes([i, 0, 1]) for i, (a, s) in enumerate(AFI_SAFI[:5])), 'five')
    cap(71, b''.join(struct.pack('!HBB', 1, 1, 0) + b'\xff\xff\xff' for _ in range(36)), 'max252')
    unknown = []
    for code, body in ((0, b''), (3, b'\x01\x02'), (6, b''), (73, b'\x04host\x00'), (255, b'\xaa' * 253), (200, b'\x00')):
        unknown.append(Elem('cap%d/unknown%d' % (code, len(body)), bytes([code, len(body)]) + body, code=code, first=True))
    return out, unknown


def known_caps(kind, elems, got, parts):
    """two LLGR (71) or two extended-next-hop (5) capabilities: the later list replaces the earlier"""
    codes = []
    for e in elems:
        cs = e.meta.get('codes') or [e.meta.get('code')]
        codes.append(set(cs))
    rep = [k for k, c in (('LLGR', 71), ('ext_nexthop', 5)) if sum(1 for cs in codes if c in cs) >= 2]
    if rep and got == ('ok', comb_caps(parts, replace=rep)):
        return K_CAPS
    return None


def known_v6dd(kind, elems, got, parts):
    if len(elems) >= 2 and elems[-1].data == b'\x00' and elems[-2].data == b'\x00' and \
            got == ('ok', comb_list(parts)[:-2]):
        return K_V6DD
    return None


def make_known_fs(body_dec, tail=lambda v: v):
    def known_fs(kind, elems, got, parts):
        """a rule with the 2-octet length form that is not the last one: the length is used unmasked
        (>= 0xf000), so the rule's body is everything that follows"""
        idx = [i for i, e in enumerate(elems) if e.meta.get('ext')]
        if not idx or idx[0] == len(elems) - 1:
            return None
        i = idx[0]
        rest = b''.join(e.data for e in elems[i:])[2:]
        r = call(body_dec, rest)
        if r[0] == 'exc':
            return K_FSLEN if got[0] == 'exc' else None
        want = comb_list(parts[:i]) + ([r[1]] if r[1] else [])
        return K_FSLEN if got == ('ok', want) else None
    return known_fs


def build_kinds(ctx):
    from yabgp.message.update import Update
    from yabgp.message.attribute.nlri.ipv4_unicast import IPv4Unicast
    from yabgp.message.attribute.nlri.ipv6_unicast import IPv6Unicast
    from yabgp.message.attribute.nlri.ipv4_mpls_vpn import IPv4MPLSVPN
    from yabgp.message.attribute.nlri.ipv6_mpls_vpn import IPv6MPLSVPN
    from yabgp.message.attribute.nlri.labeled_unicast.ipv4 import IPv4LabeledUnicast
    from yabgp.message.attribute.nlri.labeled_unicast.ipv6 import IPv6LabeledUnicast
    from yabgp.message.attribute.nlri.ipv4_flowspec import IPv4FlowSpec
    from yabgp.message.attribute.nlri.ipv6_flowspec import IPv6FlowSpec
    from yabgp.message.attribute.nlri.evpn import EVPN
    from yabgp.message.attribute.nlri.linkstate import BGPLS
    from yabgp.message.attribute.mpreachnlri import MpReachNLRI
    from yabgp.message.attribute.mpunreachnlri import MpUnReachNLRI
    from yabgp.message.attribute.community import Community
    from yabgp.message.attribute.largecommunity import LargeCommunity
    from yabgp.message.attribute.extcommunity import ExtCommunity
    from yabgp.message.attribute.clusterlist import ClusterList
    from yabgp.message.attribute.aspath import ASPath
    from yabgp.message.attribute.linkstate.linkstate import LinkState
    from yabgp.message.attribute.sr.bgpprefixsid import BGPPrefixSID
    from yabgp.message.attribute.sr.srv6.l3service import SRv6L3Service
    from yabgp.message.attribute.sr.srv6.sidinformation import SRv6SIDInformation
    from yabgp.common import constants as C
    rng = ctx.rng
    th = ctx.thorough
    per = 4 if th else 2
    K = []

    # ---- IPv4 prefix lists ----
    p4 = prefix_elems(rng, 32, per)
    p4ap = with_path_id(rng, p4)
    K.append(Kind('ipv4_prefix_list', lambda b: Update.parse_prefix_list(b, False), p4, model='prefix4'))
    K.append(Kind('ipv4_prefix_list/addpath', lambda b: Update.parse_prefix_list(b, True), p4ap, model='prefix4ap'))
    K.append(Kind('ipv4_unicast', lambda b: IPv4Unicast.parse(b, False), p4, group='ipv4_prefix_list'))
    K.append(Kind('ipv4_unicast/addpath', lambda b: IPv4Unicast.parse(b, True), p4ap, group='ipv4_prefix_list'))
    # ---- IPv6 prefix lists ----
    p6 = prefix_elems(rng, 128, per)
    K.append(Kind('ipv6_prefix_list', lambda b: IPv6Unicast.parse(b, False), p6, known=known_v6dd, model='prefix6'))
    K.append(Kind('ipv6_prefix_list/addpath', lambda b: IPv6Unicast.parse(b, True), with_path_id(rng, p6)))
    mp6 = b'\x00\x02\x01'
    K.append(Kind('ipv6_prefix_list/mp_unreach', lambda b: MpUnReachNLRI.parse(mp6 + b)['withdraw'], p6,
                  known=known_v6dd, group='ipv6_prefix_list'))
    # ---- labeled unicast ----
    lu4, lu6 = lu_elems(rng, 32, per), lu_elems(rng, 128, per)
    K.append(Kind('labeled_unicast_v4', lambda b: IPv4LabeledUnicast.parse(b, False), lu4, model='lu4'))
    K.append(Kind('labeled_unicast_v4/addpath', lambda b: IPv4LabeledUnicast.parse(b, True), with_path_id(rng, lu4)))
    K.append(Kind('labeled_unicast_v6', lambda b: IPv6LabeledUnicast.parse(b, False), lu6, model='lu6'))
    K.append(Kind('labeled_unicast_v6/addpath', lambda b: IPv6LabeledUnicast.parse(b, True), with_path_id(rng, lu6)))
    # ---- VPN ----
    for name, cls, bits, v6 in (('vpnv4', IPv4MPLSVPN, 32, False), ('vpnv6', IPv6MPLSVPN, 128, True)):
        for wd in (False, True):
            el = vpn_elems(rng, bits, per, wd)
            sfx = '/withdraw' if wd else ''
            K.append(Kind(name + sfx, (lambda b, cls=cls, wd=wd: cls.parse(b, iswithdraw=wd, addpath=False)), el,
                          model=('vpn', v6, wd)))
            K.append(Kind(name + sfx + '/addpath', (lambda b, cls=cls, wd=wd: cls.parse(b, iswithdraw=wd, addpath=True)),
                          with_path_id(rng, el), group=name + sfx))
    # ---- EVPN ----
    ev = evpn_elems(rng, th)
    ev += harvested_tlvs(EVPN.parse, 2, 1, 1, lambda p: p[0], {1, 2, 3, 4, 5}, lambda v: len(v) == 1)
    ev_unknown = [Elem('rt%d/unknown' % t, bytes([t, len(b)]) + b, first=True)
                  for t, b in ((0, b''), (6, b'\x01\x02\x03'), (11, bytes(40)), (255, b'\xff' * 255))]
    K.append(Kind('evpn_routes', EVPN.parse, ev, unknown=ev_unknown, unknown_kept=False))
    # ---- flowspec ----
    c4 = fs_components(rng)
    c6 = [e for e in fs_components(rng, True)]
    K.append(Kind('flowspec_components_v4', IPv4FlowSpec.parse, c4, combine=comb_dict))
    K.append(Kind('flowspec_components_v6', IPv6FlowSpec.parse, c6, combine=comb_dict))
    r4 = fs_rules(rng, c4, th)
    h4 = b'\x00\x01\x85\x00\x00'
    K.append(Kind('flowspec_rules_v4', lambda b: MpReachNLRI.parse(h4 + b)['nlri'], r4,
                  known=make_known_fs(IPv4FlowSpec.parse), model='flow4'))
    K.append(Kind('flowspec_rules_v4/mp_unreach', lambda b: MpUnReachNLRI.parse(b'\x00\x01\x85' + b)['withdraw'], r4,
                  known=make_known_fs(IPv4FlowSpec.parse), group='flowspec_rules_v4'))
    # (IPv6 flowspec rule LISTS are not decoded by yabgp: MP_REACH / MP_UNREACH (2, 133) return the raw octets)
    ops = []
    for lenbits in range(4):
        for eol in (False, True):
            for _ in range(3):
                ops.append(Elem('op/w%d/%s' % (1 << lenbits, 'eol' if eol else 'more'), op_item(rng, lenbits, eol),
                                eol=eol, first=True))
    K.append(Kind('flowspec_operators', lambda b: IPv4FlowSpec.parse_operators(b), ops, combine=comb_ops,
                  nonlast=lambda e: not e.meta['eol']))
    # ---- communities, cluster list, AS_PATH ----
    wk = sorted(C.WELL_KNOW_COMMUNITY_INT_2_STR)
    comm = [Elem('wk%d' % v, struct.pack('!I', v), first=True) for v in wk]
    comm += [Elem('pair', struct.pack('!HH', a, b), first=(a == 0 and b == 0)) for a in (0, 1, 65535) for b in (0, 1, 65535)]
    comm += [Elem('pair', struct.pack('!I', rng.randrange(1 << 32))) for _ in range(6)]
    K.append(Kind('communities', Community.parse, comm, model=('attr', 8, False)))
    lc = [Elem('large', struct.pack('!III', a, b, c), first=(a == 0))
          for a in (0, 1, 0x7fffffff, 0x80000000, 0xffffffff) for (b, c) in ((0, 0xffffffff), (0x80000000, a), (rng.randrange(1 << 32), 1))]
    K.append(Kind('large_communities', LargeCommunity.parse, lc, model=('attr', 32, False)))
    codes = set()
    for k in dir(C):
        if (k.startswith('BGP_EXT_COM_') or k.startswith('BGP_EXT_')) and isinstance(getattr(C, k), int):
            codes.add(getattr(C, k))
    ec, ec_unknown = [], []
    for code in sorted(codes):
        hi = code.to_bytes(4, 'big') if code > 0xffff else code.to_bytes(2, 'big')
        for j, body in enumerate((bytes(8 - len(hi)), b'\xff' * (8 - len(hi)), bytes(rng.randrange(256) for _ in range(8 - len(hi))))):
            e = Elem('code%#x' % code, hi + body, code=code, first=(j == 0))
            if call(ExtCommunity.parse, e.data)[0] == 'ok':
                ec.append(e)
    for code in (0x9999, 0x4199, 0xffff, 0x0107):
        if code not in codes:
            ec_unknown.append(Elem('code%#x/unknown' % code, struct.pack('!H', code) + bytes(rng.randrange(256) for _ in range(6)),
                                   code=code, first=True))
    K.append(Kind('ext_communities', ExtCommunity.parse, ec, unknown=ec_unknown, model=('attr', 16, False)))
    # traffic-rate (float) and the 4-octet colour codes are outside the modelled subset of YAttr.v
    K[-1].model_ok = lambda e: e.meta['code'] in c06.EXT_KIND or e.meta['code'] == 32775
    cl = [Elem('cluster', struct.pack('!I', v), first=(v == 0)) for v in (0, 1, 0x0a000001, 0x7fffffff, 0x80000000, 0xffffffff)]
    K.append(Kind('cluster_list', ClusterList.parse, cl, model=('attr', 10, False)))
    for asn4 in (False, True):
        w = 4 if asn4 else 2
        seg = []
        for t in (1, 2, 3, 4):
            for n in (0, 1, 2, 255 if th or t == 2 else 7):
                lim = (1 << (8 * w))
                asns = [[0, 1, lim - 1, rng.randrange(lim)][i % 4] for i in range(n)]
                seg.append(Elem('type%d/n%d' % (t, n), bytes([t, n]) + b''.join(a.to_bytes(w, 'big') for a in asns),
                                first=(n in (0, 255, 7))))
        K.append(Kind('as_path/%doctet' % w, (lambda b, asn4=asn4: ASPath.parse(b, asn4)), seg,
                      model=('attr', 2, asn4)))
    # ---- OPEN ----
    caps, caps_unknown = cap_elems(rng)
    K.append(Kind('open_capabilities', open_caps_dec, caps, combine=comb_caps, unknown=caps_unknown, maxlen=253,
                  known=known_caps, model='open'))
    params = []
    for e in caps + caps_unknown:
        params.append(Elem('param[' + e.label + ']', bytes([2, len(e.data)]) + e.data, codes=[e.meta['code']],
                           first=e.meta.get('first', False)))
    for _ in range(30 if th else 10):
        es = [rng.choice(caps) for _ in range(rng.randrange(2, 5))]
        body = b''.join(e.data for e in es)
        if len(body) <= 255:
            params.append(Elem('param[%s]' % '+'.join(e.label for e in es), bytes([2, len(body)]) + body,
                               codes=[e.meta['code'] for e in es]))
    params.append(Elem('param[]', bytes([2, 0]), codes=[], first=True))
    K.append(Kind('open_optional_parameters', open_params_dec, params, combine=comb_caps, known=known_caps,
                  model='openparams'))
    # ---- BGP-LS NLRI: node descriptor sub-TLVs, descriptors, NLRIs ----
    nd_types = [512, 513, 514, 515, 516, 517]
    for proto in (1, 3):
        dec = (lambda b, proto=proto: BGPLS.parse_node_descriptor(b, proto))
        pool = probe(dec, tlv22, nd_types, rng, lambda v: isinstance(v, dict))
        unk = [Elem('t%d/unknown' % t, tlv22(t, b), first=True) for t, b in ((0, b''), (511, b'\x01'), (518, bytes(16)), (65535, b'\xff' * 40))]
        K.append(Kind('bgpls_node_descriptor_subtlvs/proto%d' % proto, dec, pool, combine=comb_dict, unknown=unk,
                      unknown_kept=False))
    node_bodies = [b''.join(e.data for e in K[-1].pool[:3]), K[-1].pool[0].data if K[-1].pool else b'']
    hdr9 = bytes([3]) + struct.pack('!Q', 7)
    d_types = [256, 257, 258, 259, 260, 261, 262, 263, 264, 265, 518]
    desc_pools = {}
    for nt in (2, 3):
        dec = (lambda b, nt=nt: BGPLS.parse_nlri(hdr9 + b, nt)[2])
        pool = probe(dec, tlv22, d_types, rng, lambda v: len(v) == 1, seeds={256: node_bodies, 257: node_bodies})
        unk = [Elem('t%d/unknown' % t, tlv22(t, b), first=True) for t, b in ((0, b''), (255, b'\x01\x02'), (266, bytes(4)), (65535, b'\xff' * 33))]
        desc_pools[nt] = pool
        K.append(Kind('bgpls_descriptors/nlri-type%d' % nt, dec, pool, unknown=unk))
    nl = []
    for i, t in enumerate((1, 2, 3, 4, 6)):
        dp = desc_pools[3 if t == 3 else 2]
        for proto in (1, 2, 3, 4, 5, 6, 7):
            if not dp:
                break
            ds = [dp[(i * 7 + proto + j * 5) % len(dp)] for j in range(1 + (proto % 3))]
            body = bytes([proto]) + struct.pack('!Q', [0, 1, 2 ** 64 - 1][proto % 3]) + b''.join(d.data for d in ds)
            e = Elem('nlri%d/proto%d' % (t, proto), tlv22(t, body), first=(proto == 1))
            if call(BGPLS.parse, e.data) == ('ok', []) or call(BGPLS.parse, e.data)[0] == 'exc':
                continue
            nl.append(e)
        nl.append(Elem('nlri%d/min' % t, tlv22(t, bytes([1]) + bytes(8)), first=True))
    for s in harvest():
        cands = [s]
        if s[:3] == b'\x40\x04\x47' and len(s) > 4:
            cands.append(s[5 + s[3]:])
        if s[:3] == b'\x40\x04\x47':
            cands.append(s[3:])
        for c in cands:
            parts = split_tlv(c, 4, 2, 2)
            if parts and all(struct.unpack('!H', p[:2])[0] in (1, 2, 3, 4, 6) for p in parts):
                for p in parts:
                    r = call(BGPLS.parse, p)
                    if r[0] == 'ok' and len(r[1]) == 1 and p not in [e.data for e in nl]:
                        nl.append(Elem('nlri%d/test-literal' % struct.unpack('!H', p[:2])[0], p))
    nl = [e for e in nl if call(BGPLS.parse, e.data)[0] == 'ok']
    nl_unknown = [Elem('nlri%d/unknown' % t, tlv22(t, b), first=True) for t, b in ((0, b''), (5, bytes(9)), (7, b'\x01' * 30), (65535, b'\xff' * 9))]
    K.append(Kind('bgpls_nlris', BGPLS.parse, nl, unknown=nl_unknown, unknown_kept=False))
    # ---- link-state attribute TLVs ----
    ls_types = sorted(LinkState.registered_tlvs)
    ls_seeds = {}
    for s in harvest():
        parts = split_tlv(s, 4, 2, 2)
        if parts and len(s) >= 4:
            for p in parts:
                ls_seeds.setdefault(struct.unpack('!H', p[:2])[0], []).append(p[4:])
    for proto in (None, 1, 3):
        dec = (lambda b, proto=proto: LinkState.unpack(b, proto).value)
        pool = probe(dec, tlv22, ls_types, rng, lambda v: len(v) == 1, seeds=ls_seeds)
        pool += harvested_tlvs(dec, 4, 2, 2, lambda p: struct.unpack('!H', p[:2])[0], set(ls_types), lambda v: len(v) == 1)
        unk = [Elem('t%d/unknown' % t, tlv22(t, b), first=True)
               for t, b in ((0, b''), (1, b'\x01'), (1023, bytes(7)), (1200, b'\xab' * 32), (65535, b'\xff' * 255))
               if t not in LinkState.registered_tlvs]
        K.append(Kind('linkstate_attribute_tlvs/proto%s' % proto, dec, pool, unknown=unk,
                      group='linkstate_attribute_tlvs'))
        K[-1].registered = ls_types
    # ---- Prefix-SID TLVs and the SRv6 sub-TLV walkers below them ----
    for name, owner, dec, mk in (
            ('prefix_sid_tlvs', BGPPrefixSID, BGPPrefixSID.unpack, tlv12),
            ('srv6_service_subtlvs', SRv6L3Service, lambda b: SRv6L3Service.unpack(b'\x00' + b), tlv12),
            ('srv6_sid_information_subsubtlvs', SRv6SIDInformation, lambda b: SRv6SIDInformation.unpack(bytes(21) + b), tlv12)):
        types = sorted(owner.registered_tlvs)
        seeds = {}
        for s in harvest():
            for c in (s, s[1:], s[21:]):
                parts = split_tlv(c, 3, 1, 2)
                if parts:
                    for p in parts:
                        seeds.setdefault(p[0], []).append(p[3:])

        def acc(v):
            return isinstance(v, (list, dict)) and v is not None
        d2 = (lambda b, dec=dec: as_list(dec(b)))
        pool = probe(d2, mk, types, rng, lambda v: len(v) == 1, seeds=seeds, keep_mid=2)
        pool += harvested_tlvs(d2, 3, 1, 2, lambda p: p[0], set(types), lambda v: len(v) == 1)
        unk = [Elem('t%d/unknown' % t, mk(t, b), first=True) for t, b in ((0, b''), (2, b'\x01\x02'), (200, bytes(30)), (255, b'\xff' * 300))
               if t not in owner.registered_tlvs]
        K.append(Kind(name, d2, pool, unknown=unk))
        K[-1].registered = types
    return K


def as_list(v):
    """the sub-TLV walkers return {'type':..., 'value': [...]} or a list: take the element list"""
    v = canon(v)
    if isinstance(v, list):
        return v
    if isinstance(v, dict):
        for key in ('value', 'srv6_sub_tlvs', 'srv6_sub_sub_tlvs'):
            pass
        # find the (single) list-valued field that holds the decoded sub-TLVs
        lists = [(k, x) for k, x in walk_lists(v)]
        if lists:
            return lists[-1][1]
    raise ValueError('no element list in %r' % (v,))


def walk_lists(v, path=''):
    if isinstance(v, dict):
        for k, x in v.items():
            if isinstance(x, list):
                yield (path + '/' + k, x)
            elif isinstance(x, dict):
                for y in walk_lists(x, path + '/' + k):
                    yield y


# ---------------------------------------------------------------------------------------------
# the oracle
# ---------------------------------------------------------------------------------------------
class Stats(object):
    def __init__(self):
        self.n = 0
        self.per_kind = {}
        self.viol = []
        self.known_hits = {}

    def count(self, kind, what, k=1):
        d = self.per_kind.setdefault(kind.name, {})
        d[what] = d.get(what, 0) + k
        self.n += k


def check_tuple(kind, elems, st, what, split=None):
    """dec(e1||..||ek) == (+) dec(ei); with `split`: also == dec(e1..ei) (+) dec(ei+1..ek)"""
    data = b''.join(e.data for e in elems)
    if kind.maxlen is not None and len(data) > kind.maxlen:
        return
    parts = []
    for e in elems:
        r = kind.dec1(e)
        if r[0] != 'ok':
            return
        parts.append(r[1])
    st.count(kind, what)
    got = call(kind.dec, data)
    want = kind.combine(parts)
    bad = None
    if got != ('ok', want):
        bad = ('whole', got, want)
    elif split is not None:
        ra = call(kind.dec, b''.join(e.data for e in elems[:split]))
        rb = call(kind.dec, b''.join(e.data for e in elems[split:]))
        if ra[0] != 'ok' or rb[0] != 'ok' or kind.combine([ra[1], rb[1]]) != got[1]:
            # the failure lies inside one of the halves (they are concatenations themselves)
            bad = ('split at %d' % split, got, [ra, rb])
    if bad is None:
        return
    kid = kind.known(kind, elems, got, parts) if (kind.known and bad[0] == 'whole') else None
    if kid is None and kind.known and bad[0] != 'whole':
        # a half that is itself a known-class concatenation
        for half in (elems[:split], elems[split:]):
            hp = [kind.dec1(e)[1] for e in half]
            hg = call(kind.dec, b''.join(e.data for e in half))
            if hg != ('ok', kind.combine(hp)):
                kid = kind.known(kind, half, hg, hp)
                break
    v = {'what': '%s: decoding the concatenation of %d well-formed elements differs from the concatenation of '
                 'their decodings (%s): elements %s' % (kind.name, len(elems), bad[0], [e.label for e in elems]),
         'input': {'kind': kind.name, 'check': 'concat', 'elements': [e.data.hex() for e in elems], 'split': split},
         'observed': repr(bad[1])[:1500], 'expected': repr(bad[2])[:1500], 'known': kid}
    record(st, v)


def record(st, v):
    kid = v.get('known')
    if kid:
        st.known_hits[kid] = st.known_hits.get(kid, 0) + 1
        if st.known_hits[kid] > 3:
            return
    elif len([x for x in st.viol if not x.get('known')]) >= 40:
        return
    st.viol.append(v)


def check_unknown(kind, known, unk, pos, st):
    """unknown TLV at position pos between known ones: the known ones decode as before"""
    data0 = b''.join(e.data for e in known)
    data1 = b''.join(e.data for e in known[:pos]) + unk.data + b''.join(e.data for e in known[pos:])
    if kind.maxlen is not None and len(data1) > kind.maxlen:
        return
    base = call(kind.dec, data0)
    if base[0] != 'ok':
        return
    st.count(kind, 'unknown-inserted')
    got = call(kind.dec, data1)
    ok = False
    if got[0] == 'ok':
        if kind.combine is comb_list:
            n1 = len(kind.combine([kind.dec1(e)[1] for e in known[:pos]]))
            u = kind.dec1(unk)
            if kind.unknown_kept:
                ok = (u[0] == 'ok' and len(u[1]) == 1 and got[1] == base[1][:n1] + u[1] + base[1][n1:])
            else:
                ok = (got[1] == base[1])
        else:
            # dictionary results: every key of the baseline keeps its value; only keys of the unknown are new
            u = kind.dec1(unk)
            if kind.combine is comb_caps:
                extra = u[1]['capabilities'] if u[0] == 'ok' else {}
                ok = got[1]['asn'] == base[1]['asn'] and all(got[1]['capabilities'].get(k) == x for k, x in base[1]['capabilities'].items()) \
                    and set(got[1]['capabilities']) <= set(base[1]['capabilities']) | set(extra)
            else:
                extra = u[1] if u[0] == 'ok' else {}
                ok = all(got[1].get(k) == x for k, x in base[1].items()) and set(got[1]) <= set(base[1]) | set(extra)
    if not ok:
        record(st, {'what': '%s: an unknown TLV (%s) inserted at position %d changes what the known ones decode to: %s'
                            % (kind.name, unk.label, pos, [e.label for e in known]),
                    'input': {'kind': kind.name, 'check': 'unknown', 'elements': [e.data.hex() for e in known],
                              'unknown': unk.data.hex(), 'pos': pos},
                    'observed': repr(got)[:1500], 'expected': 'baseline %r' % (base,), 'known': None})


def first_pool(kind):
    seen, out = set(), []
    for e in kind.pool:
        if e.meta.get('first', True) and e.label not in seen:
            seen.add(e.label)
            out.append(e)
    return out or kind.pool[:50]


def ok_pair(kind, a, b):
    return kind.nonlast is None or kind.nonlast(a)


def run_kind(ctx, kind, st, budget):
    rng = ctx.rng
    t0 = time.time()
    pool = [e for e in kind.pool if kind.dec1(e)[0] == 'ok']
    dropped = len(kind.pool) - len(pool)
    kind.pool = pool
    info = st.per_kind.setdefault(kind.name, {})
    info['pool'] = len(pool)
    info['pool_rejected_by_decoder'] = dropped
    info['widths'] = len(set(e.label for e in pool))
    if getattr(kind, 'registered', None):
        have = set(e.meta.get('ttype') for e in pool)
        info['registered_types'] = len(kind.registered)
        info['registered_types_without_accepted_element'] = [t for t in kind.registered if t not in have]
    if not pool:
        return
    sub = first_pool(kind)
    # pairs
    if ctx.thorough and len(pool) <= PAIR_CAP:
        pairs = itertools.product(pool, pool)
        info['pairs_rule'] = 'all %d x %d' % (len(pool), len(pool))
    else:
        nsample = 120000 if ctx.thorough else 1500
        sub2 = sub if (ctx.thorough or len(sub) <= 70) else (sub[:35] + rng.sample(sub[35:], 35))
        pairs = itertools.chain(itertools.product(sub2, sub2),
                                ((rng.choice(pool), rng.choice(pool)) for _ in range(nsample)))
        info['pairs_rule'] = 'all %d x %d of the one-per-width sub-pool + %d random pairs of the full pool' \
                        % (len(sub2), len(sub2), nsample)
    for a, b in pairs:
        if ok_pair(kind, a, b):
            check_tuple(kind, [a, b], st, 'pairs')
        if time.time() - t0 > budget:
            info['pairs_rule'] += ' (cut by the time budget)'
            break
    # k-tuples with a random split
    for _ in range(15000 if ctx.thorough else 250):
        k = rng.randrange(3, 9)
        es = [rng.choice(pool) for _ in range(k)]
        if kind.nonlast is not None:
            heads = [e for e in pool if kind.nonlast(e)]
            if not heads:
                break
            es = [rng.choice(heads) for _ in range(k - 1)] + [rng.choice(pool)]
        check_tuple(kind, es, st, 'tuples', split=rng.randrange(1, k))
        if time.time() - t0 > 1.5 * budget:
            break
    # unknown TLVs between known ones
    if kind.unknown:
        for u in kind.unknown:
            for _ in range(60 if ctx.thorough else 8):
                k = rng.randrange(1, 5)
                es = [rng.choice(pool) for _ in range(k)]
                for pos in range(k + 1):
                    check_unknown(kind, es, u, pos, st)
        # the unknown elements also take part in the concatenation law (they are elements of the list)
        mixed = pool + [u for u in kind.unknown if kind.dec1(u)[0] == 'ok']
        for _ in range(1500 if ctx.thorough else 150):
            k = rng.randrange(2, 7)
            check_tuple(kind, [rng.choice(mixed) for _ in range(k)], st, 'tuples-with-unknown', split=rng.randrange(1, k))


# ---------------------------------------------------------------------------------------------
# attribute permutations
# ---------------------------------------------------------------------------------------------
def attr_lists(ctx):
    """[(asn4, [attribute encodings], description)]"""
    from yabgp.message.update import Update
    from yabgp.message.attribute.mpreachnlri import MpReachNLRI
    from yabgp.message.attribute.mpunreachnlri import MpUnReachNLRI
    rng = ctx.rng
    out = []
    extra = []
    for v in ({'afi_safi': (2, 1), 'nexthop': '2001:db8::1', 'nlri': ['2001:db8:1::/48', '::/0']},
              {'afi_safi': (1, 128), 'nexthop': {'rd': '0:0', 'str': '2.2.2.2'},
               'nlri': [{'label': [25], 'rd': '100:100', 'prefix': '11.11.11.0/24'}]},
              {'afi_safi': (1, 133), 'nexthop': '', 'nlri': [{1: '10.0.0.0/24', 5: '=80|>=8080'}]}):
        try:
            extra.append(('14', bytes(MpReachNLRI.construct(v))))
        except Exception:     # noqa
            pass
    for v in ({'afi_safi': (2, 1), 'withdraw': ['2001:db8:2::/48']},
              {'afi_safi': (1, 128), 'withdraw': [{'label': [524288], 'rd': '100:100', 'prefix': '11.11.11.0/24'}]}):
        try:
            extra.append(('15', bytes(MpUnReachNLRI.construct(v))))
        except Exception:     # noqa
            pass
    extra.append(('unknown99', bytes([0xc0, 99, 3, 1, 2, 3])))
    extra.append(('unknown200-extlen', bytes([0xd0, 200, 0, 2, 9, 9])))
    extra.append(('unknown255-empty', bytes([0xc0, 255, 0])))
    n_c06 = 400 if ctx.thorough else 60
    for _ in range(n_c06):
        asn4 = rng.random() < 0.5
        k = rng.choice([2, 3, 3, 4, 5, 5, 6, 8, 12])
        tcs = rng.sample(c06.ALL_TC, min(k, len(c06.ALL_TC)))
        encs = []
        for tc in tcs:
            val = c06.rand_attr(rng, tc, asn4)
            try:
                b = Update.construct_attributes({tc: c06.py_val(tc, val)}, asn4)
            except Exception:     # noqa
                b = None
            if b:
                encs.append(('%d' % tc, bytes(b)))
        have = set(l for l, _ in encs)
        for lab, b in rng.sample(extra, rng.randrange(0, 3)):
            if lab.split('-')[0] not in have and not (lab in ('14', '15') and lab in have):
                encs.append((lab, b))
                have.add(lab)
        if len(encs) >= 2:
            out.append((asn4, encs, 'c06-generated'))
    # attribute sections of the UPDATE messages in the unit tests
    seen = set()
    for s in harvest():
        if len(s) < 4:
            continue
        wl = struct.unpack('!H', s[:2])[0]
        if 2 + wl + 2 > len(s):
            continue
        al = struct.unpack('!H', s[2 + wl:4 + wl])[0]
        sec = s[4 + wl:4 + wl + al]
        if len(sec) != al or al < 6:
            continue
        parts = attr_split(sec)
        if not parts or len(parts) < 2 or sec in seen:
            continue
        if len(set(p[1] for p in parts)) != len(parts):
            continue
        seen.add(sec)
        for asn4 in (False, True):
            out.append((asn4, [('%d' % p[1], p) for p in parts], 'unit-test UPDATE'))
    # attributes whose decoding consults OTHER attributes: the PMSI tunnel label is a VNI when the UPDATE also
    # carries an EVPN MP_REACH_NLRI and an encapsulation extended community (draft-ietf-bess-evpn-overlay) -
    # whatever the position of the three in the attribute list.  Octets written here, MP_REACH from the constructor.
    origin, lpref = bytes([0x40, 1, 1, 0]), bytes([0x40, 5, 4, 0, 0, 0, 100])
    pmsis = [bytes([0xc0, 22, 9, 0, 6, 0x00, 0xea, 0x61, 10, 0, 0, 1]),
             bytes([0xc0, 22, 21, 1, 6, 0xff, 0xff, 0xff]) + bytes(range(32, 48))]
    mps = []
    for v in ({'afi_safi': (25, 70), 'nexthop': '10.75.44.254',
               'nlri': [{'type': 3, 'value': {'rd': '172.16.0.1:5904', 'eth_tag_id': 100, 'ip': '192.168.0.1'}}]},
              {'afi_safi': (1, 128), 'nexthop': {'rd': '0:0', 'str': '2.2.2.2'},
               'nlri': [{'label': [25], 'rd': '100:100', 'prefix': '11.11.11.0/24'}]}):
        try:
            mps.append(bytes(MpReachNLRI.construct(v)))
        except Exception:     # noqa
            pass
    for mpb in mps:
        for enc in (8, 9, 10):
            ec = bytes([0xc0, 16, 8, 0x03, 0x0c, 0, 0, 0, 0, 0, enc])
            for pm in pmsis:
                out.append((True, [('1', origin), ('5', lpref), ('14', mpb), ('16', ec), ('22', pm)],
                            'MP_REACH + encapsulation extended community + PMSI tunnel'))
        out.append((False, [('1', origin), ('14', mpb), ('22', pmsis[0])], 'MP_REACH + PMSI tunnel'))
    # BGP-LS: MP_REACH (link-state NLRI) + LINK_STATE attribute, also an empty LINK_STATE attribute
    ls = [x for x in out if any(l == '29' for l, _ in x[1]) and any(l == '14' for l, _ in x[1])]
    for asn4, encs, _ in ls[:4]:
        e2 = [(l, (bytes([b[0] & ~0x10, 29, 0]) if l == '29' else b)) for l, b in encs]
        out.append((asn4, e2, 'unit-test UPDATE with the LINK_STATE attribute emptied'))
    return out


def parse_attrs_map(data, asn4):
    from yabgp.message.update import Update
    from yabgp.common import exception as excep
    try:
        return ('ok', canon(Update.parse_attributes(data, asn4)))
    except excep.UpdateMessageError as e:
        return ('err', e.sub_error, canon(e.sub_results))
    except Exception as e:     # noqa
        return ('exc', type(e).__name__)


def check_perm(asn4, encs, perm, base, st, desc):
    data = b''.join(encs[i][1] for i in perm)
    got = parse_attrs_map(data, asn4)
    st.n += 1
    if got == base:
        return
    kid = None
    labs = [encs[i][0] for i in perm]
    # empty LINK_STATE attribute: decoded (as []) only when it follows the BGP-LS MP_REACH_NLRI
    if '29' in labs and '14' in labs and base[0] == 'ok' and got[0] == 'ok':
        ls = [b for l, b in encs if l == '29'][0]
        empty = (ls[2] == 0 if not ls[0] & 0x10 else ls[2:4] == b'\x00\x00')
        a, b = dict(base[1]), dict(got[1])
        a.pop('29', None)
        b.pop('29', None)
        if empty and a == b and {repr(base[1].get('29')), repr(got[1].get('29'))} == {'None', '[]'}:
            kid = K_LSEMPTY
    record(st, {'what': 'permuting the path attributes changes the decoded attribute map (%s): order %s vs %s'
                        % (desc, labs, [e[0] for e in encs]),
                'input': {'check': 'permutation', 'asn4': asn4, 'attributes': [e[1].hex() for e in encs],
                          'perm': list(perm)},
                'observed': repr(got)[:1500], 'expected': repr(base)[:1500], 'known': kid})


def run_perms(ctx, st):
    rng = ctx.rng
    lists = attr_lists(ctx)
    info = {'attribute_lists': len(lists), 'all_permutations_lists': 0, 'random_permutation_lists': 0, 'permutations': 0,
            'type_codes': sorted(set(int(l.split('-')[0].replace('unknown', '')) for _, e, _ in lists for l, _ in e))}
    t0 = time.time()
    for asn4, encs, desc in lists:
        base = parse_attrs_map(b''.join(b for _, b in encs), asn4)
        if base[0] != 'ok':
            continue
        n = len(encs)
        if n <= 5:
            perms = itertools.permutations(range(n))
            info['all_permutations_lists'] += 1
        else:
            perms = []
            for _ in range(120 if ctx.thorough else 20):
                p = list(range(n))
                rng.shuffle(p)
                perms.append(p)
            perms.append(list(reversed(range(n))))
            info['random_permutation_lists'] += 1
        for p in perms:
            info['permutations'] += 1
            check_perm(asn4, encs, p, base, st, desc)
        if time.time() - t0 > (240 if ctx.thorough else 15):
            info['cut'] = True
            break
    # unknown attribute inserted between known ones
    unk = [bytes([0xc0, 99, 3, 1, 2, 3]), bytes([0xd0, 201, 0, 0]), bytes([0xe0, 250, 40]) + bytes(40)]
    ins = 0
    for asn4, encs, desc in lists[:(400 if ctx.thorough else 60)]:
        base = parse_attrs_map(b''.join(b for _, b in encs), asn4)
        if base[0] != 'ok' or any(l.startswith('unknown') for l, _ in encs):
            continue
        for u in unk:
            for pos in range(len(encs) + 1):
                data = b''.join(b for _, b in encs[:pos]) + u + b''.join(b for _, b in encs[pos:])
                got = parse_attrs_map(data, asn4)
                st.n += 1
                ins += 1
                want = dict(base[1])
                want['%d' % u[1]] = u[(4 if u[0] & 0x10 else 3):].hex()
                if got != ('ok', want):
                    kid = None
                    record(st, {'what': 'an unknown attribute (type %d) inserted at position %d changes the other '
                                        'attributes (%s)' % (u[1], pos, desc),
                                'input': {'check': 'unknown-attribute', 'asn4': asn4, 'attributes': [e[1].hex() for e in encs],
                                          'unknown': u.hex(), 'pos': pos},
                                'observed': repr(got)[:1500], 'expected': repr(('ok', want))[:1500], 'known': kid})
    info['unknown_attribute_insertions'] = ins
    return info


# ---------------------------------------------------------------------------------------------
# correspondence on concatenations (model evaluated inside Coq)
# ---------------------------------------------------------------------------------------------
IMPORTS = ('From YV Require Import lib.Base gen.Consts model.YMsg model.YPrefix4 model.YAttr model.YUpdate.\n',
           'From YV Require Import lib.Base gen.Consts model.YMsg model.YOpen.\n',
           'From YV Require Import lib.Base gen.Consts model.YMp model.YPrefix6 model.YLabel model.YVpn model.YLu model.YFlow4.\n')


def coq_sx(v):
    from session import Bytes
    if isinstance(v, (c06.B, Bytes)):
        return 'SB %s' % c06.coq_bytes(v)
    if isinstance(v, bool):
        return 'SN %d' % (1 if v else 0)
    if isinstance(v, int):
        return 'SN %d' % (v if v >= 0 else (1 << 64) + v)
    if isinstance(v, (list, tuple)):
        return 'SL [%s]' % '; '.join(coq_sx(x) for x in v)
    if v is None:
        return 'SL []'
    raise TypeError(repr(v))


def model_case(kind, data):
    """-> (import group, coq term, canonical implementation value) or None"""
    from yabgp.message.update import Update
    from yabgp.message.attribute.mpreachnlri import MpReachNLRI
    from yabgp.message.attribute.mpunreachnlri import MpUnReachNLRI
    m = kind.model
    cb = c06.coq_bytes
    if m == 'prefix4':
        return (0, 'sx_res (sx_list sx_pfx) (parse_prefix_list %s)' % cb(data),
                c06.run_impl(lambda: Update.parse_prefix_list(data), lambda v: [c06.c_pfx(p) for p in v]))
    if m == 'prefix4ap':
        return (0, 'sx_res (sx_list sx_apfx) (parse_prefix_list_ap %s)' % cb(data),
                c06.run_impl(lambda: Update.parse_prefix_list(data, True),
                             lambda v: [[d['path_id'], c06.c_pfx(d['prefix'])] for d in v]))
    if isinstance(m, tuple) and m[0] == 'attr':
        _, tc, asn4 = m
        if len(data) > 255:
            return None
        attr = bytes([0x40, tc, len(data)]) + data
        return (0, 'sx_pattrs (parse_attributes %s %s)' % (c06.coq_bool(asn4), cb(attr)),
                c06.impl_parse_attributes(attr, asn4))
    if m in ('open', 'openparams'):
        from props import c14_open
        if m == 'open':
            if len(data) > 253:
                return None
            body = OPEN_FIXED + bytes([min(len(data) + 2, 255)]) + bytes([2, len(data)]) + data
        else:
            body = OPEN_FIXED + bytes([min(len(data), 255)]) + data
        return (1, 'sx_res sx_open_parse (open_parse %s)' % cb(body), c14_open.impl_parse(body))
    from props import c07, c07_v6u, c07_vpn, c07_lu, c07_flow4

    def mp(fam, case, cls, octets):
        st, p = c07.run_impl(lambda: cls.parse(octets))
        if st == 'exc':
            impl = [2]
        else:
            st2, c = c07.run_impl(lambda: fam.canon(case, p))
            impl = [0, c] if st2 == 'ok' else [0, [99]]
        return (2, fam.coq_parse(case, octets), impl)
    if m == 'prefix6':
        return mp(c07_v6u.FAMILIES[0], {'kind': 'unreach'}, MpUnReachNLRI, b'\x00\x02\x01' + data)
    if isinstance(m, tuple) and m[0] == 'vpn':
        _, v6, wd = m
        fam = c07_vpn.FAMILIES[1 if v6 else 0]
        afi = b'\x00\x02' if v6 else b'\x00\x01'
        if wd:
            return mp(fam, {'kind': 'unreach'}, MpUnReachNLRI, afi + b'\x80' + data)
        nh = bytes(8) + (bytes(15) + b'\x01' if v6 else b'\x0a\x00\x00\x01')
        return mp(fam, {'kind': 'reach'}, MpReachNLRI, afi + b'\x80' + bytes([len(nh)]) + nh + b'\x00' + data)
    if m in ('lu4', 'lu6'):
        v6 = m == 'lu6'
        fam = c07_lu.FAMILIES[1 if v6 else 0]
        afi = b'\x00\x02' if v6 else b'\x00\x01'
        nh = (b'\x20\x01' + bytes(13) + b'\x01') if v6 else b'\x0a\x00\x00\x01'
        return mp(fam, {'kind': 'reach'}, MpReachNLRI, afi + b'\x04' + bytes([len(nh)]) + nh + b'\x00' + data)
    if m == 'flow4':
        return mp(c07_flow4.FAMILIES[0], {'kind': 'unreach'}, MpUnReachNLRI, b'\x00\x01\x85' + data)
    return None


def correspondence(ctx, kinds):
    rng = ctx.rng
    cases = {0: [], 1: [], 2: []}
    per_kind = {}
    for kind in kinds:
        if not kind.model or not kind.pool:
            continue
        n = 1500 if ctx.thorough else 90
        made = 0
        mok = getattr(kind, 'model_ok', lambda e: True)
        sub = [e for e in first_pool(kind) if mok(e)]
        mpool = [e for e in kind.pool if mok(e)]
        seqs = [[a, b] for a in sub[:12] for b in sub[:12]][:n // 3]
        while len(seqs) < n:
            seqs.append([rng.choice(mpool) for _ in range(rng.choice([1, 2, 2, 3, 5]))])
        for es in seqs:
            data = b''.join(e.data for e in es)
            if kind.maxlen is not None and len(data) > kind.maxlen:
                continue
            if kind.model == 'flow4' and any(len(e.data) > 200 for e in es) and made > 20:
                continue
            try:
                mc = model_case(kind, data)
            except Exception as e:     # noqa
                mc = None
            if mc is None:
                continue
            g, term, impl = mc
            cases[g].append((term, impl, [kind.name, data.hex()]))
            made += 1
        per_kind[kind.name] = made
    mism = []
    total = 0
    if not ctx.coq_ok:
        return mism, per_kind, 0
    for g in (0, 1, 2):
        cs = cases[g]
        total += len(cs)
        shards, spans = [], []
        i = 0
        while i < len(cs):
            j, size = i, 0
            while j < len(cs) and j - i < 150 and size < 500000:
                size += len(cs[j][0]) + 4 * len(repr(cs[j][1]))
                j += 1
            body = ';\n'.join('(%s, %s)' % (cs[k][0], coq_sx(cs[k][1])) for k in range(i, j))
            shards.append('Definition cases : list (sx * sx) := [\n%s\n].\nEval vm_compute in (mismatches cases).\n' % body)
            spans.append(i)
            i = j
        for k, (rc, out) in enumerate(common.coq_eval_shards('%s_%d' % (ctx.prop, g), shards, imports=IMPORTS[g])):
            idx = common.parse_nats(out)
            if rc != 0 or idx is None:
                mism.append({'what': 'case file %d/%d does not evaluate: %s' % (g, k, common.first_error(out))})
                continue
            for x in idx:
                c = cs[spans[k] + x]
                mism.append({'what': 'model and implementation differ on the concatenation %r' % (c[2],),
                             'input': c[2], 'impl': repr(c[1])[:1500], 'model_expr': c[0][:3000]})
    return mism, per_kind, total


# ---------------------------------------------------------------------------------------------
def run(ctx):
    t0 = time.time()
    st = Stats()
    kinds = build_kinds(ctx)
    t_build = time.time() - t0
    budget = (30.0 if ctx.thorough else 1.6)
    for kind in kinds:
        run_kind(ctx, kind, st, budget)
    perm_info = run_perms(ctx, st)
    mism, corr, ncorr = correspondence(ctx, kinds)
    empty = [k.name for k in kinds if not k.pool]
    if empty:
        mism.append({'what': 'no well-formed element is accepted by the decoder of: %s' % ', '.join(empty)})
    samples = []
    for k in kinds[::5]:
        if k.pool:
            e = ctx.rng.choice(k.pool)
            samples.append({'kind': k.name, 'element': e.label, 'octets': e.data.hex()[:120], 'decodes_to': repr(k.dec1(e)[1])[:200]})
    viol = st.viol
    return {'evaluations': st.n + ncorr, 'distinct': sum(len(k.pool) for k in kinds),
            'rule': 'per list kind a pool of well-formed element encodings containing every width the format allows '
                    '(prefix lengths 0..32 / 0..128, every route / ESI / RD type, every registered TLV type with the '
                    'smallest and largest accepted body, unit-test byte strings cut into elements, yabgp-constructed '
                    'elements); ordered pairs and random 3..8-tuples of pool elements, unknown TLVs at every position, '
                    'attribute lists (c06 generators + unit-test UPDATEs) under all permutations up to 5 attributes and '
                    'random ones beyond.  distinct = number of pool elements (each decodes alone and takes part in pairs)',
            'samples': samples[:8], 'mismatches': mism, 'violations': viol,
            'extra': {'per_kind': st.per_kind, 'permutations': perm_info, 'correspondence_concatenations': corr,
                      'known_class_hits': st.known_hits, 'pool_build_s': round(t_build, 1),
                      'kinds_oracle_only': [k.name for k in kinds if not k.model],
                      'kinds_with_model_correspondence': [k.name for k in kinds if k.model]}}


def replay(ctx, obj):
    v = obj.get('violation', obj)
    inp = v.get('input') or {}
    print(v.get('what'))
    chk = inp.get('check')
    if chk in ('permutation', 'unknown-attribute'):
        encs = [bytes.fromhex(h) for h in inp['attributes']]
        base = parse_attrs_map(b''.join(encs), inp['asn4'])
        if chk == 'permutation':
            data = b''.join(encs[i] for i in inp['perm'])
            got = parse_attrs_map(data, inp['asn4'])
            print('original order :', base)
            print('permuted       :', got)
            return 0 if got == base else 1
        u = bytes.fromhex(inp['unknown'])
        data = b''.join(encs[:inp['pos']]) + u + b''.join(encs[inp['pos']:])
        got = parse_attrs_map(data, inp['asn4'])
        print('without unknown:', base)
        print('with unknown   :', got)
        want = dict(base[1]) if base[0] == 'ok' else None
        if want is not None:
            want['%d' % u[1]] = u[(4 if u[0] & 0x10 else 3):].hex()
        return 0 if got == ('ok', want) else 1
    ctx.thorough = False
    kinds = dict((k.name, k) for k in build_kinds(ctx))
    kind = kinds.get(inp.get('kind'))
    if kind is None:
        print('unknown kind', inp.get('kind'))
        return 1
    es = [Elem('e%d' % i, bytes.fromhex(h)) for i, h in enumerate(inp['elements'])]
    st = Stats()
    if chk == 'unknown':
        check_unknown(kind, es, Elem('unknown', bytes.fromhex(inp['unknown'])), inp['pos'], st)
    else:
        for e in es:
            print('dec(%s) = %r' % (e.data.hex(), kind.dec1(e)))
        print('dec(concatenation) = %r' % (call(kind.dec, b''.join(e.data for e in es)),))
        check_tuple(kind, es, st, 'replay', split=inp.get('split'))
    if st.viol:
        print('STILL FAILS:', st.viol[0]['what'])
        print(' observed:', st.viol[0]['observed'])
        print(' expected:', st.viol[0]['expected'])
        return 1
    print('holds now')
    return 0
