"""C07 family 1: IPv6 unicast MP_REACH (next hop with / without link-local) and MP_UNREACH."""
from props.c07 import Family, ip6, caddr, cprefix, mask, coq_opt, coq_list, coq_bytes, size_targets, fill_sizes

K_LOW = 'C07-ipv6-unicast-low-address-as-ipv4'
K_DD = 'C07-ipv6-unicast-trailing-double-default-dropped'


def render_low(a):
    """what netaddr.IPAddress(int) makes of a 128-bit value"""
    return [4, a] if a < 2 ** 32 else [6, a]


class V6Unicast(Family):
    name = 'ipv6_unicast'
    imports = 'From YV Require Import lib.Base gen.Consts model.YMp model.YPrefix6.\n'

    def gen(self, ctx):
        rng = ctx.rng
        cases = []

        def rnd_route(l=None, low=False):
            if l is None:
                l = rng.choice([0, 1, 7, 8, 9, 32, 48, 63, 64, 65, 96, 127, 128, rng.randrange(129)])
            a = rng.getrandbits(32) if low else (rng.getrandbits(128) | (1 << 127))
            return (mask(a, l, 128), l)

        def add(kind, routes, g=None, ll=None, empty=False):
            cls = []
            if any(a < 2 ** 32 for a, _ in routes) or (kind == 'reach' and g < 2 ** 32) or \
                    (ll is not None and ll < 2 ** 32):
                cls.append('address-below-2^32')
            if len(routes) >= 2 and routes[-1] == (0, 0) and routes[-2] == (0, 0):
                cls.append('trailing-double-default')
            c = {'fam': self.name, 'kind': kind, 'v': {'routes': routes, 'g': g, 'll': ll}, 'cls': cls}
            if empty:
                c['empty'] = True
            cases.append(c)

        def nh():
            g = rng.choice([0x20010db8 << 96 | rng.getrandbits(64), rng.getrandbits(128) | 1 << 100,
                            0xffff00000000 | rng.getrandbits(32), 2 ** 32, 2 ** 128 - 1])
            ll = rng.choice([None, 0xfe80 << 112 | rng.getrandbits(64)])
            return g, ll
        # every prefix length, single route, reach (alternating link-local) and unreach
        for l in range(129):
            g, ll = nh()
            r = rnd_route(l)
            add('reach', [r], g, ll if l % 2 else None)
            if ctx.thorough or l % 3 == 0 or l in (1, 127, 128):
                add('unreach', [r])
            if ctx.thorough or l % 8 in (0, 1) or l > 120:
                add('reach', [rnd_route(l, low=True)], g, None)      # value below 2^32 (:: for l <= 96)
        # several routes per attribute
        for _ in range(400 if ctx.thorough else 50):
            n = rng.choice([2, 2, 3, 5, 9])
            rs = [rnd_route() if rng.random() < .85 else rnd_route(low=True) for _ in range(n)]
            g, ll = nh()
            add(rng.choice(['reach', 'reach', 'unreach']), rs, g, ll)
        # next-hop boundaries
        for g in (0, 1, 2 ** 32 - 1, 2 ** 32, 2 ** 64, 2 ** 128 - 1):
            for ll in (None, 0xfe80 << 112 | 1, 1):
                add('reach', [rnd_route(64)], g, ll)
        # default routes in every position
        d = (0, 0)
        x = rnd_route(48)
        for rs in ([d], [d, d], [x, d], [d, x], [x, d, d], [d, d, x], [d, d, d], [x, (0, 8)], [(0, 8)]):
            add('reach', rs, 0x20010db8 << 96 | 1, None)
            add('unreach', rs)
        # ---- encoded-size boundaries: attribute value length (a route takes 1 + ceil(l/8) octets; l >= 1)
        for target, ok in size_targets(ctx):
            for kind in ('reach', 'unreach'):
                g, ll = nh()
                g |= 1 << 100
                if kind == 'unreach':
                    ll = None
                room = target - (3 if kind == 'unreach' else 5 + (32 if ll is not None else 16))
                rs = [rnd_route(rng.randrange(8 * (k - 2) + 1, 8 * (k - 1) + 1))
                      for k in fill_sizes(room, range(2, 18), rng)]
                add(kind, rs, g if kind == 'reach' else None, ll)
                cases[-1]['huge'] = target > 60000
                if not ok:
                    cases[-1]['unencodable'] = 'attribute value of %d octets' % target
        add('reach', [], 0x20010db8 << 96 | 1, None)
        add('unreach', [], empty=True)
        return cases

    def impl_value(self, case):
        v = case['v']
        nl = ['%s/%d' % (ip6(a), l) for a, l in v['routes']]
        if case['kind'] == 'unreach':
            return {'afi_safi': (2, 1), 'withdraw': nl}
        d = {'afi_safi': (2, 1), 'nexthop': ip6(v['g']), 'nlri': nl}
        if v['ll'] is not None:
            d['linklocal_nexthop'] = ip6(v['ll'])
        return d

    @staticmethod
    def coq_routes(rs):
        return coq_list(rs, lambda r: '(%d, %d)' % r)

    def coq_construct(self, case):
        v = case['v']
        if case['kind'] == 'reach':
            return 'sx_res SB (reach6u_construct %d %s %s)' % (v['g'], coq_opt(v['ll']), self.coq_routes(v['routes']))
        return 'sx_res sx_optbytes (unreach6u_construct %s)' % self.coq_routes(v['routes'])

    def coq_parse(self, case, octets):
        if case['kind'] == 'reach':
            return 'sx_res sx_reach6u (reach6u_parse %s)' % coq_bytes(octets)
        return 'sx_res (sx_list sx_route) (unreach6u_parse %s)' % coq_bytes(octets)

    def canon(self, case, p):
        if case['kind'] == 'reach':
            assert tuple(p['afi_safi']) == (2, 1)
            ll = [caddr(p['linklocal_nexthop'])] if 'linklocal_nexthop' in p else []
            return [caddr(p['nexthop']), ll, [cprefix(x) for x in p['nlri']]]
        assert tuple(p['afi_safi']) == (2, 1)
        return [cprefix(x) for x in p['withdraw']]

    def expected(self, case, render=lambda a: [6, a], routes=None):
        v = case['v']
        rs = [[render(a), l] for a, l in (v['routes'] if routes is None else routes)]
        if case['kind'] == 'unreach':
            return rs
        return [render(v['g']), [] if v['ll'] is None else [render(v['ll'])], rs]

    def classify(self, case, stage, obs):
        if stage != 'differs':
            return None
        cls = case['cls']
        rs = case['v']['routes']
        if 'trailing-double-default' in cls and obs == self.expected(case, render_low, rs[:-2]):
            return K_DD
        if 'address-below-2^32' in cls and obs == self.expected(case, render_low):
            return K_LOW
        return None


FAMILIES = [V6Unicast()]
