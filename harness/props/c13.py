"""C13 — operator stop is final until operator start."""
import env  # noqa: F401
import session
from props import session_common as sc

COQ_TARGETS = ['props/C13.vo', 'model/YSessionSx.vo']
TRUSTED = sc.TRUSTED
ASSUMPTIONS = sc.ASSUMPTIONS
MSGS = ['open_ok', 'keepalive', 'update_ok', 'notif_cease', 'bad_marker']
M = sc.ALL_MSGS


def continuations(d, depth, rng, budget):
    """bounded continuation events after the stop (no manual start): sequences of enabled events"""
    import explore
    msgs = [(n, M[n]) for n in MSGS]
    seqs = [()]
    out = []
    for _ in range(depth):
        nxt = []
        for s in seqs:
            d2 = session.Driver(**d.kw)
            for e in d.path + list(s):
                d2.apply(e)
            evs = [e for e in explore.enabled_events(d2, msgs) if e[0] not in ('start', 'boot')]
            evs.append(('advance', 30))
            if len(evs) > budget:
                evs = rng.sample(evs, budget)
            for e in evs:
                nxt.append(s + (e,))
                out.append(s + (e,))
        seqs = nxt if len(nxt) <= 40 else rng.sample(nxt, 40)
    return out


def rest_gate_open():
    """the real gate function of the REST send endpoints, on the world of the driver that ran last"""
    from yabgp.api import utils as api_utils
    return bool(api_utils._ready_to_send_msg(peer_ip='10.0.0.2'))


def run(ctx):
    kw = {}
    depth = 5 if ctx.thorough else 4
    leaves, edges, mism, stats = sc.explore_compare(ctx, kw, MSGS, depth)
    # one representative path per abstract state reached
    reps = {}
    for (k0, e, res, k1, path) in edges:
        reps.setdefault(k1, path)
    viol, traces, samples = [], [], []
    n = 0
    gate_viol = []
    seen_known = set()
    states = list(reps.values())
    if not ctx.thorough and len(states) > 120:
        states = ctx.rng.sample(states, 120)
    for path in states:
        if any(e[0] == 'stop' for e in path[-1:]):
            pass
        d = session.Driver(**kw)
        for e in path:
            d.apply(e)
        before = d.state()
        was_est = before[0] == 6
        pending_attempt = any(c[0] == 0 for c in before[7])
        other_open = [i for i, c in enumerate(before[7]) if c[0] == 1 and not c[1] and (not before[5] or i != before[5][0])]
        r = d.apply(('stop',))
        n += 1
        st = r[2]
        notifs = [o for o in r[1] if o[0] == 1 and o[2][0] == 3]
        if was_est and not any(o[2][1:3] == [6, 0] for o in notifs):
            viol.append({'what': 'stop in Established did not send Cease', 'events': [sc.name_of(x) for x in path], 'known': None})
        if not was_est and notifs and before[0] != 6:
            pass   # RFC asks for Cease in OpenSent/OpenConfirm too; sending one is fine
        if st[0] != 1 or st[4] or any(t[0] for t in st[6]):
            viol.append({'what': 'after stop: state %d, automatic start %s, timers %r' % (st[0], st[4], st[6]),
                         'events': [sc.name_of(x) for x in path], 'known': None})
        if before[5] and before[7][before[5][0]][0] == 1 and not any(o == [2, before[5][0]] for o in r[1]) \
                and not before[7][before[5][0]][1]:
            viol.append({'what': 'stop did not close the tracked connection', 'events': [sc.name_of(x) for x in path], 'known': None})
        # the gate of the REST send endpoints (api/utils.py: makesure_peer_establish -> _ready_to_send_msg) on the
        # real world: closed from the moment of the stop (the session model assumes API sends are possible in
        # Established only; this is where that assumption meets the code)
        if rest_gate_open():
            viol.append({'what': 'after a manual stop the REST send gate is still open (a send/update, send/bin_update or '
                                 'send/route-refresh would be written to the connection being closed)',
                         'events': [sc.name_of(x) for x in path] + [['stop']], 'known': None})
        # continuations
        d.path = list(path) + [('stop',)]
        for cont in continuations(d, 3 if ctx.thorough else 2, ctx.rng, 8):
            d2 = session.Driver(**kw)
            for e in d.path:
                d2.apply(e)
            bad = None
            for i, e in enumerate(cont):
                rr = d2.apply(e)
                n += 1
                if rr[0] and rest_gate_open() and rr[2][0] != 6 and not gate_viol:
                    gate_viol.append(1)
                    viol.append({'what': 'REST send gate open in state %d after a manual stop (event %r)' % (rr[2][0], sc.name_of(e)),
                                 'events': [sc.name_of(x) for x in d.path + list(cont[:i + 1])], 'known': None})
                if any(o[0] in (0, 1) for o in rr[1]):
                    bad = (i, e, rr[1])
                    break
            if bad:
                known = None
                if pending_attempt or other_open:
                    known = 'C13-stop-does-not-abort-attempt' if pending_attempt else \
                        'C13-stop-leaves-untracked-connection'
                if known and known in seen_known:
                    continue
                if known:
                    seen_known.add(known)
                viol.append({'what': 'after a manual stop the agent %s on event %r'
                                     % ('connected' if any(o[0] == 0 for o in bad[2]) else 'wrote a message', sc.name_of(bad[1])),
                             'events': [sc.name_of(x) for x in d.path + list(cont[:bad[0] + 1])], 'known': known})
            elif len(traces) < (400 if ctx.thorough else 120):
                traces.append((kw, d.path + list(cont) + [('start',)]))
        # manual start after the stop
        d3 = session.Driver(**kw)
        for e in d.path:
            d3.apply(e)
        s0 = d3.state()
        r3 = d3.apply(('start',))
        if not any(o[0] == 0 for o in r3[1]) or not r3[2][4] or r3[2][0] != 2:
            viol.append({'what': 'manual start after stop did not connect at once / re-enable automatic start',
                         'events': [sc.name_of(x) for x in d.path + [('start',)]], 'known': None})
        if len(samples) < 4:
            samples.append({'stop_after': [sc.name_of(x) for x in path], 'was_established': was_est,
                            'pending_attempt': pending_attempt})
    # start while up changes nothing
    d4 = session.Driver(**kw)
    for e in sc.EST_PREFIX:
        d4.apply(e)
    s_before = d4.state()
    r4 = d4.apply(('start',))
    if r4[1] or r4[2] != s_before:
        viol.append({'what': 'manual start while Established changed something', 'events': ['<established>', 'start'], 'known': None})
    runs, mism2 = sc.compare_traces(ctx, traces)
    stats['stop_states'] = len(states)
    stats['model_traces'] = len(traces)
    return {'evaluations': n, 'distinct': stats['abstract_states'],
            'rule': 'manual stop issued in every abstract state reached by the exploration (incl. with a connect attempt in '
                    'flight), followed by bounded continuations of every enabled environment event, then manual start; '
                    'distinct = abstract states in which stop was issued',
            'samples': samples, 'mismatches': mism + mism2, 'violations': viol, 'extra': stats}


def replay(ctx, obj):
    print(obj.get('violation', obj))
    return 0
