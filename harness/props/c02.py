"""C02 — the session self-heals."""
from fractions import Fraction

import env  # noqa: F401
import session
from props import session_common as sc
from props.c10 import pending

COQ_TARGETS = ['props/C02.vo', 'model/YSessionSx.vo']
TRUSTED = sc.TRUSTED
ASSUMPTIONS = sc.ASSUMPTIONS + ['the cooperative peer answers at once (zero connect time in virtual time); states with two live '
                                'connections (known finding C12-retry-while-connecting) are excluded from the recovery bound']
M = sc.ALL_MSGS
MSGS = ['open_ok', 'open_hold3', 'open_hold1', 'open_badver', 'open_wrongas', 'keepalive', 'update_bad', 'notif_version',
        'notif_cease', 'bad_marker', 'bad_len_zero', 'unknown_type']


def live(c):
    return c[0] == 0 or (c[0] == 1 and not c[1])


OPENS_SENT = []


def cooperate(d, kw, limit_s, open_name='open_ok'):
    """the peer behaves: returns (events applied, established_at or None)"""
    events = []
    start = d.sim.now
    for _ in range(200):
        st = d.state()
        if st[0] == 6:
            return events, d.sim.now - start
        if d.sim.now - start > limit_s:
            return events, None
        conns = st[7]
        proto = st[5][0] if st[5] else None
        e = None
        # closes in progress complete; connections the agent does not track are closed by the peer
        for cid, c in enumerate(conns):
            if c[0] == 1 and (c[1] or cid != proto):
                e = ('lost', cid)
                break
        if e is None:
            for cid, c in enumerate(conns):
                if c[0] == 0:
                    e = ('connok', cid)
                    break
        if e is None and proto is not None and conns[proto][0] == 1 and not conns[proto][1]:
            if st[0] == 4:
                e = ('data', proto, M[open_name])
            elif st[0] == 5:
                e = ('data', proto, M['keepalive'])
        if e is None:
            due = [t for t, _ in session.TIMER_ATTR if d.enabled(('fire', t))]
            if not due:
                return events, None
            e = ('fire', due[0])
        r = d.apply(e)
        for o in r[1]:
            if o[0] == 1 and o[2] and o[2][0] == 1:
                OPENS_SENT.append(o[2][2])      # hold time of an OPEN the agent wrote during the continuation
        events.append(e)
    return events, None


def stays_up(d, rounds):
    """keepalive exchange for `rounds` hold times; returns events applied, still established?"""
    events = []
    H = d.state()[1]
    if H == 0:
        d.apply(('advance', 3000))
        return [('advance', 3000)], d.state()[0] == 6
    end = d.sim.now + rounds * H
    nxt = d.sim.now + Fraction(H, 3)
    for _ in range(400):
        if d.sim.now >= end or d.state()[0] != 6:
            break
        nd = d.sim.next_due()
        if nd is not None and nd <= nxt:
            due = [t for t, _ in session.TIMER_ATTR if d.enabled(('fire', t))]
            e = ('fire', due[0])
        else:
            gap = nxt - d.sim.now
            if gap > 0:
                ea = ('advance', int(gap * 3))
                d.apply(ea)
                events.append(ea)
            e = ('data', 0 if not d.state()[5] else d.state()[5][0], M['keepalive'])
            nxt = nxt + Fraction(H, 3)
        d.apply(e)
        events.append(e)
    return events, d.state()[0] == 6


def run(ctx):
    viol, traces, samples = [], [], []
    n = 0
    stats_all = {}
    mism_all = []
    cfgs = [{}, {'hold_time': 9, 'connect_retry_time': 10, 'idle_hold_time': 5}]
    if ctx.thorough:
        cfgs += [{'hold_time': 0, 'connect_retry_time': 45, 'idle_hold_time': 30}, {'hold_time': 3, 'connect_retry_time': 30}]
    for kw in cfgs:
        depth = 5 if ctx.thorough else 4
        # adversarial exploration without operator commands (the operator has not stopped the peer)
        import explore
        msgs = [(nm, M[nm]) for nm in MSGS]
        orig = explore.enabled_events

        def no_operator(d, msgs_, with_api=False, max_conns=3):
            return [e for e in orig(d, msgs_) if e[0] not in ('stop', 'start')]
        explore.enabled_events = no_operator
        try:
            leaves, edges, mism, stats = sc.explore_compare(ctx, kw, MSGS, depth)
        finally:
            explore.enabled_events = orig
        stats_all[repr(kw)] = stats
        reps = {}
        for (k0, e, res, k1, path) in edges:
            reps.setdefault(k1, path)
        idle_hold = kw.get('idle_hold_time', 30)
        retry = kw.get('connect_retry_time', 30)
        limit = idle_hold + retry + 1
        for key, path in reps.items():
            d = session.Driver(**kw)
            for e in path:
                d.apply(e)
            st = d.state()
            n += 1
            if not st[4]:
                viol.append({'what': 'automatic restart is switched off although no operator stop was issued (state %d)' % st[0],
                             'config': kw, 'events': [sc.name_of(x) for x in path], 'known': None})
                continue
            if not pending(st):
                viol.append({'what': 'no reconnection pending in state %d (timers %r)' % (st[0], st[6]),
                             'config': kw, 'events': [sc.name_of(x) for x in path], 'known': None})
                continue
            if sum(1 for c in st[7] if live(c)) > 1:
                continue
            # the peer may come back with another BGP identifier (its router-id changed): every second state is
            # continued that way when the history already contains an OPEN of the old identifier
            had_open = any(e[0] == 'data' and sc.name_of(e)[-1].startswith('open') for e in path)
            open_name = 'open_ok_id2' if (had_open and n % 2 == 0) else 'open_ok'
            del OPENS_SENT[:]
            ev1, t_est = cooperate(d, kw, limit, open_name)
            if t_est is None:
                viol.append({'what': 'cooperative peer: not Established within idle_hold + connect_retry + 1 = %d s' % limit,
                             'config': kw, 'events': [sc.name_of(x) for x in path], 'peer_open': open_name,
                             'continuation': [sc.name_of(x) for x in ev1], 'known': None})
                continue
            # nothing in the past changes what the next session is offered and gets: every OPEN written during the
            # recovery carries the CONFIGURED hold time, and the session runs with min(configured, the peer's 90 s)
            cfg_h = kw.get('hold_time', 180)
            bad_open = [h for h in OPENS_SENT if h != cfg_h]
            peer_opened = any(e[0] == 'data' and e[2] == M[open_name] for e in ev1)
            if bad_open or (peer_opened and d.state()[1] != min(cfg_h, 90)):
                viol.append({'what': 'the session after recovery is not the configured one: OPEN hold times sent %r (configured %d), '
                                     'negotiated hold %r (expected %d)' % (OPENS_SENT, cfg_h, d.state()[1], min(cfg_h, 90)),
                             'config': kw, 'events': [sc.name_of(x) for x in path], 'peer_open': open_name,
                             'continuation': [sc.name_of(x) for x in ev1], 'known': None})
                continue
            ev2, up = stays_up(d, 3)
            if not up:
                viol.append({'what': 'session did not stay up for three hold times after recovery', 'config': kw,
                             'events': [sc.name_of(x) for x in path], 'known': None})
            if len(samples) < 5 and st[0] == 1:
                samples.append({'after': [sc.name_of(x) for x in path], 'established_after_s': str(t_est),
                                'continuation': [sc.name_of(x)[:2] for x in ev1]})
            if len(path) + len(ev1) + len(ev2) <= 45 and (ctx.thorough or len(traces) < 60):
                traces.append((kw, list(path) + ev1 + ev2))
        mism_all += mism
    runs, mism2 = sc.compare_traces(ctx, traces, per_shard=8)
    return {'evaluations': n + len(traces), 'distinct': sum(s['abstract_states'] for s in stats_all.values()),
            'rule': 'every abstract state reached by the adversarial exploration (refused/failed connections, resets, protocol '
                    'errors, malformed/unacceptable messages, timer expiries; no operator stop) is checked for a pending '
                    'reconnection, then continued with a cooperative peer: Established within idle_hold + connect_retry + 1 s of '
                    'virtual time and still Established three hold times later (the returning peer keeps or changes its BGP identifier); '
                    'several timer configurations',
            'samples': samples, 'mismatches': mism_all + mism2, 'violations': viol, 'extra': stats_all}


def replay(ctx, obj):
    print(obj.get('violation', obj))
    return 0
