"""C10 — hostile peer input is contained."""
import ast
import glob
import os
import signal
import struct

import env  # noqa: F401
import session
import explore
from props import session_common as sc
from props.c04 import ref_deframe

COQ_TARGETS = ['props/C10.vo', 'model/YSessionSx.vo']
TRUSTED = sc.TRUSTED
ASSUMPTIONS = sc.ASSUMPTIONS + ['CPU budget of 5 s per delivered chunk is measured on the implementation']
MARK = b'\xff' * 16
M = sc.ALL_MSGS


class CpuAlarm(BaseException):
    pass


def _alarm(signum, frame):
    raise CpuAlarm()


def harvest():
    """every bytes literal (>= 2 octets) in the unit tests, by ast"""
    out = set()
    for f in glob.glob(os.path.join(env.REPO, 'yabgp/tests/unit/**/*.py'), recursive=True):
        try:
            tree = ast.parse(open(f).read())
        except SyntaxError:
            continue
        for n in ast.walk(tree):
            if isinstance(n, ast.Constant) and isinstance(n.value, bytes) and 2 <= len(n.value) <= 4000:
                out.add(n.value)
    return sorted(out)


def mutate(rng, b):
    b = bytearray(b)
    k = rng.randrange(6)
    if not b:
        return bytes([rng.randrange(256)])
    if k == 0:
        i = rng.randrange(len(b))
        b[i] = rng.randrange(256)
    elif k == 1:
        i = rng.randrange(len(b))
        b[i] ^= 1 << rng.randrange(8)
    elif k == 2:
        del b[rng.randrange(len(b)):]
    elif k == 3:
        i = rng.randrange(len(b) + 1)
        b[i:i] = bytes(rng.randrange(256) for _ in range(rng.randrange(1, 5)))
    elif k == 4:
        i = rng.randrange(len(b))
        b[i] = rng.choice([0, 1, 0x7f, 0x80, 0xff])
    else:
        i = rng.randrange(len(b))
        j = min(len(b), i + rng.randrange(1, 9))
        del b[i:j]
    return bytes(b)


def gen_capability(rng):
    """one capability TLV (code, length, value): every code yabgp decodes with known and unknown
    families / directions / lengths, plus unknown codes"""
    afi = rng.choice([1, 2, 25, 16388, 0, 3, 65535])
    safi = rng.choice([1, 2, 4, 70, 71, 73, 128, 129, 133, 134, 0, 255])
    k = rng.randrange(9)
    if k == 0:      # multiprotocol
        val = struct.pack('!HBB', afi, rng.choice([0, 0, 7]), safi)
        code = 1
    elif k == 1:    # route refresh / cisco / enhanced
        code, val = rng.choice([2, 128, 70]), b'' if rng.random() < 0.8 else b'\x00'
    elif k == 2:    # 4-octet AS
        code, val = 65, struct.pack('!I', rng.choice([65002, 23456, 70000, 0, 4294967295]))
        if rng.random() < 0.15:
            val = val[:rng.randrange(4)]
    elif k == 3:    # ADD-PATH: 1..3 entries, known and unknown families and directions
        code = 69
        val = b''
        for _ in range(rng.randrange(1, 4)):
            val += struct.pack('!HBB', rng.choice([1, 1, 2, afi]), rng.choice([1, 1, 128, safi]),
                               rng.choice([1, 2, 3, 3, 0, 4, 255]))
        if rng.random() < 0.15:
            val = val[:-rng.randrange(1, 4)]
    elif k == 4:    # graceful restart
        code = 64
        val = struct.pack('!H', rng.randrange(65536))
        for _ in range(rng.randrange(0, 3)):
            val += struct.pack('!HBB', afi, safi, rng.choice([0, 128]))
    elif k == 5:    # long-lived graceful restart / extended next hop / dynamic / multisession / fqdn
        code = rng.choice([71, 5, 67, 68, 73, 6, 9])
        val = bytes(rng.randrange(256) for _ in range(rng.choice([0, 1, 4, 6, 7, 8, 12])))
    elif k == 6:    # unknown code
        code = rng.randrange(256)
        val = bytes(rng.randrange(256) for _ in range(rng.randrange(0, 9)))
    elif k == 7:    # empty value for a code that expects one
        code, val = rng.choice([1, 65, 69, 64]), b''
    else:           # a value as long as a capability can be
        code = rng.choice([1, 69, 64, 200])
        val = bytes(rng.randrange(256) for _ in range(rng.choice([200, 251, 252])))
    ln = len(val) if rng.random() < 0.9 else rng.choice([0, len(val) + 1, max(0, len(val) - 1), 255])
    return bytes([code, ln & 0xff]) + val


def gen_open(rng):
    """a structurally valid (mostly) OPEN body with a random capability set"""
    params = b''
    for _ in range(rng.randrange(0, 4)):
        caps = b''.join(gen_capability(rng) for _ in range(rng.randrange(1, 4)))
        if len(caps) > 255:
            caps = caps[:255]
        ptype = 2 if rng.random() < 0.9 else rng.choice([0, 1, 3, 255])
        plen = len(caps) if rng.random() < 0.92 else rng.choice([0, len(caps) + 1, max(0, len(caps) - 1)])
        params += bytes([ptype, plen & 0xff]) + caps
    params = params[:255]
    optlen = len(params) if rng.random() < 0.92 else rng.choice([0, (len(params) + 1) & 0xff, max(0, len(params) - 1)])
    return struct.pack('!BHHIB', rng.choice([4, 4, 4, 4, 3, 5]), rng.choice([65002, 65002, 65002, 23456, 65003, 0]),
                       rng.choice([90, 180, 0, 1, 2, 3, 65535]), rng.choice([0x0a000002, 0, 0xffffffff, 0x0a000001]),
                       optlen) + params


STATE_PREFIXES = {
    'OpenSent': (('boot',), ('connok', 0)),
    'OpenConfirm': (('boot',), ('connok', 0), ('data', 0, M['open_ok'])),
    'Established': sc.EST_PREFIX,
}


def pending(st):
    """the invariant C02_reconnect_pending / C10_in_session_or_reconnect_scheduled read off the abstract state:
    in session on a connected tracked transport; or (operator has not stopped the peer) Idle with the restart
    timer armed or the close of the tracked connection in progress; or Connect with the connect-retry timer armed;
    never Active"""
    state, timers, conns, auto, proto = st[0], st[6], st[7], st[4], st[5]
    tracked = conns[proto[0]] if proto and proto[0] < len(conns) else None
    if state in (4, 5, 6):
        return tracked is not None and tracked[0] == 1
    if state == 3:
        return False
    if not auto:
        return True
    if state == 1:
        return bool(timers[4][0]) or (tracked is not None and tracked[0] == 1 and tracked[2])
    return bool(timers[0][0])


def _split_update(b):
    """(withdrawn, [attribute octets], nlri) of a well-framed UPDATE body, or None"""
    if len(b) < 4:
        return None
    wl = struct.unpack('!H', b[:2])[0]
    if 4 + wl > len(b):
        return None
    al = struct.unpack('!H', b[2 + wl:4 + wl])[0]
    sec = b[4 + wl:4 + wl + al]
    if len(sec) != al:
        return None
    parts, i = [], 0
    while i < len(sec):
        if i + 3 > len(sec):
            return None
        ext = sec[i] & 0x10
        if ext and i + 4 > len(sec):
            return None
        ln = struct.unpack('!H', sec[i + 2:i + 4])[0] if ext else sec[i + 2]
        j = i + (4 if ext else 3) + ln
        if j > len(sec):
            return None
        parts.append(sec[i:j])
        i = j
    return b[2:2 + wl], parts, b[4 + wl + al:]


def _join_update(wd, parts, nlri):
    sec = b''.join(parts)
    return struct.pack('!H', len(wd)) + wd + struct.pack('!H', len(sec)) + sec + nlri


def reference_pool(lits, rng, thorough):
    """'good traffic' whose decoding a hostile message must not change, and hostile messages that exercise the same
    decoder paths.  Per well-formed UPDATE of the unit tests that carries MP_REACH / MP_UNREACH / LINK_STATE / tunnel
    attributes: its attributes in their own, reversed and rotated order (attribute order is free, RFC 4271 5) and
    well-formed NEIGHBOURS (one octet changed, still decoded without error, to a different result: another
    protocol, family, flag, length ...); hostile = the orderings made malformed AFTER their first attributes were
    decoded (a bad ORIGIN appended).  Returns (refs, [(hostile body, index into refs)])"""
    from yabgp.message.update import Update

    def dec(body):
        try:
            r = Update().parse(None, body, True, {})
        except Exception:     # noqa
            return None
        if r.get('sub_error'):
            return None
        return repr((r.get('attr'), r.get('nlri'), r.get('withdraw')))
    refs, pairs, seen = [], [], set()
    for b in lits:
        if b[:16] == b'\xff' * 16 and len(b) > 19 and b[18] == 2:
            b = b[19:]
        sp = _split_update(b)
        if not sp or len(sp[1]) < 2 or len(b) > 1500:
            continue
        codes = [p[1] for p in sp[1]]
        if not (set(codes) & {14, 15, 29, 22, 23, 40}) or len(set(codes)) != len(codes):
            continue
        mine, hostile = [], []
        for parts in (sp[1], sp[1][::-1], sp[1][1:] + sp[1][:1]):
            body = _join_update(sp[0], parts, sp[2])
            base = dec(body)
            if body in seen or base is None:
                continue
            seen.add(body)
            mine.append(body)
            hostile.append(_join_update(sp[0], parts + [bytes([0x40, 1, 1, 9])], sp[2]))
            pos = list(range(4, len(body)))
            if not thorough:
                pos = rng.sample(pos, min(len(pos), 24))
            for k in pos:
                for dlt in (1, 255):
                    nb = body[:k] + bytes([(body[k] + dlt) & 0xff]) + body[k + 1:]
                    if nb in seen:
                        continue
                    r = dec(nb)
                    if r is not None and r != base:
                        seen.add(nb)
                        mine.append(nb)
        first = len(refs)
        refs += mine
        pairs += [(h, first + k) for h in hostile for k in range(len(mine))]
    return refs, pairs


def run(ctx):
    rng = ctx.rng
    lits = harvest()
    bodies = []
    # structure-aware: every literal as an UPDATE body / attribute blob / raw, plus mutations
    n_mut = 6 if ctx.thorough else 1
    pool = lits if ctx.thorough else rng.sample(lits, min(len(lits), 140))
    for b in pool:
        for ty in (2,):
            bodies.append((ty, b))
        if len(b) < 4000:
            attr = b
            bodies.append((2, b'\x00\x00' + struct.pack('!H', len(attr)) + attr))
        for _ in range(n_mut):
            bodies.append((2, mutate(rng, b)))
            bodies.append((rng.choice([1, 3, 5, 128]), mutate(rng, b)))
    for nm in ('open_ok', 'update_ok', 'update_bad', 'notif_cease', 'route_refresh'):
        body = M[nm][19:]
        ty = M[nm][18]
        for _ in range(20 if ctx.thorough else 6):
            bodies.append((ty, mutate(rng, body)))
    # structure-aware OPENs: every capability code yabgp decodes, known/unknown families, bad lengths
    n_open = 1500 if ctx.thorough else 260
    for _ in range(n_open):
        bodies.append((1, gen_open(rng)))
    # every NOTIFICATION (code, subcode) of the RFC range and beyond, with and without data
    notif_pairs = [(c, s_) for c in range(0, 8) for s_ in range(0, 12)]
    if not ctx.thorough:
        notif_pairs = [(2, 1), (2, 2), (2, 6), (1, 1), (3, 1), (4, 0), (5, 0), (6, 2), (6, 4), (7, 0)] + rng.sample(notif_pairs, 12)
    for c, s_ in notif_pairs:
        bodies.append((3, bytes([c, s_])))
        if (c + s_) % 3 == 0:
            bodies.append((3, bytes([c, s_]) + b'\x08shutdown'))
    for _ in range(40 if ctx.thorough else 10):
        bodies.append((rng.choice([1, 2, 3, 4, 5, 128]), bytes(rng.randrange(256) for _ in range(rng.randrange(0, 64)))))
    bodies = [(ty, b) for ty, b in bodies if len(b) + 19 <= 4096]
    # baseline decode of the known-good UPDATE
    d0 = session.Driver()
    for e in sc.EST_PREFIX:
        d0.apply(e)
    d0.apply(('data', 0, M['update_ok']))
    base_payload = repr([c for c in d0.handler.calls if c[0] == 'update_received'][-1])
    # more good traffic (other families, BGP-LS, attribute orders): baselines taken before any hostile input
    refs, hpairs = reference_pool(lits, rng, ctx.thorough)
    ref_msgs = [M['update_ok']] + [MARK + struct.pack('!HB', 19 + len(r), 2) + r for r in refs]
    ref_base = [base_payload]
    for rm in ref_msgs[1:]:
        dr = session.Driver()
        for e in sc.EST_PREFIX:
            dr.apply(e)
        dr.apply(('data', 0, rm))
        ups = [c for c in dr.handler.calls if c[0] == 'update_received']
        ref_base.append(repr(ups[-1]) if ups else None)
    ref_of = {}
    # every malformed-after-decoding UPDATE followed by every reference of its own family (quick: a sample)
    pairs = [(h, j + 1) for (h, j) in hpairs if ref_base[j + 1] is not None]
    if not ctx.thorough:
        pairs = rng.sample(pairs, min(len(pairs), 300))
    for h, j in pairs:
        ref_of[len(bodies)] = j
        bodies.append((2, h))

    viol, traces, samples = [], [], []
    kinds = {'sub_error': 0, 'raise': 0, 'ok': 0, 'closed': 0}
    hangs = 0
    n = 0
    signal.signal(signal.SIGVTALRM, _alarm)
    states = list(STATE_PREFIXES.items())
    # OpenSent of a SECOND session (the first ended with a framing error; the peer may come back with another
    # BGP identifier, other capabilities, another hold time): input is delivered on connection 1
    second = tuple(sc.EST_PREFIX) + (('data', 0, M['bad_marker']), ('lost', 0), ('fire', 'TIdleHold'), ('connok', 1))
    for idx, (ty, body) in enumerate(bodies):
        sname, prefix = states[idx % 3] if ty != 2 else ('Established', sc.EST_PREFIX) if idx % 4 else states[idx % 3]
        cid = 0
        if ty == 1 and idx % 5:
            sname, prefix = states[0]       # OpenSent: the state in which an OPEN body is decoded and acted on
            if idx % 3 == 0:
                sname, prefix, cid = 'OpenSent (second session)', second, 1
        elif ty == 3 and idx % 2:
            # NOTIFICATIONs also in the OpenSent of a second session (what ended the first one must not matter)
            sname, prefix, cid = 'OpenSent (second session)', second, 1
        ri = ref_of.get(idx, 0)
        if ri:
            sname, prefix, cid = 'Established', sc.EST_PREFIX, 0
        msg = MARK + struct.pack('!HB', 19 + len(body), ty) + body
        d = session.Driver()
        for e in prefix:
            d.apply(e)
        # ... and finally the TCP connection goes away (completing a close the agent started, or a peer reset):
        # the reconnect must be scheduled after that too
        events = [('data', cid, msg), ('data', cid, ref_msgs[ri]), ('data', cid, M['keepalive']), ('lost', cid)]
        n += 1
        n_rep0 = len(d.handler.calls)
        st_before = d.state()
        try:
            signal.setitimer(signal.ITIMER_VIRTUAL, 5.0)
            res = [d.apply(e) for e in events]
            signal.setitimer(signal.ITIMER_VIRTUAL, 0)
        except CpuAlarm:
            signal.setitimer(signal.ITIMER_VIRTUAL, 0)
            viol.append({'what': 'CPU budget exceeded (decoder hang) in state %s' % sname, 'type': ty,
                         'body': body.hex(), 'known': None})
            hangs += 1
            if hangs >= 3:      # each one costs the whole CPU budget: three witnesses are enough
                break
            continue
        outs = res[0][1]
        if any(o == [4] for r in res for o in r[1]):
            viol.append({'what': 'exception escaped dataReceived in state %s' % sname, 'type': ty,
                         'body': body.hex(), 'known': None})
        reps = [o for o in outs if o[0] == 3 and o[1] in (4, 5, 6, 7, 8, 105, 228)]
        if len(reps) > 1:
            viol.append({'what': 'more than one report for one message', 'type': ty, 'body': body.hex(),
                         'reports': reps, 'known': None})
        closed = any(o[0] == 2 for o in outs)
        cls = (d.tables['upd4'].get(body) or d.tables['upd2'].get(body)) if ty == 2 else None
        if ty == 2 and sname == 'Established':
            kinds['sub_error' if cls == 'UpSubErr' else 'raise' if cls == 'UpExc' else 'ok'] += 1
            if closed or res[0][2][0] != 6:
                viol.append({'what': 'an UPDATE body (%s) tore down the Established session' % cls,
                             'body': body.hex(), 'known': None})
            else:
                # the messages after it decode as before
                ups = [c for c in d.handler.calls if c[0] == 'update_received']
                if not ups or repr(ups[-1]) != ref_base[ri]:
                    viol.append({'what': 'decoding of the following good UPDATE changed after this body',
                                 'body': body.hex(), 'following_update': ref_msgs[ri].hex(), 'known': None})
        if closed:
            kinds['closed'] += 1
        for r in res:
            if r[0] and not r[2][4]:
                viol.append({'what': 'automatic restart was switched off by peer input (no operator stop) in state %s' % sname,
                             'type': ty, 'body': body.hex(), 'known': None})
                break
            if r[0] and not pending(r[2]):
                viol.append({'what': 'neither in session nor reconnect pending after input in state %s' % sname,
                             'type': ty, 'body': body.hex(), 'state': r[2][:7], 'known': None})
                break
        if len(samples) < 5:
            samples.append({'state': sname, 'type': ty, 'body': body.hex()[:80], 'class': cls,
                            'closed': closed, 'reports': len(reps)})
        if idx % (4 if ctx.thorough else 2) == 0:
            traces.append(({}, list(prefix) + events))
    runs, mism = sc.compare_traces(ctx, traces, per_shard=25)
    return {'evaluations': n + len(traces), 'distinct': len({b for _, b in bodies}),
            'rule': 'bodies = every bytes literal of the unit tests (as UPDATE body, as attribute block) + byte/bit/'
                    'length mutations + mutated known-good OPEN/UPDATE/NOTIFICATION/ROUTE-REFRESH + structure-aware OPENs (random '
                    'capability sets: every decoded code, known/unknown families and directions, bad lengths) + random; delivered in '
                    'OpenSent/OpenConfirm/Established, followed by a known-good UPDATE and KEEPALIVE; distinct = distinct bodies',
            'samples': samples, 'mismatches': mism, 'violations': viol,
            'extra': {'unit_test_literals': len(lits), 'bodies': len(bodies), 'reference_updates': len(ref_msgs), 'hostile_then_reference_pairs': len(pairs), 'model_traces': len(traces),
                      'update_in_established': kinds}}


def replay(ctx, obj):
    print(obj.get('violation', obj))
    return 0
