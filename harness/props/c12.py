"""C12 — at most one TCP connection or attempt; writes go to the tracked connection."""
import env  # noqa: F401
import session
from props import session_common as sc

COQ_TARGETS = ['props/C12.vo', 'model/YSessionSx.vo']
TRUSTED = sc.TRUSTED
ASSUMPTIONS = sc.ASSUMPTIONS + ['a TCP connect timeout is a connection failure delivered by the driver at any time']
MSGS = ['open_ok', 'open_hold1', 'keepalive', 'update_ok', 'notif_cease', 'notif_version', 'bad_marker']


def live(conn):
    return conn[0] == 0 or (conn[0] == 1 and not conn[1])


def check_path(kw, path):
    """returns list of violations (dicts) for one event path"""
    d = session.Driver(**kw)
    out = []
    double = None            # how the first overlap came about
    prev_live = 0
    stale = False
    outside_regime = False
    for i, e in enumerate(path):
        before = d.state()
        # the triggers of the two known findings (exactly the guard of C12_at_most_one_outside_known_findings):
        # after one of them the single-connection regime, and with it the timer obligation below, is void
        if (e == ('fire', 'TConnectRetry') or e[0] == 'start' or (e[0] == 'boot' and i > 0)) and \
                any(c[0] == 0 for c in before[7]) and d.enabled(e):
            outside_regime = True
        r = d.apply(e)
        st = r[2]
        conns = st[7]
        n = sum(1 for c in conns if live(c))
        if n > 1 and prev_live <= 1 and double is None:
            older_connecting = any(c[0] == 0 for c in before[7])
            if e == ('fire', 'TConnectRetry') and older_connecting:
                double = 'C12-retry-while-connecting'
            elif e[0] == 'start' and older_connecting:
                double = 'C12-start-while-connecting'
            else:
                double = 'NEW'
            out.append({'what': '%d live connections/attempts after %r (older attempt still pending: %s)'
                                % (n, sc.name_of(e), older_connecting),
                        'events': [sc.name_of(x) for x in path[:i + 1]],
                        'known': None if double == 'NEW' else double})
        prev_live = n
        # every write goes to the connection the FSM tracks after the step
        proto = st[5][0] if st[5] else None
        for o in r[1]:
            if o[0] == 1 and o[1] != proto:
                out.append({'what': 'message written to connection %d while the FSM tracks %r' % (o[1], proto),
                            'events': [sc.name_of(x) for x in path[:i + 1]], 'known': None})
        # proof obligation TQ of the single-connection invariant, as an oracle: outside a session neither
        # the hold nor the keepalive timer is pending (their expiry in Connect re-arms the restart timer
        # without aborting the attempt in flight, so a second attempt overlaps it)
        if st[0] in (1, 2, 3) and (st[6][1][0] or st[6][2][0]) and not stale and not outside_regime:
            stale = True
            out.append({'what': 'hold/keepalive timer of the ended session still pending in state %d after %r '
                                '(its expiry in Connect starts a second attempt over the one in flight)'
                                % (st[0], sc.name_of(e)),
                        'events': [sc.name_of(x) for x in path[:i + 1]], 'known': None})
        # no connection left open and unreferenced
        for cid, c in enumerate(conns):
            if c[0] == 1 and not c[1] and cid != proto:
                out.append({'what': 'connection %d is open, not being closed and not tracked by the FSM' % cid,
                            'events': [sc.name_of(x) for x in path[:i + 1]],
                            'known': double if double and double != 'NEW' else None})
                break
    return out


def late_close_scenarios():
    """the close of an old connection completes only after the next session is up (a legal TCP timing the
    breadth-first exploration would need depth > 10 to reach)"""
    M = sc.ALL_MSGS
    out = []
    for state_prefix in (sc.EST_PREFIX, sc.EST_PREFIX[:3], sc.EST_PREFIX[:2]):
        for trigger in ('notif_cease', 'bad_marker', 'notif_version', 'unknown_type'):
            base = list(state_prefix) + [('data', 0, M[trigger])]
            nxt = [('fire', 'TIdleHold'), ('connok', 1), ('data', 1, M['open_ok']), ('data', 1, M['keepalive'])]
            for cut in range(len(nxt) + 1):
                # the old connection's loss arrives after `cut` steps of the new session's start-up
                tail = [('fire', 'TIdleHold'), ('fire', 'TConnectRetry'), ('fire', 'TKeepAlive'), ('fire', 'TIdleHold')]
                out.append(base + nxt[:cut] + [('lost', 0)] + nxt[cut:] + tail)
                # ... and the restart timer (if the late close armed one) expires before the peer answers
                out.append(base + nxt[:cut] + [('lost', 0), ('fire', 'TIdleHold')] + nxt[cut:] + tail)
    return out


def run(ctx):
    viol, mism, samples = [], [], []
    n = 0
    stats_all = {}
    seen_known = set()
    for retry in ((10, 30, 45) if ctx.thorough else (30, 10)):
        kw = {'connect_retry_time': retry}
        depth = 6 if ctx.thorough else (5 if retry == 30 else 4)
        leaves, edges, m, stats = sc.explore_compare(ctx, kw, MSGS, depth)
        mism += m
        stats_all['retry_%d' % retry] = stats
        for path, _, _, _ in leaves:
            n += 1
            for v in check_path(kw, path):
                if v['known']:
                    if v['known'] in seen_known:
                        continue
                    seen_known.add(v['known'])
                viol.append(v)
        samples.append({'retry': retry, 'example_path': [sc.name_of(e) for e in leaves[len(leaves) // 2][0]]})
    # directed: late completion of a close
    scen = late_close_scenarios()
    kw = {}
    for path in scen:
        n += 1
        # events that are not enabled at their turn are skipped by the driver (apply returns enabled = False)
        for v in check_path(kw, path):
            if v['known']:
                if v['known'] in seen_known:
                    continue
                seen_known.add(v['known'])
            viol.append(v)
    runs, mism2 = sc.compare_traces(ctx, [(kw, p) for p in scen], per_shard=10)
    mism += mism2
    stats_all['late_close_scenarios'] = len(scen)
    return {'evaluations': n, 'distinct': sum(s['abstract_states'] for s in stats_all.values() if isinstance(s, dict)),
            'rule': 'breadth-first exploration (state de-duplication) over the full alphabet with no restriction on when a '
                    'pending connect is answered or when stop/start are issued, every order of same-instant expiries, '
                    'connect-retry time below/equal/above the 30 s connect timeout; after every step: live connections <= 1, '
                    'writes only to the tracked connection, no open untracked connection; distinct = abstract states',
            'samples': samples, 'mismatches': mism, 'violations': viol, 'extra': stats_all}


def replay(ctx, obj):
    print(obj.get('violation', obj))
    return 0
