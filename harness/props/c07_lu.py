"""C07 family 4: IPv4 / IPv6 labeled unicast (SAFI 4)."""
from props.c07 import Family, ip6, ip4, caddr, mask, coq_list, coq_bytes, size_targets, fill_sizes
from props.c07_vpn import LABELS, WITHDRAW_LABEL, render_low, cplen


class Lu(Family):
    def __init__(self, v6):
        self.v6 = v6
        self.bits = 128 if v6 else 32
        self.afi = 2 if v6 else 1
        self.name = 'labeled_unicast_v6' if v6 else 'labeled_unicast_v4'
        self.imports = 'From YV Require Import lib.Base gen.Consts model.YMp model.YLabel model.YVpn model.YLu.\n'
        self.K_LABEL0 = 'C07-%s-last-label-0-without-bottom-of-stack' % self.name
        self.K_LOW = 'C07-labeled_unicast_v6-low-address-as-ipv4'
        self.K_UNREACH = ('C07-labeled_unicast_v6-unreach-not-constructed' if v6
                          else 'C07-labeled_unicast_v4-unreach-not-parsed')

    def text(self, a):
        return ip6(a) if self.v6 else ip4(a)

    def gen(self, ctx):
        rng = ctx.rng
        bits = self.bits
        cases = []

        def rnd_addr(l, low=False):
            a = rng.getrandbits(bits) | (1 << (bits - 1))
            if low and self.v6:
                a = rng.getrandbits(32)
            return mask(a, l, bits)

        def rnd_route(l=None, labels=None, low=False):
            if l is None:
                l = rng.choice([0, 1, 7, 8, 9, 15, 16, 17, 23, 24, 25, bits - 1, bits, rng.randrange(bits + 1)])
            if labels is None:
                labels = [rng.choice(LABELS[1:] + [rng.randrange(1, 2 ** 20)])]
                if rng.random() < .25:
                    labels = [rng.choice(LABELS + [rng.randrange(2 ** 20)])] + labels
            return (labels, rnd_addr(l, low), l)

        def rnd_nh(nh6=None, high=False):
            """(address, address is IPv6): the next-hop version is crossed with the family - netaddr packs the
            ADDRESS, 4 or 16 octets, whatever the routes are (IPv6 next hop for IPv4 labeled routes: RFC 8950)"""
            if nh6 is None:
                nh6 = rng.random() < .5
            nb = 128 if nh6 else 32
            ip = rng.choice([rng.getrandbits(nb) | 1 << (nb - 1), 2 ** nb - 1,
                             (0xffff << 32 | rng.getrandbits(32)) if nh6 else rng.getrandbits(32)])
            return (ip | 1 << (nb - 1) if high else ip, nh6)

        def add(kind, routes, nh=None):
            cls = []
            if kind == 'reach':
                if any(r[0][-1] == 0 for r in routes):
                    cls.append('last-label-0')
            else:
                routes = [([WITHDRAW_LABEL], r[1], r[2]) for r in routes]
                cls.append('unreach')
            if self.v6 and kind == 'reach' and (any(r[1] < 2 ** 32 for r in routes) or (nh[1] and nh[0] < 2 ** 32)):
                cls.append('address-below-2^32')
            cases.append({'fam': self.name, 'kind': kind, 'v': {'routes': routes, 'nh': nh}, 'cls': cls})

        for l in range(bits + 1):
            add('reach', [rnd_route(l)], rnd_nh())
            if self.v6 and (ctx.thorough or l % 16 == 0 or l > 120):
                add('reach', [rnd_route(l, low=True)], rnd_nh())
        for lab in LABELS:
            for l in (0, 8, 20, bits):
                add('reach', [rnd_route(l, [lab])], rnd_nh())
            add('reach', [rnd_route(24, [lab, 17])], rnd_nh())
            add('reach', [rnd_route(24, [17, lab])], rnd_nh())
            add('reach', [rnd_route(24, [16, lab, 18])], rnd_nh())
        # next-hop boundaries, both address versions on this family (an IPv6 next hop below 2^32 is the known
        # low-address class and is only generated for the IPv6 family, whose known finding names it)
        for nh in ((0, False), (1, False), (2 ** 31, False), (2 ** 32 - 1, False),
                   (2 ** 32, True), (2 ** 128 - 1, True), (0x20010db8 << 96 | 1, True), (0xfe80 << 112 | 1, True),
                   (0xffff << 32 | 0xac10040c, True)) + (((0, True), (1, True), (2 ** 32 - 1, True)) if self.v6 else ()):
            add('reach', [rnd_route()], nh)
            add('reach', [rnd_route(), rnd_route()], nh)
        for l in (0, 1, 8, bits - 1, bits):
            for nh6 in (False, True):
                add('reach', [rnd_route(l)], rnd_nh(nh6))
        for _ in range(300 if ctx.thorough else 40):
            n = rng.choice([2, 2, 3, 5, 8])
            rs = [rnd_route(None, [0] if rng.random() < .04 else None, low=rng.random() < .1) for _ in range(n)]
            add('reach', rs, rnd_nh())
        for l in (0, 8, 24, bits):
            add('unreach', [rnd_route(l)])
        add('unreach', [rnd_route(), rnd_route()])
        # ---- encoded-size boundaries: attribute value length, MP_REACH (a route with one label takes
        # 1 + 3 + ceil(l/8) octets; l >= 1).  (MP_UNREACH of this family is a known finding as a whole.)
        for target, ok in size_targets(ctx):
            room = target - (5 + bits // 8)
            rs = [rnd_route(rng.randrange(8 * (k - 5) + 1, 8 * (k - 4) + 1), [rng.randrange(1, 2 ** 20)])
                  for k in fill_sizes(room, range(5, 5 + bits // 8), rng)]
            add('reach', rs, rnd_nh(self.v6, high=True))        # the size arithmetic above assumes this next hop
            cases[-1]['huge'] = target > 60000
            if not ok:
                cases[-1]['unencodable'] = 'attribute value of %d octets' % target
        c = {'fam': self.name, 'kind': 'reach', 'v': {'routes': [], 'nh': rnd_nh()}, 'cls': [], 'empty': True}
        cases.append(c)
        return cases

    def impl_value(self, case):
        v = case['v']
        nl = [{'label': list(r[0]), 'prefix': '%s/%d' % (self.text(r[1]), r[2])} for r in v['routes']]
        if case['kind'] == 'unreach':
            return {'afi_safi': (self.afi, 4), 'withdraw': nl}
        return {'afi_safi': (self.afi, 4), 'nexthop': ip6(v['nh'][0]) if v['nh'][1] else ip4(v['nh'][0]), 'nlri': nl}

    def coq_routes(self, rs):
        return coq_list(rs, lambda r: 'mk_lroute %s %d %d' % (coq_list(r[0]), r[1], r[2]))

    def coq_construct(self, case):
        v = case['v']
        b = 'true' if self.v6 else 'false'
        if case['kind'] == 'reach':
            return 'sx_res sx_optbytes (reachlu_construct_x %s %s %d %s)' % (
                b, 'true' if v['nh'][1] else 'false', v['nh'][0], self.coq_routes(v['routes']))
        return 'sx_res sx_optbytes (unreachlu_construct %s %s)' % (b, self.coq_routes(v['routes']))

    def coq_parse(self, case, octets):
        b = 'true' if self.v6 else 'false'
        if case['kind'] == 'reach':
            return 'sx_res sx_reachlu (reachlu_parse %s %s)' % (b, coq_bytes(octets))
        return 'sx_res sx_unreachlu (unreachlu_parse %s %s)' % (b, coq_bytes(octets))

    @staticmethod
    def canon_route(x):
        a, l = x['prefix'].split('/')
        return [list(x['label']), caddr(a), cplen(l)]

    def canon(self, case, p):
        assert tuple(p['afi_safi']) == (self.afi, 4)
        if case['kind'] == 'reach':
            return [[caddr(p['nexthop'])] if p['nexthop'] != '' else [], [self.canon_route(x) for x in p['nlri']]]
        if isinstance(p['withdraw'], str):
            return []                      # repr(bytes): not decoded at all  (= sx_unreachlu None)
        return [[self.canon_route(x) for x in p['withdraw']]]

    def expected(self, case, render=None):
        ver = 6 if self.v6 else 4
        render = render or (lambda a: [ver, a])
        v = case['v']
        rs = [[list(r[0]), render(r[1]), r[2]] for r in v['routes']]
        if case['kind'] == 'unreach':
            return [rs]
        ip, nh6 = v['nh']
        return [[[4, ip] if not nh6 else (render_low(ip) if render is render_low else [6, ip])], rs]

    def classify(self, case, stage, obs):
        cls = case['cls']
        if 'unreach' in cls:
            if self.v6 and stage == 'construct-none':
                return self.K_UNREACH
            if not self.v6 and stage == 'differs' and obs == []:
                return self.K_UNREACH
            return None
        if stage in ('differs', 'parse-exc') and 'last-label-0' in cls:
            return self.K_LABEL0
        if stage == 'differs' and 'address-below-2^32' in cls and obs == self.expected(case, render_low):
            return self.K_LOW
        return None


FAMILIES = [Lu(False), Lu(True)]
