"""C05 — each session's OPEN and its acceptance policy depend only on configuration."""
import struct

import env  # noqa: F401
import netaddr
import session
import explore
from props import session_common as sc

COQ_TARGETS = ['props/C05.vo', 'model/YSessionSx.vo']
TRUSTED = sc.TRUSTED
ASSUMPTIONS = sc.ASSUMPTIONS
M = sc.ALL_MSGS
AS_TRANS = 23456


def peer_open(remote_as, hold=90, version=4, caps=('mp', 'rr', 'as4'), wrong_as=None, field=None):
    asn = remote_as if wrong_as is None else wrong_as
    if field is None:
        field = asn if asn < 65536 else AS_TRANS
    cl = []
    if 'mp' in caps:
        cl.append(b'\x02\x06\x01\x04\x00\x01\x00\x01')
    if 'rr' in caps:
        cl.append(b'\x02\x02\x02\x00')
    if 'crr' in caps:
        cl.append(b'\x02\x02\x80\x00')
    if 'err' in caps:
        cl.append(b'\x02\x02\x46\x00')
    if 'gr' in caps:
        cl.append(b'\x02\x04\x40\x02\x00\x78')
    if 'as4' in caps or asn >= 65536:
        cl.append(b'\x02\x06\x41\x04' + struct.pack('!I', asn))
    opt = b''.join(cl)
    body = struct.pack('!BHHIB', version, field, hold, int(netaddr.IPAddress('10.0.0.2')), len(opt)) + opt
    return explore.frame(1, body)


def expected_caps(local_as, caps):
    """what the property allows in the OPEN: exactly the configured set, RFC encodings"""
    out = []
    for afi, safi in caps.get('afi_safi', [(1, 1)]):
        out.append([1, struct.pack('!HBB', afi, 0, safi)])
    if caps.get('cisco_route_refresh'):
        out.append([128, b''])
    if caps.get('route_refresh'):
        out.append([2, b''])
    if local_as > 65535 or caps.get('four_bytes_as'):
        out.append([65, struct.pack('!I', local_as)])
    if caps.get('add_path'):
        out.append([69, struct.pack('!HBB', 1, 1, {'ipv4_receive': 1, 'ipv4_send': 2, 'ipv4_both': 3}[caps['add_path']])])
    if caps.get('enhanced_route_refresh'):
        out.append([70, b''])
    return out


def update_with_aspath(asn4, path):
    seg = bytes([2, len(path)]) + b''.join(struct.pack('!I' if asn4 else '!H', a) for a in path)
    attrs = b'\x40\x01\x01\x00' + b'\x40\x02' + bytes([len(seg)]) + seg + b'\x40\x03\x04\x0a\x00\x00\x01'
    body = b'\x00\x00' + struct.pack('!H', len(attrs)) + attrs + b'\x18\x0a\x0a\x0a'
    return explore.frame(2, body)


def session_events(d, cid, peer_open_bytes, then_lost=True):
    evs = [('connok', cid), ('data', cid, peer_open_bytes), ('data', cid, M['keepalive'])]
    return evs


def run(ctx):
    rng = ctx.rng
    viol, traces, samples = [], [], []
    n = 0
    seen_known = set()
    local_ases = [64512, 65535, 65536, 4200000000]
    remote_ases = [65002, 65535, 65536, 4200000001]
    holds = [180, 90, 3, 0] if ctx.thorough else [180, 3, 0]
    cap_cfgs = [dict(env.DEFAULT_CAPS),
                dict(env.DEFAULT_CAPS, four_bytes_as=False),
                dict(env.DEFAULT_CAPS, route_refresh=False, cisco_route_refresh=False, enhanced_route_refresh=False),
                dict(env.DEFAULT_CAPS, add_path='ipv4_both')]
    histories = [
        [],
        [('ok', ('mp', 'rr', 'as4'), 90)],
        [('ok', ('mp',), 30)],
        [('ok', (), 0)],
        [('hold1', ('mp', 'as4'), 1)],
        [('wrongas', ('mp', 'as4'), 90)],
        [('badver', ('mp',), 90)],
        [('ok', ('mp', 'as4'), 9), ('hold1', (), 2), ('ok', ('rr',), 65535)],
        # the true AS is the 4-octet capability value whatever the 2-octet field says
        [('capas_ok', ('mp', 'as4'), 90)],
        [('capas_wrong', ('mp', 'as4'), 90)],
        # a peer that really is AS 23456 (AS_TRANS in the 2-octet field, without or with the capability): it is
        # not the configured remote AS, whatever that is
        [('trans_nocap', ('mp',), 90)],
        [('trans_cap', ('mp', 'as4'), 90)],
    ]
    combos = []
    for la in local_ases:
        for ra in remote_ases:
            for h in holds:
                for ci, caps in enumerate(cap_cfgs):
                    combos.append((la, ra, h, ci, caps))
    if not ctx.thorough:
        combos = rng.sample(combos, 40) + [c for c in combos if c[0] == 65536 and c[3] == 1][:2]
    for la, ra, h, ci, caps in combos:
        kw = {'local_as': la, 'remote_as': ra, 'hold_time': h, 'caps': caps}
        want_caps = expected_caps(la, dict(caps, afi_safi=[(1, 1)]))
        for hist in histories:
            d = session.Driver(**kw)
            events = [('boot',)]
            d.apply(events[0])
            cid = 0
            opens = []
            ok = True
            for kind, pcaps, phold in hist + [('final', ('mp', 'rr', 'as4'), 90)]:
                r = d.apply(('connok', cid))
                events.append(('connok', cid))
                n += 1
                ow = [o[2] for o in r[1] if o[0] == 1 and o[2][0] == 1]
                if len(ow) != 1:
                    viol.append({'what': 'no single OPEN at connection start', 'config': kw, 'history': hist, 'known': None})
                    ok = False
                    break
                _, asn_f, hold_f, bid, capl = ow[0]
                opens.append(ow[0])
                exp_field = la if la <= 65535 else AS_TRANS
                problems = []
                if asn_f != exp_field:
                    problems.append('My-AS field %d, expected %d' % (asn_f, exp_field))
                if hold_f != h:
                    problems.append('hold time %d, configured %d' % (hold_f, h))
                if bid != int(netaddr.IPAddress('10.0.0.1')):
                    problems.append('identifier changed: %d' % bid)
                got = [[c[0], bytes(c[1])] for c in capl if len(c) > 1]
                extra = [c for c in got if c not in want_caps]
                missing = [c for c in want_caps if c not in got]
                if extra:
                    problems.append('capabilities outside the configured set: %r' % extra)
                known = None
                if missing and not extra and not problems:
                    known = 'C05-capability-pruning' if any(x[0] == 'ok' for x in hist[:len(opens) - 1]) or len(opens) > 1 else None
                    problems.append('configured capabilities missing after earlier sessions: %r' % [m[0] for m in missing])
                if problems:
                    if not (known and known in seen_known):
                        viol.append({'what': '; '.join(problems), 'config': {k: (v if k != 'caps' else ci) for k, v in kw.items()},
                                     'history': hist, 'session': len(opens), 'known': known})
                    if known:
                        seen_known.add(known)
                # the peer's OPEN of this session
                if kind in ('ok', 'final'):
                    po = peer_open(ra, hold=phold, caps=pcaps)
                elif kind == 'hold1':
                    po = peer_open(ra, hold=phold, caps=pcaps)
                elif kind == 'wrongas':
                    po = peer_open(ra, caps=pcaps, wrong_as=ra + 1)
                elif kind in ('trans_nocap', 'trans_cap'):
                    po = peer_open(ra, hold=phold, caps=pcaps, wrong_as=AS_TRANS)
                elif kind == 'capas_ok':      # 2-octet field is some other AS, capability 65 carries the configured AS
                    po = peer_open(ra, hold=phold, caps=pcaps, field=64999)
                elif kind == 'capas_wrong':   # 2-octet field looks right, capability 65 says otherwise
                    po = peer_open(ra, hold=phold, caps=pcaps, wrong_as=ra + 1,
                                   field=(ra if ra < 65536 else AS_TRANS))
                else:
                    po = peer_open(ra, caps=pcaps, version=3)
                r2 = d.apply(('data', cid, po))
                events.append(('data', cid, po))
                notifs = [o[2][1:3] for o in r2[1] if o[0] == 1 and o[2][0] == 3]
                kas = [o for o in r2[1] if o[0] == 1 and o[2][0] == 4]
                Hn = min(h, phold)
                if kind == 'badver':
                    exp = ('reject', [2, 1])
                elif kind in ('wrongas', 'capas_wrong', 'trans_nocap', 'trans_cap'):
                    exp = ('reject', [2, 2])
                elif phold in (1, 2):
                    exp = ('reject', [2, 6])
                else:
                    exp = ('accept', None)
                if exp[0] == 'reject':
                    if notifs != [exp[1]] or r2[2][0] != 1:
                        kid = None
                        if not (kid and kid in seen_known):
                            viol.append({'what': 'peer OPEN (%s, hold %d) answered %r state %d, expected NOTIFICATION %r and Idle'
                                                 % (kind, phold, notifs, r2[2][0], exp[1]),
                                         'config': {k: (v if k != 'caps' else ci) for k, v in kw.items()}, 'history': hist, 'known': kid})
                        if kid:
                            seen_known.add(kid)
                else:
                    if notifs or not kas or r2[2][0] != 5 or r2[2][1] != Hn:
                        viol.append({'what': 'acceptable peer OPEN (%s, hold %d): notifs %r state %d hold %r (expected OpenConfirm, hold %d)'
                                             % (kind, phold, notifs, r2[2][0], r2[2][1], Hn), 'config': kw, 'history': hist, 'known': None})
                    else:
                        # 4-octet AS parsing iff both advertised
                        both = ('as4' in pcaps or ra >= 65536) and (la > 65535 or bool(caps.get('four_bytes_as')))
                        conn = r2[2][7][cid]
                        if bool(conn[4]) != both:
                            kid = 'C05-asn4-without-local-capability' if conn[4] and not both else None
                            if not (kid and kid in seen_known):
                                viol.append({'what': 'connection parses %s-octet AS numbers; both sides advertised the capability: %s'
                                                     % ('4' if conn[4] else '2', both), 'config': {k: (v if k != 'caps' else ci) for k, v in kw.items()},
                                             'history': hist, 'known': kid})
                            if kid:
                                seen_known.add(kid)
                        elif kind == 'final':
                            d.apply(('data', cid, M['keepalive']))
                            events.append(('data', cid, M['keepalive']))
                            path = [ra if ra < 65536 or conn[4] else AS_TRANS, 64999]
                            upd = update_with_aspath(bool(conn[4]), path)
                            nb = len(d.handler.calls)
                            d.apply(('data', cid, upd))
                            events.append(('data', cid, upd))
                            got_u = [c for c in d.handler.calls[nb:] if c[0] == 'update_received']
                            if not got_u or got_u[0][1]['attr'].get(2) != [(2, path)]:
                                viol.append({'what': 'AS_PATH delivered %r, sent %r' % (got_u and got_u[0][1]['attr'].get(2), path),
                                             'config': kw, 'history': hist, 'known': None})
                if kind == 'final':
                    break
                # end this session and let the agent reconnect
                for e in ([('lost', cid)] if d.enabled(('lost', cid)) else []) + [('fire', 'TIdleHold')]:
                    if d.enabled(e):
                        d.apply(e)
                        events.append(e)
                cid += 1
                if cid >= len(d.sim.connectors):
                    ok = False
                    break
            if ok and len(events) <= 40 and (ctx.thorough or rng.random() < 0.25):
                traces.append((kw, events))
            if len(samples) < 4 and hist:
                samples.append({'local_as': la, 'remote_as': ra, 'hold': h, 'caps_cfg': ci, 'history': [x[0] for x in hist],
                                'opens': [[o[1], o[2], [c[0] for c in o[4]]] for o in opens]})
    runs, mism = sc.compare_traces(ctx, traces, per_shard=10)
    return {'evaluations': n + len(traces), 'distinct': len(combos) * len(histories),
            'rule': 'local/remote AS over the 2-/4-octet boundary x configured hold x capability configurations x histories of '
                    'previous sessions (accepted with different capability sets and hold times, rejected: hold 1/2, wrong AS, '
                    'bad version) before the observed session; the OPEN of every session is compared with the configuration, '
                    'every peer OPEN with the acceptance policy, and the AS_PATH delivered in the last session with the mode '
                    'both sides advertised; distinct = configuration x history combinations',
            'samples': samples, 'mismatches': mism, 'violations': viol,
            'extra': {'configurations': len(combos), 'histories': len(histories), 'model_traces': len(traces)}}


def replay(ctx, obj):
    print(obj.get('violation', obj))
    return 0
