"""C07 family 5: IPv4 flow specification (AFI 1, SAFI 133), OR-ed operator lists."""
import re

from props.c07 import Family, ip4, caddr, mask, coq_list, coq_bytes, coq_opt

CMP_TEXT = {1: '=', 2: '>', 3: '>=', 4: '<', 5: '<='}
OP_TYPES = [3, 4, 5, 6, 7, 8, 9, 10, 11]
K_PFX0 = 'C07-flowspec-prefix-length-0'
K_LEN3 = 'C07-flowspec-3-octet-operator-value'
K_T9 = 'C07-flowspec-tcp-flags-component-dropped'
K_LONG = 'C07-flowspec-nlri-240-octets-or-longer'
ITEM = re.compile(r'([&|]?)(>?)(<?)(=?)(\d+)')


def ops_text(ops):
    return '|'.join('%s%d' % (CMP_TEXT[c], v) for c, v in ops)


def cops(text):
    out, pos = [], 0
    while pos < len(text):
        m = ITEM.match(text, pos)
        assert m and m.end() > pos, text
        out.append([1 if m.group(1) == '&' else 0,
                    (2 if m.group(2) else 0) + (4 if m.group(3) else 0) + (1 if m.group(4) else 0), int(m.group(5))])
        pos = m.end()
    return out


def cflow(d):
    out = []
    for k in sorted(d):
        if k in (1, 2):
            a, l = d[k].split('/')
            out.append([k, [caddr(a)[1], int(l)]])
        else:
            out.append([k, cops(d[k])])
    return out


def nbytes(v):
    return max(1, (v.bit_length() + 7) // 8)


class Flow4(Family):
    name = 'ipv4_flowspec'
    imports = 'From YV Require Import lib.Base gen.Consts model.YMp model.YFlow4.\n'

    def gen(self, ctx):
        rng = ctx.rng
        cases = []
        values = [0, 1, 255, 256, 65535, 65536, 2 ** 24 - 1, 2 ** 24, 2 ** 32 - 1]

        def pfx(l=None):
            if l is None:
                l = rng.choice([1, 8, 9, 16, 17, 24, 25, 32, rng.randrange(1, 33)])
            return (mask(rng.getrandbits(32) | 1 << 31, l, 32), l)

        def rnd_ops():
            return [(rng.choice([1, 2, 3, 4, 5]),
                     rng.choice([rng.randrange(256), rng.randrange(256, 65536), rng.randrange(2 ** 24, 2 ** 32),
                                 rng.choice(values)]) if rng.random() < .9 else rng.randrange(65536, 2 ** 24))
                    for _ in range(rng.choice([1, 1, 2, 3, 5]))]

        def rnd_flow():
            f = {'dst': pfx() if rng.random() < .7 else None, 'src': pfx() if rng.random() < .4 else None, 'ops': {}}
            for t in rng.sample([3, 4, 5, 6, 7, 8, 10, 11], rng.choice([0, 1, 2, 4, 8])):
                f['ops'][t] = rnd_ops()
            if rng.random() < .05:
                f['ops'][9] = [(1, rng.randrange(64))]
            if not f['dst'] and not f['src'] and not f['ops']:
                f['dst'] = pfx()
            return f

        def size(f):
            n = sum(2 + (p[1] + 7) // 8 for p in (f['dst'], f['src']) if p)
            return n + sum(1 + sum(1 + nbytes(v) for _, v in o) for t, o in f['ops'].items() if t != 9)

        def add(kind, flows, nh=None):
            cls = []
            for f in flows:
                if any(p is not None and p[1] == 0 for p in (f['dst'], f['src'])):
                    cls.append('prefix-length-0')
                if any(nbytes(v) == 3 for t, o in f['ops'].items() for _, v in o if t != 9):
                    cls.append('3-octet-operator-value')
                if 9 in f['ops']:
                    cls.append('tcp-flags-component')
                if size(f) >= 240:
                    cls.append('nlri-240-octets-or-longer')
            cases.append({'fam': self.name, 'kind': kind, 'v': {'flows': flows, 'nh': nh},
                          'cls': sorted(set(cls))})

        def nh():
            return rng.choice([None, rng.getrandbits(32), 0, 2 ** 32 - 1])
        # every prefix length, destination and source
        for l in range(33):
            add('reach', [{'dst': pfx(l), 'src': None, 'ops': {}}], nh())
            add('reach' if l % 2 else 'unreach', [{'dst': None, 'src': pfx(l), 'ops': {3: [(1, 6)]}}], nh())
        # every component type x comparison x value width
        for t in OP_TYPES:
            for c in (1, 2, 3, 4, 5):
                for v in (values if (ctx.thorough or c == 1) else rng.sample(values, 3)):
                    add('reach', [{'dst': pfx(24), 'src': None, 'ops': {t: [(c, v)]}}], nh())
            add('unreach', [{'dst': None, 'src': None, 'ops': {t: [(1, 80), (3, 8080), (5, 70000 * 1000)]}}])
        # several components / items / rules
        for _ in range(400 if ctx.thorough else 60):
            add(rng.choice(['reach', 'reach', 'unreach']), [rnd_flow() for _ in range(rng.choice([1, 1, 2, 3]))], nh())
        # a rule of 240 octets or more
        big = {'dst': pfx(32), 'src': pfx(32), 'ops': {t: [(1, 2 ** 31 + i) for i in range(7)] for t in (3, 4, 5, 6, 7, 8, 10, 11)}}
        add('reach', [big], nh())
        c = {'fam': self.name, 'kind': 'unreach', 'v': {'flows': [], 'nh': None}, 'cls': [], 'empty': True}
        cases.append(c)
        return cases

    @staticmethod
    def flow_dict(f):
        d = {}
        if f['dst']:
            d[1] = '%s/%d' % (ip4(f['dst'][0]), f['dst'][1])
        if f['src']:
            d[2] = '%s/%d' % (ip4(f['src'][0]), f['src'][1])
        for t, o in f['ops'].items():
            d[t] = ops_text(o)
        return d

    def impl_value(self, case):
        v = case['v']
        nl = [self.flow_dict(f) for f in v['flows']]
        if case['kind'] == 'unreach':
            return {'afi_safi': (1, 133), 'withdraw': nl}
        return {'afi_safi': (1, 133), 'nexthop': '' if v['nh'] is None else ip4(v['nh']), 'nlri': nl}

    @staticmethod
    def coq_flows(fs):
        def pf(p):
            return coq_opt(p, lambda x: '(%d, %d)' % x)

        def one(f):
            ops = coq_list(sorted(f['ops'].items()),
                           lambda kv: '(%d, %s)' % (kv[0], coq_list(kv[1], lambda o: '(%d, %d)' % o)))
            return 'mk_flow %s %s %s' % (pf(f['dst']), pf(f['src']), ops)
        return coq_list(fs, one)

    def coq_construct(self, case):
        v = case['v']
        if case['kind'] == 'reach':
            return 'sx_res sx_optbytes (reachfs_construct %s %s)' % (coq_opt(v['nh']), self.coq_flows(v['flows']))
        return 'sx_res sx_optbytes (unreachfs_construct %s)' % self.coq_flows(v['flows'])

    def coq_parse(self, case, octets):
        if case['kind'] == 'reach':
            return 'sx_res sx_reachfs (reachfs_parse %s)' % coq_bytes(octets)
        return 'sx_res sx_flows (unreachfs_parse %s)' % coq_bytes(octets)

    def canon(self, case, p):
        assert tuple(p['afi_safi']) == (1, 133)
        if case['kind'] == 'reach':
            return [[caddr(p['nexthop'])] if p['nexthop'] != '' else [], [cflow(d) for d in p['nlri']]]
        return [cflow(d) for d in p['withdraw']]

    def expected(self, case, drop9=False):
        v = case['v']
        fl = []
        for f in v['flows']:
            x = []
            if f['dst']:
                x.append([1, list(f['dst'])])
            if f['src']:
                x.append([2, list(f['src'])])
            for t in sorted(f['ops']):
                if not (drop9 and t == 9):
                    x.append([t, [[0, c, val] for c, val in f['ops'][t]]])
            fl.append(x)
        if case['kind'] == 'unreach':
            return fl
        return [[] if v['nh'] is None else [[4, v['nh']]], fl]

    def classify(self, case, stage, obs):
        cls = case['cls']
        if stage == 'construct-exc':
            if 'prefix-length-0' in cls:
                return K_PFX0
            if '3-octet-operator-value' in cls:
                return K_LEN3
            if 'tcp-flags-component' in cls and any(set(f['ops']) == {9} and not f['dst'] and not f['src']
                                                    for f in case['v']['flows']):
                return K_T9
            return None
        if 'nlri-240-octets-or-longer' in cls and stage in ('differs', 'parse-exc'):
            return K_LONG
        if stage == 'differs' and 'tcp-flags-component' in cls and obs == self.expected(case, drop9=True):
            return K_T9
        return None


FAMILIES = [Flow4()]
