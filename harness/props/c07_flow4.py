"""C07 family 5: IPv4 flow specification (AFI 1, SAFI 133), OR-ed operator lists."""
import re

import netaddr

from props.c07 import Family, ip4, caddr, mask, coq_list, coq_bytes, coq_opt, size_targets

CMP_TEXT = {1: '=', 2: '>', 3: '>=', 4: '<', 5: '<='}
OP_TYPES = [3, 4, 5, 6, 7, 8, 9, 10, 11]
K_PFX0 = 'C07-flowspec-prefix-length-0'
K_LEN3 = 'C07-flowspec-3-octet-operator-value'
K_T9 = 'C07-flowspec-tcp-flags-component-dropped'
K_LONG = 'C07-flowspec-nlri-240-octets-or-longer'
ITEM = re.compile(r'([&|]?)(>?)(<?)(=?)(\d+)')


def ops_text(ops):
    return '|'.join('%s%d' % (CMP_TEXT[c], v) for c, v in ops)


def cops(text):
    out, pos = [], 0
    while pos < len(text):
        m = ITEM.match(text, pos)
        assert m and m.end() > pos, text
        out.append([1 if m.group(1) == '&' else 0,
                    (2 if m.group(2) else 0) + (4 if m.group(3) else 0) + (1 if m.group(4) else 0), int(m.group(5))])
        pos = m.end()
    return out


def cflow(d):
    out = []
    for k in sorted(d):
        if k in (1, 2):
            a, l = d[k].split('/')
            out.append([k, [caddr(a)[1], int(l)]])
        else:
            out.append([k, cops(d[k])])
    return out


def nbytes(v):
    return max(1, (v.bit_length() + 7) // 8)


def width(v):
    """octets construct_operators writes for an operand (padded to 1, 2, 4 or 8)"""
    n = nbytes(v)
    return 1 if n <= 1 else 2 if n <= 2 else 4 if n <= 4 else 8


def body_size(f):
    """octets of the components of one rule as construct_nlri writes them (type 9 is left out)"""
    n = sum(2 + (p[1] + 7) // 8 for p in (f['dst'], f['src']) if p)
    return n + sum(1 + sum(1 + width(v) for _, v in o) for t, o in f['ops'].items() if t != 9)


# rule body lengths at which the length prefix changes form (RFC 8955 4.1) or stops existing
FS_FORM_SWITCH = 240
FS_MAX = 4095
FS_TYPES = [3, 4, 5, 6, 7, 8, 10, 11]      # the numeric components construct_nlri writes


def sized_flow(rng, n, shape=None):
    """a rule whose component octets are exactly n long (n >= 3): optional prefixes, 1..8 numeric
    components, operands on 1, 2 and 4 octets"""
    assert n >= 3, n
    f = {'dst': None, 'src': None, 'ops': {}}
    rest = n
    shape = shape or rng.choice(['ops', 'ops', 'dst+ops', 'dst+src+ops', 'one-component'])
    for key in ('dst', 'src'):
        if key in shape:
            k = rng.choice([1, 2, 3, 4])
            if rest - (2 + k) >= 3:
                l = rng.randrange(8 * (k - 1) + 1, 8 * k + 1)
                f[key] = (mask(rng.getrandbits(32) | 1 << 31, l, 32), l)
                rest -= 2 + k
    ncomp = 1 if shape == 'one-component' else rng.randint(1, min(len(FS_TYPES), rest // 3))
    types = sorted(rng.sample(FS_TYPES, ncomp))
    parts = [2] * ncomp                      # octets of the operator items of each component
    left = rest - 3 * ncomp
    for _ in range(3):                       # a few big hand-outs, then the remainder to one component
        if left > 0 and ncomp > 1:
            k = rng.randrange(left + 1)
            parts[rng.randrange(ncomp)] += k
            left -= k
    parts[rng.randrange(ncomp)] += left
    for t, part in zip(types, parts):
        items = []
        while part:
            cost = rng.choice([c for c in (2, 3, 5) if part - c == 0 or part - c >= 2])
            v = {2: rng.randrange(256), 3: rng.randrange(256, 65536),
                 5: rng.randrange(2 ** 24, 2 ** 32) if rng.random() < .9 else rng.randrange(65536, 2 ** 24)}[cost]
            items.append((rng.choice([1, 2, 3, 4, 5]), v))
            part -= cost
        f['ops'][t] = items
    assert body_size(f) == n, (body_size(f), n)
    return f


class Flow4(Family):
    name = 'ipv4_flowspec'
    imports = 'From YV Require Import lib.Base gen.Consts model.YMp model.YFlow4.\n'

    def gen(self, ctx):
        rng = ctx.rng
        cases = []
        sizes = []          # component octets of every generated rule
        values = [0, 1, 255, 256, 65535, 65536, 2 ** 24 - 1, 2 ** 24, 2 ** 32 - 1]

        def pfx(l=None):
            if l is None:
                l = rng.choice([1, 8, 9, 16, 17, 24, 25, 32, rng.randrange(1, 33)])
            return (mask(rng.getrandbits(32) | 1 << 31, l, 32), l)

        def rnd_ops():
            return [(rng.choice([1, 2, 3, 4, 5]),
                     rng.choice([rng.randrange(256), rng.randrange(256, 65536), rng.randrange(2 ** 24, 2 ** 32),
                                 rng.choice(values)]) if rng.random() < .9 else rng.randrange(65536, 2 ** 24))
                    for _ in range(rng.choice([1, 1, 2, 3, 5]))]

        def rnd_flow():
            f = {'dst': pfx() if rng.random() < .7 else None, 'src': pfx() if rng.random() < .4 else None, 'ops': {}}
            for t in rng.sample([3, 4, 5, 6, 7, 8, 10, 11], rng.choice([0, 1, 2, 4, 8])):
                f['ops'][t] = rnd_ops()
            if rng.random() < .05:
                f['ops'][9] = [(1, rng.randrange(64))]
            if not f['dst'] and not f['src'] and not f['ops']:
                f['dst'] = pfx()
            return f

        def add(kind, flows, nh=None):
            cls = []
            for f in flows:
                if any(p is not None and p[1] == 0 for p in (f['dst'], f['src'])):
                    cls.append('prefix-length-0')
                if any(nbytes(v) == 3 for t, o in f['ops'].items() for _, v in o if t != 9):
                    cls.append('3-octet-operator-value')
                if 9 in f['ops']:
                    cls.append('tcp-flags-component')
            for i, f in enumerate(flows):
                if body_size(f) >= FS_FORM_SWITCH and i + 1 < len(flows):
                    # the only long-rule input class with a recorded defect: something follows the rule
                    cls.append('nlri-240-octets-or-longer-not-last')
                sizes.append(body_size(f))
            cases.append({'fam': self.name, 'kind': kind, 'v': {'flows': flows, 'nh': nh},
                          'cls': sorted(set(cls))})
            if any(body_size(f) > FS_MAX for f in flows):
                cases[-1]['unencodable'] = 'flow specification rule longer than 4095 octets'

        def nh():
            """no next hop ('' is what the code writes for a text that is not an address), an IPv4 one (an int) or
            an IPv6 one ((int, True); 16 octets; kept at 2^32 or more: a smaller one reads back as IPv4 text)"""
            return rng.choice([None, rng.getrandbits(32), 0, 2 ** 32 - 1,
                               (rng.getrandbits(128) | 1 << 127, True), (0x20010db8 << 96 | 1, True), (2 ** 32, True),
                               (2 ** 128 - 1, True), (0xffff << 32 | rng.getrandbits(32), True)])
        # every prefix length, destination and source
        for l in range(33):
            add('reach', [{'dst': pfx(l), 'src': None, 'ops': {}}], nh())
            add('reach' if l % 2 else 'unreach', [{'dst': None, 'src': pfx(l), 'ops': {3: [(1, 6)]}}], nh())
        # every component type x comparison x value width
        for t in OP_TYPES:
            for c in (1, 2, 3, 4, 5):
                for v in (values if (ctx.thorough or c == 1) else rng.sample(values, 3)):
                    add('reach', [{'dst': pfx(24), 'src': None, 'ops': {t: [(c, v)]}}], nh())
            add('unreach', [{'dst': None, 'src': None, 'ops': {t: [(1, 80), (3, 8080), (5, 70000 * 1000)]}}])
        # several components / items / rules
        for _ in range(400 if ctx.thorough else 60):
            add(rng.choice(['reach', 'reach', 'unreach']), [rnd_flow() for _ in range(rng.choice([1, 1, 2, 3]))], nh())
        # a rule of 240 octets or more
        big = {'dst': pfx(32), 'src': pfx(32), 'ops': {t: [(1, 2 ** 31 + i) for i in range(7)] for t in (3, 4, 5, 6, 7, 8, 10, 11)}}
        add('reach', [big], nh())
        # ---- encoded-size boundaries: the rule length prefix.  Every body length around the switch of
        # form (240) and around the last encodable one (4095), in MP_REACH and MP_UNREACH, in several
        # shapes; the rule alone, as the last of two, and (known finding when >= 240) as the first of two
        if ctx.thorough:
            sweep = list(range(3, 300)) + list(range(4080, 4100)) + [rng.randrange(300, 4080) for _ in range(60)]
            near = set(range(232, 250)) | set(range(4093, 4098))
        else:
            sweep = (list(range(3, 12)) + list(range(228, 262)) + [511, 512, 1023, 1024, 2047, 2048] +
                     [4094, 4095, 4096, 4097] + [rng.randrange(262, 4094) for _ in range(6)])
            near = set(range(236, 245)) | {4095, 4096}
        for n in sweep:
            for kind in ('reach', 'unreach'):
                for _ in range(3 if n in near and n < 1000 else 1):
                    add(kind, [sized_flow(rng, n)], nh())
            if n in near:
                short = sized_flow(rng, rng.choice([3, 9, 60, 239]))
                for kind in ('reach', 'unreach'):
                    add(kind, [short, sized_flow(rng, n)], nh())                  # long rule last
                    if n <= FS_MAX:
                        add(kind, [sized_flow(rng, n), short], nh())              # long rule first
                    add(kind, [sized_flow(rng, n, 'one-component')], nh())
        # two rules that are both at the switch
        add('reach', [sized_flow(rng, 239), sized_flow(rng, 240)], nh())
        add('unreach', [sized_flow(rng, 239), sized_flow(rng, 239), sized_flow(rng, 241)])
        # ---- attribute value length (several short rules; each costs body + 1 octets)
        for target, ok in size_targets(ctx):
            for kind in ('reach', 'unreach'):
                nhv = rng.getrandbits(32) if kind == 'reach' else None
                room = target - (3 if kind == 'unreach' else 5 + 4)
                flows, one = [], 200
                while room > 0:
                    b = one if room - (one + 1) >= 4 or room == one + 1 else room - 1
                    flows.append(sized_flow(rng, b))
                    room -= b + 1
                add(kind, flows, nhv)
                cases[-1]['huge'] = target > 60000
                if not ok:
                    cases[-1]['unencodable'] = 'attribute value of %d octets' % target
        c = {'fam': self.name, 'kind': 'unreach', 'v': {'flows': [], 'nh': None}, 'cls': [], 'empty': True}
        cases.append(c)
        hist = {}
        for n in sizes:
            hist[n] = hist.get(n, 0) + 1
        self.coverage = {'rule_body_octets': {
            'min': min(sizes), 'max': max(sizes), 'distinct': len(hist),
            'rules_at': dict((str(b), hist.get(b, 0)) for b in (239, 240, 241, 255, 256, 4094, 4095, 4096, 4097)),
            'one_octet_form': sum(1 for n in sizes if n < FS_FORM_SWITCH),
            'two_octet_form': sum(1 for n in sizes if FS_FORM_SWITCH <= n <= FS_MAX),
            'beyond_4095': sum(1 for n in sizes if n > FS_MAX)}}
        return cases

    @staticmethod
    def flow_dict(f):
        d = {}
        if f['dst']:
            d[1] = '%s/%d' % (ip4(f['dst'][0]), f['dst'][1])
        if f['src']:
            d[2] = '%s/%d' % (ip4(f['src'][0]), f['src'][1])
        for t, o in f['ops'].items():
            d[t] = ops_text(o)
        return d

    def impl_value(self, case):
        v = case['v']
        nl = [self.flow_dict(f) for f in v['flows']]
        if case['kind'] == 'unreach':
            return {'afi_safi': (1, 133), 'withdraw': nl}
        nh = v['nh']
        text = '' if nh is None else (str(netaddr.IPAddress(nh[0], 6)) if isinstance(nh, (tuple, list)) else ip4(nh))
        return {'afi_safi': (1, 133), 'nexthop': text, 'nlri': nl}

    @staticmethod
    def coq_flows(fs):
        def pf(p):
            return coq_opt(p, lambda x: '(%d, %d)' % x)

        def one(f):
            ops = coq_list(sorted(f['ops'].items()),
                           lambda kv: '(%d, %s)' % (kv[0], coq_list(kv[1], lambda o: '(%d, %d)' % o)))
            return 'mk_flow %s %s %s' % (pf(f['dst']), pf(f['src']), ops)
        return coq_list(fs, one)

    def coq_construct(self, case):
        v = case['v']
        if case['kind'] == 'reach':
            nh = v['nh']
            cnh = 'None' if nh is None else ('(Some (true, %d))' % nh[0] if isinstance(nh, (tuple, list))
                                             else '(Some (false, %d))' % nh)
            return 'sx_res sx_optbytes (reachfs_construct_x %s %s)' % (cnh, self.coq_flows(v['flows']))
        return 'sx_res sx_optbytes (unreachfs_construct %s)' % self.coq_flows(v['flows'])

    def coq_parse(self, case, octets):
        if case['kind'] == 'reach':
            return 'sx_res sx_reachfs (reachfs_parse %s)' % coq_bytes(octets)
        return 'sx_res sx_flows (unreachfs_parse %s)' % coq_bytes(octets)

    def canon(self, case, p):
        assert tuple(p['afi_safi']) == (1, 133)
        if case['kind'] == 'reach':
            return [[caddr(p['nexthop'])] if p['nexthop'] != '' else [], [cflow(d) for d in p['nlri']]]
        return [cflow(d) for d in p['withdraw']]

    def expected(self, case, drop9=False):
        v = case['v']
        fl = []
        for f in v['flows']:
            x = []
            if f['dst']:
                x.append([1, list(f['dst'])])
            if f['src']:
                x.append([2, list(f['src'])])
            for t in sorted(f['ops']):
                if not (drop9 and t == 9):
                    x.append([t, [[0, c, val] for c, val in f['ops'][t]]])
            fl.append(x)
        if case['kind'] == 'unreach':
            return fl
        nh = v['nh']
        return [[] if nh is None else [[6, nh[0]] if isinstance(nh, (tuple, list)) else [4, nh]], fl]

    def describe(self, case):
        return ' (rule bodies of %s octets)' % [body_size(f) for f in case['v']['flows']][:8]

    def classify(self, case, stage, obs):
        cls = case['cls']
        if stage == 'construct-exc':
            if 'prefix-length-0' in cls:
                return K_PFX0
            if '3-octet-operator-value' in cls:
                return K_LEN3
            if 'tcp-flags-component' in cls and any(set(f['ops']) == {9} and not f['dst'] and not f['src']
                                                    for f in case['v']['flows']):
                return K_T9
            return None
        if 'nlri-240-octets-or-longer-not-last' in cls and stage in ('differs', 'parse-exc'):
            # recorded behaviour: the reader uses 0xf000 | length unmasked, so the first long rule that
            # is followed by another one swallows everything after it: the rules before it come back
            # unchanged, then at most one (garbled) rule, or decoding raises.  A long rule in LAST
            # position has to round trip and is not covered by this finding.
            flows = case['v']['flows']
            i = min(k for k, f in enumerate(flows) if body_size(f) >= FS_FORM_SWITCH and k + 1 < len(flows))
            if stage == 'parse-exc':
                return K_LONG
            got = obs[1] if case['kind'] == 'reach' else obs
            exp = self.expected(case)
            exp = exp[1] if case['kind'] == 'reach' else exp
            if isinstance(got, list) and got[:i] == exp[:i] and len(got) <= i + 1 and \
                    (case['kind'] != 'reach' or obs[0] == self.expected(case)[0]):
                return K_LONG
            return None
        if stage == 'differs' and 'tcp-flags-component' in cls and obs == self.expected(case, drop9=True):
            return K_T9
        return None


FAMILIES = [Flow4()]
