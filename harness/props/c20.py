"""C20 -- message log well-formed and gap-free (yabgp/handler/default_handler.py).

Drives the REAL DefaultHandler on a real temporary directory (under build/run/C20/, removed
after each case): histories over all callbacks, rotation thresholds forcing 0..k rotations, a
restart after every event and a crash at EVERY octet offset of a write (file truncated, then a
new handler), further events, a final restart and an audit of all files.

 * oracle         : the property text evaluated on the files (no model involved)
 * correspondence : model/YLog.v evaluated inside Coq on the same history must give the same
                    (file list, per-line classification, open tail, size, next seq, exits)
                    after every event; plus the callback inventory (ast walk) against the model's;
                    plus the octet-level start-up of the model (newest_line: last line of the
                    newest file that has an octet) against the text the code really hands to
                    json.loads / eval, on directories whose last line has up to 2^22+1 octets.

PEER-ADDRESS DIMENSION.  The handler keys its dictionaries and the directory by the lower-cased
address while callbacks arrive with the address as configured (an IPv6 remote_addr may be spelled
2001:DB8::1).  Section 4 runs histories with rotations after every / every second update, restarts,
crashes and all nine callbacks for: IPv4, IPv6 lower-case, upper-case, mixed-case, IPv4-mapped;
callbacks arriving with a spelling that changes from event to event or is never the configured
one; the random histories of section 2 under an upper-case address; and two peers in one handler
(init() + init_msg_file(), one write_dir), interleaved, with a crash inside either peer's write.
A callback that raises is a failure of "every reported event appends exactly one line".  These
cases are compared with the handler-level model (YLog.hrun: events carry the address as spelled,
every access goes through [lower]).

The callbacks are made the way the agent makes them: a real BGPPeering is built from the configuration
(peeraddr = CONF.bgp.running_config['remote_addr'], as agent.prepare_twisted_service does), `peer` is the
BGP protocol object that factory builds, on_connection_failed gets factory.peer_addr -- not the check's
copy of the string.  The configured text also ranges over the non-canonical forms of an IPv6 address
(zero groups written out, leading zeros, `::` elsewhere, IPv4-mapped/-compatible in dotted and hex
notation): whatever the session layer does to the text must agree with the key init() registers.

NON-ASCII TEXT / LOCALE.  Two payloads contain text outside ASCII (a localised OS error as handed to
on_connection_failed, descriptions, a non-ASCII key); they are part of the random histories.  A handful
of histories with them run in a CHILD PROCESS whose default text encoding is ASCII (LC_ALL=C,
PYTHONUTF8=0, PYTHONCOERCECLOCALE=0; this process itself runs in UTF-8 mode), including a stop /
change of locale / start between UTF-8 and ASCII in both directions.  The check's own reading and
writing of the files is done on octets, so a cut inside a multi-octet character is just a torn line.

RECORD-SIZE DIMENSION.  A payload id is an index into PAYLOADS or ['sz', L]: a payload built at the
moment of the call so that the record line (newline included) has exactly L octets.  L ranges from
the smallest possible record (47 octets) over 100, 4000, every power of two from 512 to 65536 +-1
(4095/4096/4097, ...), 5000, 20000, 70000 (thorough: up to 2^20+1), i.e. well beyond a BGP message
and beyond any plausible read-block size.  Sized records appear (a) in the random histories,
(b) in dedicated histories: restart right after / one event after the huge record, only huge
records, rotation thresholds below, at and above the record, a crash that tears the huge record at
offsets next to every block boundary counted from its end, a crash before/after a small record
that follows the huge one, (c) as seeded directories.  The octet count of every line is part of
every generated case (Ev .. sz) and of the compared observation (file sizes).

Code version the model is instantiated with: cfg_fixed (build/proposed/c20-scan-back.diff and
c20-serialise-first.diff applied to the repo).  Development aid only: C20_CODE=orig compares the
unpatched code with cfg_orig.
"""
import ast
import json
import locale
import os
import re
import subprocess
import shutil
import sys
import tempfile

if __name__ == '__main__':            # the locale child (see run_child): started as a script
    sys.path.insert(0, os.path.dirname(os.path.dirname(os.path.abspath(__file__))))
import env  # noqa: F401,E402  (stubs + repo on sys.path)
import common
from session import coq_sx

COQ_TARGETS = ['props/C20.vo']
IMPORTS = 'From YV Require Import lib.Base model.YLog.\n'
TRUSTED = [
    'the file system is modelled: append, truncate-at-octet as the effect of a crash, getsize; os.fsync is '
    'replaced by a recorder in the check process (that it is called after flush, once per line, is checked)',
    'harness/stubs/simplejson.py stands for simplejson 3.x (dump streams chunk by chunk, bytes are UTF-8 text)',
    'time.time() is driven by the check: strictly increasing 10-digit epoch seconds, so "%s.msg" names sort '
    'in creation order',
    'classification of a line by the check (json.loads of the stdlib) = what get_last_seq_and_file sees',
    'the text start-up parses is observed by replacing the names json and eval in the handler module by recorders',
    'callbacks are made with the protocol object of a real BGPPeering built from the configuration (Twisted stub); '
    'the default text encoding is the one of the check process (UTF-8 mode) except in the locale child (ASCII)',
]
ASSUMPTIONS = [
    'json: a line written by write_msg is valid JSON iff it is one complete record (validated at every octet '
    'offset of every swept write)',
    'fsync: only the write in progress when the process dies can be cut; a crash is followed by a restart',
    'names: file names sort in creation order (see trusted base)',
    'write_msg_max_size is compared in octets (check_msg_config has multiplied the MB value by 1024*1024)',
    'one configured peer per process (agent: handler.init() once); a second peer registered through '
    'init_msg_file(addr.lower()) is exercised too; foreign files in the msg directory only in the seeded init cases',
    'peer addresses: the key of a peer is the lower-cased text of its address (no other normalisation: two '
    'textual forms of one IPv6 address, e.g. ::1 and 0:0:0:0:0:0:0:1, are two peers for the handler)',
    'record sizes: the abstract model has no notion of line length in start-up (a line is a list element); that the '
    'code has none either is what the sized records check: lines of 46 .. 70001 octets (thorough 2^20+1) written by the '
    'real callbacks, restarts while the last line is longer than 4096 / 65536 octets (counts in record_sizes), and the '
    'octet-level model (YLog.newest_line, theorems C20_recovery_reads_last_line / _octets_refine) compared with the text '
    'the code parses; C20_recovery_independent_of_sizes proves for the model that sizes and thresholds never matter',
]

PEER = '10.0.0.2'
CODE = os.environ.get('C20_CODE', 'fixed')
CFG = 'cfg_orig' if CODE == 'orig' else 'cfg_fixed'
K_TORN, K_ROT, K_SER = 'C20-torn-tail', 'C20-rotation-restart-reset', 'C20-unserialisable-half-line'

CALLBACKS = ['send_open', 'open_received', 'update_received', 'on_update_error', 'keepalive_received',
             'route_refresh_received', 'notification_received', 'on_connection_lost', 'on_connection_failed']
COQ_CB = {'send_open': 'SendOpen', 'open_received': 'OpenReceived', 'update_received': 'UpdateReceived',
          'on_update_error': 'UpdateError', 'route_refresh_received': 'RouteRefresh',
          'notification_received': 'Notification', 'on_connection_lost': 'ConnLost',
          'on_connection_failed': 'ConnFailed'}
NO_PAYLOAD = ('keepalive_received', 'on_connection_lost')

# payload pool: (serialisable?, value).  Index = payload id in a case description.
PAYLOADS = [
    (True, {'a': 1}),
    (True, {'attr': {1: 0, 2: [[2, [65001, 65002]]], 3: '10.0.0.1'}, 'nlri': ['1.1.1.0/24'], 'withdraw': []}),
    (True, 'connection refused'),
    (True, {'afi': 1, 'res': 0, 'safi': 1}),
    (True, {'error': 'Cease', 'sub_error': None, 'data': "b''"}),
    (True, {'x': b'caf\xc3\xa9', 'y': [1.5, True, None]}),                 # bytes that ARE UTF-8
    (True, {'attr': {}, 'nlri': ['%d.0.0.0/8' % i for i in range(1, 12)], 'withdraw': ['9.9.9.0/24']}),
    (False, {'x': b'\xff\xfe', 'y': 1}),                                    # bytes that are not UTF-8
    (False, {'a': 1, 'b': {1, 2}}),                                         # unsupported type, nested
    (False, {5, 6}),                                                        # unsupported type, top level
    (False, {'attr': {1: 0, 14: {'nlri': [b'\x80abc']}}, 'nlri': []}),      # deep inside
]
# text that is not ASCII (a localised OS error handed to on_connection_failed, descriptions): appended
PAYLOADS += [
    (True, 'Verbindungsaufbau abgelehnt: Zeit\u00fcberschreitung \u2014 \u63a5\u7d9a\u304c\u62d2\u5426\u3055\u308c\u307e\u3057\u305f'),
    (True, {'error': 'Cease', 'sub_error': 'Administrative Shutdown', 'data': 'Wartung bis 18\u00a0Uhr \U0001f6e0',
            'cl\u00e9': ['\u00e9t\u00e9', '\u0416']}),
]
NONASCII = [len(PAYLOADS) - 2, len(PAYLOADS) - 1]
GOOD = [i for i, p in enumerate(PAYLOADS) if p[0]]
BAD = [i for i, p in enumerate(PAYLOADS) if not p[0]]


# record sizes (octets of the line, newline included).  BLOCKS: read-block sizes an implementation
# might plausibly use; every one is bracketed by L = B-1, B, B+1
BLOCKS = [512, 1024, 2048, 4096, 8192, 16384, 32768, 65536]
SIZES_QUICK = [1, 100, 4000, 4095, 4096, 4097, 5000, 8193, 20000, 65537, 70000]
SIZES_THOROUGH = sorted(set(SIZES_QUICK + [b + d for b in BLOCKS for d in (-1, 0, 1)] +
                            [6000, 12000, 33000, 100000, 131073, 262145, (1 << 20) + 1]))
EXPLICIT_TS = ('send_open', 'open_received', 'update_received', 'on_update_error')


def is_sized(pid):
    return isinstance(pid, (list, tuple))


def sized_payload(dumps, ts, seq, ty, target):
    """a serialisable payload such that the line json(record)+newline has exactly `target` octets
    (the smallest possible record if target is below it): an UPDATE announcing as many /24 as fit,
    padded to the octet; a plain string when the target is below the UPDATE skeleton"""
    def line_len(p):
        return len(dumps({'t': ts, 'seq': seq, 'type': ty, 'msg': p})) + 1
    p = {'attr': {1: 0, 2: [[2, [65001, 65002]]], 3: '10.0.0.1'}, 'nlri': [], 'withdraw': [], 'pad': ''}
    base = line_len(p)
    if target < base:
        return 'x' * max(target - line_len(''), 0)
    room = target - base
    nl = []
    i = 0
    while True:
        pre = '10.%d.%d.0/24' % ((i // 256) % 256, i % 256)
        cost = len(pre) + 2 + (2 if nl else 0)
        if cost > room:
            break
        nl.append(pre)
        room -= cost
        i += 1
    p['nlri'] = nl
    p['pad'] = 'x' * room
    return p


def norm(v):
    """what a serialisable payload must read back as"""
    if isinstance(v, bytes):
        return v.decode('utf-8')
    if isinstance(v, dict):
        return {(str(k) if not isinstance(k, str) else k): norm(x) for k, x in v.items()}
    if isinstance(v, (list, tuple)):
        return [norm(x) for x in v]
    return v


# ---------------------------------------------------------------------------------
# the world: real handler, real directory, driven clock, recorded fsync
# ---------------------------------------------------------------------------------
class Clock(object):
    def __init__(self):
        self.now = 1700000000.0

    def time(self):
        self.now += 1.0
        return self.now

    def __getattr__(self, name):       # anything else of the time module
        import time as _t
        return getattr(_t, name)


CLOCK = Clock()
FSYNC = {'calls': 0, 'sizes': []}


def _fsync(fd):
    FSYNC['calls'] += 1
    FSYNC['sizes'].append(os.fstat(fd).st_size)     # what has reached the file when fsync is asked for


def peer_object(spelling):
    """what a callback gets as `peer`: protocol.factory.peer_addr is the address as configured"""
    fac = type('Fac', (object,), {'peer_addr': spelling})
    return type('Peer', (object,), {'factory': fac(), 'msg_recv_stat': {'Keepalives': 2}})()


# peer addresses as they can be configured (oslo.config's IPOpt keeps the spelling)
# the configuration value may also be any other legal TEXT of the address: zero groups written out,
# leading zeros, `::` in another legal position, IPv4-mapped / -compatible forms in dotted or hex notation
PEERS = ['10.0.0.2', '2001:db8::1', '2001:DB8::1', '2001:dB8:0:0:AbCd::F', 'FE80::ABCD:EF01', '::FFFF:10.0.0.2',
         '2001:DB8:AAAA:BBBB:CCCC:DDDD:EEEE:FFFF',
         '2001:db8:0:0::1', '2001:0db8::0001', '2001:db8:0:0:0:0:0:1', '2001:db8::0:1', '2001:0DB8:0000::0:0001',
         '0:0:0:0:0:0:0:1', '::ffff:0a00:0002', '::10.0.0.2', '2001:db8:0:0:1::', '2001:db8::1:0:0:0']
PEERSTAT = {}
WIRED = {}          # configured remote_addr -> factory.peer_addr of the real BGPPeering


def coq_addr(a):
    return '[%s]' % '; '.join('%d' % x for x in a.encode('ascii'))


_setup_done = {}
POOL = []
TAILS = {'starts': 0, 'max': 0, 'longer_than_4096': 0, 'longer_than_65536': 0}
SIZED = {'exact': 0, 'other': 0, 'lengths': set()}
PARSED = []        # what get_last_seq_and_file handed to json.loads (1, text) / eval (2, text)


class JsonRec(object):
    """the handler module's `json`, recording the argument of loads"""
    def __init__(self, real):
        self._real = real

    def loads(self, text, *a, **kw):
        PARSED.append((1, text))
        return self._real.loads(text, *a, **kw)

    def __getattr__(self, name):
        return getattr(self._real, name)


def _eval(text, *a):
    PARSED.append((2, text))
    return eval(text, *a)


def setup():
    if _setup_done:
        return _setup_done['dh']
    env.init_conf()
    from yabgp.handler import default_handler as dh
    dh.time = CLOCK
    dh.json = JsonRec(dh.json)
    dh.eval = _eval                      # module global shadows the builtin
    _setup_done['dh'] = dh
    return dh


def classify(text, terminated):
    """one line of a file -> model classification, as get_last_seq_and_file would treat it"""
    if text.startswith('{'):
        try:
            v = json.loads(text)
            return [0, v['seq']] if isinstance(v['seq'], int) else [1]
        except Exception:
            return [1]
    if text.startswith('['):
        try:
            return [2, int(ast.literal_eval(text)[1])]
        except Exception:
            return [1]
    return [3]


def split_lines(data):
    parts = data.split('\n')
    frag = parts.pop()
    lines = [(p, True) for p in parts]
    if frag != '':
        lines.append((frag, False))
    return lines


class World(object):
    def __init__(self, root, thr, files=None, peer=PEER, spellings=None, share=None):
        """peer: remote_addr as configured; spellings: the addresses the callbacks arrive with, in
        turn (default: the configured one); share: another World whose handler (and write_dir)
        this peer is registered in through init_msg_file"""
        self.dh = setup()
        self.root = root
        self.thr = thr
        self.peer = peer
        self.key = peer.lower()
        # None: the callbacks get what the real caller passes -- a BGP protocol object built by a real
        # BGPPeering made from the configuration as agent.prepare_twisted_service does (factory.peer_addr);
        # a list: the check's own objects carrying these addresses, in turn
        self.spellings = list(spellings) if spellings else None
        self.factory = self.proto = None
        self.nspell = 0
        self.spelling = peer
        self.share = share
        self.handler = None
        self.hevents = []          # the same events for the handler-level model (with the address)
        # a world created on given contents has its msg directory before the first start anyway:
        # such directories are emptied and reused (the sweep over cut offsets makes thousands)
        self.pooled = files is not None
        if share is not None:
            self.dir = share.dir
        else:
            self.dir = POOL.pop() if self.pooled and POOL else tempfile.mkdtemp(prefix='case', dir=root)
        self.msgdir = os.path.join(self.dir, self.key, 'msg')
        self.h = None
        self.exits = 0
        self.nrep = 0
        self.events = []           # model events (Coq text), one per executed event
        self.expected = []         # per complete line written by a returned callback: expected record or None
        self.tear = None           # global index of the line a crash cut
        self.flags = set()         # input classes met: 'torn', 'ser', 'rot'
        self.problems = []         # per-event oracle failures
        self.pending = None
        self.parsed = []
        self.maxline = 0           # longest line written (octets)
        if files is not None:
            os.makedirs(self.msgdir, exist_ok=True)
            for name, data in files.items():
                with open(os.path.join(self.msgdir, name), 'wb') as f:
                    f.write(data.encode('utf-8', 'surrogateescape'))

    def close(self):
        self.kill()
        if self.share is not None:
            return
        if self.pooled:
            for n in os.listdir(self.msgdir):
                os.unlink(os.path.join(self.msgdir, n))
            POOL.append(self.dir)
        else:
            shutil.rmtree(self.dir, ignore_errors=True)

    # --- agent life cycle
    def conf(self, write_keepalive=False):
        CONF = env.CONF
        CONF.set_override('write_dir', self.dir, group='message')
        CONF.set_override('write_disk', True, group='message')
        CONF.set_override('write_msg_max_size', self.thr, group='message')
        CONF.set_override('write_keepalive', write_keepalive, group='message')
        CONF.bgp.running_config = {'remote_addr': (self.share or self).peer}      # last: overrides reset it

    def start(self):
        self.conf()
        if self.newest_empty_older_not():
            self.flags.add('rot')
        tail = self.tail_line()
        TAILS['starts'] += 1
        TAILS['max'] = max(TAILS['max'], len(tail))
        for b in (4096, 65536):
            if len(tail) > b:
                TAILS['longer_than_%d' % b] += 1
        PEERSTAT[self.peer] = PEERSTAT.get(self.peer, 0) + 1
        if self.share is None:
            h = self.handler = self.dh.DefaultHandler()
            boot = h.init
        else:                              # a further peer of the same process
            h = self.share.handler
            boot = lambda: h.init_msg_file(self.key)     # as init() does for the configured one
        del PARSED[:]
        try:
            boot()
        except SystemExit:
            self.exits += 1
            self.h = None
            return
        finally:
            self.parsed = list(PARSED)
        self.h = h
        self.wire(h)

    def wire(self, h):
        """the session layer of the agent: BGPPeering from the configuration, its protocol object"""
        from yabgp.core.factory import BGPPeering
        conf_addr = env.CONF.bgp.running_config['remote_addr'] if self.share is None else self.peer
        self.factory = BGPPeering(myasn=65001, myaddr='10.0.0.1', peerasn=65002, peeraddr=conf_addr,
                                  afisafi=[], md5=None, handler=h)
        self.proto = self.factory.buildProtocol(type('Addr', (object,), {'host': conf_addr, 'port': 179})())
        WIRED[conf_addr] = self.factory.peer_addr

    def kill(self):
        if self.h is not None:
            f = self.h.peer_files.get(self.key, (None, None))[1]
            if f is not None and not f.closed:
                f.close()
        self.h = None

    def cur_file(self):
        return self.h.peer_files[self.key][1].name

    # --- observation
    def read(self):
        if not os.path.isdir(self.msgdir):
            return []
        out = []
        for n in sorted(os.listdir(self.msgdir)):
            with open(os.path.join(self.msgdir, n), 'rb') as f:      # the check's own view: octets, whatever
                out.append((n, f.read().decode('utf-8', 'surrogateescape')))      # the locale or a cut character
        return out

    def tail_line(self):
        """the last line (terminated or not) of the newest file that has an octet"""
        for _, data in reversed(self.read()):
            if data:
                return data.splitlines(True)[-1]
        return ''

    def parsed_obs(self):
        """what the last start-up handed to json.loads / eval: [reader, octets, head, tail]"""
        from session import Bytes
        if not self.parsed:
            return [0, 0, Bytes(b''), Bytes(b'')]
        k, text = self.parsed[-1]
        b = text.encode('utf-8', 'surrogateescape') if isinstance(text, str) else bytes(text)
        return [k, len(b), Bytes(b[:24]), Bytes(b[-4:])]

    def newest_empty_older_not(self):
        fs = self.read()
        return bool(fs) and fs[-1][1] == '' and any(d for _, d in fs[:-1])

    def observe(self):
        files = []
        for _, data in self.read():
            ls = split_lines(data)
            files.append([[classify(t, term) for t, term in ls],
                          bool(ls) and not ls[-1][1], len(data.encode('utf-8', 'surrogateescape'))])
        nxt = [self.h.msg_sequence[self.key]] if self.h is not None else []
        return [files, nxt, self.exits, self.nrep]

    # --- events
    def invoke(self, cb, pid, wk, no_rotation=False):
        """run one callback on the live handler; returns (sz, expected record without seq)"""
        h = self.h
        ts = 1234.5
        bc = self.dh.bgp_cons
        rr = 5 if is_sized(pid) or not pid % 2 else 128
        tys = {'send_open': 1, 'open_received': 1, 'update_received': bc.MSG_UPDATE, 'on_update_error': 6,
               'keepalive_received': 4, 'route_refresh_received': rr, 'notification_received': 3,
               'on_connection_lost': bc.MSG_BGP_CLOSED, 'on_connection_failed': 0}
        if cb in NO_PAYLOAD:
            payload, ok = None, True
        elif is_sized(pid):
            payload = sized_payload(self.dh.json.dumps, ts if cb in EXPLICIT_TS else CLOCK.now + 1.0,
                                    h.msg_sequence[self.key], tys[cb], pid[1])
            ok = True
        else:
            ok, payload = PAYLOADS[pid]
        if cb == 'keepalive_received':
            self.conf(write_keepalive=wk)
        cur = self.cur_file()
        before = os.path.getsize(cur)
        calls0 = FSYNC['calls']
        if no_rotation:
            h.check_file_size = lambda peer: False      # the process dies before it gets there
        if self.spellings is None:
            p, spelling = self.proto, self.factory.peer_addr
        else:
            spelling = self.spellings[self.nspell % len(self.spellings)]
            self.nspell += 1
            p = peer_object(spelling)
        self.spelling = spelling
        try:
            ty = self.dispatch(h, cb, p, spelling, ts, payload, rr)
        except Exception as e:             # "every reported event appends exactly one line"
            ty = tys[cb]
            self.problems.append('%s for peer address %r raised %s(%s): the event is not logged'
                                 % (cb, spelling, type(e).__name__, str(e)[:60]))
        finally:
            if no_rotation:
                del h.check_file_size
        if cb in ('route_refresh_received', 'notification_received', 'on_connection_lost',
                  'on_connection_failed'):
            ts = CLOCK.now
        return self.after_call(cb, pid, cur, before, calls0, ts, ty, ok, payload)

    def dispatch(self, h, cb, p, spelling, ts, payload, rr):
        bc = self.dh.bgp_cons
        if cb == 'send_open':
            h.send_open(p, ts, payload); ty = 1
        elif cb == 'open_received':
            h.open_received(p, ts, payload); ty = 1
        elif cb == 'update_received':
            h.update_received(p, ts, payload); ty = bc.MSG_UPDATE
        elif cb == 'on_update_error':
            h.on_update_error(p, ts, payload); ty = 6
        elif cb == 'keepalive_received':
            h.keepalive_received(p, ts); ty = 4
        elif cb == 'route_refresh_received':
            h.route_refresh_received(p, payload, rr); ty = rr
        elif cb == 'notification_received':
            h.notification_received(p, payload); ty = 3
        elif cb == 'on_connection_lost':
            h.on_connection_lost(p); ty = bc.MSG_BGP_CLOSED
        elif cb == 'on_connection_failed':
            h.on_connection_failed(spelling, payload); ty = 0
        else:
            raise ValueError(cb)
        return ty

    def after_call(self, cb, pid, cur, before, calls0, ts, ty, ok, payload):
        sz = os.path.getsize(cur) - before
        wrote = sz > 0
        self.maxline = max(self.maxline, sz)
        if is_sized(pid) and wrote:
            SIZED['exact' if sz == pid[1] else 'other'] += 1      # 'other': target below the smallest record
            SIZED['lengths'].add(sz)
        # assumption (fsync): flush + fsync once per line, with the whole line in the file by then
        if wrote and (FSYNC['calls'] != calls0 + 1 or FSYNC['sizes'][-1] != before + sz):
            self.problems.append('write_msg did not flush+fsync the line before returning')
        exp = {'t': ts, 'type': ty, 'msg': norm(payload)} if ok else {'t': ts, 'type': ty}
        return cur, before, sz, ok, wrote, exp

    def log(self, text):
        """one executed event, for the single-peer model and (with the address it arrived with) for the
        handler-level model"""
        self.events.append(text)
        if text == 'Restart':
            self.hevents.append('HRestart')
        else:
            kind, rest = text.split(' ', 1)
            self.hevents.append('H%s %s %s' % (kind, coq_addr(self.spelling), rest))

    def coq_cb(self, cb, wk):
        return '(Keepalive %s)' % ('true' if wk else 'false') if cb == 'keepalive_received' else COQ_CB[cb]

    def do(self, ev):
        """ev: ['ev', cb, pid, wk] | ['restart'] | ['crash', cb, pid, wk, k]"""
        if ev[0] == 'restart':
            self.kill()
            self.start()
            self.log('Restart')
            return
        if ev[0] == 'locale':                    # the agent is stopped and started again in another environment
            self.kill()                          # (only has an effect in the locale child: no UTF-8 mode there)
            locale.setlocale(locale.LC_CTYPE, ev[1])
            self.start()
            self.log('Restart')
            return
        cb, pid, wk = ev[1], ev[2], ev[3]
        if self.h is None:                       # the agent is not running: nothing happens
            if ev[0] == 'crash':
                self.start()
                self.log('Crash %s true 2 %d' % (self.coq_cb(cb, wk), ev[4]))
            else:
                self.log('Ev %s true 2' % self.coq_cb(cb, wk))
            return
        if ev[0] == 'ev':
            nlines = self.count_lines()
            cur, before, sz, ok, wrote, exp = self.invoke(cb, pid, wk)
            if wrote:
                self.nrep += 1
                self.expected.append(exp)
                if not ok:
                    self.flags.add('ser')
            # "every reported event appends exactly one line"
            should = cb != 'keepalive_received' or wk
            if self.count_lines() != nlines + (1 if should else 0):
                self.problems.append('%s reported for peer address %r (configured remote_addr %r) appended %d lines'
                                     % (cb, self.spelling, self.peer, self.count_lines() - nlines))
            self.log('Ev %s %s %d' % (self.coq_cb(cb, wk), 'true' if ok else 'false', max(sz, 2)))
            return
        # crash inside this callback's write at octet ev[4]
        self.crash_prepare(cb, pid, wk)
        self.crash_finish(ev[4])

    def crash_prepare(self, cb, pid, wk):
        cur, before, sz, ok, wrote, exp = self.invoke(cb, pid, wk, no_rotation=True)
        self.kill()
        self.pending = (cur, before, sz, ok, wrote, exp, self.coq_cb(cb, wk))

    def crash_finish(self, k, restart=True):
        cur, before, sz, ok, wrote, exp, ccb = self.pending
        if k < 0:                                   # -1: everything but the newline
            k = max(sz + k, 0)
        if wrote:
            if k < sz:
                os.truncate(cur, before + k)
                if k > 0:
                    self.flags.add('torn')
                    self.tear = len(self.expected)
                    self.expected.append('tear')
            else:
                self.nrep += 1
                self.expected.append(exp)
                if not ok:
                    self.flags.add('ser')
        self.log('Crash %s %s %d %d' % (ccb, 'true' if ok else 'false', max(sz, 2), k))
        if restart:
            self.start()

    def count_lines(self):
        return sum(d.count('\n') for _, d in self.read())

    # --- snapshots (the sweep over octet offsets re-creates the directory for every offset)
    def snapshot(self):
        return {'files': dict(self.read()), 'exits': self.exits, 'nrep': self.nrep,
                'events': list(self.events), 'expected': list(self.expected), 'flags': set(self.flags),
                'problems': list(self.problems), 'pending': self.pending}

    @classmethod
    def restore(cls, root, thr, snap):
        w = cls(root, thr, files=snap['files'])
        w.exits, w.nrep = snap['exits'], snap['nrep']
        w.events, w.expected = list(snap['events']), list(snap['expected'])
        w.flags, w.problems = set(snap['flags']), list(snap['problems'])
        cur, before, sz, ok, wrote, exp, ccb = snap['pending']
        w.pending = (os.path.join(w.msgdir, os.path.basename(cur)), before, sz, ok, wrote, exp, ccb)
        return w

    # --- the audit, from the property text
    def audit(self):
        """returns list of failures: (kind, global line index or None)"""
        fails = []
        if self.exits:
            fails.append(('restart refused to start (sys.exit in get_last_seq_and_file)', None))
        idx = 0
        prev = None
        highest = None
        complete = 0
        for name, data in self.read():
            for text, term in split_lines(data):
                rec = None
                if term:
                    try:
                        rec = json.loads(text)
                    except ValueError:
                        rec = None
                if not (isinstance(rec, dict) and set(rec) == {'t', 'seq', 'type', 'msg'} and
                        isinstance(rec['seq'], int)):
                    fails.append(('line is not a complete JSON object with keys t, seq, type, msg: %r'
                                  % text[:60], idx))
                    prev = None if rec is None or not isinstance(rec, dict) else prev
                    idx += 1
                    continue
                complete += 1
                if prev is not None and rec['seq'] != prev + 1:
                    fails.append(('sequence number %d follows %d' % (rec['seq'], prev), idx))
                elif prev is None and highest is not None and rec['seq'] <= highest:
                    # "numbers are never reused": also on the far side of a damaged line
                    fails.append(('sequence number %d is used again (numbers up to %d are already on disk)'
                                  % (rec['seq'], highest), idx))
                highest = rec['seq'] if highest is None else max(highest, rec['seq'])
                exp = self.expected[idx] if idx < len(self.expected) else None
                if isinstance(exp, dict) and self.tear is None:
                    if any(rec[k] != v for k, v in exp.items()):
                        fails.append(('record content differs from the reported event: %r' % (rec,), idx))
                prev = rec['seq']
                idx += 1
        if not fails and complete != self.nrep:
            fails.append(('%d lines for %d reported events' % (complete, self.nrep), None))
        for p in self.problems:
            fails.append((p, None))
        return fails

    def known_id(self, fails):
        """classify a failing case: every failure must be explained by (input class of the case +
        the recorded behaviour of that class), otherwise None = new violation.
          torn: refusal to start, or the damaged line is exactly the line the crash cut
          ser : (original code) the damaged line is exactly the line of an unserialisable payload, or a
                refusal to start
          rot : (original code) numbering jumps back after a start on an empty newest file"""
        return self.explain(fails)[0]

    def explain(self, fails):
        """(known id or None, the first failure that no known class explains or None)"""
        halves = [j for j, e in enumerate(self.expected) if isinstance(e, dict) and 'msg' not in e]
        ids = []
        for w, i in fails:
            if 'torn' in self.flags and ((i is None and 'refused' in w) or (i is not None and i == self.tear)):
                ids.append(K_TORN)
            elif 'ser' in self.flags and ((i is None and 'refused' in w) or
                                          (i in halves and 'not a complete JSON' in w)):
                ids.append(K_SER)
            elif 'rot' in self.flags and 'follows' in w:
                ids.append(K_ROT)
            else:
                return None, w
        return (ids[0] if ids else None), None


class Pair(object):
    """two peers served by one handler in one process: init() registers the configured one,
    init_msg_file() the second (as init() does: with the lower-cased address); one write_dir.
    events: ['ev', who, cb, pid, wk] | ['restart'] | ['crash', who, cb, pid, wk, k]"""
    def __init__(self, root, thr, peers):
        self.thr = thr
        self.a = World(root, thr, peer=peers[0])
        self.b = World(root, thr, peer=peers[1], share=self.a)
        assert self.a.key != self.b.key
        self.ws = [self.a, self.b]
        self.hevents = []

    def start(self):
        self.a.start()
        self.b.start()

    def restart(self):
        self.b.kill()
        self.a.kill()
        self.start()

    def observe(self):
        return [w.observe() for w in self.ws]

    def do(self, ev):
        if ev[0] == 'restart':
            self.restart()
            self.a.log('Restart')
            self.b.log('Restart')
            self.hevents.append('HRestart')
            return
        who, other = self.ws[ev[1]], self.ws[1 - ev[1]]
        if ev[0] == 'ev':
            who.do(['ev'] + ev[2:])
        elif who.h is None:                 # not running: the crash is just the end of the process
            self.restart()
            who.log('Crash %s true 2 %d' % (who.coq_cb(ev[2], ev[4]), ev[5]))
            other.log('Restart')
        else:                               # the process dies inside who's write; both logs are re-opened
            who.crash_prepare(ev[2], ev[3], ev[4])
            other.kill()
            who.crash_finish(ev[5], restart=False)
            self.start()
            other.log('Restart')
        self.hevents.append(who.hevents[-1])

    def close(self):
        self.b.close()
        self.a.close()


# ---------------------------------------------------------------------------------
# generators
# ---------------------------------------------------------------------------------
def rand_event(rng, bad_ok=True, sizes=()):
    cb = rng.choice(CALLBACKS + ['update_received'] * 3)
    if cb in NO_PAYLOAD:
        pid = 0
    elif bad_ok and rng.random() < 0.15:
        pid = rng.choice(BAD)
    elif sizes and rng.random() < 0.25:
        pid = ['sz', rng.choice(sizes)]
    else:
        pid = rng.choice(GOOD)
    wk = rng.random() < 0.6
    return ['ev', cb, pid, wk]


def base_histories(ctx):
    rng = ctx.rng
    hs = []
    # every callback once, keepalive with the option off and on; an unserialisable payload per callback
    hs.append([['ev', cb, GOOD[i % len(GOOD)], False] for i, cb in enumerate(CALLBACKS)])
    hs.append([['ev', 'keepalive_received', 0, True], ['ev', 'update_received', 1, True],
               ['ev', 'keepalive_received', 0, False], ['ev', 'update_received', 6, True],
               ['ev', 'on_connection_lost', 0, True]])
    hs.append([['ev', cb, BAD[i % len(BAD)], True] for i, cb in enumerate(CALLBACKS) if cb not in NO_PAYLOAD][:6])
    hs.append([['ev', 'update_received', 1, True]] * 4)
    n_rand, length = (10, 7) if ctx.thorough else (5, 5)
    sizes = SIZES_THOROUGH if ctx.thorough else SIZES_QUICK
    for _ in range(n_rand):
        hs.append([rand_event(rng, sizes=sizes) for _ in range(rng.randrange(3, length + 1))])
    return hs


def offsets_for(sz, rng, thorough):
    """octet offsets at which a write of sz octets is cut: all of them for a short line; for a long
    one the ends, the middle, both sides of every block boundary counted from either end, and a
    few seeded random ones"""
    if sz <= (400 if thorough else 260):
        return list(range(0, sz + 1)) if sz else [0]
    ks = {0, 1, 2, 3, sz // 3, sz // 2, sz - 3, sz - 2, sz - 1, sz}
    for b in BLOCKS:
        for d in (-1, 0, 1):
            for k in (b + d, sz - b + d):
                if 0 < k < sz:
                    ks.add(k)
    ks.update(rng.randrange(1, sz) for _ in range(8 if thorough else 3))
    return sorted(ks)


def size_histories(ctx):
    """the record-size dimension: (threshold, history) pairs around one record of L octets"""
    rng = ctx.rng
    sizes = SIZES_THOROUGH if ctx.thorough else SIZES_QUICK
    small = ['ev', 'send_open', 0, True]
    upd = ['ev', 'update_received', 1, True]
    R = ['restart']
    out = []
    for n, L in enumerate(sizes):
        def big(cb='update_received', d=0):
            return ['ev', cb, ['sz', L + d], True]
        other = ('open_received', 'on_update_error', 'send_open', 'notification_received')[n % 4]
        hs = [
            [small, upd, big(), R, upd, small, R],                  # restart right after the huge record
            [small, big(other), R, upd, R],                          # ... written by a callback that never rotates
            [small, big(), upd, R, small, R],                        # the huge record is not the last one
            [big(), R, big(d=1), R, big(d=-1), small, R],            # a file of huge records only
            [upd, big(), ['crash', 'send_open', 0, True, 0], upd, R],                 # death before the next record
            [upd, big(), ['crash', 'update_received', 1, True, 10 ** 9], upd, R],     # ... right after it
        ]
        nplain = len(hs)
        # the huge record itself is torn: k octets from its start / -k octets from its end
        cuts = [0, 1, -1, -2, -(L // 2), 10 ** 9] + [-(b + d) for b in BLOCKS for d in (-1, 0, 1) if b + d < L]
        if not ctx.thorough and len(cuts) > 14:
            cuts = cuts[:6] + [-4095, -4096, -4097] + rng.sample(cuts[6:], 5)
        elif L > 70000:                                   # the very long ones cost seconds each
            cuts = cuts[:6] + [-4095, -4096, -4097, -65535, -65536, -65537] + rng.sample(cuts[6:], 4)
        for k in cuts:
            hs.append([small, big(), ['crash', 'update_received', ['sz', L], True, k]] + SUFFIX)
        # thresholds: never / smaller than the record / exactly its size and one more (>=) /
        # larger than the record but reached by the next small one / much larger; two fixed ones
        thrs = [1 << 40, max(2, L // 2), L + 300, L, L + 1, 3 * L + 500, 4096, 5000]
        if not ctx.thorough or L > 70000:
            thrs = thrs[:3] + rng.sample(thrs[3:], 1)
        for thr in thrs:
            for i, h in enumerate(hs):
                out.append((thr, h, i < nplain))
    return out


def thresholds(root, hist, rng, thorough):
    """thresholds that force 0..k rotations, placed exactly at / next to file sizes that occur"""
    w = World(root, 1 << 40)
    w.start()
    sizes = []
    for ev in hist:
        w.do(ev)
        if ev[1] == 'update_received':
            sizes.append(sum(f[2] for f in w.observe()[0]))
    w.close()
    ths = [1 << 40, 1]                                  # never / after every update
    for s in sizes[:3 if thorough else 2]:
        ths += [s, s + 1]                               # boundary of >=
    if sizes:
        ths.append(max(2, sizes[0] // 2))
    out = []
    for t in ths:
        if t not in out:
            out.append(t)
    if not thorough and len(out) > 4:
        out = out[:2] + rng.sample(out[2:], 2)
    return out


def address_cases(ctx, hists):
    """the peer-address dimension: (peer as configured, spellings the callbacks arrive with,
    threshold, history) and (pair of peers, threshold, pair history)"""
    rng = ctx.rng
    small = ['ev', 'send_open', 0, True]
    upd = ['ev', 'update_received', 1, True]
    R = ['restart']
    H = [
        [small, upd, upd, small, upd, R, upd, small, R],
        [['ev', cb, GOOD[i % len(GOOD)], True] for i, cb in enumerate(CALLBACKS)] + [upd, small, upd, R, small, R],
        [upd, ['crash', 'update_received', 1, True, 0], upd, ['crash', 'send_open', 0, True, 10 ** 9], upd, small, R],
        [upd, ['ev', 'update_received', ['sz', 5000], True], R, upd, small, R],
    ]
    thrs = [1 << 40, 1, 300]             # never / a rotation after every update / after every second one
    singles = []
    for p in PEERS:
        variants = [None]                          # None: through the real factory / protocol objects
        alts = [x for x in (p.lower(), p.upper(), p.swapcase()) if x != p]
        alts = [x for i, x in enumerate(alts) if x not in alts[:i]]
        if alts and (ctx.thorough or PEERS.index(p) < 7):
            variants += [[p] + alts, alts]         # spelling changes from event to event / never the configured one
        for sp in variants:
            for thr in thrs:
                for h in (H if ctx.thorough or (sp is None and PEERS.index(p) < 7) else H[:2]):
                    singles.append((p, sp, thr, h))
    for h in hists:                                  # the histories of section 2 under another address
        p = rng.choice([x for x in PEERS if x != x.lower()])
        allr = [x for ev in h for x in (ev, R)]
        for thr in (1, 300):
            singles.append((p, None, thr, h + [R]))
            singles.append((p, None, thr, allr))
    pairs = []
    PH = [
        [['ev', 0] + small[1:], ['ev', 1] + upd[1:], ['ev', 0] + upd[1:], ['ev', 1] + small[1:], ['ev', 0] + upd[1:], R,
         ['ev', 1] + upd[1:], ['ev', 0] + small[1:], ['ev', 1] + upd[1:], ['ev', 0] + upd[1:], R],
        [['ev', 0] + upd[1:], ['ev', 1] + upd[1:], ['crash', 0, 'update_received', 1, True, 0], ['ev', 1] + upd[1:],
         ['crash', 1, 'send_open', 0, True, 10 ** 9], ['ev', 0] + upd[1:], ['ev', 1] + small[1:], ['ev', 0] + small[1:], R],
    ]
    for ps in [('10.0.0.2', '2001:DB8::1'), ('2001:DB8::1', '10.0.0.2'), ('2001:DB8::1', '2001:db8::2'),
               ('FE80::ABCD:EF01', 'fe80::abcd:ef02'), ('2001:dB8:0:0:AbCd::F', '::FFFF:10.0.0.2')]:
        for thr in thrs:
            for h in PH:
                pairs.append((ps, thr, h))
    return singles, pairs


def locale_cases(ctx):
    """histories run in a child process whose default text encoding is ASCII (LC_ALL=C, UTF-8 mode off,
    no locale coercion), with payloads that contain non-ASCII text; ['locale', name] = the agent is
    stopped, the environment changes, the agent is started again"""
    small = ['ev', 'send_open', 0, True]
    R = ['restart']

    def na(cb, i=0):
        return ['ev', cb, NONASCII[i], True]
    out = []
    for peer, thr in (('10.0.0.2', 1 << 40), ('2001:DB8::1', 1)) + ((('2001:db8:0:0::1', 300),) if ctx.thorough else ()):
        hs = [
            ('C', [small, na('on_connection_failed'), na('update_received', 1), na('notification_received', 1), R,
                   small, na('on_connection_failed'), R]),
            ('C.UTF-8', [na('on_connection_failed'), na('update_received', 1), ['locale', 'C'], small,
                         na('on_connection_failed'), ['locale', 'C.UTF-8'], na('open_received', 1), R]),
            ('C', [['ev', 'open_received', 5, True], ['ev', 'update_received', 7, True], na('on_update_error'),
                   ['locale', 'C.UTF-8'], ['ev', 'update_received', 5, True], ['locale', 'C'], small, R]),
        ]
        if ctx.thorough:
            hs += [
                ('C.UTF-8', [na('update_received'), ['crash', 'on_connection_failed', NONASCII[0], True, 0],
                             ['locale', 'C'], na('update_received', 1),
                             ['crash', 'notification_received', NONASCII[1], True, 10 ** 9], small, R]),
                ('C', [['ev', cb, NONASCII[i % 2], True] for i, cb in enumerate(CALLBACKS)] + [R, small, R]),
            ]
        for loc, evs in hs:
            out.append({'thr': thr, 'files': None, 'events': evs, 'code': CODE, 'peer': peer, 'locale0': loc})
    return out


CHILD_ENV = {'LC_ALL': 'C', 'LANG': 'C', 'PYTHONUTF8': '0', 'PYTHONCOERCECLOCALE': '0', 'PYTHONHASHSEED': '0'}


def run_child(cases):
    """run the cases in a child process under the C locale; returns one result per case or raises"""
    e = dict(os.environ)
    e.update(CHILD_ENV)
    p = subprocess.run([sys.executable, '-B', os.path.abspath(__file__), '--locale-child'], input=json.dumps(cases).encode(),
                       stdout=subprocess.PIPE, stderr=subprocess.PIPE, env=e, timeout=600)
    out = p.stdout.decode('ascii', 'replace')
    m = re.search(r'^RESULT (.*)$', out, re.M)
    if p.returncode != 0 or not m:
        raise RuntimeError('locale child failed (rc %s): %s' % (p.returncode, p.stderr.decode('ascii', 'replace')[-1500:]))
    return json.loads(m.group(1))


def child_main():
    """in the child: default encoding of open() is ASCII until a case switches LC_CTYPE"""
    cases = json.loads(sys.stdin.read())
    root = os.path.join(common.BUILD, 'run', 'C20', 'child')
    os.makedirs(root, exist_ok=True)
    os.fsync = _fsync
    results = []
    try:
        setup()
        for case in cases:
            locale.setlocale(locale.LC_CTYPE, case['locale0'])
            enc0 = locale.getencoding()
            w, obs = run_case(root, case['thr'], None, case['events'], peer=case['peer'])
            fails = w.audit()
            kid, new = w.explain(fails) if fails else (None, None)
            results.append({'fails': [f[0] for f in fails], 'known': kid, 'new': new, 'events': w.events,
                            'hevents': w.hevents, 'obs': obs, 'nrep': w.nrep, 'tear': w.tear is not None,
                            'encoding0': enc0, 'utf8_mode': sys.flags.utf8_mode,
                            'files': [[n, len(d), d[:300].encode('ascii', 'backslashreplace').decode()] for n, d in w.read()]})
            w.close()
    finally:
        locale.setlocale(locale.LC_CTYPE, 'C')
        shutil.rmtree(root, ignore_errors=True)
    print('RESULT ' + json.dumps(results))


SUFFIX = [['ev', 'update_received', 1, True], ['ev', 'send_open', 0, True], ['restart']]

SEEDS = [
    ('legacy last line', {'1600000001.0.msg': '[1.0, 1, 1, {"a": 1}]\n[2.0, 7, 2, {"b": 2}]\n'}),
    ('blank last line', {'1600000001.0.msg': '{"t": 1.0, "seq": 3, "type": 1, "msg": null}\n\n'}),
    ('garbage last line', {'1600000001.0.msg': '{"t": 1.0, "seq": 3, "type": 1, "msg": null}\nhello\n'}),
    ('torn last line', {'1600000001.0.msg': '{"t": 1.0, "seq": 3, "type": 1, "msg": null}\n{"t": 2.0, "se'}),
    ('half line + newline', {'1600000001.0.msg': '{"t": 1.0, "seq": 3, "type": 1, "msg": null}\n{"t": 2.0, "seq": 4, "type": 1, "msg": \n'}),
    ('object without seq', {'1600000001.0.msg': '{"a": 1}\n'}),
    ('unterminated record', {'1600000001.0.msg': '{"t": 1.0, "seq": 3, "type": 1, "msg": null}'}),
    ('empty newest, older full', {'1600000001.0.msg': '{"t": 1.0, "seq": 5, "type": 1, "msg": null}\n',
                                  '1600000002.0.msg': ''}),
    ('two empty newest', {'1600000001.0.msg': '{"t": 1.0, "seq": 5, "type": 1, "msg": null}\n',
                          '1600000002.0.msg': '', '1600000003.0.msg': ''}),
    ('only an empty file', {'1600000001.0.msg': ''}),
    ('torn in older, newest empty', {'1600000001.0.msg': '{"t": 1.0, "se', '1600000002.0.msg': ''}),
    ('newest full, older torn', {'1600000001.0.msg': '{"t": 1.0, "se\n',
                                 '1600000002.0.msg': '{"t": 1.0, "seq": 9, "type": 1, "msg": null}\n'}),
]


def _rec(seq, n):
    """a record line of exactly n octets, newline included"""
    head = '{"t": 2.0, "seq": %d, "type": 2, "msg": "' % seq
    return head + 'x' * (n - len(head) - 3) + '"}\n'


SMALL = '{"t": 1.0, "seq": 3, "type": 1, "msg": null}\n'
SEEDS_THOROUGH = []
for _n in (4095, 4096, 4097, 5000, 8193, 65537, 70000, (1 << 20) + 1, (1 << 22) + 1):
    (SEEDS if _n <= 70000 else SEEDS_THOROUGH).extend([
        ('last record of %d octets' % _n, {'1600000001.0.msg': SMALL + _rec(4, _n)}),
        ('only a record of %d octets' % _n, {'1600000001.0.msg': _rec(1, _n)}),
        ('record of %d octets in an older file, newest empty' % _n,
         {'1600000001.0.msg': SMALL + _rec(4, _n), '1600000002.0.msg': ''}),
        ('torn tail of %d octets' % _n, {'1600000001.0.msg': SMALL + _rec(4, _n + 50)[:_n]}),
        ('record of %d octets without its newline' % _n, {'1600000001.0.msg': SMALL + _rec(4, _n + 1)[:-1]}),
        ('legacy line of %d octets' % _n, {'1600000001.0.msg': SMALL + '[1.0, 7, 2, "%s"]\n' % ('y' * (_n - 16))}),
        ('foreign line of %d octets' % _n, {'1600000001.0.msg': SMALL + 'z' * (_n - 1) + '\n'}),
        ('short record after one of %d octets' % _n,
         {'1600000001.0.msg': _rec(4, _n) + '{"t": 1.0, "seq": 5, "type": 1, "msg": null}\n'}),
    ])
SEEDS.append(SEEDS_THOROUGH[0])          # one line of 2^20+1 octets in the quick tier too


RUNS = re.compile(rb'(.)\1{63,}', re.S)


def coq_text(data):
    """file contents -> Coq term of type bytes; runs of 64 or more equal octets as `rep x n`"""
    b = data.encode('utf-8', 'surrogateescape')
    parts, i = [], 0
    for m in list(RUNS.finditer(b)) + [None]:
        j = m.start() if m else len(b)
        if j > i:
            parts.append('[%s]' % '; '.join('%d' % x for x in b[i:j]))
        if m:
            parts.append('rep %d %d' % (b[m.start()], m.end() - m.start()))
            i = m.end()
    return '(%s)' % ' ++ '.join(parts) if parts else '[]'


def coq_octets(files):
    """directory contents -> Coq term: list of file texts, newest first"""
    return '[%s]' % '; '.join(coq_text(files[n]) for n in sorted(files, reverse=True))


def literal_cost(files):
    """octets that coq_octets would write out one by one"""
    return sum(len(RUNS.sub(b'', d.encode('utf-8', 'surrogateescape'))) for d in files.values())


def coq_disk(files):
    """directory contents -> Coq term (list file, newest first, lines newest first)"""
    fs = []
    for name in sorted(files, reverse=True):
        data = files[name]
        ls = split_lines(data)
        cl = []
        for t, term in reversed(ls):
            c = classify(t, term)
            cl.append({0: 'Full %d', 1: 'Torn', 2: 'Legacy %d', 3: 'Blank'}[c[0]] % tuple(c[1:]))
        fs.append('File [%s] %s %d' % ('; '.join(cl), 'true' if ls and not ls[-1][1] else 'false',
                                       len(data.encode('utf-8', 'surrogateescape'))))
    return '[%s]' % '; '.join(fs)


# ---------------------------------------------------------------------------------
# inventory: every callback that writes the log
# ---------------------------------------------------------------------------------
def inventory():
    src = open(os.path.join(env.REPO, 'yabgp/handler/default_handler.py')).read()
    cls = [n for n in ast.parse(src).body if isinstance(n, ast.ClassDef) and n.name == 'DefaultHandler'][0]
    table, extra = {}, []
    for fn in [n for n in cls.body if isinstance(n, ast.FunctionDef)]:
        calls = [c for c in ast.walk(fn) if isinstance(c, ast.Call) and isinstance(c.func, ast.Attribute)]
        w = [c for c in calls if c.func.attr == 'write_msg']
        chk = any(c.func.attr == 'check_file_size' for c in calls)
        payload = False
        for c in w:
            for kw in c.keywords:
                if kw.arg == 'msg' and isinstance(kw.value, ast.Dict):
                    payload = any(not (isinstance(v, ast.Constant) and v.value is None) for v in kw.value.values)
        if fn.name in CALLBACKS:
            table[fn.name] = [bool(w), chk, payload]
        elif w or chk:
            extra.append(fn.name)
    return [table.get(cb, [False, False, False]) for cb in CALLBACKS], extra


# ---------------------------------------------------------------------------------
# run
# ---------------------------------------------------------------------------------
def describe(thr, files, evs):
    return {'thr': thr, 'files': files, 'events': evs, 'code': CODE}


def run_pair(root, thr, peers, evs):
    w = Pair(root, thr, peers)
    w.start()
    obs = [w.observe()]
    for ev in evs:
        w.do(ev)
        obs.append(w.observe())
    return w, obs


def finish_addr(w, case, obs, cases, violations, stats):
    """audit of every peer's log + handler-level model (events carry the address as spelled)"""
    ws = w.ws if isinstance(w, Pair) else [w]
    stats['cases'] += 1
    stats['address_cases'] = stats.get('address_cases', 0) + 1
    for x in ws:
        fails = x.audit()
        for fl in x.flags:
            stats['class_' + fl] = stats.get('class_' + fl, 0) + 1
        if fails:
            kid, new = x.explain(fails)
            stats['failing'] = stats.get('failing', 0) + 1
            violations.append({'what': '%s [peer %s; threshold %d; history %s]'
                                       % (new or fails[0][0], x.peer, x.thr, ' ; '.join(x.events)),
                               'input': case, 'all': [f[0] for f in fails][:6], 'known': kid,
                               'crashes': sum(1 for e in case['events'] if e[0] == 'crash')})
        elif x.tear is None:
            stats['passing_nontrivial'] += 1 if x.nrep >= 2 else 0
    model = 'sx_htrace (htrace %s %d [%s] [%s])' % (CFG, w.thr, '; '.join(coq_addr(x.peer) for x in ws),
                                                   '; '.join(w.hevents))
    cases.append((model, obs if isinstance(w, Pair) else [[o] for o in obs], case))
    w.close()


def run_case(root, thr, files, evs, peer=PEER, spellings=None):
    """generic executor (also used by replay): returns (world-after, observations after start and
    after every event)"""
    w = World(root, thr, files=files, peer=peer, spellings=spellings)
    w.start()
    obs = [w.observe()]
    for ev in evs:
        w.do(ev)
        obs.append(w.observe())
    return w, obs


def finish(w, case, obs, skip, cases, violations, stats, sliced=False, octets=False):
    fails = w.audit()
    stats['cases'] += 1
    for fl in w.flags:
        stats['class_' + fl] = stats.get('class_' + fl, 0) + 1
    if fails:
        kid, new = w.explain(fails)
        stats['failing'] = stats.get('failing', 0) + 1
        violations.append({'what': '%s [threshold %d; history %s]' % (new or fails[0][0], w.thr, ' ; '.join(w.events)),
                           'input': case, 'all': [f[0] for f in fails][:6], 'known': kid,
                           'crashes': sum(1 for e in case['events'] if e[0] == 'crash')})
    elif w.tear is None:
        stats['passing_nontrivial'] += 1 if w.nrep >= 2 else 0
    model = 'sx_trace %d (trace_from %s %d %s [%s])' % (skip, CFG, w.thr, coq_disk(case['files'] or {}),
                                                       '; '.join(w.events))
    cases.append((model, obs if sliced else obs[skip:], case))
    if octets:
        octet_case(w, case, cases, stats)
    w.close()


def octet_case(w, case, cases, stats):
    """octet level of start-up: the history ends with a (re)start, so the directory is what that
    start-up read; the model's newest_line on these octets against the text the code parsed"""
    files = dict(w.read())
    model = 'sx_parsed (newest_line %s)' % coq_octets(files)
    cases.append((model, w.parsed_obs(), dict(case, level='octets')))
    stats['octet_level_cases'] = stats.get('octet_level_cases', 0) + 1
    stats['octet_level_longest_line'] = max(stats.get('octet_level_longest_line', 0), len(w.tail_line()))


def run(ctx):
    os.environ.setdefault('TMPDIR', '/tmp')
    root = os.path.join(common.BUILD, 'run', 'C20')
    os.makedirs(root, exist_ok=True)
    real_fsync = os.fsync
    os.fsync = _fsync
    rng = ctx.rng
    cases, violations, mism = [], [], []
    stats = {'cases': 0, 'passing_nontrivial': 0, 'offsets_swept': 0, 'json_assumption_checked': 0,
             'rotations_max': 0}
    try:
        setup()
        # 0. known-finding / refutation witnesses of props/C20.v, replayed on the implementation
        wit = [
            (1000, [['ev', 'send_open', 0, True], ['crash', 'open_received', 0, True, 10]]),
            (1000, [['ev', 'send_open', 0, True], ['crash', 'open_received', 0, True, -1],
                    ['ev', 'send_open', 0, True], ['restart']]),
            (100, [['ev', 'update_received', 1, True], ['ev', 'update_received', 1, True], ['restart'],
                   ['ev', 'send_open', 0, True]]),
            (1000, [['ev', 'open_received', 7, True], ['ev', 'send_open', 0, True]]),
        ]
        for thr, evs in wit:
            w, obs = run_case(root, thr, None, evs)
            finish(w, describe(thr, None, evs), obs, 0, cases, violations, stats)
        # 1. seeded directories: init on foreign / damaged contents (correspondence of init only)
        for what, files in SEEDS + (SEEDS_THOROUGH[1:] if ctx.thorough else []):
            evs = [['ev', 'send_open', 0, True], ['restart']]
            w, obs = run_case(root, 1 << 40, files, evs)
            model = 'sx_trace 0 (trace_from %s %d %s [%s])' % (CFG, w.thr, coq_disk(files), '; '.join(w.events))
            cases.append((model, obs, describe(1 << 40, files if sum(map(len, files.values())) < 2000 else what,
                                               evs)))
            stats['cases'] += 1
            w.close()
            # the same directory at the octet level: what does start-up parse?
            w = World(root, 1 << 40, files=files)
            w.start()
            octet_case(w, {'thr': 1 << 40, 'files': what, 'events': [], 'code': CODE}, cases, stats)
            w.close()
        # 2. histories x thresholds: plain, restart after every event, crash at every octet offset
        hists = base_histories(ctx)
        for hist in hists:
            for thr in thresholds(root, hist, rng, ctx.thorough):
                w, obs = run_case(root, thr, None, hist + [['restart']])
                stats['rotations_max'] = max(stats['rotations_max'], len(obs[-1][0]) - 1)
                finish(w, describe(thr, None, hist + [['restart']]), obs, 0, cases, violations, stats)
                # restart after every event (all positions at once, and one at a time)
                allr = [x for ev in hist for x in (ev, ['restart'])]
                variants = [allr] + [hist[:i + 1] + [['restart']] + hist[i + 1:] + [['restart']]
                                     for i in range(len(hist))]
                for evs in variants:
                    w, obs = run_case(root, thr, None, evs)
                    finish(w, describe(thr, None, evs), obs, 0, cases, violations, stats)
                # crash inside event i at every octet offset, then further events, restart, audit
                positions = list(range(len(hist)))
                if not ctx.thorough and len(positions) > 2:
                    positions = sorted(rng.sample(positions[:-1], 1) + [positions[-1]])
                for i in positions:
                    ev = hist[i]
                    w0, obs0 = run_case(root, thr, None, hist[:i])
                    if w0.h is None:
                        w0.close()
                        continue
                    w0.crash_prepare(ev[1], ev[2], ev[3])
                    snap = w0.snapshot()
                    sz = snap['pending'][2]
                    w0.close()
                    offsets = offsets_for(sz, rng, ctx.thorough)
                    for k in offsets:
                        w = World.restore(root, thr, snap)
                        w.crash_finish(k)
                        obs = [w.observe()]
                        for e2 in SUFFIX:
                            w.do(e2)
                            obs.append(w.observe())
                        evs = hist[:i] + [['crash', ev[1], ev[2], ev[3], k]] + SUFFIX
                        # assumption (json): a cut line is unparseable unless nothing or all of it is there
                        if 0 < k < sz:
                            stats['json_assumption_checked'] += 1
                        stats['offsets_swept'] += 1
                        finish(w, describe(thr, None, evs), obs, i + 1, cases, violations, stats, sliced=True)
        # 3. the record-size dimension
        budget = 60 if ctx.thorough else 24
        for thr, evs, plain in size_histories(ctx):
            w, obs = run_case(root, thr, None, evs)
            stats['rotations_max'] = max(stats['rotations_max'], len(obs[-1][0]) - 1)
            stats['size_cases'] = stats.get('size_cases', 0) + 1
            oct_ok = plain and budget > 0 and literal_cost(dict(w.read())) <= 12000
            budget -= 1 if oct_ok else 0
            finish(w, describe(thr, None, evs), obs, 0, cases, violations, stats, octets=oct_ok)
        # 4. the peer-address dimension
        singles, pairs = address_cases(ctx, hists)
        for peer, sp, thr, evs in singles:
            w, obs = run_case(root, thr, None, evs, peer=peer, spellings=sp)
            stats['rotations_max'] = max(stats['rotations_max'], len(obs[-1][0]) - 1)
            finish_addr(w, dict(describe(thr, None, evs), peer=peer, spellings=sp), obs, cases, violations, stats)
        for peers, thr, evs in pairs:
            w, obs = run_pair(root, thr, list(peers), evs)
            finish_addr(w, dict(describe(thr, None, evs), peers=list(peers)), obs, cases, violations, stats)
        # 5. non-ASCII text in a process whose default encoding is ASCII (child process)
        lcases = locale_cases(ctx)
        for case, r in zip(lcases, run_child(lcases)):
            stats['cases'] += 1
            stats['locale_child_cases'] = stats.get('locale_child_cases', 0) + 1
            stats['locale_child_encoding'] = [r['encoding0'], 'utf8_mode=%d' % r['utf8_mode']]
            if r['fails']:
                stats['failing'] = stats.get('failing', 0) + 1
                violations.append({'what': '%s [child process LC_ALL=C PYTHONUTF8=0, LC_CTYPE %s at the start; peer %s; '
                                           'threshold %d; history %s]' % (r['new'] or r['fails'][0], case['locale0'],
                                                                          case['peer'], case['thr'], ' ; '.join(r['events'])),
                                   'input': case, 'all': r['fails'][:6], 'known': r['known'],
                                   'crashes': sum(1 for e in case['events'] if e[0] == 'crash')})
            elif not r['tear']:
                stats['passing_nontrivial'] += 1 if r['nrep'] >= 2 else 0
            cases.append(('sx_htrace (htrace %s %d [%s] [%s])' % (CFG, case['thr'], coq_addr(case['peer']),
                                                                 '; '.join(r['hevents'])),
                          [[o] for o in r['obs']], case))
        stats['peer_addresses'] = {'single': len(singles), 'pairs_in_one_handler': len(pairs),
                                   'starts_by_configured_address': dict(PEERSTAT)}
        inv, extra_cbs = inventory()
    finally:
        os.fsync = real_fsync
        del POOL[:]
        for d in os.listdir(root):
            if d.startswith('case'):
                shutil.rmtree(os.path.join(root, d), ignore_errors=True)
    if extra_cbs:
        mism.append({'what': 'methods outside the modelled callback list write the log: %s' % extra_cbs})
    # correspondence in Coq
    if ctx.coq_ok:
        texts, starts = [], []
        from session import Bytes
        wired = sorted(WIRED.items())
        items = [('sx_inventory', inv, 'inventory'),
                 ('SL [%s]' % '; '.join('SB (factory_peer_addr %s)' % coq_addr(a) for a, _ in wired),
                  [Bytes(f.encode('ascii', 'replace')) for _, f in wired],
                  {'what': 'factory.peer_addr of a real BGPPeering for every configured remote_addr',
                   'configured': [a for a, _ in wired], 'factory': [f for _, f in wired]})] + cases
        cur, cur_len, start = [], 0, 0
        per = min(500, max(250, -(-len(items) // 15)))      # one wave of parallel coqc runs if possible
        for n, (m, o, _) in enumerate(items):               # a shard: at most `per` cases / 600 kB of text
            t = '(%s, %s)' % (m, coq_sx(o))
            if cur and (len(cur) >= per or cur_len + len(t) > 600000):
                texts.append(cur)
                starts.append(start)
                cur, cur_len, start = [], 0, n
            cur.append(t)
            cur_len += len(t)
        texts.append(cur)
        starts.append(start)
        texts = ['Definition cases : list (sx * sx) := [\n%s\n].\nEval vm_compute in (mismatches cases).\n'
                 % ';\n'.join(c) for c in texts]
        stats['case_files'] = len(texts)
        for kk, (rc, out) in enumerate(common.coq_eval_shards(ctx.prop, texts, imports=IMPORTS)):
            idx = common.parse_nats(out)
            if rc != 0 or idx is None:
                mism.append({'what': 'case file %d does not evaluate: %s' % (kk, common.first_error(out))})
                continue
            for i in idx:
                m, o, case = items[starts[kk] + i]
                mism.append({'what': 'model (%s) and implementation differ' % CFG, 'input': case,
                             'impl': o, 'model_expr': m[:2000]})
    else:
        inv_expected = [[True, False, True], [True, False, True], [True, True, True], [True, False, True],
                        [True, False, False], [True, False, True], [True, False, True], [True, False, False],
                        [True, False, True]]
        if inv != inv_expected:
            mism.append({'what': 'callback inventory changed', 'input': inv})
    violations.sort(key=lambda v: (v['known'] is not None, v['crashes'], len(v['input']['events'])))
    kn = {}
    for v in violations:
        kn[v['known']] = kn.get(v['known'], 0) + 1
    stats['failing_by_class'] = {str(k): v for k, v in kn.items()}
    stats['code_version_modelled'] = CFG
    stats['histories'] = len(hists)
    stats['record_sizes'] = {'sized_records_written': SIZED['exact'] + SIZED['other'],
                             'of_exactly_the_wanted_length': SIZED['exact'],
                             'distinct_lengths': len(SIZED['lengths']),
                             'lengths_min_max': [min(SIZED['lengths'] or [0]), max(SIZED['lengths'] or [0])],
                             'wanted': SIZES_THOROUGH if ctx.thorough else SIZES_QUICK,
                             'starts': TAILS['starts'], 'longest_line_a_start_had_to_find': TAILS['max'],
                             'starts_with_last_line_longer_than_4096': TAILS['longer_than_4096'],
                             'starts_with_last_line_longer_than_65536': TAILS['longer_than_65536']}
    samples = [c[2] for c in cases[:2]] + [cases[len(cases) // 2][2], cases[-1][2]]
    return {'evaluations': len(cases), 'distinct': stats['passing_nontrivial'] + stats.get('failing', 0),
            'rule': 'histories over the 9 callbacks (all of them once, keepalive option on/off, serialisable and '
                    'unserialisable payloads, seeded random) x thresholds at/next to occurring file sizes x '
                    '{plain, restart after every event, crash at every octet offset of a write + 2 events + '
                    'restart}; RECORD SIZES: every payload may be a sized one (line of exactly L octets, L from '
                    'the smallest record over 100, 4000, 4095/4096/4097, 5000, 8193, 20000, 65537 to 70000; '
                    'thorough: every power of two 512..65536 -1/+0/+1 and up to 2^20+1) and for every L dedicated histories (restart right after the huge record / '
                    'one event later / only huge records / crash before and after the following record / the '
                    'huge record torn next to every block boundary) x thresholds below, at, above the record; '
                    'seeded directories with last lines up to 2^20+1 (thorough 2^22+1) octets; octet-level start-up (model '
                    'newest_line vs. the text the code parses); '
                    'PEER ADDRESSES: 7 spellings (IPv4, IPv6 lower/upper/mixed case, IPv4-mapped) x spelling '
                    'fixed / changing per event / never the configured one x thresholds {never, 1, 300} x histories '
                    '(all callbacks, restarts, crashes, a 5000-octet record), the random histories under an '
                    'upper-case address, 5 pairs of peers in one handler; '
                    '10 more configured texts of IPv6 addresses in non-canonical form, callbacks through a real '
                    'BGPPeering/protocol object; NON-ASCII payloads in the pool, and 6 (thorough 15) histories with '
                    'them in a child process under LC_ALL=C PYTHONUTF8=0 incl. locale changes across restarts; '
                    'non-trivial = at least two lines written and audited, or a failing audit; '
                    'distinct by (threshold, history, offset)',
            'samples': samples, 'mismatches': mism, 'violations': violations, 'extra': stats}


def replay(ctx, obj):
    case = obj.get('violation', obj).get('input', obj)
    root = os.path.join(common.BUILD, 'run', 'C20')
    os.makedirs(root, exist_ok=True)
    real_fsync = os.fsync
    os.fsync = _fsync
    try:
        if case.get('locale0'):
            r = run_child([case])[0]
            print('child process LC_ALL=C PYTHONUTF8=0 (open() default %s at the start of the child)' % r['encoding0'])
            for n, ln, head in r['files']:
                print('file %s: %d characters  %s' % (n, ln, head[:200]))
            print('history:', ' ; '.join(r['events']))
            for f in r['fails']:
                print('FAIL:', f)
            if r['fails']:
                print('known finding: %s' % r['known'] if r['known'] else 'VIOLATION property=C20')
                return 0 if r['known'] else 1
            print('audit passes')
            return 0
        if case.get('peers'):
            pw, obs = run_pair(root, case['thr'], case['peers'], case['events'])
            w = ([x for x in pw.ws if x.audit()] or pw.ws)[0]
            print('two peers in one handler: %s; shown: %s' % (case['peers'], w.peer))
        else:
            pw = None
            w, obs = run_case(root, case['thr'], case.get('files'), case['events'],
                              peer=case.get('peer', PEER), spellings=case.get('spellings'))
        fails = w.audit()
        print('peer address as configured: %s; callbacks arrive with: %s' % (w.peer, w.spellings or ('factory.peer_addr = %s' % (w.factory.peer_addr if w.factory else '?'))))
        for n, d in w.read():
            print('file %s: %d octets' % (n, len(d)))
            for t, term in split_lines(d):
                print('   %6d octets%s  %s' % (len(t) + (1 if term else 0), '' if term else ' (no newline)',
                                              t if len(t) <= 110 else t[:80] + ' ... ' + t[-25:]))
        print('history:', ' ; '.join(w.events))
        print('observed:', obs[-1])
        for f in fails:
            print('FAIL:', f[0])
        kid = w.known_id(fails) if fails else None
        (pw or w).close()
    finally:
        os.fsync = real_fsync
    if fails:
        print('known finding: %s' % kid if kid else 'VIOLATION property=C20')
        return 0 if kid else 1
    print('audit passes')
    return 0


if __name__ == '__main__' and '--locale-child' in sys.argv:
    child_main()
