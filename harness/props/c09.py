"""C09 - decoding agrees with an independent RFC encoder.

Reference values (Python form; the Coq form is spec/RefUpdate.v `rupdate`):
  prefix     (path_id, address, length)                 host bits of `address` are zero
  attribute  (type_code, value), value one of
      ('num', n)  ('path', [(seg_type, [asn..])..])  ('empty',)  ('pair', asn, addr)
      ('nums', [n..])  ('exts', [(code, global, local)..])  ('large', [[a, b, c]..])
      type codes 1..10, 16, 32 and 17 (AS4_PATH), 18 (AS4_AGGREGATOR); COMMUNITIES is ('nums', [32-bit..])
  message    {'withdraw': [prefix], 'attrs': [attribute], 'nlri': [prefix]}
  variants   {'asn4': bool, 'addpath': bool, 'ext': [type codes forced to Extended Length],
              'fill_w': [filler per withdrawn prefix], 'fill_n': [filler per announced prefix]}
  corruption ('origin', o) ('segtype', i, t) ('plen', in_nlri, i, l) ('alen', code, n)

`layout`/`serialise`/`ref_encode`/`ref_corrupt` below are a transcription of spec/RefUpdate.v; the run
evaluates the Coq functions on a sample and compares octets (self-check of the transcription).
"""
import os
import struct

import env  # noqa: F401  (stubs + /repo on sys.path)
import common
import netaddr
import props.c06 as c06
from props.c06 import B, coq_bytes, coq_sx, coq_bool, coq_nlist, TWO32, INTS

COQ_TARGETS = ['props/C09.vo']
TRUSTED = ['netaddr text<->integer conversion of IPv4 addresses/prefixes; Python struct module',
           'canonicalisation of the decoder output in harness/props/c06.py (c_val, c_pfx, c_sub) and the reference '
           'encoder transcription in harness/props/c09.py (compared octet by octet with spec/RefUpdate.v on a sample '
           'of every run)']
ASSUMPTIONS = ['model/YUpdateExt.v (Update.parse with afi_add_path; the call in protocol.py) is hand-written on top of '
               'model/YPrefix4.v, YAttr.v, YUpdate.v and tied to yabgp/message/update.py, yabgp/message/attribute/*.py '
               'by the correspondence run of this check on every reference encoding and every corruption',
               'extended communities of the reference value space: route-target / route-origin in the two-octet-AS, '
               'IPv4-address and four-octet-AS forms (RFC 4360, RFC 5668); the decoder prints the two-octet-AS and '
               'four-octet-AS forms alike (same identification as C06)',
               'the decoder is called the way BGP._update_received calls it (Update().parse(t, body, fourbytesas, '
               'afi_add_path)), with afi_add_path={} and, for the add-path variant, {"ipv4": True}']
IMPORTS = ('From YV Require Import lib.Base gen.Consts model.YMsg model.YPrefix4 model.YAttr model.YUpdate '
           'model.YUpdateExt spec.RefUpdate.\n')

FLAGS = {1: 64, 2: 64, 3: 64, 5: 64, 6: 64, 4: 128, 9: 128, 10: 128, 7: 192, 8: 192, 16: 192, 32: 192, 17: 192,
         18: 192}
EXT_CODES = [0x0002, 0x0003, 0x0102, 0x0103, 0x0202, 0x0203]
KNOWN_ADDPATH = 'C09-addpath-not-wired'


# ------------------------------------------------------------------------------------------
# reference encoder (transcription of spec/RefUpdate.v)
# ------------------------------------------------------------------------------------------
def be(k, n):
    return bytes(((n // 256 ** (k - 1 - i)) % 256) for i in range(k))


def octs(l):
    """Coq `bytes` are lists of N: an out-of-range octet would not be a Python byte"""
    return bytes(l)


def enc_seg(k, s):
    t, asns = s
    return [t, len(asns)] + [x for a in asns for x in be(k, a)]


def enc_path(k, segs):
    return [x for s in segs for x in enc_seg(k, s)]


def enc_ext(e):
    code, g, l = e
    if (code // 256) % 64 == 0:
        return be(2, code) + be(2, g) + be(4, l)
    return be(2, code) + be(4, g) + be(2, l)


def attr_payload(asn4, a):
    tc, v = a
    k = 4 if asn4 else 2
    if tc == 1:
        return [v[1]]
    if tc == 2:
        return enc_path(k, v[1])
    if tc in (3, 4, 5, 9):
        return list(be(4, v[1]))
    if tc == 6:
        return []
    if tc == 7:
        return list(be(k, v[1]) + be(4, v[2]))
    if tc in (8, 10):
        return [x for n in v[1] for x in be(4, n)]
    if tc == 16:
        return [x for e in v[1] for x in enc_ext(e)]
    if tc == 32:
        return [x for c in v[1] for n in c for x in be(4, n)]
    if tc == 17:
        return enc_path(4, v[1])
    if tc == 18:
        return list(be(4, v[1]) + be(4, v[2]))
    raise ValueError(a)


def lay_attr(var, a):
    p = attr_payload(var['asn4'], a)
    return {'flags': FLAGS[a[0]], 'code': a[0], 'ext': len(p) > 255 or a[0] in var['ext'], 'payload': list(p)}


def lay_pfx(ap, fill, p):
    pid, a, l = p
    word = a + fill % (2 ** max(32 - l, 0))
    return {'id': pid if ap else None, 'len': l, 'octets': list(be(4, word)[:(l + 7) // 8])}


def lay_pfxs(ap, fills, ps):
    return [lay_pfx(ap, fills[i] if i < len(fills) else 0, p) for i, p in enumerate(ps)]


def layout(var, v):
    return {'withdraw': lay_pfxs(var['addpath'], var['fill_w'], v['withdraw']),
            'attrs': [lay_attr(var, a) for a in v['attrs']],
            'nlri': lay_pfxs(var['addpath'], var['fill_n'], v['nlri'])}


def ser_attr(w):
    p = w['payload']
    if w['ext']:
        return [w['flags'] + 16, w['code']] + list(be(2, len(p))) + p
    return [w['flags'], w['code'], len(p)] + p


def ser_pfx(w):
    return (list(be(4, w['id'])) if w['id'] is not None else []) + [w['len']] + w['octets']


def serialise(w):
    wd = [x for p in w['withdraw'] for x in ser_pfx(p)]
    ad = [x for a in w['attrs'] for x in ser_attr(a)]
    nd = [x for p in w['nlri'] for x in ser_pfx(p)]
    return octs(list(be(2, len(wd))) + wd + list(be(2, len(ad))) + ad + nd)


def ref_encode(var, v):
    return serialise(layout(var, v))


def resize(n, p):
    return (p + [0] * n)[:n]


def ref_corrupt(var, k, v):
    attrs = []
    for tc, val in v['attrs']:
        if k[0] == 'origin' and tc == 1:
            val = ('num', k[1])
        elif k[0] == 'segtype' and tc == 2:
            val = ('path', [((k[2], s[1]) if i == k[1] else s) for i, s in enumerate(val[1])])
        attrs.append((tc, val))
    w = layout(var, {'withdraw': v['withdraw'], 'attrs': attrs, 'nlri': v['nlri']})
    if k[0] == 'plen':
        lst = w['nlri'] if k[1] else w['withdraw']
        if k[2] < len(lst):
            lst[k[2]] = dict(lst[k[2]], len=k[3])
    elif k[0] == 'alen':
        for a in w['attrs']:
            if a['code'] == k[1]:
                a['payload'] = resize(k[2], a['payload'])
    return serialise(w)


# ------------------------------------------------------------------------------------------
# Coq printers for reference values
# ------------------------------------------------------------------------------------------
def coq_rpfxs(ps):
    return '[%s]' % '; '.join('(%d, (%d, %d))' % p for p in ps)


def coq_segs(segs):
    return '[%s]' % '; '.join('(%d, %s)' % (t, coq_nlist(a)) for t, a in segs)


def coq_rattr(a):
    tc, v = a
    if tc == 1:
        return 'ROrigin %d' % v[1]
    if tc == 2:
        return 'RAsPath %s' % coq_segs(v[1])
    if tc in (3, 4, 5, 9):
        return '%s %d' % ({3: 'RNextHop', 4: 'RMed', 5: 'RLocalPref', 9: 'ROriginator'}[tc], v[1])
    if tc == 6:
        return 'RAtomic'
    if tc == 7:
        return 'RAggregator %d %d' % (v[1], v[2])
    if tc == 8:
        return 'RCommunities %s' % coq_nlist(v[1])
    if tc == 10:
        return 'RClusterList %s' % coq_nlist(v[1])
    if tc == 16:
        return 'RExtCommunities [%s]' % '; '.join('(%d, (%d, %d))' % e for e in v[1])
    if tc == 32:
        return 'RLargeCommunities [%s]' % '; '.join('(%d, (%d, %d))' % tuple(c) for c in v[1])
    if tc == 17:
        return 'RAs4Path %s' % coq_segs(v[1])
    if tc == 18:
        return 'RAs4Aggregator %d %d' % (v[1], v[2])
    raise ValueError(a)


def coq_value(v):
    return '(mkR %s [%s] %s)' % (coq_rpfxs(v['withdraw']), '; '.join(coq_rattr(a) for a in v['attrs']),
                                 coq_rpfxs(v['nlri']))


def coq_var(var):
    return '(mkVar %s %s %s %s %s)' % (coq_bool(var['asn4']), coq_bool(var['addpath']), coq_nlist(var['ext']),
                                       coq_nlist(var['fill_w']), coq_nlist(var['fill_n']))


def coq_corruption(k):
    if k[0] == 'origin':
        return '(KOrigin %d)' % k[1]
    if k[0] == 'segtype':
        return '(KSegType %d%%nat %d)' % (k[1], k[2])
    if k[0] == 'plen':
        return '(KPrefixLen %s %d%%nat %d)' % (coq_bool(k[1]), k[2], k[3])
    return '(KAttrLen %d %d%%nat)' % (k[1], k[2])


# ------------------------------------------------------------------------------------------
# what the property expects to be decoded (independent of the model): the encoded values
# ------------------------------------------------------------------------------------------
def expect_val(tc, v):
    if tc in (1, 3, 4, 5, 9):
        return [0, v[1]]
    if tc in (2, 17):
        return [1, [[t, list(a)] for t, a in v[1]]]
    if tc == 6:
        return [2]
    if tc in (7, 18):
        return [3, v[1], v[2]]
    if tc == 10:
        return [4, list(v[1])]
    if tc == 8:
        wk = c06.wk_values()
        return [5, [[0, x] if x in wk else [1, x >> 16, x & 0xFFFF] for x in v[1]]]
    if tc == 16:
        return [6, [[{0x0202: 2, 0x0203: 3}.get(c, c), [g, l]] for c, g, l in v[1]]]
    return [7, [list(c) for c in v[1]]]


def expect(var, v):
    def px(p):
        return [[p[0]] if var['addpath'] else [], p[1], p[2]]
    return [[px(p) for p in v['withdraw']], sorted([tc, expect_val(tc, val)] for tc, val in v['attrs']),
            [px(p) for p in v['nlri']], []]


# ------------------------------------------------------------------------------------------
# the real decoder
# ------------------------------------------------------------------------------------------
def c_xpfx(p):
    if isinstance(p, dict):
        a, l = c06.c_pfx(p['prefix'])
        return [[p['path_id']], a, l]
    a, l = c06.c_pfx(p)
    return [[], a, l]


def impl_parse(body, asn4, addpath):
    """Update().parse the way protocol.py calls it; afi_add_path={'ipv4': True} is the form the decoder
    understands for add-path"""
    from yabgp.message.update import Update

    def render(r):
        try:
            return [[c_xpfx(p) for p in r['withdraw']], c06.c_attrs(r['attr']), [c_xpfx(p) for p in r['nlri']],
                    c06.c_sub(r['sub_error'])]
        except Exception:
            # the octets reached a decoder outside the modelled subset (possible only when the framing
            # is misread): a value that equals no expectation and no model result
            return [[], [[999999, [8, B(repr(r.get('attr')).encode()[:200])]]], [], c06.c_sub(r['sub_error'])]
    return c06.run_impl(lambda: Update().parse(None, body, asn4, afi_add_path={'ipv4': True} if addpath else {}),
                        render)


def sorted_attrs(p):
    """the attribute dictionary as a map (order of arrival dropped)"""
    if p[0] != 0:
        return p
    r = p[1]
    return [0, [r[0], sorted(r[1]), r[2], r[3]]]


def impl_received(body, fourbytesas, add_path_receive):
    """BGP._update_received on a real protocol object (stub reactor): what reaches the handler"""
    from yabgp.core.protocol import BGP
    calls = []

    class H(object):
        def on_update_error(self, peer, t, msg):
            calls.append(('error', msg))

        def update_received(self, peer, t, msg):
            calls.append(('update', msg))

    class F(object):
        peer_addr = '10.0.0.2'
        handler = H()

    class Fsm(object):
        def update_received(self):
            pass
    from oslo_config import cfg
    env.init_conf()
    cfg.CONF.set_override('afi_safi', ['ipv4'], group='bgp')
    cfg.CONF.set_override('rib', False, group='bgp')
    p = BGP()
    p.fourbytesas = fourbytesas
    p.add_path_ipv4_receive = add_path_receive
    p.factory = F()
    p.fsm = Fsm()
    p._update_received(0, body)
    return calls


# ------------------------------------------------------------------------------------------
# generators: the C06 value space, through every variant
# ------------------------------------------------------------------------------------------
def conv_attr(tc, v):
    """C06 abstract value -> reference value (None if the value is outside the reference space)"""
    if v[0] == 'comms':
        return (tc, ('nums', [c[1] if c[0] == 'wk' else c[1] * 65536 + c[2] for c in v[1]]))
    if v[0] == 'exts':
        return None
    return (tc, v)


def rand_ext(rng):
    code = rng.choice(EXT_CODES)
    if code // 256 == 0:
        return (code, c06.rand_int(rng, 1 << 16), c06.rand_int(rng, TWO32))
    return (code, c06.rand_int(rng, TWO32), c06.rand_int(rng, 1 << 16))


def ext_singletons(rng):
    out = [(16, ('exts', []))]
    for code in EXT_CODES:
        gl, ll = ((1 << 16), TWO32) if code // 256 == 0 else (TWO32, 1 << 16)
        for g in [x for x in INTS if x < gl]:
            out.append((16, ('exts', [(code, g, c06.rand_int(rng, ll))])))
        for l in [x for x in INTS if x < ll]:
            out.append((16, ('exts', [(code, c06.rand_int(rng, gl), l)])))
    out.append((16, ('exts', [rand_ext(rng) for _ in range(31)])))
    out.append((16, ('exts', [rand_ext(rng) for _ in range(40)])))      # above 255 octets
    return out


def singletons(ctx, asn4):
    rng = ctx.rng
    out = []
    for tc, v in c06.attr_singletons(ctx, asn4):
        a = conv_attr(tc, v)
        if a is not None:
            out.append(a)
    out += ext_singletons(rng)
    # lists longer than 255 octets (the agent itself never emits these: extended length is mandatory)
    out.append((8, ('nums', [c06.rand_int(rng, TWO32) for _ in range(70)])))
    out.append((10, ('nums', [c06.rand_int(rng, TWO32) for _ in range(64)])))
    out.append((32, ('large', [[c06.rand_int(rng, TWO32) for _ in range(3)] for _ in range(22)])))
    # AS4_PATH / AS4_AGGREGATOR: always 4-octet AS numbers
    out += [(17, ('path', p)) for p in c06.gen_aspaths(ctx, True)]
    for n in INTS:
        out.append((18, ('pair', n, c06.rand_int(rng, TWO32))))
        out.append((18, ('pair', c06.rand_int(rng, TWO32), n)))
    return out


ALL_TC = [1, 2, 3, 4, 5, 6, 7, 8, 9, 10, 16, 32, 17, 18]


def rand_attr(rng, tc, asn4):
    if tc == 16:
        return (16, ('exts', [rand_ext(rng) for _ in range(rng.choice([0, 1, 2, 4]))]))
    if tc == 17:
        return (17, c06.rand_attr(rng, 2, True))
    if tc == 18:
        return (18, c06.rand_attr(rng, 7, True))
    return conv_attr(tc, c06.rand_attr(rng, tc, asn4))


def rand_fill(rng):
    return rng.choice([0, TWO32 - 1, 1, 0x55555555, rng.randrange(TWO32)])


def rand_pid(rng):
    return rng.choice([0, 1, TWO32 - 1, rng.randrange(TWO32)])


def rand_var(rng, v, asn4=None):
    ext = rng.choice([[], list(ALL_TC), rng.sample(ALL_TC, rng.randrange(1, 6))])
    return {'asn4': rng.random() < 0.5 if asn4 is None else asn4, 'addpath': rng.random() < 0.5, 'ext': sorted(ext),
            'fill_w': [rand_fill(rng) for _ in v['withdraw']] if rng.random() < 0.7 else [],
            'fill_n': [rand_fill(rng) for _ in v['nlri']] if rng.random() < 0.7 else []}


def gen_wellformed(ctx):
    """[(variants, value, kind)]"""
    rng = ctx.rng
    out = []
    origin = [(1, ('num', 0))]
    pf = c06.gen_prefixes(ctx)
    # (1) trailing bits x add-path: every prefix length x boundary addresses, announced and withdrawn
    for a, l in pf:
        for fill in (0, TWO32 - 1, rng.randrange(TWO32)):
            for ap in (False, True):
                pid = rand_pid(rng)
                var = {'asn4': False, 'addpath': ap, 'ext': [], 'fill_w': [], 'fill_n': [fill]}
                out.append((var, {'withdraw': [], 'attrs': origin, 'nlri': [(pid, a, l)]}, 'prefix-nlri'))
                var = {'asn4': False, 'addpath': ap, 'ext': [], 'fill_w': [fill], 'fill_n': []}
                out.append((var, {'withdraw': [(pid, a, l)], 'attrs': [], 'nlri': []}, 'prefix-withdraw'))
    for n in [0, 2, 3, 8, 40] + ([100, 300] if ctx.thorough else []):
        for ap in (False, True):
            ps = [(rand_pid(rng),) + rng.choice(pf) for _ in range(n)]
            qs = [(rand_pid(rng),) + rng.choice(pf) for _ in range(rng.choice([0, 1, n]))]
            v = {'withdraw': qs, 'attrs': origin, 'nlri': ps}
            out.append((dict(rand_var(rng, v), addpath=ap), v, 'prefix-lists'))
    # (2) every attribute alone x extended length on/off x 2-/4-octet AS mode (AS4 attributes included)
    for asn4 in (False, True):
        for a in singletons(ctx, asn4):
            for ext in ([], [a[0]]):
                p = c06.rand_prefix(rng)
                v = {'withdraw': [], 'attrs': [a], 'nlri': [(0,) + p]}
                var = {'asn4': asn4, 'addpath': False, 'ext': ext, 'fill_w': [], 'fill_n': [rand_fill(rng)]}
                if len(ref_len_estimate(var, v)) <= 4077:
                    out.append((var, v, 'single'))
    # (3) combinations: any subset, any order, every variant at random
    for _ in range(4000 if ctx.thorough else 250):
        asn4 = rng.random() < 0.5
        tcs = rng.sample(ALL_TC, rng.randrange(0, len(ALL_TC) + 1))
        if rng.random() < 0.3:
            tcs = list(ALL_TC)
            rng.shuffle(tcs)
        v = {'withdraw': [(rand_pid(rng),) + c06.rand_prefix(rng) for _ in range(rng.choice([0, 0, 1, 2, 5]))],
             'attrs': [rand_attr(rng, tc, asn4) for tc in tcs],
             'nlri': [(rand_pid(rng),) + c06.rand_prefix(rng) for _ in range(rng.choice([0, 1, 2, 5]))]}
        var = rand_var(rng, v, asn4)
        if len(ref_len_estimate(var, v)) <= 4077:
            out.append((var, v, 'combo'))
    # (4) the same value in several orders
    for _ in range(200 if ctx.thorough else 20):
        asn4 = rng.random() < 0.5
        attrs = [rand_attr(rng, tc, asn4) for tc in ALL_TC]
        v0 = {'withdraw': [], 'attrs': attrs, 'nlri': [(0,) + c06.rand_prefix(rng)]}
        var = dict(rand_var(rng, v0, asn4), addpath=False)
        for order in (list(attrs), list(reversed(attrs)), rng.sample(attrs, len(attrs))):
            out.append((var, dict(v0, attrs=order), 'orders'))
    return out


def ref_len_estimate(var, v):
    return ref_encode(var, v)


def wf_value(var, v):
    """RefUpdate.wf decided on the value"""
    lim = TWO32 if var['asn4'] else 1 << 16

    def seg_ok(s, lim):
        return 1 <= s[0] <= 4 and len(s[1]) <= 255 and all(x < lim for x in s[1])

    def attr_ok(a):
        tc, val = a
        if tc == 1:
            return val[1] <= 2
        if tc == 2:
            return all(seg_ok(s, lim) for s in val[1])
        if tc == 17:
            return all(seg_ok(s, TWO32) for s in val[1])
        if tc in (3, 4, 5, 9):
            return val[1] < TWO32
        if tc == 6:
            return True
        if tc == 7:
            return val[1] < lim and val[2] < TWO32
        if tc == 18:
            return val[1] < TWO32 and val[2] < TWO32
        if tc in (8, 10):
            return all(x < TWO32 for x in val[1])
        if tc == 16:
            return all(c in EXT_CODES and ((c // 256 == 0 and g < 65536 and l < TWO32) or
                                            (c // 256 in (1, 2) and g < TWO32 and l < 65536)) for c, g, l in val[1])
        return all(len(c) == 3 and all(x < TWO32 for x in c) for c in val[1])
    tcs = [a[0] for a in v['attrs']]
    return all(i < TWO32 and l <= 32 and a < TWO32 and c06.mask(a, l) == a for i, a, l in v['withdraw'] + v['nlri']) \
        and all(attr_ok(a) for a in v['attrs']) and len(set(tcs)) == len(tcs) and len(ref_encode(var, v)) + 19 <= 4096


def corruptions_of(rng, var, v, thorough):
    """every single-field malformation of RefUpdate.malformation that applies to this value"""
    out = []
    tcs = [a[0] for a in v['attrs']]
    if 1 in tcs:
        out += [('origin', o) for o in [3, 4, 127, 128, 255] + [rng.randrange(3, 256)]]
    for tc, val in v['attrs']:
        if tc == 2:
            for i in range(len(val[1])):
                out += [('segtype', i, t) for t in (0, 5, 255, rng.choice([6, 64, 128, 254]))]
    for in_nlri, ps in ((False, v['withdraw']), (True, v['nlri'])):
        for i in range(len(ps)):
            out += [('plen', in_nlri, i, l) for l in (33, 40, 128, 255, rng.randrange(33, 256))]
    fixed = {1: 1, 4: 4, 5: 4, 9: 4, 6: 0, 7: 8 if var['asn4'] else 6}
    lens = list(range(0, 13)) + [16, 255] if thorough else [0, 1, 2, 3, 4, 5, 6, 7, 8, 9, 12, 255]
    for tc in tcs:
        if tc in fixed:
            out += [('alen', tc, n) for n in lens if n != fixed[tc]]
        elif tc == 3:
            out += [('alen', 3, n) for n in lens if n % 4]
    return out


def is_malformation(var, v, k):
    """RefUpdate.malformation"""
    tcs = [a[0] for a in v['attrs']]
    if k[0] == 'origin':
        return 1 in tcs and 2 < k[1] < 256
    if k[0] == 'segtype':
        segs = [val[1] for tc, val in v['attrs'] if tc == 2]
        return bool(segs) and k[1] < len(segs[0]) and (k[2] == 0 or 4 < k[2] < 256)
    if k[0] == 'plen':
        return k[2] < len(v['nlri'] if k[1] else v['withdraw']) and 32 < k[3] < 256
    tc, n = k[1], k[2]
    return tc in tcs and n <= 255 and ((tc == 1 and n != 1) or (tc in (4, 5, 9) and n != 4) or (tc == 6 and n != 0) or
                                       (tc == 7 and n != (8 if var['asn4'] else 6)) or (tc == 3 and n % 4 != 0))


# ------------------------------------------------------------------------------------------
# oracles
# ------------------------------------------------------------------------------------------
def oracle_wellformed(var, v):
    """None if the decoder returns exactly the encoded values and no error"""
    body = ref_encode(var, v)
    got = sorted_attrs(impl_parse(body, var['asn4'], var['addpath']))
    want = [0, expect(var, v)]
    if got != want:
        return 'reference encoding %s (asn4=%s addpath=%s) decoded as %r, encoded values %r' % (
            body.hex(), var['asn4'], var['addpath'], got, want)
    return None


def oracle_corrupted(var, k, v):
    """None if the decoder flags an error (sub_error set); the value it returned otherwise"""
    body = ref_corrupt(var, k, v)
    got = impl_parse(body, var['asn4'], var['addpath'])
    if got[0] == 0 and got[1][3] and got[1][3] != [888888]:
        return None
    return 'corruption %r of a reference encoding gives %s, decoded without an UPDATE sub-error: %r' % (
        k, body.hex(), got)


def addpath_session_cases(ctx):
    """add-path negotiated for receiving: what BGP._update_received hands to the handler"""
    rng = ctx.rng
    var = {'asn4': True, 'addpath': True, 'ext': [], 'fill_w': [], 'fill_n': []}
    # the witness of C09_decodes_reference_refuted (proof/RefUpdateProofs.v addpath_witness)
    out = [(var, {'withdraw': [], 'attrs': [(1, ('num', 0)), (3, ('num', 0x0A000001))],
                  'nlri': [(474356743, 0, 32)]})]
    for _ in range(40 if ctx.thorough else 8):
        v = {'withdraw': [], 'attrs': [(1, ('num', 0)), (3, ('num', 0x0A000001))],
             'nlri': [(rng.randrange(1, TWO32),) + c06.rand_prefix(rng) for _ in range(rng.choice([1, 2, 3]))]}
        var = {'asn4': True, 'addpath': True, 'ext': [], 'fill_w': [], 'fill_n': []}
        out.append((var, v))
    return out


def oracle_session(var, v):
    body = ref_encode(var, v)
    try:
        calls = impl_received(body, var['asn4'], True)
    except Exception as e:     # noqa
        return None, 'BGP._update_received raised %r' % (e,)
    want = [{'prefix': c06.pfx_text((a, l)), 'path_id': i} for i, a, l in v['nlri']]
    if len(calls) == 1 and calls[0][0] == 'update' and calls[0][1]['nlri'] == want:
        return calls, None
    return calls, ('add-path receive negotiated, UPDATE %s announces %r; the handler gets %r'
                   % (body.hex(), want, [(c[0], c[1].get('nlri')) for c in calls]))


def cross_session_cases(ctx):
    """the decode mode of a session (2- or 4-octet AS numbers) is the one negotiated in THAT session: real
    sessions on the stub reactor, one after the other on the same peering, the peer advertising or not
    advertising the 4-octet-AS capability; in each session a reference-encoded UPDATE in the mode both OPENs
    of that session allow must reach the handler with exactly the encoded AS_PATH / AGGREGATOR.
    (the order none -> 4-octet is the C05 finding C05-asn4-without-local-capability and is not run here)"""
    import session
    import explore
    from props import session_common as sc
    M = sc.ALL_MSGS
    open_as4 = M['open_ok']
    open_plain = explore.frame(1, explore.open_body(asn=65002, as4=None))
    out = []
    for seq in (('as4', 'as4'), ('as4', 'plain'), ('plain', 'plain'), ('as4', 'plain', 'as4'), ('as4', 'plain', 'plain')):
        d = session.Driver()
        d.apply(('boot',))
        for n, kind in enumerate(seq):
            asn4 = kind == 'as4'
            v = {'withdraw': [], 'nlri': [(0, 0x0A010000 + n * 256, 24)],
                 'attrs': [(1, ('num', 0)), (2, ('path', [(2, [64512 + n, 65002, 4200000000 if asn4 else 23456])])),
                           (3, ('num', 0x0A000002)), (7, ('pair', 65002, 0x0A000002))]}
            var = {'asn4': asn4, 'addpath': False, 'ext': [], 'fill_w': [], 'fill_n': []}
            body = ref_encode(var, v)
            evs = [('connok', n), ('data', n, open_as4 if asn4 else open_plain), ('data', n, M['keepalive'])]
            for e in evs:
                d.apply(e)
            k0 = len(d.handler.calls)
            d.apply(('data', n, explore.frame(2, body)))
            got = [c for c in d.handler.calls[k0:] if c[0] in ('update_received', 'on_update_error')]
            want_path = [(2, v['attrs'][1][1][1][0][1])]
            ok = (len(got) == 1 and got[0][0] == 'update_received' and
                  [tuple(x) if not isinstance(x, tuple) else x for x in got[0][1]['attr'].get(2, [])] ==
                  [(t, list(a)) for t, a in want_path])
            out.append({'sessions': list(seq[:n + 1]), 'state': d.state()[0], 'ok': ok, 'body': body.hex(),
                        'got': repr(got)[:600], 'want_as_path': want_path})
            # end the session: the peer resets, the restart timer expires
            d.apply(('lost', n))
            d.apply(('fire', 'TIdleHold'))
    return out


# ------------------------------------------------------------------------------------------
# correspondence machinery
# ------------------------------------------------------------------------------------------
def correspond(ctx, cases, per_shard=150):
    if not ctx.coq_ok or not cases:
        return []
    shards, spans = [], []
    i = 0
    while i < len(cases):
        j, size = i, 0
        while j < len(cases) and j - i < per_shard and size < 500000:
            size += len(cases[j][0]) + 4 * len(repr(cases[j][1]))
            j += 1
        body = ';\n'.join('(%s, %s)' % (cases[k][0], coq_sx(cases[k][1])) for k in range(i, j))
        shards.append('Definition cases : list (sx * sx) := [\n%s\n].\nEval vm_compute in (mismatches cases).\n' % body)
        spans.append(i)
        i = j
    mism = []
    for k, (rc, out) in enumerate(common.coq_eval_shards(ctx.prop, shards, imports=IMPORTS)):
        idx = common.parse_nats(out)
        if rc != 0 or idx is None:
            mism.append({'what': 'case file %d does not evaluate: %s' % (k, common.first_error(out))})
            continue
        for x in idx:
            c = cases[spans[k] + x]
            mism.append({'what': '%s differ on %r' % (c[3], c[2]), 'input': c[2],
                         'impl': repr(c[1])[:2000], 'model_expr': c[0][:4000]})
    return mism


def parse_case(body, asn4, addpath, impl=None):
    impl = impl if impl is not None else impl_parse(body, asn4, addpath)
    return ('sx_res sx_xparsed (parse_full_x %s %s %s)' % (coq_bool(asn4), coq_bool(addpath), coq_bytes(body)),
            impl, ['parse', asn4, addpath, body.hex()], 'model and implementation')


def run(ctx):
    rng = ctx.rng
    cases, viol = [], []
    kinds = {}
    stats = {'wellformed': 0, 'corrupted': 0, 'variants_on': {'asn4': 0, 'addpath': 0, 'ext': 0, 'fill': 0},
             'corruption_kinds': {}, 'encoder_selfcheck': 0, 'session_addpath': 0}
    samples = []
    distinct = set()
    wfs = gen_wellformed(ctx)
    known_ids = set(k['id'] for k in common.known_findings('C09'))
    # ---- well-formed half ----
    budget_coq = 6000 if ctx.thorough else 1500
    stride = max(1, len(wfs) // budget_coq)
    for n, (var, v, kind) in enumerate(wfs):
        if not wf_value(var, v):
            raise AssertionError('generator produced a value outside RefUpdate.wf: %r %r' % (var, v))
        kinds[kind] = kinds.get(kind, 0) + 1
        stats['wellformed'] += 1
        for key in ('asn4', 'addpath'):
            stats['variants_on'][key] += 1 if var[key] else 0
        stats['variants_on']['ext'] += 1 if var['ext'] else 0
        stats['variants_on']['fill'] += 1 if any(var['fill_w'] + var['fill_n']) else 0
        body = ref_encode(var, v)
        distinct.add(body)
        p = impl_parse(body, var['asn4'], var['addpath'])
        want = [0, expect(var, v)]
        if sorted_attrs(p) != want:
            viol.append({'what': 'reference encoding %s (asn4=%s addpath=%s) decoded as %r, encoded values %r'
                                 % (body.hex(), var['asn4'], var['addpath'], sorted_attrs(p), want),
                         'input': {'var': var, 'value': v}, 'kind': kind, 'known': None})
        if len(samples) < 4 and kind == 'combo' and rng.random() < 0.05:
            samples.append({'variants': var, 'value': v, 'octets': body.hex()})
        if n % stride == 0 or kind in ('orders',):
            cases.append(parse_case(body, var['asn4'], var['addpath'], p))
            # the decoder in the other modes on the same octets (correspondence only)
            if rng.random() < 0.15:
                cases.append(parse_case(body, not var['asn4'], var['addpath']))
            if rng.random() < 0.15:
                cases.append(parse_case(body, var['asn4'], not var['addpath']))
        if n % (stride * 4) == 0:
            stats['encoder_selfcheck'] += 1
            cases.append(('SB (ref_encode %s %s)' % (coq_var(var), coq_value(v)), B(body),
                          ['ref_encode', var, v], 'spec/RefUpdate.v and its Python transcription'))
    # ---- error half ----
    bases = [(var, v) for (var, v, kind) in wfs if kind in ('combo', 'orders') and (v['attrs'] or v['withdraw'])]
    bases += [(var, v) for (var, v, kind) in wfs if kind == 'single' and v['attrs'][0][0] in (1, 2, 3, 4, 5, 6, 7, 9)
              and len(ref_encode(var, v)) < 300]
    bases += [(var, v) for (var, v, kind) in wfs if kind.startswith('prefix-')][::(7 if ctx.thorough else 40)]
    if not ctx.thorough:
        bases = bases[::3]
    nk = 0
    for var, v in bases:
        for k in corruptions_of(rng, var, v, ctx.thorough):
            assert is_malformation(var, v, k), (var, v, k)
            nk += 1
            stats['corrupted'] += 1
            stats['corruption_kinds'][k[0]] = stats['corruption_kinds'].get(k[0], 0) + 1
            body = ref_corrupt(var, k, v)
            p = impl_parse(body, var['asn4'], var['addpath'])
            flagged = p[0] == 0 and p[1][3] and p[1][3] != [888888]
            if not flagged:
                viol.append({'what': 'corruption %r of a reference encoding: %s decoded without an UPDATE sub-error: %r'
                                     % (k, body.hex(), p), 'input': {'var': var, 'value': v, 'corruption': list(k)},
                             'known': None})
            if nk % (4 if ctx.thorough else 3) == 0:
                cases.append(parse_case(body, var['asn4'], var['addpath'], p))
            if nk % 40 == 0:
                stats['encoder_selfcheck'] += 1
                cases.append(('SB (ref_corrupt %s %s %s)' % (coq_var(var), coq_corruption(k), coq_value(v)), B(body),
                              ['ref_corrupt', var, list(k), v], 'spec/RefUpdate.v and its Python transcription'))
    # ---- the decode mode across consecutive real sessions ----
    stats['cross_session'] = 0
    for c in cross_session_cases(ctx):
        stats['cross_session'] += 1
        if not c['ok']:
            viol.append({'what': 'session %d of %r (state %d): the reference UPDATE %s encoded in the mode this session '
                                 'negotiated should give AS_PATH %r; the handler got %s'
                                 % (len(c['sessions']), c['sessions'], c['state'], c['body'], c['want_as_path'], c['got']),
                         'input': {'cross_session': c['sessions']}, 'known': None})
    # ---- add-path through the session layer (BGP._update_received) ----
    for var, v in addpath_session_cases(ctx):
        stats['session_addpath'] += 1
        calls, why = oracle_session(var, v)
        if why:
            # recorded behaviour: decoded as if no path identifiers were present
            body = ref_encode(var, v)
            plain = impl_parse(body, var['asn4'], False)
            same = False
            if calls is not None and len(calls) == 1 and plain[0] == 0:
                msg = calls[0][1]
                same = [c_xpfx(p) for p in msg['nlri']] == plain[1][2] and \
                    (calls[0][0] == 'error') == bool(plain[1][3])
            viol.append({'what': why[:1500], 'input': {'var': var, 'value': v, 'session': True},
                         'known': KNOWN_ADDPATH if same else None})
            cases.append(('sx_res (fun u => sx_list sx_xpfx (xu_nlri u)) (received_update %s true %s)'
                          % (coq_bool(var['asn4']), coq_bytes(body)),
                          ([0, plain[1][2]] if not plain[1][3] else [1, 3, plain[1][3][0]]) if plain[0] == 0 else [2],
                          ['received_update', body.hex()], 'model and implementation'))
    mism = correspond(ctx, cases)
    return {'evaluations': stats['wellformed'] + stats['corrupted'] + stats['session_addpath'] + len(cases),
            'distinct': len(distinct),
            'rule': 'reference values = the C06 value space (every prefix length 0..32 x boundary/random addresses; '
                    'every attribute alone with integer fields at 0,1,2^15,2^16-1,2^16,2^31,2^32-1; AS paths of every '
                    'segment type, several segments, sizes across 255 octets; random combinations) plus AS4_PATH/'
                    'AS4_AGGREGATOR and lists above 255 octets, pushed through the RFC reference encoder with each '
                    'variant on and off (2-/4-octet AS, add-path ids, extended length forced per attribute, trailing '
                    'prefix bits 0 / all ones / random, attribute order as given / reversed / shuffled).  Oracle on '
                    'the real decoder: decoded == encoded and no sub_error; for every applicable single-field '
                    'corruption (ORIGIN>2, prefix length>32, segment type outside 1..4, wrong fixed length): sub_error '
                    'set.  Correspondence: model decoder vs real decoder on the same octets in Coq; the reference '
                    'encoder in Coq vs its Python transcription.  distinct = different well-formed encodings',
            'samples': samples, 'mismatches': mism, 'violations': viol,
            'extra': dict(stats, message_kinds=kinds, correspondence_cases=len(cases),
                          known_ids_active=sorted(known_ids))}


def replay(ctx, obj):
    v = obj.get('violation', obj)
    print(v.get('what'))
    inp = v.get('input')
    if not isinstance(inp, dict) or 'value' not in inp:
        print('no replayable input stored')
        return 1
    var, val = inp['var'], inp['value']
    val = {'withdraw': [tuple(p) for p in val['withdraw']], 'nlri': [tuple(p) for p in val['nlri']],
           'attrs': [(a[0], untuple(a[1])) for a in val['attrs']]}
    if inp.get('session'):
        calls, why = oracle_session(var, val)
    elif inp.get('corruption'):
        why = oracle_corrupted(var, tuple(inp['corruption']), val)
    else:
        why = oracle_wellformed(var, val)
    if why:
        print('STILL FAILS: ' + why[:3000])
        return 1
    print('holds now')
    return 0


def untuple(v):
    """JSON turned the tuples of a value into lists"""
    k = v[0]
    if k == 'path':
        return ('path', [(s[0], list(s[1])) for s in v[1]])
    if k == 'exts':
        return ('exts', [tuple(e) for e in v[1]])
    return tuple(v)
